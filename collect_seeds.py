#!/usr/bin/env python3
"""Assemble /verif/seeded/<id>/ from the seeding agents' output directories (/tmp/seed_<P>/change<i>),
my own confirmation (confirm.json, written by ./confirm_seed) and the detection result
(detection.json, written by ./seedtest). Only confirmed changes are kept."""
import glob
import json
import os
import shutil
import sys

ROOT = os.path.dirname(os.path.abspath(__file__))
out_root = os.path.join(ROOT, "seeded")
os.makedirs(out_root, exist_ok=True)
rows = []
for d in sorted(glob.glob("/tmp/seed_C*/change*")) + sorted(glob.glob("/tmp/seed2_C*/change*")) + sorted(glob.glob("/tmp/seed3_C*/change*")) + sorted(glob.glob("/tmp/seed4_C*/change*")) + sorted(glob.glob("/tmp/seed5_C*/change*")):
    cj, dj, mj = (os.path.join(d, f) for f in ("confirm.json", "detection.json", "meta.json"))
    if not (os.path.exists(cj) and os.path.exists(mj)):
        continue
    conf = json.load(open(cj))
    meta = json.load(open(mj))
    det = json.load(open(dj)) if os.path.exists(dj) else None
    first = os.path.join(d, "detection_first.json")
    det_first = json.load(open(first)) if os.path.exists(first) else None
    prop = meta.get("property") or os.path.basename(os.path.dirname(d)).replace("seed5_", "").replace("seed4_", "").replace("seed3_", "").replace("seed2_", "").replace("seed_", "")
    rnd = "r2-" if "/seed2_" in d else ("r3-" if "/seed3_" in d else ("r4-" if "/seed4_" in d else ("r5-" if "/seed5_" in d else "")))
    sid = f"{prop}-{rnd}{os.path.basename(d).replace('change', '')}"
    if not conf.get("confirmed"):
        rows.append((sid, prop, "NOT CONFIRMED", "", meta.get("summary", "")))
        continue
    dest = os.path.join(out_root, sid)
    if os.path.exists(dest):
        shutil.rmtree(dest)
    os.makedirs(dest)
    shutil.copy(os.path.join(d, "patch.diff"), dest)
    for f in ("demo.rs", "HOWTO.md"):
        if os.path.exists(os.path.join(d, f)):
            shutil.copy(os.path.join(d, f), dest)
    if os.path.isdir(os.path.join(d, "demo")):
        shutil.copytree(os.path.join(d, "demo"), os.path.join(dest, "demo"), ignore=shutil.ignore_patterns("target", "Cargo.lock"))
    m = {
        "property": prop,
        "summary": meta.get("summary"),
        "files": conf.get("files"),
        "needs_to_manifest": meta.get("needs"),
        "why_existing_tests_pass": meta.get("why_tests_pass"),
        "written_by": "independent sub-agent given only the property text and a scratch worktree",
        "confirmed_by_me": {
            "how": "./confirm_seed: patch applied to a scratch worktree of /repo; demonstration run with and without it; the repository's own tests of the touched and downstream crates run with it",
            "demo_cmd": conf.get("demo_cmd"),
            "demo_exit_with_change": conf["demo_with_change"]["exit"],
            "demo_exit_without_change": conf["demo_without_change"]["exit"],
            "suites_with_change": conf.get("suites"),
        },
        "detection": det,
    }
    if det_first:
        m["detection_before_strengthening"] = det_first
        m["note"] = "the quick check first missed / could not classify this change; the machinery was strengthened (see DESIGN.md §8) and `detection` is the result afterwards"
    json.dump(m, open(os.path.join(dest, "meta.json"), "w"), indent=1)
    caught = ""
    sig = ""
    if det:
        r = det["results"].get(prop) or next(iter(det["results"].values()))
        caught = r["verdict"]
        sig = (r["signatures"][0][:110] if r.get("signatures") else "")
        if len(det["results"]) > 1:
            # a change in code that only exists in another build configuration is owned by the check of that configuration
            caught = "; ".join(f"{k}: {v['verdict']}" for k, v in det["results"].items())
            for v in det["results"].values():
                if v.get("signatures"):
                    sig = v["signatures"][0][:110]
    rows.append((sid, prop, caught, sig, meta.get("summary", "")))
with open(os.path.join(out_root, "README.md"), "w") as f:
    f.write("# Seeded changes (see DESIGN.md §8)\n\nEach directory: `patch.diff` (apply with `git -C /repo apply`), the demonstration, `meta.json`.\n\n")
    f.write("| id | property | quick check on the changed tree | first signature | change |\n|---|---|---|---|---|\n")
    for r in rows:
        f.write("| " + " | ".join(str(x).replace("|", "\\|").replace("\n", " ") for x in r) + " |\n")
print(f"{len(rows)} seeds; " + ", ".join(f"{r[0]}:{r[2] or '?'}" for r in rows))
