#!/usr/bin/env python3
"""Regenerate MANIFEST.json from vcheck_table.PROPS and manifest_text.py (hand-written level texts)."""
import json, subprocess
from vcheck_table import PROPS
from manifest_text import TEXT, NOT_APPLICABLE

props = [json.loads(l) for l in open("properties.jsonl")]
commits = subprocess.run(["git", "-C", "/repo", "log", "--format=%h %s"], capture_output=True, text=True).stdout.splitlines()
hook_commits = [c.split()[0] for c in commits if c.split(" ", 1)[1].startswith("verif-hooks:")]
checks = []
for p in props:
    pid = p["id"]
    if pid not in PROPS:
        continue
    t = TEXT[pid]
    checks.append({
        "property_id": pid,
        "quick_cmd": f"./vcheck run {pid} --tier quick",
        "thorough_cmd": f"./vcheck run {pid} --tier thorough",
        "evidence_file": f"/verif/evidence/{pid}.json",
        "replay_cmd_template": "./vcheck replay {path}",
        "engine": "+".join(sorted({r.get("bin") or r.get("probe") for r in PROPS[pid]["runs"]})),
        "level_claimed": {"category": PROPS[pid].get("level", "exploration"), "text": t["text"], "design_ref": t["design_ref"]},
        "level_note": t["note"],
        "technique": t["technique"],
    })
na = [{"property_id": p["id"], "reason": NOT_APPLICABLE.get(p["id"], "check not built yet (work in progress)")}
      for p in props if p["id"] not in PROPS]
m = {
    "version": 1,
    "setup_cmd": "./vcheck setup",
    "hooks": {
        "guard": "cargo feature `verif-hooks` of ark-ec (off by default)",
        "enable": "the harness crates under /verif/harness depend on /repo/ec by path with features = [\"verif-hooks\"]",
        "baseline_off_cmd": "cd /repo && cargo test --workspace --no-fail-fast --offline",
        "source_commits": hook_commits,
        "add_only": True,
    },
    "engines": [
        {"name": b, "path": f"/verif/harness/{b}", "serves_properties": sorted(k for k, v in PROPS.items() if any((r.get("bin") or r.get("probe")) == b for r in v["runs"])),
         "kind_free_text": "runtime reference-model monitor binary (Rust), path-depends on /repo's working tree"}
        for b in sorted({(r.get("bin") or r.get("probe")) for v in PROPS.values() for r in v["runs"]})
    ],
    "checks": checks,
    "notes": "Every check is `./vcheck run <ID>`: rebuilds the monitor binaries against /repo's working tree (cargo path dependencies), runs them with VERIF_SEED, merges their reports, applies known_findings.json and rewrites evidence/<ID>.json. Exit 0 held / 1 VIOLATION / 2 INCONCLUSIVE.",
    "not_applicable": na,
}
json.dump(m, open("MANIFEST.json", "w"), indent=1)
print(f"{len(checks)} checks, {len(na)} not claimed")
