//! generated field grid and toy curves (see gen/)
