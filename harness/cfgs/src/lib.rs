//! Generated configurations shared by the monitors: the field grid (gen/gen_fields.py), the toy
//! curves (gen/gen_curves.py) and the registry of every configuration shipped in /repo.
//! Generator output is committed; the generators are only run by hand.
pub mod grid;
pub mod shipped;
pub mod toy_curves;
pub mod toy_towers;
