//! Registry of every field configuration shipped in /repo (test-curves and all curves/* crates).
pub use ark_bls12_377 as bls12_377;
pub use ark_bls12_381 as bls12_381;
pub use ark_bn254 as bn254;
pub use ark_bw6_761 as bw6_761;
pub use ark_bw6_767 as bw6_767;
pub use ark_cp6_782 as cp6_782;
pub use ark_curve25519 as curve25519;
pub use ark_ed25519 as ed25519;
pub use ark_ed_on_bls12_377 as ed_on_bls12_377;
pub use ark_ed_on_bls12_381 as ed_on_bls12_381;
pub use ark_ed_on_bls12_381_bandersnatch as bandersnatch;
pub use ark_ed_on_bn254 as ed_on_bn254;
pub use ark_ed_on_bw6_761 as ed_on_bw6_761;
pub use ark_ed_on_cp6_782 as ed_on_cp6_782;
pub use ark_ed_on_mnt4_298 as ed_on_mnt4_298;
pub use ark_ed_on_mnt4_753 as ed_on_mnt4_753;
pub use ark_grumpkin as grumpkin;
pub use ark_mnt4_298 as mnt4_298;
pub use ark_mnt4_753 as mnt4_753;
pub use ark_mnt6_298 as mnt6_298;
pub use ark_mnt6_753 as mnt6_753;
pub use ark_pallas as pallas;
pub use ark_secp256k1 as secp256k1;
pub use ark_secp256r1 as secp256r1;
pub use ark_secp384r1 as secp384r1;
pub use ark_secq256k1 as secq256k1;
pub use ark_test_curves as tc;
pub use ark_vesta as vesta;

/// `$m!("name", Type);` for every distinct prime-field configuration shipped.
#[macro_export]
macro_rules! for_each_shipped_prime_field {
    ($m:ident) => {
        $m!("bls12_377::Fq", $crate::shipped::bls12_377::Fq);
        $m!("bls12_377::Fr", $crate::shipped::bls12_377::Fr);
        $m!("bls12_381::Fq", $crate::shipped::bls12_381::Fq);
        $m!("bls12_381::Fr", $crate::shipped::bls12_381::Fr);
        $m!("bn254::Fq", $crate::shipped::bn254::Fq);
        $m!("bn254::Fr", $crate::shipped::bn254::Fr);
        $m!("bw6_761::Fq", $crate::shipped::bw6_761::Fq);
        $m!("bw6_767::Fq", $crate::shipped::bw6_767::Fq);
        $m!("cp6_782::Fq", $crate::shipped::cp6_782::Fq);
        $m!("curve25519::Fq", $crate::shipped::curve25519::Fq);
        $m!("curve25519::Fr", $crate::shipped::curve25519::Fr);
        $m!("ed_on_bls12_377::Fr", $crate::shipped::ed_on_bls12_377::Fr);
        $m!("ed_on_bls12_381::Fr", $crate::shipped::ed_on_bls12_381::Fr);
        $m!("bandersnatch::Fr", $crate::shipped::bandersnatch::Fr);
        $m!("ed_on_bn254::Fr", $crate::shipped::ed_on_bn254::Fr);
        $m!("ed_on_cp6_782::Fr", $crate::shipped::ed_on_cp6_782::Fr);
        $m!("ed_on_mnt4_298::Fr", $crate::shipped::ed_on_mnt4_298::Fr);
        $m!("ed_on_mnt4_753::Fr", $crate::shipped::ed_on_mnt4_753::Fr);
        $m!("mnt4_298::Fq", $crate::shipped::mnt4_298::Fq);
        $m!("mnt4_298::Fr", $crate::shipped::mnt4_298::Fr);
        $m!("mnt4_753::Fq", $crate::shipped::mnt4_753::Fq);
        $m!("mnt4_753::Fr", $crate::shipped::mnt4_753::Fr);
        $m!("pallas::Fq", $crate::shipped::pallas::Fq);
        $m!("pallas::Fr", $crate::shipped::pallas::Fr);
        $m!("secp256k1::Fq", $crate::shipped::secp256k1::Fq);
        $m!("secp256k1::Fr", $crate::shipped::secp256k1::Fr);
        $m!("secp256r1::Fq", $crate::shipped::secp256r1::Fq);
        $m!("secp256r1::Fr", $crate::shipped::secp256r1::Fr);
        $m!("secp384r1::Fq", $crate::shipped::secp384r1::Fq);
        $m!("secp384r1::Fr", $crate::shipped::secp384r1::Fr);
        $m!("tc::bls12_381::Fq", $crate::shipped::tc::bls12_381::Fq);
        $m!("tc::bls12_381::Fr", $crate::shipped::tc::bls12_381::Fr);
        $m!("tc::ed_on_bls12_381::Fr", $crate::shipped::tc::ed_on_bls12_381::Fr);
        $m!("tc::secp256k1::Fq", $crate::shipped::tc::secp256k1::Fq);
        $m!("tc::secp256k1::Fr", $crate::shipped::tc::secp256k1::Fr);
        $m!("tc::fp128::Fq", $crate::shipped::tc::fp128::Fq);
        $m!("tc::bn384::Fq", $crate::shipped::tc::bn384_small_two_adicity::Fq);
        $m!("tc::bn384::Fr", $crate::shipped::tc::bn384_small_two_adicity::Fr);
        $m!("tc::mnt4_753::Fq", $crate::shipped::tc::mnt4_753::Fq);
        $m!("tc::mnt4_753::Fr", $crate::shipped::tc::mnt4_753::Fr);
    };
}
