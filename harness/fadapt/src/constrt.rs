//! Run-time monitor of the `const fn` constructors `Fp::new` / `Fp::from_sign_and_limbs` (what `MontFp!`
//! expands to; C20). They use their own (const) CIOS multiplication by R^2, their own conditional
//! subtraction and their own negation, built from the `adc!`/`sbb!`/`mac_with_carry!` macros — code the
//! run-time arithmetic of C01 never touches. A `const fn` executes the same code at run time as in
//! constant evaluation, so the constructors are driven at run time with integers no literal grid could
//! enumerate and compared with the integer reduced modulo p (num-bigint).
//! Used by `mon_ff --prop C20` (all 204 configurations) and by the stand-alone `lit_probe` class
//! `const_ctor` (a few locally derived fields, independent of the curve crates).
use crate::{PF, L};
use ark_std::rand::RngCore;
use monitor::*;
use oracle::{from_limbs, pow2, to_limbs, One, UInt, Zero};

pub struct FC<'a> {
    pub name: &'a str,
    pub variant: &'static str,
    pub pf: &'a dyn PF,
    pub n: usize,
    pub p: UInt,
    pub full: UInt,
    pub r: UInt,
    pub rinv: UInt,
    pub cd: u64,
}

impl<'a> FC<'a> {
    pub fn new(name: &'a str, variant: &'static str, pf: &'a dyn PF) -> Self {
        let n = pf.n();
        let p = from_limbs(&pf.modulus());
        let full = pow2(64 * n);
        let r = &full % &p;
        let rinv = oracle::modinv(&r, &p).expect("R invertible");
        FC { name, variant, pf, n, cd: digest(name), p, full, r, rinv }
    }
    pub fn sig(&self, op: &str, kind: &str) -> String {
        format!("field/{}/{}/{}", self.variant, op, kind)
    }
    /// check a returned element: canonical (raw limbs < p) and equal to the expected integer
    pub fn chk(&self, rep: &mut Report, op: &str, got: &[u64], exp: &UInt, ins: &[&[u64]]) -> bool {
        let g = from_limbs(got);
        let detail = || {
            json!({"config": self.name, "op": op, "modulus": self.p.to_string(), "integer_limbs": ins.iter().map(|l| hex_limbs(l)).collect::<Vec<_>>(),
                   "got_raw_montgomery_limbs": hex_limbs(got), "expected_value": exp.to_string()})
        };
        if g >= self.p {
            rep.violation(self.sig(op, "non-canonical"), detail());
            return false;
        }
        if (g * &self.rinv) % &self.p != *exp {
            rep.violation(self.sig(op, "value"), detail());
            return false;
        }
        true
    }
}

pub const RULE: &str = "cases = (field configuration, const constructor, integer); integers in [0, 2^(64N)): structural (0, 1, p-1, p, p+1, \
2p-1, 2^(64k)+-1, 2^(64N)-1), limb-edge-biased, uniform, and crafted so that the Montgomery form of the result (or the value before the \
conditional subtraction) shares limbs with p / sits next to p (borrow and carry chains of the const helpers); expected = integer mod p \
(negated for a negative sign) from num-bigint; non-trivial = integer != 0; distinct = digest of (config, constructor, sign, limbs)";

pub const C_GE_P: &str = "const ctor: integer >= p";
pub const C_NEG: &str = "const ctor: negative sign";
pub const C_SHORT: &str = "const ctor: limb slice shorter than N";
pub const C_ZERO: &str = "const ctor: zero (also with a negative sign)";
pub const C_SHARE: &str = "const ctor: Montgomery form of the result shares a limb with p (borrow chain in the const negation)";
pub const C_PRE: &str = "const ctor: crafted so that the product before the conditional subtraction may equal p + k*2^(64i) - d";
pub const C_MAX: &str = "const ctor: integer 2^(64N) - 1";

/// limbs correlated with the modulus: each limb is p_i, p_i +- 1, 0, all-ones or random
fn near_p_limbs(rng: &mut Rng, pl: &[u64]) -> Vec<u64> {
    let mode = rng.next_u32() % 4;
    pl.iter()
        .enumerate()
        .map(|(i, &x)| {
            let r = rng.next_u32() % 16;
            match (mode, r) {
                (0, _) if i > 0 && r < 12 => x,
                (_, 0..=5) => x,
                (_, 6) => x.wrapping_add(1),
                (_, 7) => x.wrapping_sub(1),
                (_, 8) => 0,
                (_, 9) => u64::MAX,
                (_, 10) => x.wrapping_add(rng.next_u32() as u64 % 4),
                (_, 11) => x.wrapping_sub(rng.next_u32() as u64 % 4),
                _ => rng.next_u64(),
            }
        })
        .collect()
}

pub fn one_int(fc: &FC, rep: &mut Report, int: &UInt, tag: Option<&'static str>) {
    let n = fc.n;
    debug_assert!(int < &fc.full);
    let limbs = to_limbs(int, n);
    let val = int % &fc.p;
    let neg = if val.is_zero() { UInt::zero() } else { &fc.p - &val };
    let nt = !int.is_zero();
    if let Some(t) = tag {
        rep.class(t);
    }
    rep.class_if(int >= &fc.p, C_GE_P);
    rep.class_if(int.is_zero(), C_ZERO);
    rep.class_if(*int == &fc.full - UInt::one(), C_MAX);
    let dg = mix(fc.cd, digest(&limbs));
    let d = |what: &str| json!({"config": fc.name, "constructor": what, "integer_limbs": hex_limbs(&limbs), "integer": int.to_string()});
    // Fp::new
    if let Some(r) = rep.total(&fc.sig("Fp::new (const path)", "total"), || d("Fp::new"), || fc.pf.const_new(&limbs)) {
        rep.eval(mix(dg, 1), nt);
        rep.op("Fp::new");
        fc.chk(rep, "Fp::new (const path)", &r, &val, &[&limbs]);
    }
    // from_sign_and_limbs with the full slice and with the shortest slice that holds the integer
    let used = limbs.iter().rposition(|&x| x != 0).map(|i| i + 1).unwrap_or(0);
    let mut lens = vec![n];
    if used < n {
        lens.push(used);
        rep.class(C_SHORT);
        if used + 1 < n {
            lens.push(used + 1);
        }
    }
    for len in lens {
        for positive in [true, false] {
            let op = if positive { "Fp::from_sign_and_limbs(+)" } else { "Fp::from_sign_and_limbs(-)" };
            let Some(r) = rep.total(&fc.sig(op, "total"), || d(op), || fc.pf.const_sign_limbs(positive, &limbs[..len])) else { continue };
            rep.eval(mix(dg, 2 + 2 * len as u64 + positive as u64), nt);
            rep.op(op);
            rep.class_if(!positive, C_NEG);
            fc.chk(rep, op, &r, if positive { &val } else { &neg }, &[&limbs]);
        }
    }
}

pub fn run_field(fc: &FC, rep: &mut Report, rng: &mut Rng, args: &Args) {
    rep.config(fc.name);
    let n = fc.n;
    let p = &fc.p;
    let one = UInt::one();
    let pl = fc.pf.modulus();
    // ---- structural integers
    let mut st: Vec<UInt> = vec![UInt::zero(), one.clone(), UInt::from(2u8), p - &one, p.clone(), p + &one, &fc.full - &one, &fc.full - UInt::from(2u8), (p - &one) >> 1usize, fc.r.clone(), (&fc.r * &fc.r) % p, fc.rinv.clone()];
    let two_p = p + p;
    if two_p < fc.full {
        st.push(&two_p - &one);
        st.push(two_p.clone());
        st.push(&two_p + &one);
    }
    for k in 1..n {
        let b = pow2(64 * k);
        st.push(&b - &one);
        st.push(b.clone());
        st.push(&b + &one);
        st.push(&fc.full - &b);
    }
    st.retain(|x| x < &fc.full);
    for x in &st {
        one_int(fc, rep, x, None);
    }
    // a limb slice longer than N does not denote an element of this field's integer range: documented to be
    // refused (an assertion, i.e. a compile error for a literal); silently dropping limbs is the violation
    for extra in [1usize, 2] {
        let mut limbs = vec![5u64; 1];
        limbs.resize(n + extra, 0);
        limbs[n + extra - 1] = 1;
        for positive in [true, false] {
            rep.class("const ctor: more than N limbs (must be refused)");
            rep.eval(mix(fc.cd, digest(&("too-wide", extra, positive))), true);
            if let Ok(r) = guard(|| fc.pf.const_sign_limbs(positive, &limbs)) {
                rep.violation(fc.sig("Fp::from_sign_and_limbs", "accepts-more-than-N-limbs"), json!({"config": fc.name, "limbs": hex_limbs(&limbs), "positive": positive, "returned_raw": hex_limbs(&r)}));
            }
        }
    }
    let small = p.bits() <= 16;
    if small {
        // tiny moduli: every integer below 4p (capped)
        let top = (UInt::from(4u8) * p).min(UInt::from(1200u32));
        let mut x = UInt::zero();
        while x < top {
            one_int(fc, rep, &x, None);
            x += &one;
        }
    }
    let iters = args.pick(if small { 300 } else { 1500 }, if small { 5_000 } else { 60_000 }) * 6 / (5 + n);
    for it in 0..iters {
        match it % 6 {
            0 => {
                // the Montgomery form x of the value is correlated with p: const_neg computes p - x limb by limb
                let x = from_limbs(&near_p_limbs(rng, &pl)) % p;
                let xl = to_limbs(&x, n);
                let shares = (1..n).any(|i| xl[i] == pl[i]);
                let a = (&x * &fc.rinv) % p;
                one_int(fc, rep, &a, if shares { Some(C_SHARE) } else { None });
                // the same residue written as an integer >= p
                let a2 = &a + p;
                if a2 < fc.full && rng.next_u32() % 2 == 0 {
                    one_int(fc, rep, &a2, None);
                }
            },
            1 => {
                // m in [p, 2p) correlated with p: if the CIOS product lands on m (and not on m - p) the conditional
                // subtraction runs its borrow chain over limbs equal to those of p
                let y = from_limbs(&near_p_limbs(rng, &pl));
                let m = if &y >= p && y < two_p { y } else { p + (y % p) };
                let a = ((&m % p) * &fc.rinv) % p;
                one_int(fc, rep, &a, Some(C_PRE));
            },
            2 | 3 => {
                let x = from_limbs(&edge_limbs(rng, n));
                one_int(fc, rep, &x, None);
            },
            4 => {
                // next to a multiple of p
                let k = UInt::from(rng.next_u32() % 8);
                let base = (&k * p) % &fc.full;
                let d = UInt::from(rng.next_u32() % 3);
                let x = if rng.next_u32() % 2 == 0 { (&base + &d) % &fc.full } else if base >= d { &base - &d } else { base };
                one_int(fc, rep, &x, None);
            },
            _ => {
                let l: Vec<u64> = (0..n).map(|_| rng.next_u64()).collect();
                one_int(fc, rep, &from_limbs(&l), None);
            },
        }
        if it == 0 {
            rep.sample(&format!("c20rt/{}", fc.name), || json!({"config": fc.name, "modulus": fc.p.to_string(), "constructors": "Fp::new, Fp::from_sign_and_limbs(+/-, slices of every admissible length)"}));
        }
    }
}


/// observation classes every configuration with `n` limbs must show
pub fn required(n: usize) -> Vec<&'static str> {
    let mut v = vec![C_GE_P, C_NEG, C_ZERO, C_MAX, C_PRE, "const ctor: more than N limbs (must be refused)"];
    if n >= 2 {
        v.push(C_SHORT);
    }
    if n >= 3 {
        v.push(C_SHARE);
    }
    v
}
