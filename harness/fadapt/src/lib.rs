//! Thin per-type adapter: every prime field `Fp<P, N>` is driven through this object-safe trait on
//! raw Montgomery limbs, so that the monitor logic (generators, oracle comparison) is compiled once
//! and only these few lines are monomorphised per configuration.
use ark_ff::{
    batch_inversion, batch_inversion_and_mul, serial_batch_inversion_and_mul, AdditiveGroup, BigInt, FftField, Field, Fp,
    FpConfig, LegendreSymbol, MontBackend, MontConfig, PrimeField,
};
use ark_std::{One, Zero};
use oracle::UInt;
use std::cmp::Ordering;
use std::hash::{Hash, Hasher};
use std::marker::PhantomData;
use std::str::FromStr;

pub mod constrt;

pub type L = Vec<u64>;

pub trait PF: Send + Sync {
    fn n(&self) -> usize;
    fn modulus(&self) -> L;
    fn modulus_bits(&self) -> u32;
    fn two_adicity(&self) -> u32;
    fn zero(&self) -> L;
    fn one(&self) -> L;
    fn is_zero(&self, a: &[u64]) -> bool;
    fn is_one(&self, a: &[u64]) -> bool;
    /// op: 0 add, 1 sub, 2 mul, 3 div; form selects the operator syntax (owned / ref / assign / &mut)
    fn bin(&self, op: u8, form: u8, a: &[u64], b: &[u64]) -> L;
    /// op: 0 neg, 1 double, 2 square, 3 a*a, 4 double_in_place, 5 square_in_place, 6 neg_in_place
    fn un(&self, op: u8, a: &[u64]) -> L;
    fn inverse(&self, a: &[u64], in_place: bool) -> Option<L>;
    fn pow(&self, a: &[u64], e: &[u64]) -> L;
    /// pow_with_table on the table [a, a^2, a^4, ...] of the given length (built with `square`)
    fn pow_with_table(&self, a: &[u64], table_len: usize, e: &[u64]) -> Option<L>;
    fn sop(&self, a: &[L], b: &[L]) -> Option<L>;
    /// kind 0 batch_inversion, 1 batch_inversion_and_mul, 2 serial_batch_inversion_and_mul
    fn batch_inv(&self, kind: u8, v: &[L], coeff: &[u64]) -> Vec<L>;
    fn sum(&self, v: &[L], by_ref: bool) -> L;
    fn product(&self, v: &[L], by_ref: bool) -> L;
    /// kind: 8,16,32,64,128 unsigned; -8,-16,-32,-64,-128 signed; 1 bool
    fn from_int(&self, kind: i16, u: u128, i: i128) -> L;
    fn from_bigint(&self, limbs: &[u64]) -> Option<L>;
    fn into_bigint(&self, a: &[u64]) -> L;
    fn from_biguint(&self, v: &UInt) -> L;
    fn to_biguint(&self, a: &[u64]) -> UInt;
    fn from_bytes_mod_order(&self, le: bool, bytes: &[u8]) -> L;
    fn from_str(&self, s: &str) -> Option<L>;
    fn to_string(&self, a: &[u64]) -> String;
    fn from_random_bytes(&self, bytes: &[u8]) -> Option<L>;
    fn sqrt(&self, a: &[u64]) -> Option<L>;
    /// -1, 0, 1
    fn legendre(&self, a: &[u64]) -> i8;
    fn legendre_predicates(&self, a: &[u64]) -> (bool, bool, bool);
    fn cmp(&self, a: &[u64], b: &[u64]) -> (Ordering, Option<Ordering>, bool);
    fn hash(&self, a: &[u64]) -> u64;
    fn generator(&self) -> L;
    fn two_adic_root(&self) -> L;
    fn frobenius(&self, a: &[u64], k: usize) -> L;
    fn mul_by_base_prime_field(&self, a: &[u64], b: &[u64]) -> L;
    fn rand(&self, rng: &mut monitor::Rng) -> L;
    /// the `Field`-trait views of a prime field as a degree-1 extension of itself and its `Debug` text:
    /// returns the identities that fail (empty when all hold) and `format!("{:?}")` of the element
    fn misc(&self, a: &[u64]) -> (Vec<String>, String);
    /// `Fp::new(BigInt(int))`: the `const fn` constructor behind `MontFp!`, executed at run time
    fn const_new(&self, int: &[u64]) -> L;
    /// `Fp::from_sign_and_limbs(positive, limbs)` (limbs.len() <= N): what `MontFp!` expands to
    fn const_sign_limbs(&self, positive: bool, limbs: &[u64]) -> L;
}

/// The `const fn` constructors exist on Montgomery-backed fields only (every monitored configuration is one).
pub trait ConstCtor<const N: usize>: FpConfig<N> {
    fn c_new(x: BigInt<N>) -> Fp<Self, N>;
    fn c_sign_limbs(positive: bool, limbs: &[u64]) -> Fp<Self, N>;
}
impl<T: MontConfig<N>, const N: usize> ConstCtor<N> for MontBackend<T, N> {
    fn c_new(x: BigInt<N>) -> Fp<Self, N> {
        Fp::<MontBackend<T, N>, N>::new(x)
    }
    fn c_sign_limbs(positive: bool, limbs: &[u64]) -> Fp<Self, N> {
        Fp::<MontBackend<T, N>, N>::from_sign_and_limbs(positive, limbs)
    }
}

pub struct Ad<P: FpConfig<N>, const N: usize>(pub PhantomData<P>);

impl<P: FpConfig<N>, const N: usize> Ad<P, N> {
    #[inline]
    fn f(a: &[u64]) -> Fp<P, N> {
        Fp(BigInt::<N>(a.try_into().expect("limb count")), PhantomData)
    }
    #[inline]
    fn l(a: Fp<P, N>) -> L {
        a.0 .0.to_vec()
    }
}

macro_rules! sop_arm {
    ($a:expr, $b:expr, $($m:literal),*) => {
        match $a.len() {
            $( $m => {
                let x: [Fp<P, N>; $m] = core::array::from_fn(|i| Self::f(&$a[i]));
                let y: [Fp<P, N>; $m] = core::array::from_fn(|i| Self::f(&$b[i]));
                Some(Self::l(<Fp<P, N> as Field>::sum_of_products::<$m>(&x, &y)))
            }, )*
            _ => None,
        }
    };
}

impl<P: FpConfig<N> + ConstCtor<N>, const N: usize> PF for Ad<P, N> {
    fn misc(&self, a: &[u64]) -> (Vec<String>, String) {
        let x = Self::f(a);
        let mut bad = vec![];
        if <Fp<P, N> as Field>::extension_degree() != 1 {
            bad.push("extension_degree() != 1".to_string());
        }
        if <Fp<P, N> as Field>::from_base_prime_field(x) != x {
            bad.push("from_base_prime_field(x) != x".to_string());
        }
        if x.to_base_prime_field_elements().collect::<Vec<_>>() != vec![x] {
            bad.push("to_base_prime_field_elements() != [x]".to_string());
        }
        if <Fp<P, N> as Field>::from_base_prime_field_elems([x]) != Some(x) {
            bad.push("from_base_prime_field_elems([x]) != Some(x)".to_string());
        }
        if <Fp<P, N> as Field>::from_base_prime_field_elems([x, x]).is_some() || <Fp<P, N> as Field>::from_base_prime_field_elems([]).is_some() {
            bad.push("from_base_prime_field_elems accepts a slice whose length is not the extension degree".to_string());
        }
        if <Fp<P, N> as Field>::characteristic() != P::MODULUS.0.as_slice() {
            bad.push("characteristic() != MODULUS".to_string());
        }
        (bad, format!("{x:?}"))
    }
    fn const_new(&self, int: &[u64]) -> L {
        Self::l(P::c_new(BigInt::<N>(int.try_into().expect("limb count"))))
    }
    fn const_sign_limbs(&self, positive: bool, limbs: &[u64]) -> L {
        Self::l(P::c_sign_limbs(positive, limbs))
    }
    fn n(&self) -> usize {
        N
    }
    fn modulus(&self) -> L {
        P::MODULUS.0.to_vec()
    }
    fn modulus_bits(&self) -> u32 {
        <Fp<P, N> as PrimeField>::MODULUS_BIT_SIZE
    }
    fn two_adicity(&self) -> u32 {
        <Fp<P, N> as FftField>::TWO_ADICITY
    }
    fn zero(&self) -> L {
        Self::l(Fp::<P, N>::zero())
    }
    fn one(&self) -> L {
        Self::l(Fp::<P, N>::one())
    }
    fn is_zero(&self, a: &[u64]) -> bool {
        Self::f(a).is_zero()
    }
    fn is_one(&self, a: &[u64]) -> bool {
        Self::f(a).is_one()
    }
    fn bin(&self, op: u8, form: u8, a: &[u64], b: &[u64]) -> L {
        let (x, mut y) = (Self::f(a), Self::f(b));
        let r = match (op, form) {
            (0, 0) => x + y,
            (0, 1) => x + &y,
            (0, 2) => &x + &y,
            (0, 3) => {
                let mut t = x;
                t += y;
                t
            },
            (0, 4) => {
                let mut t = x;
                t += &y;
                t
            },
            (0, 5) => x + &mut y,
            (0, _) => {
                let mut t = x;
                t += &mut y;
                t
            },
            (1, 0) => x - y,
            (1, 1) => x - &y,
            (1, 2) => &x - &y,
            (1, 3) => {
                let mut t = x;
                t -= y;
                t
            },
            (1, 4) => {
                let mut t = x;
                t -= &y;
                t
            },
            (1, 5) => x - &mut y,
            (1, _) => {
                let mut t = x;
                t -= &mut y;
                t
            },
            (2, 0) => x * y,
            (2, 1) => x * &y,
            (2, 2) => &x * &y,
            (2, 3) => {
                let mut t = x;
                t *= y;
                t
            },
            (2, 4) => {
                let mut t = x;
                t *= &y;
                t
            },
            (2, 5) => x * &mut y,
            (2, _) => {
                let mut t = x;
                t *= &mut y;
                t
            },
            (3, 0) => x / y,
            (3, 1) => x / &y,
            (3, 2) => &x / &y,
            (3, 3) => {
                let mut t = x;
                t /= y;
                t
            },
            (3, 4) => {
                let mut t = x;
                t /= &y;
                t
            },
            (3, 5) => x / &mut y,
            (3, _) => {
                let mut t = x;
                t /= &mut y;
                t
            },
            _ => unreachable!(),
        };
        Self::l(r)
    }
    fn un(&self, op: u8, a: &[u64]) -> L {
        let x = Self::f(a);
        Self::l(match op {
            0 => -x,
            1 => x.double(),
            2 => x.square(),
            3 => x * x,
            4 => {
                let mut t = x;
                t.double_in_place();
                t
            },
            5 => {
                let mut t = x;
                t.square_in_place();
                t
            },
            _ => {
                let mut t = x;
                t.neg_in_place();
                t
            },
        })
    }
    fn inverse(&self, a: &[u64], in_place: bool) -> Option<L> {
        let x = Self::f(a);
        if in_place {
            let mut t = x;
            let ok = t.inverse_in_place().is_some();
            if ok {
                Some(Self::l(t))
            } else {
                None
            }
        } else {
            x.inverse().map(Self::l)
        }
    }
    fn pow(&self, a: &[u64], e: &[u64]) -> L {
        Self::l(Self::f(a).pow(e))
    }
    fn pow_with_table(&self, a: &[u64], table_len: usize, e: &[u64]) -> Option<L> {
        let mut t = Vec::with_capacity(table_len);
        let mut cur = Self::f(a);
        for _ in 0..table_len {
            t.push(cur);
            cur.square_in_place();
        }
        Fp::<P, N>::pow_with_table(&t, e).map(Self::l)
    }
    fn sop(&self, a: &[L], b: &[L]) -> Option<L> {
        sop_arm!(a, b, 1, 2, 3, 4, 6, 9, 17)
    }
    fn batch_inv(&self, kind: u8, v: &[L], coeff: &[u64]) -> Vec<L> {
        let mut w: Vec<Fp<P, N>> = v.iter().map(|x| Self::f(x)).collect();
        let c = Self::f(coeff);
        match kind {
            0 => batch_inversion(&mut w),
            1 => batch_inversion_and_mul(&mut w, &c),
            _ => serial_batch_inversion_and_mul(&mut w, &c),
        }
        w.into_iter().map(Self::l).collect()
    }
    fn sum(&self, v: &[L], by_ref: bool) -> L {
        let w: Vec<Fp<P, N>> = v.iter().map(|x| Self::f(x)).collect();
        Self::l(if by_ref { w.iter().sum() } else { w.into_iter().sum() })
    }
    fn product(&self, v: &[L], by_ref: bool) -> L {
        let w: Vec<Fp<P, N>> = v.iter().map(|x| Self::f(x)).collect();
        Self::l(if by_ref { w.iter().product() } else { w.into_iter().product() })
    }
    fn from_int(&self, kind: i16, u: u128, i: i128) -> L {
        Self::l(match kind {
            1 => Fp::<P, N>::from(u != 0),
            8 => Fp::<P, N>::from(u as u8),
            16 => Fp::<P, N>::from(u as u16),
            32 => Fp::<P, N>::from(u as u32),
            64 => Fp::<P, N>::from(u as u64),
            128 => Fp::<P, N>::from(u),
            -8 => Fp::<P, N>::from(i as i8),
            -16 => Fp::<P, N>::from(i as i16),
            -32 => Fp::<P, N>::from(i as i32),
            -64 => Fp::<P, N>::from(i as i64),
            _ => Fp::<P, N>::from(i),
        })
    }
    fn from_bigint(&self, limbs: &[u64]) -> Option<L> {
        Fp::<P, N>::from_bigint(BigInt::<N>(limbs.try_into().unwrap())).map(Self::l)
    }
    fn into_bigint(&self, a: &[u64]) -> L {
        let x = Self::f(a);
        let r1 = x.into_bigint();
        let r2: BigInt<N> = x.into();
        assert_eq!(r1, r2, "into_bigint vs Into<BigInt>");
        r1.0.to_vec()
    }
    fn from_biguint(&self, v: &UInt) -> L {
        Self::l(Fp::<P, N>::from(v.clone()))
    }
    fn to_biguint(&self, a: &[u64]) -> UInt {
        Self::f(a).into()
    }
    fn from_bytes_mod_order(&self, le: bool, bytes: &[u8]) -> L {
        Self::l(if le { Fp::<P, N>::from_le_bytes_mod_order(bytes) } else { Fp::<P, N>::from_be_bytes_mod_order(bytes) })
    }
    fn from_str(&self, s: &str) -> Option<L> {
        Fp::<P, N>::from_str(s).ok().map(Self::l)
    }
    fn to_string(&self, a: &[u64]) -> String {
        format!("{}", Self::f(a))
    }
    fn from_random_bytes(&self, bytes: &[u8]) -> Option<L> {
        Fp::<P, N>::from_random_bytes(bytes).map(Self::l)
    }
    fn sqrt(&self, a: &[u64]) -> Option<L> {
        Self::f(a).sqrt().map(Self::l)
    }
    fn legendre(&self, a: &[u64]) -> i8 {
        match Self::f(a).legendre() {
            LegendreSymbol::Zero => 0,
            LegendreSymbol::QuadraticResidue => 1,
            LegendreSymbol::QuadraticNonResidue => -1,
        }
    }
    fn legendre_predicates(&self, a: &[u64]) -> (bool, bool, bool) {
        let l = Self::f(a).legendre();
        (l.is_zero(), l.is_qr(), l.is_qnr())
    }
    fn cmp(&self, a: &[u64], b: &[u64]) -> (Ordering, Option<Ordering>, bool) {
        let (x, y) = (Self::f(a), Self::f(b));
        (x.cmp(&y), x.partial_cmp(&y), x == y)
    }
    fn hash(&self, a: &[u64]) -> u64 {
        let mut h = std::collections::hash_map::DefaultHasher::new();
        Self::f(a).hash(&mut h);
        h.finish()
    }
    fn generator(&self) -> L {
        Self::l(P::GENERATOR)
    }
    fn two_adic_root(&self) -> L {
        Self::l(P::TWO_ADIC_ROOT_OF_UNITY)
    }
    fn frobenius(&self, a: &[u64], k: usize) -> L {
        Self::l(Self::f(a).frobenius_map(k))
    }
    fn mul_by_base_prime_field(&self, a: &[u64], b: &[u64]) -> L {
        Self::l(Self::f(a).mul_by_base_prime_field(&Self::f(b)))
    }
    fn rand(&self, rng: &mut monitor::Rng) -> L {
        use ark_std::UniformRand;
        Self::l(Fp::<P, N>::rand(rng))
    }
}

/// (name, adapter) registry entry
pub struct Cfg {
    pub name: String,
    pub pf: Box<dyn PF>,
    /// true for hand-written configs inheriting the trait's default arithmetic
    pub hand: bool,
}

pub fn mk<P: FpConfig<N> + ConstCtor<N>, const N: usize>(_: PhantomData<Fp<P, N>>, name: &str, hand: bool) -> Cfg {
    Cfg { name: name.to_string(), pf: Box::new(Ad::<P, N>(PhantomData)), hand }
}
