#!/usr/bin/env python3-vt
"""Generate cfgs/src/toy_curves.rs: toy curves small enough to enumerate (DESIGN §3).
Brute-force point counting; run by hand, output committed."""
import itertools, random, sys
from sympy import isprime, factorint, primitive_root
random.seed(7)

# ---------- tiny field arithmetic (Fp and Fp2 = Fp[u]/(u^2 - beta)) as tuples
class F:
    def __init__(s, p, beta=None, deg=None):
        s.p, s.beta = p, beta
        s.deg = deg if deg is not None else (1 if beta is None else 2)
    def elems(s):
        if s.deg == 1: return [(x,) for x in range(s.p)]
        if s.deg == 2: return [(x, y) for y in range(s.p) for x in range(s.p)]
        return [(x, y, z) for z in range(s.p) for y in range(s.p) for x in range(s.p)]
    def zero(s): return (0,) * s.deg
    def one(s): return (1,) + (0,) * (s.deg - 1)
    def add(s, a, b): return tuple((x + y) % s.p for x, y in zip(a, b))
    def sub(s, a, b): return tuple((x - y) % s.p for x, y in zip(a, b))
    def neg(s, a): return tuple((-x) % s.p for x in a)
    def mul(s, a, b):
        if s.deg == 1: return ((a[0] * b[0]) % s.p,)
        if s.deg == 3:
            # F_p[v]/(v^3 - beta)
            c = [0] * 5
            for i in range(3):
                for j in range(3):
                    c[i + j] += a[i] * b[j]
            return ((c[0] + s.beta * c[3]) % s.p, (c[1] + s.beta * c[4]) % s.p, c[2] % s.p)
        return ((a[0] * b[0] + s.beta * a[1] * b[1]) % s.p, (a[0] * b[1] + a[1] * b[0]) % s.p)
    def inv(s, a):
        if s.deg == 1: return (pow(a[0], -1, s.p),)
        if s.deg == 3:
            r = s.one(); e = s.p ** 3 - 2; b = a
            while e:
                if e & 1: r = s.mul(r, b)
                b = s.mul(b, b); e >>= 1
            return r
        n = (a[0] * a[0] - s.beta * a[1] * a[1]) % s.p
        ni = pow(n, -1, s.p)
        return ((a[0] * ni) % s.p, (-a[1] * ni) % s.p)
    def is_square(s, a):
        q = s.p ** s.deg
        if a == s.zero(): return True
        r = s.one(); e = (q - 1) // 2; b = a
        while e:
            if e & 1: r = s.mul(r, b)
            b = s.mul(b, b); e >>= 1
        return r == s.one()
    def from_int(s, k): return ((k % s.p),) + (0,) * (s.deg - 1)

# ---------- SW group
def sw_points(f, a, b):
    sq = {}
    for y in f.elems():
        sq.setdefault(f.mul(y, y), []).append(y)
    pts = [None]
    for x in f.elems():
        rhs = f.add(f.add(f.mul(f.mul(x, x), x), f.mul(a, x)), b)
        for y in sq.get(rhs, []):
            pts.append((x, y))
    return pts
def sw_add(f, a, P, Q):
    if P is None: return Q
    if Q is None: return P
    (x1, y1), (x2, y2) = P, Q
    if x1 == x2:
        if f.add(y1, y2) == f.zero(): return None
        lam = f.mul(f.add(f.mul(f.from_int(3), f.mul(x1, x1)), a), f.inv(f.mul(f.from_int(2), y1)))
    else:
        lam = f.mul(f.sub(y2, y1), f.inv(f.sub(x2, x1)))
    x3 = f.sub(f.sub(f.mul(lam, lam), x1), x2)
    y3 = f.sub(f.mul(lam, f.sub(x1, x3)), y1)
    return (x3, y3)
# ---------- TE group: a x^2 + y^2 = 1 + d x^2 y^2
def te_points(f, a, d):
    pts = []
    for x in f.elems():
        for y in f.elems():
            x2, y2 = f.mul(x, x), f.mul(y, y)
            if f.add(f.mul(a, x2), y2) == f.add(f.one(), f.mul(d, f.mul(x2, y2))):
                pts.append((x, y))
    return pts
def te_add(f, a, d, P, Q):
    if P == "exc" or Q == "exc": return "exc"
    (x1, y1), (x2, y2) = P, Q
    t = f.mul(d, f.mul(f.mul(x1, x2), f.mul(y1, y2)))
    dx = f.add(f.one(), t); dy = f.sub(f.one(), t)
    if dx == f.zero() or dy == f.zero(): return "exc"
    x3 = f.mul(f.add(f.mul(x1, y2), f.mul(y1, x2)), f.inv(dx))
    y3 = f.mul(f.sub(f.mul(y1, y2), f.mul(a, f.mul(x1, x2))), f.inv(dy))
    return (x3, y3)
def mul(add, ident, k, P):
    R = ident
    for bit in bin(k)[2:]:
        R = add(R, R)
        if bit == '1': R = add(R, P)
    return R

def pick_r(N):
    fac = factorint(N)
    r = max(fac)
    if fac[r] != 1 or r < 7: return None
    return r, N // r

def find_sw(f, want_a0, want_h, need_two_torsion=None, tries=4000):
    for _ in range(tries):
        a = f.zero() if want_a0 else random.choice(f.elems())
        if not want_a0 and a == f.zero(): continue
        b = random.choice(f.elems())
        if b == f.zero(): continue
        # discriminant
        disc = f.add(f.mul(f.from_int(4), f.mul(a, f.mul(a, a))), f.mul(f.from_int(27), f.mul(b, b)))
        if disc == f.zero(): continue
        pts = sw_points(f, a, b)
        pr = pick_r(len(pts))
        if not pr: continue
        r, h = pr
        if want_h is not None and h != want_h: continue
        two = any(P is not None and P[1] == f.zero() for P in pts)
        if need_two_torsion is not None and two != need_two_torsion: continue
        add = lambda P, Q: sw_add(f, a, P, Q)
        for P in random.sample(pts[1:], min(20, len(pts) - 1)):
            G = mul(add, None, h, P)
            if G is not None and mul(add, None, r, G) is None:
                return dict(a=a, b=b, r=r, h=h, G=G, n=len(pts))
    return None

def te_group_order(f, a, d):
    """#E(F_q) through the birationally equivalent Montgomery curve B v^2 = u^3 + A u^2 + u
    (the affine Edwards points alone miss the points at infinity of an incomplete curve)."""
    amd_inv = f.inv(f.sub(a, d))
    A = f.mul(f.mul(f.from_int(2), f.add(a, d)), amd_inv)
    B = f.mul(f.from_int(4), amd_inv)
    Binv = f.inv(B)
    sqcount = {}
    for v in f.elems():
        k = f.mul(v, v)
        sqcount[k] = sqcount.get(k, 0) + 1
    n = 1
    for u in f.elems():
        rhs = f.mul(Binv, f.add(f.add(f.mul(f.mul(u, u), u), f.mul(A, f.mul(u, u))), u))
        n += sqcount.get(rhs, 0)
    return n

def find_te(f, complete, want_h, tries=20000):
    for _ in range(tries):
        a = random.choice(f.elems()); d = random.choice(f.elems())
        if a == f.zero() or d == f.zero() or a == d: continue
        is_complete = f.is_square(a) and not f.is_square(d)
        if is_complete != complete: continue
        pts = te_points(f, a, d)
        N = te_group_order(f, a, d)
        if complete: assert N == len(pts), (N, len(pts))
        pr = pick_r(N)
        if not pr: continue
        r, h = pr
        if want_h is not None and h != want_h: continue
        ident = (f.zero(), f.one())
        add = lambda P, Q: te_add(f, a, d, P, Q)
        ok = None
        for P in random.sample(pts, min(40, len(pts))):
            # order of P by walking; exceptional additions abort the walk
            cur, k, walk = P, 1, [P]
            while cur != ident and cur != "exc" and k <= N:
                cur = add(cur, P); k += 1; walk.append(cur)
            if cur != ident or k % r != 0: continue
            G = walk[k // r - 1]
            sub = [ident]; c2 = G
            while c2 != ident and c2 != "exc" and len(sub) <= r:
                sub.append(c2); c2 = add(c2, G)
            if c2 != ident or len(sub) != r: continue
            if any(te_add(f, a, d, X, Y) == "exc" for X in sub for Y in sub): continue
            ok = G; break
        if ok is None: continue
        if not complete:
            exc = any(te_add(f, a, d, P, Q) == "exc" for P in pts for Q in pts)
            if not exc: continue
        return dict(a=a, d=d, r=r, h=h, G=ok, n=N)
    return None

curves = []
SMALL_PRIMES = [43, 47, 53, 59, 61, 67, 71, 73, 79, 83, 89, 97]
PRIMES = [251, 241, 239, 233, 229, 227, 223, 211, 199, 197, 193, 191, 181, 179, 173, 167, 163, 157, 151, 149, 139, 137, 131, 127, 113, 109, 107, 103, 101]
used = set()
def over_primes(fn, *args, cond=lambda p: True, tries=600, primes=None):
    for p in (primes or PRIMES):
        if not cond(p) or p in used: continue
        f = F(p)
        c = fn(f, *args, tries=tries)
        if c:
            used.add(p)
            return f, c
    raise SystemExit(f"nothing found for {fn.__name__} {args}")
F17_2 = F(17, 3)
def addc(name, model, fc, note): curves.append((name, model, fc[0], fc[1], note))
addc("sw_a0_h1", "sw", over_primes(find_sw, True, 1, None, cond=lambda p: p % 3 == 1), "a = 0, prime order")
addc("sw_a_h1", "sw", over_primes(find_sw, False, 1, None), "a != 0, prime order")
addc("sw_a0_h4", "sw", over_primes(find_sw, True, 4, True, cond=lambda p: p % 3 == 1), "a = 0, cofactor 4 (full 2-torsion: three points with y = 0)")
addc("sw_a_h2", "sw", over_primes(find_sw, False, 2, True), "a != 0, cofactor 2 (one point with y = 0)")
addc("sw_a_h4", "sw", over_primes(find_sw, False, 4, True), "a != 0, cofactor 4, 2-torsion points")
addc("sw_a_h3", "sw", over_primes(find_sw, False, 3, False), "a != 0, odd cofactor 3")
addc("sw_fp2", "sw", (F17_2, find_sw(F17_2, False, None, None)), "over F_{17^2}, a != 0")
addc("sw_fp2_a0", "sw", (F17_2, find_sw(F17_2, True, None, None)), "over F_{17^2}, a = 0")
addc("te_c_h4", "te", over_primes(find_te, True, 4, tries=3000), "complete (a square, d non-square), cofactor 4")
addc("te_c_h8", "te", over_primes(find_te, True, 8, tries=3000), "complete, cofactor 8")
addc("te_inc", "te", over_primes(find_te, False, None, tries=400, primes=SMALL_PRIMES), "incomplete addition law on the curve, exception-free on the prime-order subgroup")
F7_3 = F(7, 3, 3)
addc("sw_fp3_a0", "sw", (F7_3, find_sw(F7_3, True, None, None, tries=300)), "over F_{7^3} (cubic extension), a = 0: the doubling branch for extension degree > 2")
addc("sw_fp3_a", "sw", (F7_3, find_sw(F7_3, False, None, None, tries=300)), "over F_{7^3} (cubic extension), a != 0")

def fe(f, v):
    if f.deg == 1: return f'MontFp!("{v[0]}")'
    if f.deg == 3: return f'Fp3::new(MontFp!("{v[0]}"), MontFp!("{v[1]}"), MontFp!("{v[2]}"))'
    return f'Fp2::new(MontFp!("{v[0]}"), MontFp!("{v[1]}"))'
def base_ty(f):
    if f.deg == 3: return "crate::toy_towers::F7_3"
    return f"F{f.p}" if f.deg == 1 else "crate::toy_towers::F17_2"

out = ["// @generated by gen/gen_curves.py — do not edit by hand\n",
       "//! Toy curves small enough to enumerate completely (group orders by brute-force point counting).\n",
       "#![allow(non_camel_case_types, clippy::all)]\n",
       "use ark_ec::{models::CurveConfig, short_weierstrass::{self as sw, SWCurveConfig}, twisted_edwards::{self as te, MontCurveConfig, TECurveConfig}};\n",
       "use ark_ff::{fields::{Fp2, Fp3, Fp64, MontBackend, MontConfig}, MontFp};\n\n"]
primes = sorted({f.p for _, _, f, _, _ in curves if f.deg == 1} | {c["r"] for _, _, _, c, _ in curves})
for p in primes:
    g = primitive_root(p)
    out.append(f'#[derive(MontConfig)]\n#[modulus = "{p}"]\n#[generator = "{g}"]\npub struct F{p}Cfg;\npub type F{p} = Fp64<MontBackend<F{p}Cfg, 1>>;\n')
out.append("\n")
metas = []
for name, model, f, c, note in curves:
    bt = base_ty(f); r, h = c["r"], c["h"]
    hinv = pow(h, -1, r)
    out.append(f"/// {note}; #E = {c['n']} = {h} * {r}\n#[derive(Clone, Default, PartialEq, Eq)]\npub struct {name};\n")
    out.append(f"impl CurveConfig for {name} {{\n    type BaseField = {bt};\n    type ScalarField = F{r};\n    const COFACTOR: &'static [u64] = &[{h}];\n    const COFACTOR_INV: F{r} = MontFp!(\"{hinv}\");\n}}\n")
    if model == "sw":
        out.append(f"impl SWCurveConfig for {name} {{\n    const COEFF_A: {bt} = {fe(f, c['a'])};\n    const COEFF_B: {bt} = {fe(f, c['b'])};\n    const GENERATOR: sw::Affine<Self> = sw::Affine::new_unchecked({fe(f, c['G'][0])}, {fe(f, c['G'][1])});\n}}\n\n")
        metas.append((name, "sw", f, c["a"], c["b"], c, note))
    else:
        a, d = c["a"], c["d"]
        amd_inv = f.inv(f.sub(a, d))
        ma = f.mul(f.mul(f.from_int(2), f.add(a, d)), amd_inv)
        mb = f.mul(f.from_int(4), amd_inv)
        out.append(f"impl TECurveConfig for {name} {{\n    const COEFF_A: {bt} = {fe(f, a)};\n    const COEFF_D: {bt} = {fe(f, d)};\n    const GENERATOR: te::Affine<Self> = te::Affine::new_unchecked({fe(f, c['G'][0])}, {fe(f, c['G'][1])});\n    type MontCurveConfig = Self;\n}}\n")
        out.append(f"impl MontCurveConfig for {name} {{\n    const COEFF_A: {bt} = {fe(f, ma)};\n    const COEFF_B: {bt} = {fe(f, mb)};\n    type TECurveConfig = Self;\n}}\n\n")
        metas.append((name, "te", f, a, d, c, note))
out.append("/// Oracle-side description of a toy curve (plain integers; base field F_p or F_p[u]/(u^2 - beta)).\n#[derive(Clone, Debug)]\npub struct ToyMeta {\n    pub name: &'static str,\n    pub model: &'static str,\n    pub p: u64,\n    pub ext_degree: usize,\n    pub beta: u64,\n    /// SW: a, b; TE: a, d (c0, c1)\n    pub coeff1: [u64; 2],\n    pub coeff2: [u64; 2],\n    pub r: u64,\n    pub h: u64,\n    pub order: u64,\n    pub gen_x: [u64; 2],\n    pub gen_y: [u64; 2],\n    pub note: &'static str,\n}\n")
def arr(v): return f"[{v[0]}, {v[1] if len(v) > 1 else 0}]"
def arr3(v): return f"[{v[0]}, {v[1]}, {v[2]}]"
metas3 = [m for m in metas if m[2].deg == 3]
metas = [m for m in metas if m[2].deg != 3]
out.append("/// Same as `ToyMeta` for curves over the cubic extension F_p[v]/(v^3 - beta) (coordinates c0, c1, c2).\n#[derive(Clone, Debug)]\npub struct ToyMeta3 {\n    pub name: &'static str,\n    pub model: &'static str,\n    pub p: u64,\n    pub beta: u64,\n    pub coeff1: [u64; 3],\n    pub coeff2: [u64; 3],\n    pub r: u64,\n    pub h: u64,\n    pub order: u64,\n    pub gen_x: [u64; 3],\n    pub gen_y: [u64; 3],\n    pub note: &'static str,\n}\n")
out.append("pub const TOY_CURVES3: &[ToyMeta3] = &[\n")
for name, model, f, c1, c2, c, note in metas3:
    out.append(f'    ToyMeta3 {{ name: "{name}", model: "{model}", p: {f.p}, beta: {f.beta}, coeff1: {arr3(c1)}, coeff2: {arr3(c2)}, r: {c["r"]}, h: {c["h"]}, order: {c["n"]}, gen_x: {arr3(c["G"][0])}, gen_y: {arr3(c["G"][1])}, note: "{note}" }},\n')
out.append("];\n\n")
out.append("pub const TOY_CURVES: &[ToyMeta] = &[\n")
for name, model, f, c1, c2, c, note in metas:
    out.append(f'    ToyMeta {{ name: "{name}", model: "{model}", p: {f.p}, ext_degree: {f.deg}, beta: {f.beta or 0}, coeff1: {arr(c1)}, coeff2: {arr(c2)}, r: {c["r"]}, h: {c["h"]}, order: {c["n"]}, gen_x: {arr(c["G"][0])}, gen_y: {arr(c["G"][1])}, note: "{note}" }},\n')
out.append("];\n\n")
out.append("/// `$m!(\"name\", ConfigType);` for every toy short-Weierstrass curve.\n#[macro_export]\nmacro_rules! for_each_toy_sw {\n    ($m:ident) => {\n")
for name, model, *_ in metas:
    if model == "sw": out.append(f'        $m!("{name}", $crate::toy_curves::{name});\n')
out.append("    };\n}\n/// `$m!(\"name\", ConfigType);` for every toy short-Weierstrass curve over a cubic extension field (metadata in TOY_CURVES3).\n#[macro_export]\nmacro_rules! for_each_toy_sw3 {\n    ($m:ident) => {\n")
for name, model, *_ in metas3:
    out.append(f'        $m!("{name}", $crate::toy_curves::{name});\n')
out.append("    };\n}\n/// `$m!(\"name\", ConfigType);` for every toy twisted-Edwards curve.\n#[macro_export]\nmacro_rules! for_each_toy_te {\n    ($m:ident) => {\n")
for name, model, *_ in metas:
    if model == "te": out.append(f'        $m!("{name}", $crate::toy_curves::{name});\n')
out.append("    };\n}\n")
open("/verif/harness/cfgs/src/toy_curves.rs", "w").write("".join(out))
for name, model, f, c1, c2, c, note in metas + metas3:
    print(name, model, "p", f.p, "deg", f.deg, "order", c["n"], "=", c["h"], "*", c["r"])
