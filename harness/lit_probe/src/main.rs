//! C20 literal probe: a handful of literals per syntax class (see Cargo.toml), each compared at run
//! time with the value written. Built with exactly one feature at a time by `vcheck`.
//! Exit code 0: all literals of the class denote the number written; 1: a mismatch (printed).
#![allow(dead_code, unused_imports, unused_macros)]
use ark_ff::{BigInt, Fp256, Fp64, MontBackend, MontConfig, MontFp, PrimeField};
use ark_std::str::FromStr;

#[derive(MontConfig)]
#[modulus = "2305843009213693951"]
#[generator = "37"]
pub struct M61Cfg;
type F1 = Fp64<MontBackend<M61Cfg, 1>>;

#[derive(MontConfig)]
#[modulus = "52435875175126190479447740508185965837690552500527637822603658699938581184513"]
#[generator = "7"]
pub struct Fr4Cfg;
type F4 = Fp256<MontBackend<Fr4Cfg, 4>>;

/// (literal constant, decimal value of the integer written)
macro_rules! cases {
    ($t:ty; $( $lit:literal => $dec:literal ),* $(,)?) => {{
        let mut bad = 0;
        $(
            {
                const C: $t = MontFp!($lit);
                let want = if $dec.starts_with('-') { -<$t>::from_str(&$dec[1..]).unwrap() } else { <$t>::from_str($dec).unwrap() };
                if C != want || C.into_bigint() != want.into_bigint() {
                    println!("MISMATCH literal {} expected {} got {}", $lit, $dec, C);
                    bad += 1;
                }
            }
        )*
        bad
    }};
}
macro_rules! big_cases {
    ($n:literal; $( $lit:literal => $dec:literal ),* $(,)?) => {{
        let mut bad = 0;
        $(
            {
                const C: BigInt<$n> = ark_ff::BigInt!($lit);
                if C != BigInt::<$n>::from_str($dec).unwrap() {
                    println!("MISMATCH BigInt literal {} expected {} got {}", $lit, $dec, C);
                    bad += 1;
                }
            }
        )*
        bad
    }};
}

// ---- class `const_ctor`: the const constructors driven at run time on locally derived fields (fadapt::constrt)
#[cfg(feature = "const_ctor")]
mod const_ctor {
    use ark_ff::{Fp, MontBackend, MontConfig};
    use std::marker::PhantomData;
    #[derive(MontConfig)]
    #[modulus = "18446744073709551557"]
    #[generator = "2"]
    pub struct K0;
    #[derive(MontConfig)]
    #[modulus = "2305843009213693951"]
    #[generator = "3"]
    pub struct K1;
    #[derive(MontConfig)]
    #[modulus = "18446744069414584321"]
    #[generator = "7"]
    pub struct K2;
    #[derive(MontConfig)]
    #[modulus = "170141183460469231731687303715884105727"]
    #[generator = "3"]
    pub struct K3;
    #[derive(MontConfig)]
    #[modulus = "199503444963337062058076740601198027329"]
    #[generator = "7"]
    pub struct K4;
    #[derive(MontConfig)]
    #[modulus = "6277101735386680763835789423207666416083908700390324961279"]
    #[generator = "11"]
    pub struct K5;
    #[derive(MontConfig)]
    #[modulus = "4555291100009952309680851833529510721931501339142417076177"]
    #[generator = "3"]
    pub struct K6;
    #[derive(MontConfig)]
    #[modulus = "115792089237316195423570985008687907853269984665640564039457584007908834671663"]
    #[generator = "3"]
    pub struct K7;
    #[derive(MontConfig)]
    #[modulus = "42773147590002652006097313766352796357802895297379253969922068875034022721827"]
    #[generator = "2"]
    pub struct K8;
    #[derive(MontConfig)]
    #[modulus = "39402006196394479212279040100143613805079739270465446667948293404245721771496870329047266088258938001861606973112319"]
    #[generator = "19"]
    pub struct K9;
    #[derive(MontConfig)]
    #[modulus = "32048270361986631651684903226973591633309124291791399598672672827198541759532250692337317943557063964615118482135717"]
    #[generator = "2"]
    pub struct K10;
    #[derive(MontConfig)]
    #[modulus = "6864797660130609714981900799081393217269435300143305409394463459185543183397656052122559640661454554977296311391480858037121987999716643812574028291115057151"]
    #[generator = "3"]
    pub struct K11;
    #[derive(MontConfig)]
    #[modulus = "15607574404979845937917304625365064124764384391529980546483844877222997344265551502073280314968488765988184181959992061658162094952240624496294395662048868694531100322534394721257671067411336082363692300163844635634469121835869847533765175908934031673"]
    #[generator = "5"]
    pub struct K12;
    // P-256: a modulus with an all-zero limb
    #[derive(MontConfig)]
    #[modulus = "115792089210356248762697446949407573530086143415290314195533631308867097853951"]
    #[generator = "6"]
    pub struct K13;

    pub fn run() -> ! {
        use monitor::*;
        let args = Args::parse();
        let t0 = std::time::Instant::now();
        let cfgs: Vec<fadapt::Cfg> = vec![
        fadapt::mk(PhantomData::<Fp<MontBackend<K0, 1>, 1>>, "probe/p64m59", false),
        fadapt::mk(PhantomData::<Fp<MontBackend<K1, 1>, 1>>, "probe/m61", false),
        fadapt::mk(PhantomData::<Fp<MontBackend<K2, 1>, 1>>, "probe/goldilocks", false),
        fadapt::mk(PhantomData::<Fp<MontBackend<K3, 2>, 2>>, "probe/m127", false),
        fadapt::mk(PhantomData::<Fp<MontBackend<K4, 2>, 2>>, "probe/r2_full", false),
        fadapt::mk(PhantomData::<Fp<MontBackend<K5, 3>, 3>>, "probe/p192", false),
        fadapt::mk(PhantomData::<Fp<MontBackend<K6, 3>, 3>>, "probe/r3_full", false),
        fadapt::mk(PhantomData::<Fp<MontBackend<K7, 4>, 4>>, "probe/secp256k1", false),
        fadapt::mk(PhantomData::<Fp<MontBackend<K8, 4>, 4>>, "probe/r4_m1", false),
        fadapt::mk(PhantomData::<Fp<MontBackend<K9, 6>, 6>>, "probe/p384", false),
        fadapt::mk(PhantomData::<Fp<MontBackend<K10, 6>, 6>>, "probe/r6_full", false),
        fadapt::mk(PhantomData::<Fp<MontBackend<K11, 9>, 9>>, "probe/m521", false),
        fadapt::mk(PhantomData::<Fp<MontBackend<K12, 13>, 13>>, "probe/r13_full", false),
        fadapt::mk(PhantomData::<Fp<MontBackend<K13, 4>, 4>>, "probe/p256 (zero limb in the modulus)", false),
        ];
        let items: Vec<Item> = cfgs
            .into_iter()
            .map(|c| {
                let n = c.pf.n();
                Item::new(format!("c20rt/{}", c.name), move |rep: &mut Report, rng: &mut Rng, args: &Args| {
                    let fc = fadapt::constrt::FC::new(&c.name, "probe", c.pf.as_ref());
                    for r in fadapt::constrt::required(n) {
                        rep.require_here(r);
                    }
                    fadapt::constrt::run_field(&fc, rep, rng, args);
                })
            })
            .collect();
        let rep = run_items(&args, items);
        finish(&args, "lit_probe/const_ctor", fadapt::constrt::RULE, rep, t0)
    }
}

// ---- class `derive_small_subgroup`: derive attributes whose subgroup size base^power exceeds 2^32 / 2^64
#[cfg(feature = "derive_small_subgroup")]
mod derive_small_subgroup {
    use ark_ff::{FftField, Field, Fp, MontBackend, MontConfig, PrimeField};
    use ark_std::{One, Zero};
    use oracle::UInt;

    #[derive(MontConfig)]
    #[modulus = "585779779369"]
    #[generator = "38"]
    #[small_subgroup_base = "3"]
    #[small_subgroup_power = "21"]
    pub struct S1;
    #[derive(MontConfig)]
    #[modulus = "9118249094292696600751"]
    #[generator = "11"]
    #[small_subgroup_base = "3"]
    #[small_subgroup_power = "41"]
    pub struct S2;
    #[derive(MontConfig)]
    #[modulus = "4246830940246582031251"]
    #[generator = "3"]
    #[small_subgroup_base = "5"]
    #[small_subgroup_power = "28"]
    pub struct S3;
    // small power as a control
    #[derive(MontConfig)]
    #[modulus = "585779779369"]
    #[generator = "38"]
    #[small_subgroup_base = "3"]
    #[small_subgroup_power = "2"]
    pub struct S4;

    fn pw<F: Field>(x: F, e: &UInt) -> F {
        x.pow(oracle::to_limbs(e, (e.bits() as usize).div_ceil(64).max(1)))
    }

    fn check<F: PrimeField + FftField>(name: &str, base: u32, power: u32) -> usize {
        let mut bad = 0;
        let mut fail = |m: String| {
            println!("MISMATCH {name}: {m}");
            bad += 1;
        };
        let p: UInt = F::MODULUS.into();
        let pm1 = &p - UInt::one();
        let s = F::TWO_ADICITY;
        let two_s = oracle::pow2(s as usize);
        if !(&pm1 % &two_s).is_zero() || ((&pm1 / &two_s) % UInt::from(2u8)).is_zero() {
            fail(format!("TWO_ADICITY = {s} is not the 2-adic valuation of p-1"));
        }
        if F::TWO_ADIC_ROOT_OF_UNITY != pw(F::GENERATOR, &(&pm1 / &two_s)) {
            fail("TWO_ADIC_ROOT_OF_UNITY != GENERATOR^((p-1)/2^s)".into());
        }
        if F::SMALL_SUBGROUP_BASE != Some(base) || F::SMALL_SUBGROUP_BASE_ADICITY != Some(power) {
            fail(format!("SMALL_SUBGROUP_BASE/ADICITY = {:?}/{:?}, attributes say {base}/{power}", F::SMALL_SUBGROUP_BASE, F::SMALL_SUBGROUP_BASE_ADICITY));
        }
        let bk = UInt::from(base).pow(power);
        let n = &two_s * &bk;
        if !(&pm1 % &n).is_zero() {
            fail("probe configuration error: 2^s * base^power does not divide p-1".into());
            return bad;
        }
        let want = pw(F::GENERATOR, &(&pm1 / &n));
        match F::LARGE_SUBGROUP_ROOT_OF_UNITY {
            None => fail("LARGE_SUBGROUP_ROOT_OF_UNITY is None".into()),
            Some(w) => {
                if w != want {
                    fail(format!("LARGE_SUBGROUP_ROOT_OF_UNITY = {w} but GENERATOR^((p-1)/(2^s*base^power)) = {want} (run-time arithmetic)"));
                }
                if !pw(w, &n).is_one() || pw(w, &(&n / UInt::from(2u8))).is_one() || pw(w, &(&n / UInt::from(base))).is_one() {
                    fail("LARGE_SUBGROUP_ROOT_OF_UNITY does not have order exactly 2^s * base^power".into());
                }
            },
        }
        // get_root_of_unity for subgroup sizes that fit in u64
        let mut sizes: Vec<u64> = vec![base as u64, 2 * base as u64, (base as u64).pow(2), 4 * (base as u64).pow(3)];
        let mut big = 1u64;
        let mut j = 0;
        while j < power && big.checked_mul(base as u64).is_some() && big * (base as u64) < (1 << 62) {
            big *= base as u64;
            j += 1;
        }
        sizes.push(big);
        sizes.push(big * 2);
        for m in sizes {
            let (mut ja, mut t) = (0, m);
            while t % base as u64 == 0 {
                t /= base as u64;
                ja += 1;
            }
            let ta = t.trailing_zeros();
            let valid = t == 1u64 << ta && ta <= s && ja <= power;
            match (F::get_root_of_unity(m), valid) {
                (Some(w), true) => {
                    let mu = UInt::from(m);
                    let mut ok = pw(w, &mu).is_one();
                    if m % 2 == 0 {
                        ok &= !pw(w, &(&mu / UInt::from(2u8))).is_one();
                    }
                    if m % base as u64 == 0 {
                        ok &= !pw(w, &(&mu / UInt::from(base))).is_one();
                    }
                    if !ok {
                        fail(format!("get_root_of_unity({m}) does not have order exactly {m}"));
                    }
                },
                (None, true) => fail(format!("get_root_of_unity({m}) = None although the subgroup exists")),
                (Some(_), false) => fail(format!("get_root_of_unity({m}) = Some although no such subgroup is declared")),
                (None, false) => {},
            }
        }
        bad
    }

    pub fn run() -> usize {
        check::<Fp<MontBackend<S1, 1>, 1>>("p = 2^3*3^21*7+1, small subgroup 3^21 (> 2^32)", 3, 21)
            + check::<Fp<MontBackend<S2, 2>, 2>>("p = 2*3^41*125+1, small subgroup 3^41 (> 2^64)", 3, 41)
            + check::<Fp<MontBackend<S3, 2>, 2>>("p = 2*5^28*57+1, small subgroup 5^28 (> 2^64)", 5, 28)
            + check::<Fp<MontBackend<S4, 1>, 1>>("p = 2^3*3^21*7+1, small subgroup 3^2 (control)", 3, 2)
    }
}

// ---- classes that must NOT compile: out-of-range and negative big-integer literals are documented compile errors
#[cfg(feature = "reject_bigint_negative")]
const REJ1: BigInt<1> = ark_ff::BigInt!("-1");
#[cfg(feature = "reject_bigint_too_wide")]
const REJ2: BigInt<1> = ark_ff::BigInt!("18446744073709551616");
#[cfg(feature = "reject_montfp_too_wide")]
const REJ3: F1 = MontFp!("18446744073709551616");
#[cfg(feature = "reject_montfp_too_wide_negative")]
const REJ4: F4 = MontFp!("-0x10000000000000000000000000000000000000000000000000000000000000005");

fn main() {
    #[cfg(feature = "reject_bigint_negative")]
    println!("ACCEPTED BigInt!(\"-1\") = {}", REJ1);
    #[cfg(feature = "reject_bigint_too_wide")]
    println!("ACCEPTED BigInt<1> literal 2^64 = {}", REJ2);
    #[cfg(feature = "reject_montfp_too_wide")]
    println!("ACCEPTED one-limb MontFp!(2^64) = {}", REJ3);
    #[cfg(feature = "reject_montfp_too_wide_negative")]
    println!("ACCEPTED four-limb MontFp!(-(2^256+5)) = {}", REJ4);
    #[cfg(feature = "const_ctor")]
    const_ctor::run();
    #[allow(unused_mut)]
    let mut bad = 0;
    #[cfg(feature = "decimal")]
    {
        bad += cases!(F1; "0" => "0", "1" => "1", "15" => "15", "2305843009213693950" => "2305843009213693950", "18446744073709551615" => "18446744073709551615");
        bad += cases!(F4; "123456789012345678901234567890" => "123456789012345678901234567890", "115792089237316195423570985008687907853269984665640564039457584007913129639935" => "115792089237316195423570985008687907853269984665640564039457584007913129639935");
    }
    #[cfg(feature = "leading_zeros")]
    {
        bad += cases!(F1; "00" => "0", "007" => "7", "0010" => "10", "00123" => "123", "000777" => "777", "0089" => "89");
        bad += cases!(F4; "0000000000000000000018446744073709551616" => "18446744073709551616");
    }
    #[cfg(feature = "negative")]
    {
        bad += cases!(F1; "-1" => "-1", "-0" => "0", "-15" => "-15", "-0010" => "-10", "-0x1f" => "-31", "-0o17" => "-15", "-0b101" => "-5");
        bad += cases!(F4; "-18446744073709551616" => "-18446744073709551616");
    }
    #[cfg(feature = "hex_lower")]
    {
        bad += cases!(F1; "0x0" => "0", "0x1f" => "31", "0x00ff" => "255", "0xffffffffffffffff" => "18446744073709551615", "0xABCDEF" => "11259375");
        bad += cases!(F4; "0x10000000000000000" => "18446744073709551616", "0xffffffffffffffffffffffffffffffffffffffffffffffffffffffffffffffff" => "115792089237316195423570985008687907853269984665640564039457584007913129639935");
    }
    #[cfg(feature = "hex_upper")]
    {
        bad += cases!(F1; "0X0" => "0", "0X1F" => "31", "0X1f" => "31", "0X00FF" => "255");
        bad += cases!(F4; "0X10000000000000000" => "18446744073709551616");
    }
    #[cfg(feature = "octal_lower")]
    {
        bad += cases!(F1; "0o0" => "0", "0o17" => "15", "0o777" => "511", "0o0010" => "8", "0o1777777777777777777777" => "18446744073709551615");
        bad += cases!(F4; "0o2000000000000000000000" => "18446744073709551616");
    }
    #[cfg(feature = "octal_upper")]
    {
        bad += cases!(F1; "0O0" => "0", "0O17" => "15", "0O777" => "511", "0O0010" => "8");
        bad += cases!(F4; "0O2000000000000000000000" => "18446744073709551616");
    }
    #[cfg(feature = "binary_lower")]
    {
        bad += cases!(F1; "0b0" => "0", "0b101" => "5", "0b0011" => "3", "0b1111111111111111111111111111111111111111111111111111111111111111" => "18446744073709551615");
        bad += cases!(F4; "0b10000000000000000000000000000000000000000000000000000000000000000" => "18446744073709551616");
    }
    #[cfg(feature = "binary_upper")]
    {
        bad += cases!(F1; "0B0" => "0", "0B101" => "5", "0B0011" => "3");
        bad += cases!(F4; "0B10000000000000000000000000000000000000000000000000000000000000000" => "18446744073709551616");
    }
    #[cfg(feature = "bigint")]
    {
        bad += big_cases!(1; "0" => "0", "18446744073709551615" => "18446744073709551615", "0xff" => "255", "0o17" => "15", "0b101" => "5", "0010" => "10");
        bad += big_cases!(4; "0x10000000000000000" => "18446744073709551616", "115792089237316195423570985008687907853269984665640564039457584007913129639935" => "115792089237316195423570985008687907853269984665640564039457584007913129639935");
        bad += big_cases!(13; "0x1000000000000000000000000000000000000000000000000000000000000000000000000000000000000000000000000000000000000000000000000000000000000000000000000000000000000000000000000000000000000000000000000" => "1552518092300708935148979488462502555256886017116696611139052038026050952686376886330878408828646477950487730697131073206171580044114814391444287275041181139204454976020849905550265285631598444825262999193716468750892846853816057856", "28638903918474961204418783933674838490721739172170652529441449702311064005352904159345284265824628375429359509218999720074396860757073376700445026041564579620512874307979212102266801261478978776245040008231745247475930553606737583615358787106474295295" => "28638903918474961204418783933674838490721739172170652529441449702311064005352904159345284265824628375429359509218999720074396860757073376700445026041564579620512874307979212102266801261478978776245040008231745247475930553606737583615358787106474295295");
    }
    #[cfg(feature = "derive_small_subgroup")]
    {
        bad += derive_small_subgroup::run();
    }
    std::process::exit(if bad == 0 { 0 } else { 1 });
}
