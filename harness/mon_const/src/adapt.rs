//! Per-type adapters: the only generic code in this crate. Each function reads the associated
//! constants of one configuration type through the public traits and returns plain data (limbs /
//! num-bigint integers / flat base-prime-field coordinates). All checking happens on that data in
//! non-generic code.
use crate::ora::*;
use ark_ec::hashing::curve_maps::elligator2::Elligator2Config;
use ark_ec::hashing::curve_maps::swu::SWUConfig;
use ark_ec::hashing::curve_maps::wb::WBConfig;
use ark_ec::models::short_weierstrass::{Affine as SwAffine, SWCurveConfig};
use ark_ec::models::twisted_edwards::{MontCurveConfig, TECurveConfig};
use ark_ec::scalar_mul::glv::GLVConfig;
use ark_ff::fields::fp6_2over3::{Fp6 as Fp6A, Fp6Config as Fp6AConfig};
use ark_ff::fields::fp6_3over2::{Fp6 as Fp6B, Fp6Config as Fp6BConfig};
use ark_ff::{
    BigInteger, CubicExtConfig, CubicExtField, FftField, Field, Fp, Fp12, Fp12Config, Fp2, Fp2Config, Fp3, Fp3Config, Fp4,
    Fp4Config, FpConfig, MontBackend, MontConfig, PrimeField, QuadExtConfig, QuadExtField, SqrtPrecomputation,
};
use ark_std::UniformRand;
use monitor::Rng;

pub fn flat<F: Field>(x: &F) -> Vec<UInt> {
    x.to_base_prime_field_elements().map(|e| e.into()).collect()
}
pub fn pf_uint<F: PrimeField>(x: &F) -> UInt {
    (*x).into()
}
pub fn limbs_of<B: BigInteger>(b: &B) -> Vec<u64> {
    b.as_ref().to_vec()
}

// ------------------------------------------------------------------------------------------------
// oracle tower of a field type

pub trait TowerSpec: Field {
    fn tower() -> Tower;
}
impl<P: FpConfig<N>, const N: usize> TowerSpec for Fp<P, N> {
    fn tower() -> Tower {
        Tower::new(from_limbs(&P::MODULUS.0))
    }
}
impl<P: QuadExtConfig> TowerSpec for QuadExtField<P>
where
    P::BaseField: TowerSpec,
{
    fn tower() -> Tower {
        P::BaseField::tower().extend(2, &flat(&P::NONRESIDUE))
    }
}
impl<P: CubicExtConfig> TowerSpec for CubicExtField<P>
where
    P::BaseField: TowerSpec,
{
    fn tower() -> Tower {
        P::BaseField::tower().extend(3, &flat(&P::NONRESIDUE))
    }
}

// ------------------------------------------------------------------------------------------------
// square-root precomputation of any field

#[derive(Clone, Debug)]
pub enum SqrtC {
    Absent,
    /// a variant this monitor does not know
    Other,
    TonelliShanks { two_adicity: u32, qnr_to_t: Vec<UInt>, tm1d2: Vec<u64> },
    Case3Mod4 { mp1d4: Vec<u64> },
}

pub fn sqrt_c<F: Field>() -> SqrtC {
    match F::SQRT_PRECOMP {
        None => SqrtC::Absent,
        Some(SqrtPrecomputation::TonelliShanks { two_adicity, quadratic_nonresidue_to_trace, trace_of_modulus_minus_one_div_two }) => {
            SqrtC::TonelliShanks {
                two_adicity,
                qnr_to_t: flat(&quadratic_nonresidue_to_trace),
                tm1d2: trace_of_modulus_minus_one_div_two.to_vec(),
            }
        },
        Some(SqrtPrecomputation::Case3Mod4 { modulus_plus_one_div_four }) => SqrtC::Case3Mod4 { mp1d4: modulus_plus_one_div_four.to_vec() },
        Some(_) => SqrtC::Other,
    }
}

// ------------------------------------------------------------------------------------------------
// prime fields (Montgomery backend)

#[derive(Clone)]
pub struct PrimeC {
    pub n: usize,
    pub modulus: Vec<u64>,
    pub r: Vec<u64>,
    pub r2: Vec<u64>,
    pub inv: u64,
    /// raw Montgomery limbs
    pub generator: Vec<u64>,
    pub two_adic_root: Vec<u64>,
    pub small_base: Option<u32>,
    pub small_adicity: Option<u32>,
    pub large_root: Option<Vec<u64>>,
    pub no_carry_mul: bool,
    pub no_carry_sq: bool,
    pub spare_bit: bool,
    pub mp1d4: Option<Vec<u64>>,
    pub sqrt: SqrtC,
    /// raw limbs of the Tonelli-Shanks element, when that variant is present
    pub sqrt_qnr_raw: Option<Vec<u64>>,
    pub bit_size: u32,
    pub mm1d2: Vec<u64>,
    pub trace: Vec<u64>,
    pub tm1d2: Vec<u64>,
    pub two_adicity: u32,
    pub zero: Vec<u64>,
    pub one: Vec<u64>,
    pub characteristic: Vec<u64>,
    pub extension_degree: u64,
    pub get_root: fn(u64) -> Option<Vec<u64>>,
    pub from_str: fn(&str) -> Option<Vec<u64>>,
    pub from_bigint: fn(&[u64]) -> Option<Vec<u64>>,
    pub from_biguint: fn(&UInt) -> Vec<u64>,
    pub neg: fn(&[u64]) -> Vec<u64>,
}

pub trait HasPrimeC {
    fn prime_c() -> PrimeC;
}

impl<T: MontConfig<N>, const N: usize> HasPrimeC for Fp<MontBackend<T, N>, N> {
    fn prime_c() -> PrimeC {
        type F<T, const N: usize> = Fp<MontBackend<T, N>, N>;
        let raw = |x: F<T, N>| x.0 .0.to_vec();
        let sqrt = sqrt_c::<F<T, N>>();
        let sqrt_qnr_raw = match <F<T, N> as Field>::SQRT_PRECOMP {
            Some(SqrtPrecomputation::TonelliShanks { quadratic_nonresidue_to_trace, .. }) => Some(raw(quadratic_nonresidue_to_trace)),
            _ => None,
        };
        PrimeC {
            n: N,
            modulus: <F<T, N> as PrimeField>::MODULUS.0.to_vec(),
            r: T::R.0.to_vec(),
            r2: T::R2.0.to_vec(),
            inv: T::INV,
            generator: raw(<F<T, N> as FftField>::GENERATOR),
            two_adic_root: raw(<F<T, N> as FftField>::TWO_ADIC_ROOT_OF_UNITY),
            small_base: <F<T, N> as FftField>::SMALL_SUBGROUP_BASE,
            small_adicity: <F<T, N> as FftField>::SMALL_SUBGROUP_BASE_ADICITY,
            large_root: <F<T, N> as FftField>::LARGE_SUBGROUP_ROOT_OF_UNITY.map(raw),
            no_carry_mul: T::CAN_USE_NO_CARRY_MUL_OPT,
            no_carry_sq: T::CAN_USE_NO_CARRY_SQUARE_OPT,
            spare_bit: T::MODULUS_HAS_SPARE_BIT,
            mp1d4: T::MODULUS_PLUS_ONE_DIV_FOUR.map(|b| b.0.to_vec()),
            sqrt,
            sqrt_qnr_raw,
            bit_size: <F<T, N> as PrimeField>::MODULUS_BIT_SIZE,
            mm1d2: <F<T, N> as PrimeField>::MODULUS_MINUS_ONE_DIV_TWO.0.to_vec(),
            trace: <F<T, N> as PrimeField>::TRACE.0.to_vec(),
            tm1d2: <F<T, N> as PrimeField>::TRACE_MINUS_ONE_DIV_TWO.0.to_vec(),
            two_adicity: <F<T, N> as FftField>::TWO_ADICITY,
            zero: raw(<F<T, N> as ark_ff::AdditiveGroup>::ZERO),
            one: raw(<F<T, N> as Field>::ONE),
            characteristic: <F<T, N> as Field>::characteristic().to_vec(),
            extension_degree: <F<T, N> as Field>::extension_degree(),
            get_root: |n| <F<T, N> as FftField>::get_root_of_unity(n).map(|x| x.0 .0.to_vec()),
            from_str: |s| <F<T, N> as core::str::FromStr>::from_str(s).ok().map(|x| x.0 .0.to_vec()),
            from_bigint: |l| {
                <F<T, N> as PrimeField>::from_bigint(ark_ff::BigInt::<N>(l.try_into().expect("limb count"))).map(|x| x.0 .0.to_vec())
            },
            from_biguint: |v| <F<T, N> as From<UInt>>::from(v.clone()).0 .0.to_vec(),
            neg: |l| (-Fp::<MontBackend<T, N>, N>(ark_ff::BigInt::<N>(l.try_into().expect("limb count")), core::marker::PhantomData)).0 .0.to_vec(),
        }
    }
}

// ------------------------------------------------------------------------------------------------
// tower levels

#[derive(Clone)]
pub struct FrobTable {
    pub name: &'static str,
    /// table j multiplies coefficient c_j: entry i must be NONRESIDUE^(j (p^i - 1)/deg)
    pub j: usize,
    /// depth (in the base tower) of the field the table entries live in
    pub coeff_depth: usize,
    pub entries: Vec<Vec<UInt>>,
}

#[derive(Clone)]
pub struct Fp3Extra {
    pub two_adicity: u32,
    pub tm1d2: Vec<u64>,
    pub qnr_to_t: Vec<UInt>,
}

#[derive(Clone)]
pub struct LevelC {
    pub kind: &'static str,
    /// tower of the field this level extends
    pub base: Tower,
    pub deg: usize,
    pub nonresidue: Vec<UInt>,
    /// value the model documents NONRESIDUE must have (flat), if any
    pub must_equal: Option<Vec<UInt>>,
    pub degree_over_prime: usize,
    pub frob: Vec<FrobTable>,
    pub fp3: Option<Fp3Extra>,
    pub sqrt: SqrtC,
    /// what the generic wrapper (QuadExtConfig/CubicExtConfig) reports: NONRESIDUE, DEGREE_OVER_BASE_PRIME_FIELD
    pub wrapper_nonresidue: Vec<UInt>,
    pub wrapper_degree: usize,
    pub extension_degree: u64,
}

fn tbl<F: Field>(name: &'static str, j: usize, coeff_depth: usize, t: &[F]) -> FrobTable {
    FrobTable { name, j, coeff_depth, entries: t.iter().map(flat).collect() }
}

pub fn fp2_c<P: Fp2Config>() -> LevelC
where
    P::Fp: TowerSpec,
{
    LevelC {
        kind: "Fp2",
        base: <P::Fp as TowerSpec>::tower(),
        deg: 2,
        nonresidue: flat(&P::NONRESIDUE),
        must_equal: None,
        degree_over_prime: 2,
        frob: vec![tbl("FROBENIUS_COEFF_FP2_C1", 1, 0, P::FROBENIUS_COEFF_FP2_C1)],
        fp3: None,
        sqrt: sqrt_c::<Fp2<P>>(),
        wrapper_nonresidue: flat(&<ark_ff::Fp2ConfigWrapper<P> as QuadExtConfig>::NONRESIDUE),
        wrapper_degree: <ark_ff::Fp2ConfigWrapper<P> as QuadExtConfig>::DEGREE_OVER_BASE_PRIME_FIELD,
        extension_degree: <Fp2<P> as Field>::extension_degree(),
    }
}

pub fn fp3_c<P: Fp3Config>() -> LevelC
where
    P::Fp: TowerSpec,
{
    LevelC {
        kind: "Fp3",
        base: <P::Fp as TowerSpec>::tower(),
        deg: 3,
        nonresidue: flat(&P::NONRESIDUE),
        must_equal: None,
        degree_over_prime: 3,
        frob: vec![tbl("FROBENIUS_COEFF_FP3_C1", 1, 0, P::FROBENIUS_COEFF_FP3_C1), tbl("FROBENIUS_COEFF_FP3_C2", 2, 0, P::FROBENIUS_COEFF_FP3_C2)],
        fp3: Some(Fp3Extra { two_adicity: P::TWO_ADICITY, tm1d2: P::TRACE_MINUS_ONE_DIV_TWO.to_vec(), qnr_to_t: flat(&P::QUADRATIC_NONRESIDUE_TO_T) }),
        sqrt: sqrt_c::<Fp3<P>>(),
        wrapper_nonresidue: flat(&<ark_ff::Fp3ConfigWrapper<P> as CubicExtConfig>::NONRESIDUE),
        wrapper_degree: <ark_ff::Fp3ConfigWrapper<P> as CubicExtConfig>::DEGREE_OVER_BASE_PRIME_FIELD,
        extension_degree: <Fp3<P> as Field>::extension_degree(),
    }
}

pub fn fp4_c<P: Fp4Config>() -> LevelC
where
    <P::Fp2Config as Fp2Config>::Fp: TowerSpec,
{
    LevelC {
        kind: "Fp4",
        base: <Fp2<P::Fp2Config> as TowerSpec>::tower(),
        deg: 2,
        nonresidue: flat(&P::NONRESIDUE),
        must_equal: Some(vec![UInt::zero(), UInt::one()]),
        degree_over_prime: 4,
        frob: vec![tbl("FROBENIUS_COEFF_FP4_C1", 1, 0, P::FROBENIUS_COEFF_FP4_C1)],
        fp3: None,
        sqrt: sqrt_c::<Fp4<P>>(),
        wrapper_nonresidue: flat(&<ark_ff::Fp4ConfigWrapper<P> as QuadExtConfig>::NONRESIDUE),
        wrapper_degree: <ark_ff::Fp4ConfigWrapper<P> as QuadExtConfig>::DEGREE_OVER_BASE_PRIME_FIELD,
        extension_degree: <Fp4<P> as Field>::extension_degree(),
    }
}

/// Fp6 as a quadratic extension of Fp3
pub fn fp6a_c<P: Fp6AConfig>() -> LevelC
where
    <P::Fp3Config as Fp3Config>::Fp: TowerSpec,
{
    LevelC {
        kind: "Fp6_2over3",
        base: <Fp3<P::Fp3Config> as TowerSpec>::tower(),
        deg: 2,
        nonresidue: flat(&P::NONRESIDUE),
        // mul_fp3_by_nonresidue_in_place hard-codes multiplication by the cube root (0,1,0)
        must_equal: Some(vec![UInt::zero(), UInt::one(), UInt::zero()]),
        degree_over_prime: 6,
        frob: vec![tbl("FROBENIUS_COEFF_FP6_C1", 1, 0, P::FROBENIUS_COEFF_FP6_C1)],
        fp3: None,
        sqrt: sqrt_c::<Fp6A<P>>(),
        wrapper_nonresidue: flat(&<ark_ff::fields::fp6_2over3::Fp6ConfigWrapper<P> as QuadExtConfig>::NONRESIDUE),
        wrapper_degree: <ark_ff::fields::fp6_2over3::Fp6ConfigWrapper<P> as QuadExtConfig>::DEGREE_OVER_BASE_PRIME_FIELD,
        extension_degree: <Fp6A<P> as Field>::extension_degree(),
    }
}

/// Fp6 as a cubic extension of Fp2
pub fn fp6b_c<P: Fp6BConfig>() -> LevelC
where
    <P::Fp2Config as Fp2Config>::Fp: TowerSpec,
{
    LevelC {
        kind: "Fp6_3over2",
        base: <Fp2<P::Fp2Config> as TowerSpec>::tower(),
        deg: 3,
        nonresidue: flat(&P::NONRESIDUE),
        must_equal: None,
        degree_over_prime: 6,
        frob: vec![tbl("FROBENIUS_COEFF_FP6_C1", 1, 1, P::FROBENIUS_COEFF_FP6_C1), tbl("FROBENIUS_COEFF_FP6_C2", 2, 1, P::FROBENIUS_COEFF_FP6_C2)],
        fp3: None,
        sqrt: sqrt_c::<Fp6B<P>>(),
        wrapper_nonresidue: flat(&<ark_ff::fields::fp6_3over2::Fp6ConfigWrapper<P> as CubicExtConfig>::NONRESIDUE),
        wrapper_degree: <ark_ff::fields::fp6_3over2::Fp6ConfigWrapper<P> as CubicExtConfig>::DEGREE_OVER_BASE_PRIME_FIELD,
        extension_degree: <Fp6B<P> as Field>::extension_degree(),
    }
}

pub fn fp12_c<P: Fp12Config>() -> LevelC
where
    <<P::Fp6Config as Fp6BConfig>::Fp2Config as Fp2Config>::Fp: TowerSpec,
{
    LevelC {
        kind: "Fp12_2over3over2",
        base: <Fp6B<P::Fp6Config> as TowerSpec>::tower(),
        deg: 2,
        nonresidue: flat(&P::NONRESIDUE),
        must_equal: Some(vec![UInt::zero(), UInt::zero(), UInt::one(), UInt::zero(), UInt::zero(), UInt::zero()]),
        degree_over_prime: 12,
        frob: vec![tbl("FROBENIUS_COEFF_FP12_C1", 1, 1, P::FROBENIUS_COEFF_FP12_C1)],
        fp3: None,
        sqrt: sqrt_c::<Fp12<P>>(),
        wrapper_nonresidue: flat(&<ark_ff::Fp12ConfigWrapper<P> as QuadExtConfig>::NONRESIDUE),
        wrapper_degree: <ark_ff::Fp12ConfigWrapper<P> as QuadExtConfig>::DEGREE_OVER_BASE_PRIME_FIELD,
        extension_degree: <Fp12<P> as Field>::extension_degree(),
    }
}

// ------------------------------------------------------------------------------------------------
// curves

pub type FlatPt = (Vec<UInt>, Vec<UInt>);

#[derive(Clone)]
pub struct SwC {
    pub base: Tower,
    pub a: Vec<UInt>,
    pub b: Vec<UInt>,
    pub g: FlatPt,
    pub g_infinity: bool,
    pub r: UInt,
    pub cofactor: Vec<u64>,
    /// the derived predicate `CurveConfig::cofactor_is_one()` (it switches subgroup checks off)
    pub cofactor_is_one: bool,
    pub cofactor_inv: UInt,
    /// points of E(F_q) found by solving y^2 = x^3 + a x + b for random x with the library's square root
    /// (membership is re-checked by the oracle, so the library is only a point *finder* here)
    pub rand_points: fn(&mut Rng, usize) -> Vec<FlatPt>,
    /// (e, mul_by_a(e), add_b(e)) for random base-field elements e: the configuration's (possibly overridden) helpers
    pub helpers: fn(&mut Rng, usize) -> Vec<(Vec<UInt>, Vec<UInt>, Vec<UInt>)>,
}

fn sw_helpers<C: SWCurveConfig>(rng: &mut Rng, n: usize) -> Vec<(Vec<UInt>, Vec<UInt>, Vec<UInt>)> {
    (0..n)
        .map(|i| {
            let e = match i {
                0 => C::BaseField::ONE,
                _ => C::BaseField::rand(rng),
            };
            (flat(&e), flat(&C::mul_by_a(e)), flat(&C::add_b(e)))
        })
        .collect()
}

fn sw_rand_points<C: SWCurveConfig>(rng: &mut Rng, n: usize) -> Vec<FlatPt> {
    let mut out = vec![];
    let mut tries = 0;
    while out.len() < n && tries < 64 * n + 64 {
        tries += 1;
        let x = C::BaseField::rand(rng);
        let rhs = x * x * x + C::COEFF_A * x + C::COEFF_B;
        if let Some(y) = rhs.sqrt() {
            out.push((flat(&x), flat(&y)));
        }
    }
    out
}

pub fn sw_c<C: SWCurveConfig>() -> SwC
where
    C::BaseField: TowerSpec,
{
    let g: SwAffine<C> = C::GENERATOR;
    SwC {
        base: <C::BaseField as TowerSpec>::tower(),
        a: flat(&C::COEFF_A),
        b: flat(&C::COEFF_B),
        g: (flat(&g.x), flat(&g.y)),
        g_infinity: g.infinity,
        r: from_limbs(<C::ScalarField as PrimeField>::MODULUS.as_ref()),
        cofactor: C::COFACTOR.to_vec(),
        cofactor_is_one: <C as ark_ec::CurveConfig>::cofactor_is_one(),
        cofactor_inv: pf_uint(&C::COFACTOR_INV),
        rand_points: sw_rand_points::<C>,
        helpers: sw_helpers::<C>,
    }
}

#[derive(Clone)]
pub struct TeC {
    pub base: Tower,
    pub a: Vec<UInt>,
    pub d: Vec<UInt>,
    pub g: FlatPt,
    pub r: UInt,
    pub cofactor: Vec<u64>,
    /// the derived predicate `CurveConfig::cofactor_is_one()` (it switches subgroup checks off)
    pub cofactor_is_one: bool,
    pub cofactor_inv: UInt,
    pub mont_a: Vec<UInt>,
    pub mont_b: Vec<UInt>,
    pub rand_points: fn(&mut Rng, usize) -> Vec<FlatPt>,
    /// (e, mul_by_a(e)) for random base-field elements
    pub helpers: fn(&mut Rng, usize) -> Vec<(Vec<UInt>, Vec<UInt>)>,
}

fn te_helpers<C: TECurveConfig>(rng: &mut Rng, n: usize) -> Vec<(Vec<UInt>, Vec<UInt>)> {
    (0..n)
        .map(|i| {
            let e = match i {
                0 => C::BaseField::ONE,
                _ => C::BaseField::rand(rng),
            };
            (flat(&e), flat(&C::mul_by_a(e)))
        })
        .collect()
}

fn te_rand_points<C: TECurveConfig>(rng: &mut Rng, n: usize) -> Vec<FlatPt> {
    // a x^2 + y^2 = 1 + d x^2 y^2  =>  x^2 = (1 - y^2) / (a - d y^2)
    let mut out = vec![];
    let mut tries = 0;
    while out.len() < n && tries < 64 * n + 64 {
        tries += 1;
        let y = C::BaseField::rand(rng);
        let yy = y * y;
        let den = C::COEFF_A - C::COEFF_D * yy;
        let Some(di) = den.inverse() else { continue };
        if let Some(x) = ((C::BaseField::ONE - yy) * di).sqrt() {
            out.push((flat(&x), flat(&y)));
        }
    }
    out
}

pub fn te_c<C: TECurveConfig>() -> TeC
where
    C::BaseField: TowerSpec,
{
    let g = C::GENERATOR;
    TeC {
        base: <C::BaseField as TowerSpec>::tower(),
        a: flat(&<C as TECurveConfig>::COEFF_A),
        d: flat(&C::COEFF_D),
        g: (flat(&g.x), flat(&g.y)),
        r: from_limbs(<C::ScalarField as PrimeField>::MODULUS.as_ref()),
        cofactor: C::COFACTOR.to_vec(),
        cofactor_is_one: <C as ark_ec::CurveConfig>::cofactor_is_one(),
        cofactor_inv: pf_uint(&C::COFACTOR_INV),
        mont_a: flat(&<C::MontCurveConfig as MontCurveConfig>::COEFF_A),
        mont_b: flat(&<C::MontCurveConfig as MontCurveConfig>::COEFF_B),
        rand_points: te_rand_points::<C>,
        helpers: te_helpers::<C>,
    }
}

#[derive(Clone)]
pub struct GlvC {
    pub endo_coeffs: Vec<Vec<UInt>>,
    pub lambda: UInt,
    pub decomp: Vec<(bool, UInt)>,
    /// the library's endomorphism applied to the generator (cross-check of the convention phi(x,y) = (beta x, y))
    pub endo_of_g: FlatPt,
}

pub fn glv_c<C: GLVConfig>() -> GlvC {
    let e = C::endomorphism_affine(&C::GENERATOR);
    GlvC {
        endo_coeffs: C::ENDO_COEFFS.iter().map(flat).collect(),
        lambda: pf_uint(&C::LAMBDA),
        decomp: C::SCALAR_DECOMP_COEFFS.iter().map(|(s, b)| (*s, from_limbs(b.as_ref()))).collect(),
        endo_of_g: (flat(&e.x), flat(&e.y)),
    }
}

// ------------------------------------------------------------------------------------------------
// hash-to-curve

#[derive(Clone)]
pub struct WbC {
    pub iso: SwC,
    pub zeta: Vec<UInt>,
    pub x_num: Vec<Vec<UInt>>,
    pub x_den: Vec<Vec<UInt>>,
    pub y_num: Vec<Vec<UInt>>,
    pub y_den: Vec<Vec<UInt>>,
}

pub fn swu_zeta<C: SWUConfig>() -> Vec<UInt> {
    flat(&C::ZETA)
}

pub fn wb_c<C: WBConfig>() -> WbC
where
    C::BaseField: TowerSpec,
{
    let m = C::ISOGENY_MAP;
    let f = |v: &[C::BaseField]| v.iter().map(flat).collect::<Vec<_>>();
    WbC {
        iso: sw_c::<C::IsogenousCurve>(),
        zeta: swu_zeta::<C::IsogenousCurve>(),
        x_num: f(m.x_map_numerator),
        x_den: f(m.x_map_denominator),
        y_num: f(m.y_map_numerator),
        y_den: f(m.y_map_denominator),
    }
}

#[derive(Clone)]
pub struct Ell2C {
    pub z: Vec<UInt>,
    pub one_over_b_sq: Vec<UInt>,
    pub a_over_b: Vec<UInt>,
}

pub fn ell2_c<C: Elligator2Config>() -> Ell2C {
    Ell2C { z: flat(&C::Z), one_over_b_sq: flat(&C::ONE_OVER_COEFF_B_SQUARE), a_over_b: flat(&C::COEFF_A_OVER_COEFF_B) }
}

// ------------------------------------------------------------------------------------------------
// pairing families

#[derive(Clone, Copy, PartialEq, Eq, Debug)]
pub enum Twist {
    M,
    D,
}

#[derive(Clone)]
pub struct Bls12C {
    pub x: Vec<u64>,
    pub x_neg: bool,
    pub twist: Twist,
    pub p: UInt,
    pub g1: SwC,
    pub g2: SwC,
    /// Fp6Config::NONRESIDUE (the sextic twist element xi in Fp2)
    pub xi: Vec<UInt>,
}

pub fn bls12_c<P: ark_ec::bls12::Bls12Config>() -> Bls12C
where
    P::Fp: TowerSpec,
{
    Bls12C {
        x: P::X.to_vec(),
        x_neg: P::X_IS_NEGATIVE,
        twist: match P::TWIST_TYPE {
            ark_ec::bls12::TwistType::M => Twist::M,
            ark_ec::bls12::TwistType::D => Twist::D,
        },
        p: from_limbs(<P::Fp as PrimeField>::MODULUS.as_ref()),
        g1: sw_c::<P::G1Config>(),
        g2: sw_c::<P::G2Config>(),
        xi: flat(&<P::Fp6Config as Fp6BConfig>::NONRESIDUE),
    }
}

#[derive(Clone)]
pub struct BnC {
    pub x: Vec<u64>,
    pub x_neg: bool,
    pub ate: Vec<i8>,
    pub twist: Twist,
    pub mul_by_q_x: Vec<UInt>,
    pub mul_by_q_y: Vec<UInt>,
    pub p: UInt,
    pub g1: SwC,
    pub g2: SwC,
    pub xi: Vec<UInt>,
}

pub fn bn_c<P: ark_ec::bn::BnConfig>() -> BnC
where
    P::Fp: TowerSpec,
{
    BnC {
        x: P::X.to_vec(),
        x_neg: P::X_IS_NEGATIVE,
        ate: P::ATE_LOOP_COUNT.to_vec(),
        twist: match P::TWIST_TYPE {
            ark_ec::bn::TwistType::M => Twist::M,
            ark_ec::bn::TwistType::D => Twist::D,
        },
        mul_by_q_x: flat(&P::TWIST_MUL_BY_Q_X),
        mul_by_q_y: flat(&P::TWIST_MUL_BY_Q_Y),
        p: from_limbs(<P::Fp as PrimeField>::MODULUS.as_ref()),
        g1: sw_c::<P::G1Config>(),
        g2: sw_c::<P::G2Config>(),
        xi: flat(&<P::Fp6Config as Fp6BConfig>::NONRESIDUE),
    }
}

#[derive(Clone)]
pub struct Bw6C {
    pub x: Vec<u64>,
    pub x_neg: bool,
    pub x_minus_1_div_3: Vec<u64>,
    pub ate1: Vec<u64>,
    pub ate1_neg: bool,
    pub ate2: Vec<i8>,
    pub ate2_neg: bool,
    pub twist: Twist,
    pub h_t: i64,
    pub h_y: i64,
    pub t_mod_r_is_zero: bool,
    pub p: UInt,
    pub g1: SwC,
    pub g2: SwC,
    /// Fp3Config::NONRESIDUE
    pub xi: Vec<UInt>,
}

pub fn bw6_c<P: ark_ec::bw6::BW6Config>() -> Bw6C
where
    P::Fp: TowerSpec,
{
    Bw6C {
        x: limbs_of(&P::X),
        x_neg: P::X_IS_NEGATIVE,
        x_minus_1_div_3: limbs_of(&P::X_MINUS_1_DIV_3),
        ate1: P::ATE_LOOP_COUNT_1.to_vec(),
        ate1_neg: P::ATE_LOOP_COUNT_1_IS_NEGATIVE,
        ate2: P::ATE_LOOP_COUNT_2.to_vec(),
        ate2_neg: P::ATE_LOOP_COUNT_2_IS_NEGATIVE,
        twist: match P::TWIST_TYPE {
            ark_ec::bw6::TwistType::M => Twist::M,
            ark_ec::bw6::TwistType::D => Twist::D,
        },
        h_t: P::H_T,
        h_y: P::H_Y,
        t_mod_r_is_zero: P::T_MOD_R_IS_ZERO,
        p: from_limbs(<P::Fp as PrimeField>::MODULUS.as_ref()),
        g1: sw_c::<P::G1Config>(),
        g2: sw_c::<P::G2Config>(),
        xi: flat(&<P::Fp3Config as Fp3Config>::NONRESIDUE),
    }
}

#[derive(Clone)]
pub struct MntC {
    pub k: usize,
    pub twist: Vec<UInt>,
    pub twist_coeff_a: Vec<UInt>,
    pub ate: Vec<i8>,
    pub ate_neg: bool,
    pub w1: Vec<u64>,
    pub w0_neg: bool,
    pub w0_abs: Vec<u64>,
    pub p: UInt,
    pub r: UInt,
    pub g1: SwC,
    pub g2: SwC,
}

pub fn mnt4_c<P: ark_ec::mnt4::MNT4Config>() -> MntC
where
    P::Fp: TowerSpec,
{
    MntC {
        k: 4,
        twist: flat(&P::TWIST),
        twist_coeff_a: flat(&P::TWIST_COEFF_A),
        ate: P::ATE_LOOP_COUNT.to_vec(),
        ate_neg: P::ATE_IS_LOOP_COUNT_NEG,
        w1: limbs_of(&P::FINAL_EXPONENT_LAST_CHUNK_1),
        w0_neg: P::FINAL_EXPONENT_LAST_CHUNK_W0_IS_NEG,
        w0_abs: limbs_of(&P::FINAL_EXPONENT_LAST_CHUNK_ABS_OF_W0),
        p: from_limbs(<P::Fp as PrimeField>::MODULUS.as_ref()),
        r: from_limbs(<P::Fr as PrimeField>::MODULUS.as_ref()),
        g1: sw_c::<P::G1Config>(),
        g2: sw_c::<P::G2Config>(),
    }
}

pub fn mnt6_c<P: ark_ec::mnt6::MNT6Config>() -> MntC
where
    P::Fp: TowerSpec,
{
    MntC {
        k: 6,
        twist: flat(&P::TWIST),
        twist_coeff_a: flat(&P::TWIST_COEFF_A),
        ate: P::ATE_LOOP_COUNT.to_vec(),
        ate_neg: P::ATE_IS_LOOP_COUNT_NEG,
        w1: limbs_of(&P::FINAL_EXPONENT_LAST_CHUNK_1),
        w0_neg: P::FINAL_EXPONENT_LAST_CHUNK_W0_IS_NEG,
        w0_abs: limbs_of(&P::FINAL_EXPONENT_LAST_CHUNK_ABS_OF_W0),
        p: from_limbs(<P::Fp as PrimeField>::MODULUS.as_ref()),
        r: from_limbs(<P::Fr as PrimeField>::MODULUS.as_ref()),
        g1: sw_c::<P::G1Config>(),
        g2: sw_c::<P::G2Config>(),
    }
}
