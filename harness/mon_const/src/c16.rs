//! C16 — every shipped field and curve configuration is internally consistent.
//! The registry below names every configuration type of test-curves and the 27 curves/* crates; each
//! becomes one work item whose obligations are evaluated on adapter data by non-generic code.
use crate::adapt::*;
use crate::chk::Ck;
use crate::curves::*;
use crate::fields::*;
use crate::h2c::*;
use crate::ora::*;
use crate::pairings::*;
use crate::towers::*;
use ark_ec::hashing::curve_maps::wb::WBConfig;
use cfgs::shipped as s;
use monitor::*;

pub const RULE: &str = "cases = (configuration, obligation): one evaluation per declared or derived constant (or defining equation) of every \
prime field, extension-tower level, curve, GLV, pairing and hash-to-curve parameter set shipped in test-curves and curves/*; each is recomputed \
independently with num-bigint, the schoolbook tower model and textbook affine curve arithmetic over that model; all obligations are non-trivial; \
distinct = digest of (configuration name, obligation name); random curve points / point pairs (seeded) feed the cofactor and isogeny equations";

fn budget(args: &Args) -> (usize, usize) {
    // (random points for COFACTOR*r, random pairs for isogenies)
    args.pick((4, 8), (24, 64))
}

fn require_all(rep: &mut Report, fams: &[&str]) {
    for f in fams {
        rep.require_here(f);
        rep.require(f);
    }
}

fn field_item<F: HasPrimeC>(name: &'static str) -> Item {
    Item::new(format!("field/{name}"), move |rep, _rng, _args| {
        for f in FIELD_FAMILIES {
            rep.require(f);
            // the get_root_of_unity obligations are skipped for a field whose GENERATOR is a square
            if *f != F_GETROOT {
                rep.require_here(f);
            }
        }
        let c = F::prime_c();
        let mut ck = Ck::new(rep, name);
        check_prime_field(&mut ck, &c);
    })
}

fn level_item(name: &'static str, f: fn() -> LevelC) -> Item {
    Item::new(format!("tower/{name}"), move |rep, _rng, _args| {
        require_all(rep, &[T_NONRES, T_SHAPE, T_FROB]);
        let c = f();
        let mut ck = Ck::new(rep, name);
        check_level(&mut ck, &c);
        if c.fp3.is_some() {
            ck.rep.require_here(T_FP3);
        }
    })
}

fn sw_item(name: &'static str, f: fn() -> SwC) -> Item {
    Item::new(format!("curve/{name}"), move |rep, rng, args| {
        require_all(rep, &[C_COEFF, C_GEN, C_ORDER, C_COFINV, C_HELP]);
        let c = f();
        let mut ck = Ck::new(rep, name);
        ck.rep.class("curve model: short Weierstrass");
        check_sw(&mut ck, &c, rng, budget(args).0);
    })
}

fn te_item(name: &'static str, f: fn() -> TeC) -> Item {
    Item::new(format!("curve/{name}"), move |rep, rng, args| {
        require_all(rep, &[C_COEFF, C_GEN, C_ORDER, C_COFINV, C_TEMONT, C_HELP]);
        let c = f();
        let mut ck = Ck::new(rep, name);
        ck.rep.class("curve model: twisted Edwards");
        check_te(&mut ck, &c, rng, budget(args).0);
    })
}

fn te_sw_item(name: &'static str, te: fn() -> TeC, sw: fn() -> SwC) -> Item {
    Item::new(format!("forms/{name}"), move |rep, _rng, _args| {
        require_all(rep, &[C_TESW]);
        let mut ck = Ck::new(rep, name);
        check_te_sw(&mut ck, &te(), &sw());
    })
}

fn glv_item(name: &'static str, sw: fn() -> SwC, g: fn() -> GlvC) -> Item {
    Item::new(format!("glv/{name}"), move |rep, _rng, _args| {
        require_all(rep, &[G_BETA, G_LAMBDA, G_PHI, G_LATTICE]);
        let mut ck = Ck::new(rep, name);
        check_glv(&mut ck, &sw(), &g());
    })
}

fn wb_item(name: &'static str, sw: fn() -> SwC, w: fn() -> WbC) -> Item {
    Item::new(format!("h2c/{name}"), move |rep, rng, args| {
        require_all(rep, &[H_SWU, H_ISO_GEN, H_ISO_HOM, H_ISO_DEG]);
        let mut ck = Ck::new(rep, name);
        check_wb(&mut ck, &sw(), &w(), rng, budget(args).1);
    })
}

/// cp6_782 keeps its pairing constants as plain items next to a crate-local engine
fn cp6_782_c() -> MntC {
    use s::cp6_782 as c;
    let ate_limbs = c::ATE_LOOP_COUNT.to_vec();
    let v = from_limbs(&ate_limbs);
    let ate: Vec<i8> = (0..v.bits()).rev().map(|i| v.bit(i) as i8).collect();
    let g2 = sw_c::<c::g2::Config>();
    MntC {
        k: 6,
        twist: flat(&c::TWIST),
        // the crate has no TWIST_COEFF_A item; G2's own COEFF_A plays that role
        twist_coeff_a: g2.a.clone(),
        ate,
        ate_neg: c::ATE_IS_LOOP_COUNT_NEG,
        w1: limbs_of(&c::FINAL_EXPONENT_LAST_CHUNK_W1),
        w0_neg: c::FINAL_EXPONENT_LAST_CHUNK_W0_IS_NEG,
        w0_abs: limbs_of(&c::FINAL_EXPONENT_LAST_CHUNK_ABS_OF_W0),
        p: g2.base.p.clone(),
        r: g2.r.clone(),
        g1: sw_c::<c::g1::Config>(),
        g2,
    }
}

pub fn items(_args: &Args) -> Vec<Item> {
    let mut v: Vec<Item> = vec![];

    // ---------------- heavy items first (scheduling): 753/782-bit towers and curves
    macro_rules! lvl {
        ($name:literal, $f:expr) => {
            v.push(level_item($name, || $f));
        };
    }
    macro_rules! sw {
        ($name:literal, $c:ty) => {
            v.push(sw_item($name, || sw_c::<$c>()));
        };
    }
    macro_rules! te {
        ($name:literal, $c:ty) => {
            v.push(te_item($name, || te_c::<$c>()));
        };
    }
    macro_rules! glv {
        ($name:literal, $c:ty) => {
            v.push(glv_item($name, || sw_c::<$c>(), || glv_c::<$c>()));
        };
    }
    macro_rules! wb {
        ($name:literal, $iso_name:literal, $c:ty) => {
            v.push(wb_item($name, || sw_c::<$c>(), || wb_c::<$c>()));
            v.push(sw_item($iso_name, || sw_c::<<$c as WBConfig>::IsogenousCurve>()));
        };
    }

    // pairing-friendly towers
    lvl!("mnt6_753::Fq6", fp6a_c::<s::mnt6_753::Fq6Config>());
    lvl!("cp6_782::Fq6", fp6a_c::<s::cp6_782::Fq6Config>());
    lvl!("bw6_761::Fq6", fp6a_c::<s::bw6_761::Fq6Config>());
    lvl!("bw6_767::Fq6", fp6a_c::<s::bw6_767::Fq6Config>());
    lvl!("mnt4_753::Fq4", fp4_c::<s::mnt4_753::Fq4Config>());
    lvl!("bls12_381::Fq12", fp12_c::<s::bls12_381::Fq12Config>());
    lvl!("bls12_377::Fq12", fp12_c::<s::bls12_377::Fq12Config>());
    lvl!("tc::bls12_381::Fq12", fp12_c::<s::tc::bls12_381::Fq12Config>());
    lvl!("bn254::Fq12", fp12_c::<s::bn254::Fq12Config>());
    lvl!("mnt6_753::Fq3", fp3_c::<s::mnt6_753::Fq3Config>());
    lvl!("tc::mnt6_753::Fq3", fp3_c::<s::tc::mnt6_753::Fq3Config>());
    lvl!("cp6_782::Fq3", fp3_c::<s::cp6_782::Fq3Config>());
    lvl!("bw6_761::Fq3", fp3_c::<s::bw6_761::Fq3Config>());
    lvl!("bw6_767::Fq3", fp3_c::<s::bw6_767::Fq3Config>());
    lvl!("mnt6_298::Fq6", fp6a_c::<s::mnt6_298::Fq6Config>());
    lvl!("mnt6_298::Fq3", fp3_c::<s::mnt6_298::Fq3Config>());
    lvl!("mnt4_753::Fq2", fp2_c::<s::mnt4_753::Fq2Config>());
    lvl!("mnt4_298::Fq4", fp4_c::<s::mnt4_298::Fq4Config>());
    lvl!("mnt4_298::Fq2", fp2_c::<s::mnt4_298::Fq2Config>());
    lvl!("bls12_381::Fq6", fp6b_c::<s::bls12_381::Fq6Config>());
    lvl!("bls12_377::Fq6", fp6b_c::<s::bls12_377::Fq6Config>());
    lvl!("tc::bls12_381::Fq6", fp6b_c::<s::tc::bls12_381::Fq6Config>());
    lvl!("bn254::Fq6", fp6b_c::<s::bn254::Fq6Config>());
    lvl!("bls12_381::Fq2", fp2_c::<s::bls12_381::Fq2Config>());
    lvl!("bls12_377::Fq2", fp2_c::<s::bls12_377::Fq2Config>());
    lvl!("tc::bls12_381::Fq2", fp2_c::<s::tc::bls12_381::Fq2Config>());
    lvl!("bn254::Fq2", fp2_c::<s::bn254::Fq2Config>());
    // toy towers whose tables were computed independently: validate the reading of the tables
    lvl!("toy::F7_2", fp2_c::<cfgs::toy_towers::F7_2Cfg>());
    lvl!("toy::F17_2", fp2_c::<cfgs::toy_towers::F17_2Cfg>());
    lvl!("toy::F7_3", fp3_c::<cfgs::toy_towers::F7_3Cfg>());
    lvl!("toy::F13_3", fp3_c::<cfgs::toy_towers::F13_3Cfg>());

    // short Weierstrass curves
    sw!("mnt6_753::g2", s::mnt6_753::g2::Config);
    sw!("cp6_782::g2", s::cp6_782::g2::Config);
    sw!("mnt4_753::g2", s::mnt4_753::g2::Config);
    sw!("mnt6_753::g1", s::mnt6_753::g1::Config);
    sw!("mnt4_753::g1", s::mnt4_753::g1::Config);
    sw!("tc::mnt4_753::g1", s::tc::mnt4_753::g1::Config);
    sw!("cp6_782::g1", s::cp6_782::g1::Config);
    sw!("bw6_761::g1", s::bw6_761::g1::Config);
    sw!("bw6_761::g2", s::bw6_761::g2::Config);
    sw!("bw6_767::g1", s::bw6_767::g1::Config);
    sw!("bw6_767::g2", s::bw6_767::g2::Config);
    sw!("mnt6_298::g2", s::mnt6_298::g2::Config);
    sw!("mnt4_298::g2", s::mnt4_298::g2::Config);
    sw!("mnt6_298::g1", s::mnt6_298::g1::Config);
    sw!("mnt4_298::g1", s::mnt4_298::g1::Config);
    sw!("bls12_381::g1", s::bls12_381::g1::Config);
    sw!("bls12_381::g2", s::bls12_381::g2::Config);
    sw!("bls12_377::g1", s::bls12_377::g1::Config);
    sw!("bls12_377::g2", s::bls12_377::g2::Config);
    sw!("tc::bls12_381::g1", s::tc::bls12_381::g1::Config);
    sw!("tc::bls12_381::g2", s::tc::bls12_381::g2::Config);
    sw!("tc::bn384::g1", s::tc::bn384_small_two_adicity::g1::Config);
    sw!("tc::secp256k1::g1", s::tc::secp256k1::Config);
    sw!("bn254::g1", s::bn254::g1::Config);
    sw!("bn254::g2", s::bn254::g2::Config);
    sw!("grumpkin", s::grumpkin::GrumpkinConfig);
    sw!("pallas", s::pallas::PallasConfig);
    sw!("vesta", s::vesta::VestaConfig);
    sw!("secp256k1", s::secp256k1::Config);
    sw!("secp256r1", s::secp256r1::Config);
    sw!("secp384r1", s::secp384r1::Config);
    sw!("secq256k1", s::secq256k1::Config);
    sw!("ed_on_bls12_381::sw", s::ed_on_bls12_381::JubjubConfig);
    sw!("bandersnatch::sw", s::bandersnatch::BandersnatchConfig);

    // twisted Edwards curves
    te!("ed_on_mnt4_753", s::ed_on_mnt4_753::EdwardsConfig);
    te!("ed_on_cp6_782", s::ed_on_cp6_782::EdwardsConfig);
    te!("ed_on_bw6_761", s::ed_on_bw6_761::EdwardsConfig);
    te!("bls12_377::g1::te", s::bls12_377::g1::Config);
    te!("ed_on_mnt4_298", s::ed_on_mnt4_298::EdwardsConfig);
    te!("curve25519", s::curve25519::Curve25519Config);
    te!("ed25519", s::ed25519::EdwardsConfig);
    te!("ed_on_bls12_377", s::ed_on_bls12_377::EdwardsConfig);
    te!("ed_on_bls12_381", s::ed_on_bls12_381::JubjubConfig);
    te!("bandersnatch", s::bandersnatch::BandersnatchConfig);
    te!("ed_on_bn254", s::ed_on_bn254::EdwardsConfig);
    te!("tc::ed_on_bls12_381", s::tc::ed_on_bls12_381::EdwardsConfig);
    v.push(te_sw_item("ed_on_bls12_381", || te_c::<s::ed_on_bls12_381::JubjubConfig>(), || sw_c::<s::ed_on_bls12_381::JubjubConfig>()));
    v.push(te_sw_item("bandersnatch", || te_c::<s::bandersnatch::BandersnatchConfig>(), || sw_c::<s::bandersnatch::BandersnatchConfig>()));
    v.push(te_sw_item("bls12_377::g1", || te_c::<s::bls12_377::g1::Config>(), || sw_c::<s::bls12_377::g1::Config>()));

    // GLV
    glv!("bw6_761::g1", s::bw6_761::g1::Config);
    glv!("bw6_761::g2", s::bw6_761::g2::Config);
    glv!("bls12_381::g1", s::bls12_381::g1::Config);
    glv!("bls12_381::g2", s::bls12_381::g2::Config);
    glv!("bls12_377::g1", s::bls12_377::g1::Config);
    glv!("bls12_377::g2", s::bls12_377::g2::Config);
    glv!("tc::bls12_381::g1", s::tc::bls12_381::g1::Config);
    glv!("bn254::g1", s::bn254::g1::Config);
    glv!("bn254::g2", s::bn254::g2::Config);
    glv!("pallas", s::pallas::PallasConfig);
    glv!("vesta", s::vesta::VestaConfig);

    v.push(Item::new("glv/bls12_381::g1::BETA", |rep, _rng, _args| {
        require_all(rep, &[G_BETA]);
        let mut ck = Ck::new(rep, "bls12_381::g1");
        let p = from_limbs(&<s::bls12_381::Fq as HasPrimeC>::prime_c().modulus);
        let b = flat(&s::bls12_381::g1::BETA)[0].clone();
        ck.ob(G_BETA, "BETA/beta^3=1,beta!=1", b.modpow(&u(3), &p).is_one() && !b.is_one() && b < p, || json!({"beta": hexu(&b)}));
    }));

    // hash-to-curve
    wb!("bls12_381::g1", "bls12_381::g1_swu_iso", s::bls12_381::g1::Config);
    wb!("bls12_381::g2", "bls12_381::g2_swu_iso", s::bls12_381::g2::Config);
    wb!("bls12_377::g1", "bls12_377::g1_swu_iso", s::bls12_377::g1::Config);
    wb!("bls12_377::g2", "bls12_377::g2_swu_iso", s::bls12_377::g2::Config);
    wb!("tc::bls12_381::g1", "tc::bls12_381::g1_swu_iso", s::tc::bls12_381::g1::Config);
    wb!("tc::bls12_381::g2", "tc::bls12_381::g2_swu_iso", s::tc::bls12_381::g2::Config);
    v.push(Item::new("h2c/bandersnatch", |rep, _rng, _args| {
        require_all(rep, &[H_ELL2]);
        let mut ck = Ck::new(rep, "bandersnatch");
        check_ell2(&mut ck, &te_c::<s::bandersnatch::BandersnatchConfig>(), &ell2_c::<s::bandersnatch::BandersnatchConfig>());
    }));

    // pairings
    macro_rules! pairing {
        ($name:literal, $fams:expr, $body:expr) => {
            v.push(Item::new(concat!("pairing/", $name), |rep, _rng, _args| {
                require_all(rep, $fams);
                let mut ck = Ck::new(rep, $name);
                #[allow(clippy::redundant_closure_call)]
                ($body)(&mut ck);
            }));
        };
    }
    const BLS: &[&str] = &[P_FAMILY, P_EMBED, P_TWIST, P_GROUPS];
    const BN: &[&str] = &[P_FAMILY, P_EMBED, P_TWIST, P_GROUPS, P_LOOP];
    const MNT: &[&str] = &[P_EMBED, P_TWIST, P_GROUPS, P_LOOP, P_FINALEXP];
    pairing!("bls12_381", BLS, |ck: &mut Ck| check_bls12(ck, &bls12_c::<s::bls12_381::Config>()));
    pairing!("bls12_377", BLS, |ck: &mut Ck| check_bls12(ck, &bls12_c::<s::bls12_377::Config>()));
    pairing!("tc::bls12_381", BLS, |ck: &mut Ck| {
        use s::tc::bls12_381::g2 as g2;
        let c = bls12_c::<s::tc::bls12_381::Config>();
        check_bls12(ck, &c);
        // the psi constants are public items in test-curves (private in the curves/* crates)
        check_psi(
            ck,
            &c.g2,
            &c.xi,
            c.twist,
            &flat(&g2::P_POWER_ENDOMORPHISM_COEFF_0),
            &flat(&g2::P_POWER_ENDOMORPHISM_COEFF_1),
            Some(&flat(&g2::DOUBLE_P_POWER_ENDOMORPHISM)),
            ("P_POWER_ENDOMORPHISM_COEFF_0", "P_POWER_ENDOMORPHISM_COEFF_1"),
        );
    });
    pairing!("bn254", BN, |ck: &mut Ck| check_bn(ck, &bn_c::<s::bn254::Config>()));
    pairing!("bw6_761", BN, |ck: &mut Ck| check_bw6(ck, &bw6_c::<s::bw6_761::Config>()));
    pairing!("bw6_767", BN, |ck: &mut Ck| check_bw6(ck, &bw6_c::<s::bw6_767::Config>()));
    pairing!("mnt4_298", MNT, |ck: &mut Ck| check_mnt(ck, &mnt4_c::<s::mnt4_298::Config>(), false));
    pairing!("mnt4_753", MNT, |ck: &mut Ck| check_mnt(ck, &mnt4_c::<s::mnt4_753::Config>(), false));
    pairing!("mnt6_298", MNT, |ck: &mut Ck| check_mnt(ck, &mnt6_c::<s::mnt6_298::Config>(), false));
    pairing!("mnt6_753", MNT, |ck: &mut Ck| check_mnt(ck, &mnt6_c::<s::mnt6_753::Config>(), false));
    pairing!("cp6_782", MNT, |ck: &mut Ck| check_mnt(ck, &cp6_782_c(), true));

    // prime fields
    macro_rules! fld {
        ($name:literal, $t:ty) => {
            v.push(field_item::<$t>($name));
        };
    }
    cfgs::for_each_shipped_prime_field!(fld);
    v
}
