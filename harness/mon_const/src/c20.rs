//! C20 — compile-time literals denote the number that is written.
//! `literals_gen.rs` (generated, committed) holds the constants; here every constant is compared with
//! (a) the value Python wrote next to it, (b) this module's own parse of the literal text, (c) the run-time
//! constructors `from_str`, `from_bigint`, `From<BigUint>` applied to the same integer.
//! The derive-macro products of every grid field (derived and hand-written variants), of the small-subgroup
//! fields and of every shipped field are recomputed with num-bigint (shared with C16).
use crate::adapt::{HasPrimeC, PrimeC};
use crate::chk::Ck;
use crate::fields::*;
use crate::literals_gen::{Lit, LITS, MODULI, SMALL_SUBS};
use crate::ora::*;
use monitor::*;

pub const RULE: &str = "cases = (literal constant) for the fixed grid of literal texts x moduli in literals_gen.rs (values 0, 1, 2, (p-1)/2, p-1, p, p+1, 2p-1, \
2^(64k)-1, 2^(64k), 2^(64k)+1, 2^(64N)-1, single-limb, top-limb-only, uniform below and above p; radices decimal/0x/0X/0o/0O/0b/0B; optional minus sign; \
leading zeros; N = 1..13 with and without spare bit), each compared with the Python-computed value, an independent num-bigint parse of the text and the \
run-time constructors; plus (field configuration, derive-macro product) obligations; non-trivial = every case except the literal value 0 without sign; \
distinct = digest of (constant id) or (configuration, obligation); the grid is enumerated completely; decimal/hex literals and small octal/binary literals are `const` items, every octal/binary literal is also \
expanded in a run-time context so that a mis-read radix surfaces as a value mismatch or a caught panic instead of a build failure";

pub const L_PY: &str = "literal: constant equals the Python-computed value";
pub const L_PARSE: &str = "literal: constant equals the independent parse of the literal text";
pub const L_RUNTIME: &str = "literal: constant equals from_str / from_bigint / From<BigUint> of the same integer";
pub const L_CANON: &str = "literal: constant is in canonical (reduced) form";

/// Own parser of the accepted literal syntax: optional '-', then 0x/0X, 0o/0O, 0b/0B or decimal digits.
pub fn parse_literal(text: &str) -> Option<SInt> {
    let (neg, body) = match text.strip_prefix('-') {
        Some(b) => (true, b),
        None => (false, text),
    };
    let (radix, digits) = if let Some(d) = body.strip_prefix("0x").or_else(|| body.strip_prefix("0X")) {
        (16u32, d)
    } else if let Some(d) = body.strip_prefix("0o").or_else(|| body.strip_prefix("0O")) {
        (8, d)
    } else if let Some(d) = body.strip_prefix("0b").or_else(|| body.strip_prefix("0B")) {
        (2, d)
    } else {
        (10, body)
    };
    if digits.is_empty() {
        return None;
    }
    let mut acc = UInt::zero();
    for ch in digits.chars() {
        let d = ch.to_digit(radix)?;
        acc = acc * u(radix as u64) + u(d as u64);
    }
    Some(signed(neg, &acc))
}

/// "[0x1, 0x2, ...]" little-endian limbs
fn parse_limb_array(text: &str) -> Option<UInt> {
    let inner = text.strip_prefix('[')?.strip_suffix(']')?;
    let mut limbs = vec![];
    for part in inner.split(',') {
        limbs.push(u64::from_str_radix(part.trim().strip_prefix("0x")?, 16).ok()?);
    }
    Some(from_limbs(&limbs))
}

/// input class named in violation signatures: radix prefix and sign of the literal text
fn form_of(l: &Lit) -> String {
    let t = l.text;
    let body = t.strip_prefix('-').unwrap_or(t);
    let radix = match body.get(..2) {
        Some("0x") => "0x",
        Some("0X") => "0X",
        Some("0o") => "0o",
        Some("0O") => "0O",
        Some("0b") => "0b",
        Some("0B") => "0B",
        _ if body.starts_with('[') => "limbs",
        _ => "decimal",
    };
    let sign = if !t.starts_with('-') {
        "plain"
    } else if l.expect == "0" && parse_literal(t).map(|v| v.is_zero()).unwrap_or(false) {
        "minus-zero"
    } else {
        "minus"
    };
    format!("{radix}/{sign}")
}

fn classes_of(rep: &mut Report, l: &Lit) {
    let t = l.text;
    let body = t.strip_prefix('-').unwrap_or(t);
    rep.class_if(t.starts_with('-'), "literal: minus sign");
    rep.class_if(t == "-0" || t == "-0x0" || (t.starts_with('-') && l.expect == "0"), "literal: negative literal denoting zero");
    let radix = if body.starts_with("0x") {
        "literal: 0x"
    } else if body.starts_with("0X") {
        "literal: 0X"
    } else if body.starts_with("0o") {
        "literal: 0o"
    } else if body.starts_with("0O") {
        "literal: 0O"
    } else if body.starts_with("0b") {
        "literal: 0b"
    } else if body.starts_with("0B") {
        "literal: 0B"
    } else if body.starts_with('[') {
        "literal: limb array"
    } else {
        "literal: decimal"
    };
    rep.class(radix);
    rep.class_if(l.class.contains("leading zeros"), "literal: leading zeros");
    rep.class_if(body.bytes().any(|c| (b'A'..=b'F').contains(&c)) && radix != "literal: 0B", "literal: capital hex digits");
    rep.class(&format!("literal value: {}", l.class.split(',').next().unwrap()));
}

const LIT_CLASSES: &[&str] = &[
    "literal: minus sign",
    "literal: negative literal denoting zero",
    "literal: 0x",
    "literal: 0X",
    "literal: 0o",
    "literal: 0O",
    "literal: 0b",
    "literal: 0B",
    "literal: decimal",
    "literal: leading zeros",
    "literal: capital hex digits",
    "literal: value >= p",
    "literal: value >= 2^60 (more than 15 hex digits)",
    "literal: value fills all N limbs",
    "literal: const item evaluated at compile time",
    "literal: macro expanded in a run-time context (octal / binary)",
];

fn check_field_literals(rep: &mut Report, mi: usize, ops: &PrimeC) {
    let info = &MODULI[mi];
    let p: UInt = info.p.parse().unwrap();
    let n = info.n;
    let cfg = format!("grid::{}", info.name);
    rep.config(&cfg);
    let modulus_ok = ops.n == n && from_limbs(&ops.modulus) == p;
    if !modulus_ok {
        rep.violation(format!("literal/{cfg}/MODULUS/value"), json!({"expected": info.p, "got": hex_limbs(&ops.modulus)}));
        return;
    }
    for l in LITS.iter().filter(|l| (l.kind == 0 || l.kind == 2) && l.m as usize == mi) {
        let kind = if l.kind == 0 { "MontFp" } else { "Fp::new" };
        let nontrivial = !(l.expect == "0" && !l.text.starts_with('-'));
        rep.eval(digest(&("lit", l.id)), nontrivial);
        rep.op(kind);
        classes_of(rep, l);
        let form = form_of(l);
        let sig = |what: &str| format!("literal/{kind}/{form}/{what}");
        // group R literals are expanded in a run-time context: a panic of the conversion is an observation
        let limbs_owned: Vec<u64> = match l.eval {
            None => l.limbs.to_vec(),
            Some(f) => {
                rep.class("literal: macro expanded in a run-time context (octal / binary)");
                // `f` contains nothing but the macro expansion, so whatever panics in it is the macro's doing
                match guard(f) {
                    Ok(v) => v,
                    Err(p) => {
                        rep.violation(format!("literal/{kind}/{form}/panic"), json!({"id": l.id, "modulus": info.name, "N": n, "literal": l.text, "expected": l.expect, "panic": p.msg, "at": p.site()}));
                        continue;
                    },
                }
            },
        };
        rep.class_if(l.eval.is_none(), "literal: const item evaluated at compile time");
        let limbs: &[u64] = &limbs_owned;
        let detail = |extra: Value| json!({"const": format!("C{}", l.id), "modulus": info.name, "p": info.p, "N": n, "literal": l.text, "raw limbs": hex_limbs(limbs), "info": extra});
        // decode the constant oracle-side
        let canonical = limbs.len() == n && from_limbs(limbs) < p;
        rep.class(L_CANON);
        if !canonical {
            rep.violation(sig("non-canonical"), detail(json!({})));
            continue;
        }
        let got = mont_decode(limbs, &p);
        // (a) Python
        let py: UInt = l.expect.parse().unwrap();
        rep.class(L_PY);
        if got != py {
            rep.violation(sig("value-vs-python"), detail(json!({"expected": l.expect, "got": got.to_string()})));
            continue;
        }
        // (b) own parse
        let int: SInt = if l.kind == 0 { parse_literal(l.text).expect("literal syntax") } else { SInt::from(parse_limb_array(l.text).expect("limb array")) };
        let want = smod(&int, &p);
        rep.class(L_PARSE);
        rep.class_if(int.magnitude() >= &p, "literal: value >= p");
        rep.class_if(int.magnitude() >= &pow2(60), "literal: value >= 2^60 (more than 15 hex digits)");
        rep.class_if(int.magnitude().bits() as usize > 64 * (n - 1), "literal: value fills all N limbs");
        if got != want {
            rep.violation(sig("value-vs-text"), detail(json!({"expected": want.to_string(), "got": got.to_string()})));
            continue;
        }
        // (c) run-time constructors on the same integer
        rep.class(L_RUNTIME);
        let dec = int.to_string();
        let a = (ops.from_str)(&dec);
        if a.as_deref() != Some(limbs) {
            rep.violation(sig("differs-from-from_str"), detail(json!({"from_str": a.as_ref().map(|x| hex_limbs(x)), "decimal": dec})));
        }
        let b = (ops.from_bigint)(&to_limbs(&want, n));
        if b.as_deref() != Some(limbs) {
            rep.violation(sig("differs-from-from_bigint"), detail(json!({"from_bigint": b.as_ref().map(|x| hex_limbs(x))})));
        }
        let c = (ops.from_biguint)(int.magnitude());
        let c = if int.is_negative() { (ops.neg)(&c) } else { c };
        if c != limbs {
            rep.violation(sig("differs-from-From<BigUint>"), detail(json!({"From<BigUint> (negated for negative literals)": hex_limbs(&c)})));
        }
        rep.sample(&format!("{kind}/{}", l.class), || json!({"const": format!("C{}", l.id), "modulus": info.name, "literal": l.text, "value": got.to_string()}));
    }
}

fn check_bigint_literals(rep: &mut Report, n: usize) {
    rep.config(&format!("BigInt<{n}>"));
    for l in LITS.iter().filter(|l| l.kind == 1 && l.m as usize == n) {
        rep.eval(digest(&("lit", l.id)), l.expect != "0" || l.text.starts_with('-'));
        rep.op("BigInt");
        classes_of(rep, l);
        let limbs_owned: Vec<u64> = match l.eval {
            None => l.limbs.to_vec(),
            Some(f) => {
                rep.class("literal: macro expanded in a run-time context (octal / binary)");
                match guard(f) {
                    Ok(v) => v,
                    Err(p) => {
                        rep.violation(format!("literal/BigInt/{}/panic", form_of(l)), json!({"id": l.id, "N": n, "literal": l.text, "expected": l.expect, "panic": p.msg, "at": p.site()}));
                        continue;
                    },
                }
            },
        };
        rep.class_if(l.eval.is_none(), "literal: const item evaluated at compile time");
        let limbs: &[u64] = &limbs_owned;
        let detail = |extra: Value| json!({"const": format!("C{}", l.id), "N": n, "literal": l.text, "limbs": hex_limbs(limbs), "info": extra});
        let got = from_limbs(limbs);
        let py: UInt = l.expect.parse().unwrap();
        rep.class(L_PY);
        if limbs.len() != n || got != py {
            rep.violation(format!("literal/BigInt/{}/value-vs-python", form_of(l)), detail(json!({"expected": l.expect, "got": got.to_string()})));
            continue;
        }
        let int = parse_literal(l.text).expect("literal syntax");
        rep.class(L_PARSE);
        rep.class_if(int.magnitude().bits() as usize > 64 * (n - 1), "literal: value fills all N limbs");
        rep.class_if(int.magnitude() >= &pow2(60), "literal: value >= 2^60 (more than 15 hex digits)");
        if SInt::from(got.clone()) != int {
            rep.violation(format!("literal/BigInt/{}/value-vs-text", form_of(l)), detail(json!({"expected": int.to_string(), "got": got.to_string()})));
        }
    }
}

pub fn items(_args: &Args) -> Vec<Item> {
    let mut v: Vec<Item> = vec![];
    // literal grid, one item per modulus
    macro_rules! lit {
        ($i:expr, $t:ty) => {
            v.push(Item::new(format!("literals/{}", MODULI[$i].name), |rep, _rng, _args| {
                for c in [L_PY, L_PARSE, L_RUNTIME, L_CANON] {
                    rep.require_here(c);
                    rep.require(c);
                }
                for c in LIT_CLASSES {
                    rep.require(c);
                }
                let ops = <$t as HasPrimeC>::prime_c();
                check_field_literals(rep, $i, &ops);
            }));
        };
    }
    crate::literals_gen::for_each_literal_modulus!(lit);
    for n in 1..=13usize {
        v.push(Item::new(format!("bigint/N{n}"), move |rep, _rng, _args| {
            rep.require_here(L_PY);
            rep.require_here(L_PARSE);
            check_bigint_literals(rep, n);
        }));
    }
    // derive-macro / literal-macro products of every grid field
    macro_rules! grid {
        ($name:literal, $t:ty, $n:expr) => {
            v.push(Item::new(concat!("derive/grid/", $name), |rep, _rng, _args| {
                rep.require_here(F_DERIVE);
                rep.require(F_DERIVE);
                let short = $name.split('/').next().unwrap();
                let (_, p, n, _) = cfgs::grid::GRID.iter().find(|g| g.0 == short).expect("grid entry");
                let (g, root) = grid_strings(short);
                let c = <$t as HasPrimeC>::prime_c();
                let mut ck = Ck::with_prefix(rep, concat!("grid::", $name), "derive");
                ck.rep.class_if($name.ends_with("/h"), "derive macro: hand-written config (BigInt!/MontFp! products)");
                ck.rep.class_if($name.ends_with("/d"), "derive macro: #[derive(MontConfig)] config");
                ck.ob(F_DERIVE, "derive/N-vs-grid-table", c.n == *n && $n == *n, || json!({"expected": n, "got": c.n}));
                check_derive_products(&mut ck, &c, p, g, Some(root), None);
            }));
        };
    }
    cfgs::for_each_grid_field!(grid);
    macro_rules! small {
        ($i:expr, $t:ty) => {
            v.push(Item::new(format!("derive/small/{}", SMALL_SUBS[$i].name), |rep, _rng, _args| {
                rep.require("derive macro: field with small-subgroup attributes");
                let s = &SMALL_SUBS[$i];
                let c = <$t as HasPrimeC>::prime_c();
                let cfg = format!("small::{}", s.name);
                let mut ck = Ck::with_prefix(rep, &cfg, "derive");
                check_derive_products(&mut ck, &c, s.p, s.g, Some(s.two_adic_root), Some((s.base, s.power)));
                let p: UInt = s.p.parse().unwrap();
                let l = c.large_root.as_ref().map(|r| mont_decode(r, &p));
                ck.ob(F_DERIVE, "derive/LARGE_SUBGROUP_ROOT_OF_UNITY/python", l.as_ref().map(|x| x.to_string()).as_deref() == Some(s.large_root), || {
                    json!({"expected": s.large_root, "got": l.as_ref().map(|x| x.to_string())})
                });
                // the run-time view of the same constants (C16's obligations, incl. get_root_of_unity orders)
                ck.prefix = "const";
                check_prime_field(&mut ck, &c);
            }));
        };
    }
    crate::literals_gen::for_each_small_sub_field!(small);
    // shipped fields: N, modulus limbs, roots recomputed from the decoded generator
    macro_rules! shipped {
        ($name:literal, $t:ty) => {
            v.push(Item::new(concat!("derive/shipped/", $name), |rep, _rng, _args| {
                let c = <$t as HasPrimeC>::prime_c();
                let p = from_limbs(&c.modulus);
                let g = mont_decode(&c.generator, &p);
                let mut ck = Ck::with_prefix(rep, $name, "derive");
                ck.rep.class("derive macro: shipped field (expected values recomputed from the decoded modulus and generator)");
                let small = match (c.small_base, c.small_adicity) {
                    (Some(b), Some(k)) => Some((b, k)),
                    _ => None,
                };
                check_derive_products(&mut ck, &c, &p.to_string(), &g.to_string(), None, small);
            }));
        };
    }
    cfgs::for_each_shipped_prime_field!(shipped);
    v
}

/// (G, ROOT) strings of a grid module
fn grid_strings(short: &str) -> (&'static str, &'static str) {
    macro_rules! arms {
        ($($m:ident),*) => {
            match short {
                $( stringify!($m) => (cfgs::grid::$m::G, cfgs::grid::$m::ROOT), )*
                other => panic!("unknown grid module {other}"),
            }
        };
    }
    arms!(
        t3, t5, t7, t17, t97, t127, t251, f65537, m31, m61, below63, p64m59, goldilocks, m127, m521, c25519, secp256k1, p192, p384, p224, r2_full,
        r2_m1, r2_m2, r3_full, r3_m1, r3_m2, r4_full, r4_m1, r4_m2, r5_full, r5_m1, r5_m2, r6_full, r6_m1, r6_m2, r7_full, r7_m1, r7_m2, r8_full,
        r8_m1, r8_m2, r9_full, r9_m1, r9_m2, r10_full, r10_m1, r10_m2, r11_full, r11_m1, r11_m2, r12_full, r12_m1, r12_m2, r13_full, r13_m1,
        r13_m2, b125, b61, b124, b60, b123, b59, b122, b58, b121, b57, b120, b56, ta1, ta2, ta3, ta4, ta5, ta8, ta16, ta24, ta33, ta40, ta47, ta48,
        near_ones_n2, no_carry_edge_n3, top_2spare_n2, top_2spare_n4, top_2spare_n6, top_3spare_n2, top_3spare_n3
    )
}
