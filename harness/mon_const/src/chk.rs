//! Obligation bookkeeping: one `ob` call = one monitored evaluation (digest of (config, obligation)),
//! one observation-class tick for its family, and a violation `const/<config>/<constant>/value`
//! when the independent recomputation disagrees.
use monitor::*;

pub struct Ck<'a> {
    pub rep: &'a mut Report,
    pub cfg: String,
    pub prefix: &'static str,
}

impl<'a> Ck<'a> {
    pub fn new(rep: &'a mut Report, cfg: &str) -> Self {
        rep.config(cfg);
        Ck { rep, cfg: cfg.to_string(), prefix: "const" }
    }
    pub fn with_prefix(rep: &'a mut Report, cfg: &str, prefix: &'static str) -> Self {
        rep.config(cfg);
        Ck { rep, cfg: cfg.to_string(), prefix }
    }
    /// `family` is the observation class, `name` the constant / equation the obligation is about.
    pub fn ob(&mut self, family: &str, name: &str, ok: bool, detail: impl FnOnce() -> Value) -> bool {
        self.rep.eval(digest(&(self.cfg.as_str(), name)), true);
        self.rep.class(family);
        self.rep.op(family);
        if !ok {
            let mut d = detail();
            if let Value::Object(m) = &mut d {
                m.insert("config".into(), json!(self.cfg));
                m.insert("obligation".into(), json!(name));
            }
            self.rep.violation(format!("{}/{}/{}/value", self.prefix, self.cfg, name), d);
        }
        ok
    }
    pub fn sample(&mut self, key: &str, v: impl FnOnce() -> Value) {
        self.rep.sample(key, v);
    }
}
