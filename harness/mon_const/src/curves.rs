//! Curve, GLV and model-relation obligations on adapter data; all arithmetic in the oracle model.
use crate::adapt::{FlatPt, GlvC, SwC, TeC};
use crate::chk::Ck;
use crate::ora::*;
use monitor::*;

pub const C_COEFF: &str = "curve: coefficients canonical, curve non-singular";
pub const C_GEN: &str = "curve: generator on curve, non-zero, r*G = 0";
pub const C_ORDER: &str = "curve: r prime, Hasse interval, COFACTOR*r annihilates curve points";
pub const C_COFINV: &str = "curve: COFACTOR * COFACTOR_INV = 1 mod r";
pub const C_HELP: &str = "curve: mul_by_a / add_b helpers agree with COEFF_A / COEFF_B";
pub const C_TEMONT: &str = "curve: twisted Edwards <-> Montgomery coefficient relations";
pub const C_TESW: &str = "curve: twisted Edwards <-> short Weierstrass forms of the same configuration";
pub const G_BETA: &str = "glv: ENDO_COEFFS cube root of unity";
pub const G_LAMBDA: &str = "glv: LAMBDA^2 + LAMBDA + 1 = 0 mod r";
pub const G_PHI: &str = "glv: phi(G) = LAMBDA * G";
pub const G_LATTICE: &str = "glv: SCALAR_DECOMP_COEFFS rows in the lattice, determinant r";

pub fn sw_curve(c: &SwC) -> SwCurve {
    let d = c.base.depth();
    SwCurve { t: c.base.clone(), d, a: c.base.from_flat(&c.a, d), b: c.base.from_flat(&c.b, d) }
}
pub fn pt(t: &Tower, d: usize, p: &FlatPt) -> Pt {
    Some((t.from_flat(&p.0, d), t.from_flat(&p.1, d)))
}
fn canon(p: &UInt, v: &[UInt], dim: usize) -> bool {
    v.len() == dim && v.iter().all(|x| x < p)
}
pub fn hexpt(p: &FlatPt) -> Value {
    json!({"x": hexv(&p.0), "y": hexv(&p.1)})
}

/// Obligations common to both models about r, the cofactor and its inverse.
fn order_obligations(ck: &mut Ck, r: &UInt, cof: &[u64], cof_is_one: bool, cof_inv: &UInt, q: &UInt) -> UInt {
    let h = from_limbs(cof);
    ck.ob(C_ORDER, "cofactor_is_one() == (COFACTOR == 1)", cof_is_one == (h == UInt::one()), || json!({"cofactor": hexu(&h), "cofactor_is_one()": cof_is_one}));
    ck.ob(C_ORDER, "ScalarField/prime", is_probable_prime(r, 64), || json!({"r": hexu(r)}));
    ck.ob(C_ORDER, "COFACTOR/Hasse", !h.is_zero() && hasse_ok(&(&h * r), q), || json!({"cofactor": hexu(&h), "r": hexu(r), "q": hexu(q)}));
    let ok = ((&h % r) * (cof_inv % r)) % r == UInt::one() && cof_inv < r;
    ck.ob(C_COFINV, "COFACTOR_INV", ok, || {
        json!({"cofactor": hexu(&h), "r": hexu(r), "expected": modinv(&h, r).map(|v| hexu(&v)), "got": hexu(cof_inv)})
    });
    h
}

pub fn check_sw(ck: &mut Ck, c: &SwC, rng: &mut Rng, npts: usize) -> bool {
    let t = &c.base;
    let d = t.depth();
    let dim = t.dim(d);
    let p = &t.p;
    let ok_canon = canon(p, &c.a, dim) && canon(p, &c.b, dim) && canon(p, &c.g.0, dim) && canon(p, &c.g.1, dim);
    ck.ob(C_COEFF, "COEFF_A,COEFF_B,GENERATOR/canonical", ok_canon, || json!({"a": hexv(&c.a), "b": hexv(&c.b), "generator": hexpt(&c.g)}));
    if !ok_canon {
        return false;
    }
    if !ck.ob(C_COEFF, "BaseField/is-a-field", is_field(t), || json!({"p": hexu(p)})) {
        return false;
    }
    let e = sw_curve(c);
    // 4a^3 + 27b^2 != 0
    let disc = t.add(&t.mul(&small(t, d, 4), &t.mul(&e.a, &t.mul(&e.a, &e.a))), &t.mul(&small(t, d, 27), &t.mul(&e.b, &e.b)));
    ck.ob(C_COEFF, "COEFF_A,COEFF_B/non-singular", !t.is_zero(&disc), || json!({"a": hexv(&c.a), "b": hexv(&c.b)}));
    ck.rep.class_if(t.is_zero(&e.a), "curve: a = 0");
    ck.rep.class_if(!t.is_zero(&e.a), "curve: a != 0");
    ck.rep.class_if(d > 0, "curve: over an extension field");

    // overridden helpers embed copies of the coefficients (MUL_BY_A_C0, ...)
    {
        let mut bad_a: Option<Value> = None;
        let mut bad_b: Option<Value> = None;
        for (ef, ma, ab) in (c.helpers)(rng, 3) {
            let el = t.from_flat(&ef, d);
            if t.to_flat(&t.mul(&el, &e.a)) != ma {
                bad_a = Some(json!({"elem": hexv(&ef), "mul_by_a": hexv(&ma), "a": hexv(&c.a)}));
            }
            if t.to_flat(&t.add(&el, &e.b)) != ab {
                bad_b = Some(json!({"elem": hexv(&ef), "add_b": hexv(&ab), "b": hexv(&c.b)}));
            }
        }
        ck.ob(C_HELP, "mul_by_a", bad_a.is_none(), || bad_a.clone().unwrap());
        ck.ob(C_HELP, "add_b", bad_b.is_none(), || bad_b.clone().unwrap());
    }
    let g = pt(t, d, &c.g);
    ck.ob(C_GEN, "GENERATOR/not-identity", !c.g_infinity, || json!({}));
    let on = e.on_curve(&g);
    ck.ob(C_GEN, "GENERATOR/on-curve", on, || json!({"a": hexv(&c.a), "b": hexv(&c.b), "generator": hexpt(&c.g)}));
    if on {
        let rg = e.mul(&g, &c.r);
        ck.ob(C_GEN, "GENERATOR/r*G=0", rg.is_none(), || json!({"r": hexu(&c.r), "generator": hexpt(&c.g)}));
    }
    let q = t.order(d);
    let h = order_obligations(ck, &c.r, &c.cofactor, c.cofactor_is_one, &c.cofactor_inv, &q);
    // COFACTOR * r must annihilate every point of E(F_q)
    let n = &h * &c.r;
    let pts = (c.rand_points)(rng, npts);
    let mut bad: Option<FlatPt> = None;
    let mut used = 0;
    for fp in &pts {
        let pp = pt(t, d, fp);
        if !e.on_curve(&pp) {
            continue; // the finder is not trusted
        }
        used += 1;
        if e.mul(&pp, &n).is_some() {
            bad = Some(fp.clone());
            break;
        }
    }
    ck.rep.class_n("curve: random points of E(F_q) multiplied by COFACTOR*r", used);
    ck.ob(C_ORDER, "COFACTOR/annihilates-curve-points", bad.is_none() && used > 0, || {
        json!({"cofactor": hexu(&h), "r": hexu(&c.r), "points_used": used, "point": bad.as_ref().map(hexpt)})
    });
    on
}

pub fn te_curve(c: &TeC) -> TeCurve {
    TeCurve { z: Zp::new(c.base.p.clone()), a: c.a[0].clone(), d: c.d[0].clone() }
}

pub fn check_te(ck: &mut Ck, c: &TeC, rng: &mut Rng, npts: usize) -> bool {
    let p = c.base.p.clone();
    let prime_base = c.base.depth() == 0;
    let ok_canon = prime_base && canon(&p, &c.a, 1) && canon(&p, &c.d, 1) && canon(&p, &c.g.0, 1) && canon(&p, &c.g.1, 1) && canon(&p, &c.mont_a, 1) && canon(&p, &c.mont_b, 1);
    ck.ob(C_COEFF, "COEFF_A,COEFF_D,GENERATOR/canonical", ok_canon, || json!({"a": hexv(&c.a), "d": hexv(&c.d), "generator": hexpt(&c.g), "prime base field": prime_base}));
    if !ok_canon {
        return false;
    }
    if !ck.ob(C_COEFF, "BaseField/is-a-field", is_field(&c.base), || json!({"p": hexu(&p)})) {
        return false;
    }
    let e = te_curve(c);
    let z = &e.z;
    // a d (a - d) != 0
    let nonsing = !e.a.is_zero() && !e.d.is_zero() && e.a != e.d;
    ck.ob(C_COEFF, "COEFF_A,COEFF_D/non-singular", nonsing, || json!({"a": hexu(&e.a), "d": hexu(&e.d)}));
    let complete = legendre(&e.a, &p) == 1 && legendre(&e.d, &p) == -1;
    ck.rep.class_if(complete, "curve: twisted Edwards law complete (a square, d non-square)");
    ck.rep.class_if(!complete, "curve: twisted Edwards law incomplete");
    {
        let mut bad_a: Option<Value> = None;
        for (ef, ma) in (c.helpers)(rng, 3) {
            if vec![z.mul(&ef[0], &e.a)] != ma {
                bad_a = Some(json!({"elem": hexv(&ef), "mul_by_a": hexv(&ma), "a": hexv(&c.a)}));
            }
        }
        ck.ob(C_HELP, "mul_by_a", bad_a.is_none(), || bad_a.clone().unwrap());
    }
    let g = (c.g.0[0].clone(), c.g.1[0].clone());
    ck.ob(C_GEN, "GENERATOR/not-identity", g != e.identity(), || json!({"generator": hexpt(&c.g)}));
    let on = e.on_curve(&g);
    ck.ob(C_GEN, "GENERATOR/on-curve", on, || json!({"a": hexu(&e.a), "d": hexu(&e.d), "generator": hexpt(&c.g)}));
    if on {
        let rg = e.mul(&g, &c.r);
        ck.ob(C_GEN, "GENERATOR/r*G=0", rg == Some(e.identity()), || json!({"r": hexu(&c.r), "generator": hexpt(&c.g), "law undefined on the way": rg.is_none()}));
    }
    let h = order_obligations(ck, &c.r, &c.cofactor, c.cofactor_is_one, &c.cofactor_inv, &p);
    {
        let n = &h * &c.r;
        let pts = (c.rand_points)(rng, npts);
        let mut bad: Option<FlatPt> = None;
        let mut used = 0;
        let mut undefined = 0;
        for fp in &pts {
            let pp = (fp.0[0].clone(), fp.1[0].clone());
            if !e.on_curve(&pp) {
                continue;
            }
            match e.mul(&pp, &n) {
                Some(x) if x == e.identity() => used += 1,
                Some(_) => {
                    used += 1;
                    bad = Some(fp.clone());
                    break;
                },
                // incomplete law met an exceptional pair: no verdict from this point
                None => undefined += 1,
            }
        }
        ck.rep.class_n("curve: random points of E(F_q) multiplied by COFACTOR*r", used);
        ck.rep.class_n("curve: incomplete Edwards law undefined on the way (point skipped)", undefined);
        ck.ob(C_ORDER, "COFACTOR/annihilates-curve-points", bad.is_none() && (used > 0 || !complete), || {
            json!({"cofactor": hexu(&h), "r": hexu(&c.r), "points_used": used, "point": bad.as_ref().map(hexpt)})
        });
    }
    // Montgomery form B v^2 = u^3 + A u^2 + u birationally equivalent over F_q.
    // Standard relation (RFC 9380 D.1, jubjub, bandersnatch, ...): a = (A+2)/B, d = (A-2)/B.
    // bls12_377/g1.rs documents a second normalisation: first TE1 = ((A+2)/B, (A-2)/B), then x is rescaled by
    // sqrt(-TE1a) to reach a = -1, d = -TE1d/TE1a. Both satisfy d (A+2) = a (A-2) with kappa = a B/(A+2) a square
    // (kappa = 1 for the standard relation).
    if nonsing {
        let (ma, mb) = (&c.mont_a[0], &c.mont_b[0]);
        let two = u(2);
        let ap2 = z.add(ma, &two);
        let am2 = z.sub(ma, &two);
        let ratio = z.mul(&e.d, &ap2) == z.mul(&e.a, &am2);
        let kappa = z.inv(&ap2).map(|i| z.mul(&z.mul(&e.a, mb), &i));
        let standard = kappa.as_ref().map(|k| k.is_one()).unwrap_or(false);
        let rescaled = e.a == z.neg(&UInt::one()) && kappa.as_ref().map(|k| legendre(k, &p) == 1).unwrap_or(false);
        ck.rep.class_if(ratio && standard, "curve: Montgomery relation a = (A+2)/B, d = (A-2)/B");
        ck.rep.class_if(ratio && !standard && rescaled, "curve: Montgomery relation after rescaling x to a = -1 (bls12_377 convention)");
        let amd = z.inv(&z.sub(&e.a, &e.d)).unwrap();
        ck.ob(C_TEMONT, "MontCurveConfig::COEFF_A,COEFF_B", !mb.is_zero() && ratio && (standard || rescaled), || {
            json!({"a": hexu(&e.a), "d": hexu(&e.d), "expected A = 2(a+d)/(a-d)": hexu(&z.mul(&z.mul(&two, &z.add(&e.a, &e.d)), &amd)),
                   "expected B = 4/(a-d) (standard relation)": hexu(&z.mul(&u(4), &amd)), "got A": hexu(ma), "got B": hexu(mb),
                   "d(A+2) == a(A-2)": ratio, "a B/(A+2)": kappa.as_ref().map(hexu)})
        });
    }
    on
}

/// A configuration type that implements both TECurveConfig and SWCurveConfig: the short Weierstrass form must
/// be the image of the Montgomery form under (u, v) -> ((u + A/3)/B, v/B), and the SW generator the image of
/// the TE generator under (x, y) -> (u, v) = ((1+y)/(1-y), (1+y)/((1-y) x)).
pub fn check_te_sw(ck: &mut Ck, te: &TeC, sw: &SwC) {
    let p = te.base.p.clone();
    if te.base.depth() != 0 || sw.base.depth() != 0 || sw.base.p != p {
        ck.ob(C_TESW, "SW-form/same-base-field", false, || json!({}));
        return;
    }
    if !is_field(&te.base) {
        ck.ob(C_TESW, "BaseField/is-a-field", false, || json!({"p": hexu(&p)}));
        return;
    }
    let z = Zp::new(p.clone());
    let (a, b) = (&te.mont_a[0], &te.mont_b[0]);
    let inv = |x: &UInt| z.inv(x);
    let Some(ib) = inv(b) else {
        ck.ob(C_TESW, "SW-form/COEFF_A,COEFF_B", false, || json!({"Montgomery B": "0"}));
        return;
    };
    let i3 = inv(&u(3)).unwrap();
    let aa = z.mul(a, a);
    // a_sw = (3 - A^2) / (3 B^2), b_sw = (2 A^3 - 9 A) / (27 B^3)
    let a_sw = z.mul(&z.mul(&z.sub(&u(3), &aa), &i3), &z.mul(&ib, &ib));
    let b_sw = z.mul(&z.mul(&z.sub(&z.mul(&u(2), &z.mul(&aa, a)), &z.mul(&u(9), a)), &inv(&u(27)).unwrap()), &z.mul(&ib, &z.mul(&ib, &ib)));
    ck.ob(C_TESW, "SW-form/COEFF_A,COEFF_B", sw.a[0] == a_sw && sw.b[0] == b_sw, || {
        json!({"Montgomery A": hexu(a), "Montgomery B": hexu(b), "expected a": hexu(&a_sw), "expected b": hexu(&b_sw), "got a": hexu(&sw.a[0]), "got b": hexu(&sw.b[0])})
    });
    // generator: u = (1+y)/(1-y), x_sw = (u + A/3)/B, and y_sw^2 x^2 a B^3 = u^2 (A+2)
    // (v = u/x1 with a x^2 = ((A+2)/B) x1^2 covers both normalisations and both signs of the square root)
    let (x, y) = (&te.g.0[0], &te.g.1[0]);
    let one = UInt::one();
    let den = z.sub(&one, y);
    if let Some(id) = inv(&den) {
        let uu = z.mul(&z.add(&one, y), &id);
        let xs = z.mul(&z.add(&uu, &z.mul(a, &i3)), &ib);
        let ys = &sw.g.1[0];
        let lhs = z.mul(&z.mul(&z.mul(ys, ys), &z.mul(x, x)), &z.mul(&te.a[0], &z.mul(b, &z.mul(b, b))));
        let rhs = z.mul(&z.mul(&uu, &uu), &z.add(a, &u(2)));
        ck.ob(C_TESW, "SW-form/GENERATOR-is-image-of-TE-generator", sw.g.0[0] == xs && lhs == rhs, || {
            json!({"expected x": hexu(&xs), "got": hexpt(&sw.g), "y^2 x_te^2 a B^3 == u^2 (A+2)": lhs == rhs})
        });
    }
    ck.ob(C_TESW, "SW-form/same-r-and-cofactor", sw.r == te.r && from_limbs(&sw.cofactor) == from_limbs(&te.cofactor), || json!({}));
}

pub fn check_glv(ck: &mut Ck, sw: &SwC, g: &GlvC) {
    let t = &sw.base;
    let d = t.depth();
    let dim = t.dim(d);
    let r = &sw.r;
    if !is_field(t) {
        ck.ob(G_BETA, "BaseField/is-a-field", false, || json!({"p": hexu(&t.p)}));
        return;
    }
    ck.ob(G_BETA, "ENDO_COEFFS/length", g.endo_coeffs.len() == 1 && canon(&t.p, &g.endo_coeffs[0], dim), || json!({"len": g.endo_coeffs.len()}));
    if g.endo_coeffs.len() != 1 || !canon(&t.p, &g.endo_coeffs[0], dim) {
        return;
    }
    let beta = t.from_flat(&g.endo_coeffs[0], d);
    let one = t.one(d);
    let b3 = t.mul(&beta, &t.mul(&beta, &beta));
    ck.ob(G_BETA, "ENDO_COEFFS[0]/beta^3=1,beta!=1", b3 == one && beta != one, || json!({"beta": hexv(&g.endo_coeffs[0])}));
    let l = &g.lambda;
    ck.ob(G_LAMBDA, "LAMBDA", l < r && ((l * l + l + UInt::one()) % r).is_zero(), || json!({"lambda": hexu(l), "r": hexu(r)}));
    // phi(x, y) = (beta x, y)
    let e = sw_curve(sw);
    let gg = pt(t, d, &sw.g);
    let (gx, gy) = gg.clone().unwrap();
    let phi: Pt = Some((t.mul(&beta, &gx), gy));
    let lib = pt(t, d, &g.endo_of_g);
    ck.ob(G_PHI, "endomorphism_affine(G)/is-(beta*x,y)", lib == phi, || json!({"library": hexpt(&g.endo_of_g)}));
    let lg = e.mul(&gg, l);
    ck.ob(G_PHI, "ENDO_COEFFS,LAMBDA/phi(G)=lambda*G", e.on_curve(&phi) && lg == phi, || {
        json!({"beta": hexv(&g.endo_coeffs[0]), "lambda": hexu(l), "lambda*G": lg.as_ref().map(|(x, y)| json!({"x": hexv(&t.to_flat(x)), "y": hexv(&t.to_flat(y))}))})
    });
    // lattice
    let n: Vec<SInt> = g.decomp.iter().map(|(pos, v)| signed(!*pos, v)).collect();
    if n.len() != 4 {
        ck.ob(G_LATTICE, "SCALAR_DECOMP_COEFFS/length", false, || json!({}));
        return;
    }
    let ls = SInt::from(l.clone());
    let row1 = smod(&(&n[0] + &n[1] * &ls), r).is_zero();
    let row2 = smod(&(&n[2] + &n[3] * &ls), r).is_zero();
    ck.ob(G_LATTICE, "SCALAR_DECOMP_COEFFS/row1: n11 + n12*lambda = 0 mod r", row1, || json!({"n11": n[0].to_string(), "n12": n[1].to_string(), "lambda": hexu(l)}));
    ck.ob(G_LATTICE, "SCALAR_DECOMP_COEFFS/row2: n21 + n22*lambda = 0 mod r", row2, || json!({"n21": n[2].to_string(), "n22": n[3].to_string(), "lambda": hexu(l)}));
    let det = &n[0] * &n[3] - &n[1] * &n[2];
    let rs = SInt::from(r.clone());
    ck.rep.class_if(det == -rs.clone(), "glv: determinant = -r");
    ck.rep.class_if(det == rs, "glv: determinant = +r");
    ck.ob(G_LATTICE, "SCALAR_DECOMP_COEFFS/determinant = r", det == rs, || json!({"det": det.to_string(), "r": r.to_string()}));
}
