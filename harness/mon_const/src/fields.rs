//! Prime-field obligations (C16) and derive-macro product obligations (C20) on `PrimeC` data.
use crate::adapt::{PrimeC, SqrtC};
use crate::chk::Ck;
use crate::ora::*;
use monitor::*;

pub const F_PRIME: &str = "field: modulus is an odd prime (Miller-Rabin, 64 bases)";
pub const F_SHAPE: &str = "field: limb count, bit size, characteristic";
pub const F_MONT: &str = "field: Montgomery constants R, R2, INV, ZERO, ONE";
pub const F_DERIVED: &str = "field: integers derived from the modulus";
pub const F_GEN: &str = "field: generator and roots of unity";
pub const F_GETROOT: &str = "field: get_root_of_unity(n) has order exactly n";
pub const F_SQRT: &str = "field: SQRT_PRECOMP variant and payload";
pub const F_FLAGS: &str = "field: no-carry / spare-bit flags";
pub const F_SMALLSUB: &str = "field: small-subgroup triple declared";
pub const F_DERIVE: &str = "derive macro: product equals run-time recomputation";

pub const FIELD_FAMILIES: &[&str] = &[F_PRIME, F_SHAPE, F_MONT, F_DERIVED, F_GEN, F_GETROOT, F_SQRT, F_FLAGS];

fn prime_factors_small(mut n: u64) -> Vec<u64> {
    let mut f = vec![];
    let mut q = 2;
    while q * q <= n {
        if n % q == 0 {
            f.push(q);
            while n % q == 0 {
                n /= q;
            }
        }
        q += 1;
    }
    if n > 1 {
        f.push(n);
    }
    f
}

pub struct FieldFacts {
    pub p: UInt,
    pub s: u32,
    pub t: UInt,
    pub g: UInt,
}

/// All C16 obligations of one prime-field configuration.
pub fn check_prime_field(ck: &mut Ck, c: &PrimeC) -> FieldFacts {
    let n = c.n;
    let p = from_limbs(&c.modulus);
    let one = UInt::one();
    let hx = |l: &[u64]| hex_limbs(l);
    let cmp = |ck: &mut Ck, fam: &str, name: &str, got: &[u64], exp: &UInt| {
        let ok = from_limbs(got) == *exp && got.len() == n;
        ck.ob(fam, name, ok, || json!({"modulus": hexu(&p), "expected": hexu(exp), "got": hex_limbs(got)}))
    };

    // --- primality, shape
    let odd = p.bit(0);
    ck.ob(F_PRIME, "MODULUS/prime", odd && is_probable_prime(&p, 64), || json!({"modulus": hexu(&p)}));
    let bits = p.bits() as usize;
    ck.ob(F_SHAPE, "N/minimal", c.modulus.len() == n && n == (bits + 63) / 64, || json!({"modulus": hexu(&p), "N": n, "bits": bits}));
    ck.ob(F_SHAPE, "MODULUS_BIT_SIZE", c.bit_size as usize == bits, || json!({"expected": bits, "got": c.bit_size}));
    ck.ob(F_SHAPE, "characteristic", from_limbs(&c.characteristic) == p && c.extension_degree == 1, || {
        json!({"expected": hexu(&p), "got": hx(&c.characteristic), "extension_degree": c.extension_degree})
    });
    if !odd || p <= one {
        return FieldFacts { p, s: 0, t: UInt::zero(), g: UInt::zero() };
    }

    // --- Montgomery constants
    let rr = pow2(64 * n);
    let r = &rr % &p;
    cmp(ck, F_MONT, "R", &c.r, &r);
    cmp(ck, F_MONT, "R2", &c.r2, &((&r * &r) % &p));
    {
        // INV * p == -1 mod 2^64
        let p0 = c.modulus[0];
        ck.ob(F_MONT, "INV", c.inv.wrapping_mul(p0) == u64::MAX, || json!({"modulus[0]": format!("{p0:#x}"), "got": format!("{:#x}", c.inv)}));
    }
    ck.ob(F_MONT, "ZERO", c.zero.iter().all(|x| *x == 0), || json!({"got": hx(&c.zero)}));
    cmp(ck, F_MONT, "ONE", &c.one, &r);

    // --- integers derived from the modulus
    let pm1 = &p - &one;
    let s = pm1.trailing_zeros().unwrap() as u32;
    let t = &pm1 >> (s as usize);
    cmp(ck, F_DERIVED, "MODULUS_MINUS_ONE_DIV_TWO", &c.mm1d2, &(&pm1 >> 1usize));
    ck.ob(F_DERIVED, "TWO_ADICITY", c.two_adicity == s, || json!({"expected": s, "got": c.two_adicity}));
    cmp(ck, F_DERIVED, "TRACE", &c.trace, &t);
    cmp(ck, F_DERIVED, "TRACE_MINUS_ONE_DIV_TWO", &c.tm1d2, &((&t - &one) >> 1usize));
    {
        let three_mod_four = (&p % u(4)) == u(3);
        let ok = match (&c.mp1d4, three_mod_four) {
            (Some(v), true) => from_limbs(v) == (&p + &one) >> 2usize,
            (None, false) => true,
            _ => false,
        };
        ck.ob(F_DERIVED, "MODULUS_PLUS_ONE_DIV_FOUR", ok, || {
            json!({"p mod 4": (&p % u(4)).to_string(), "expected": if three_mod_four { hexu(&((&p + &one) >> 2usize)) } else { "None".into() },
                   "got": c.mp1d4.as_ref().map(|v| hx(v))})
        });
    }

    // --- generator and roots
    let canon = |l: &[u64]| from_limbs(l) < p;
    let g_ok = canon(&c.generator);
    let g = mont_decode(&c.generator, &p);
    ck.ob(F_GEN, "GENERATOR/canonical", g_ok && !g.is_zero(), || json!({"raw": hx(&c.generator)}));
    let qnr = ck.ob(F_GEN, "GENERATOR/quadratic-non-residue", legendre(&g, &p) == -1, || json!({"modulus": hexu(&p), "generator": hexu(&g)}));
    if !qnr {
        // consequences of the same constant (order of g, of g^t and of get_root_of_unity) are not reported separately
        ck.rep.class("field: obligations on the order of GENERATOR and of the 2-adic root skipped because GENERATOR is a square");
    }
    if qnr {
        // "an element having multiplicative order MODULUS - 1": refutable through every small odd prime factor of p-1
        let (fs, _rest) = small_factors(pm1.clone(), 4096);
        let bad: Vec<u64> = fs.iter().copied().filter(|q| *q != 2 && g.modpow(&(&pm1 / u(*q)), &p).is_one()).collect();
        ck.ob(F_GEN, "GENERATOR/order-divisible-by-small-prime-powers-of-p-1", bad.is_empty(), || {
            json!({"modulus": hexu(&p), "generator": hexu(&g), "g^((p-1)/q) == 1 for q in": bad})
        });
    }
    let w = mont_decode(&c.two_adic_root, &p);
    ck.ob(F_GEN, "TWO_ADIC_ROOT_OF_UNITY/canonical", canon(&c.two_adic_root), || json!({"raw": hx(&c.two_adic_root)}));
    ck.ob(F_GEN, "TWO_ADIC_ROOT_OF_UNITY/equals-generator^trace", w == g.modpow(&t, &p), || {
        json!({"modulus": hexu(&p), "generator": hexu(&g), "expected": hexu(&g.modpow(&t, &p)), "got": hexu(&w)})
    });
    if qnr {
        let full = w.modpow(&pow2(s as usize), &p).is_one();
        let half = w.modpow(&pow2(s as usize - 1), &p);
        ck.ob(F_GEN, "TWO_ADIC_ROOT_OF_UNITY/order-exactly-2^s", full && half == pm1, || {
            json!({"modulus": hexu(&p), "s": s, "root": hexu(&w), "root^(2^s)==1": full, "root^(2^(s-1))": hexu(&half)})
        });
    }
    // small subgroup triple
    let trip = (c.small_base, c.small_adicity, c.large_root.as_ref());
    let mut sub: Option<(u64, u32)> = None;
    match trip {
        (None, None, None) => {
            ck.ob(F_GEN, "SMALL_SUBGROUP/triple-consistent", true, || json!({}));
        },
        (Some(b), Some(k), Some(lr)) => {
            ck.rep.class(F_SMALLSUB);
            ck.ob(F_GEN, "SMALL_SUBGROUP/triple-consistent", true, || json!({}));
            let bk = u(b as u64).pow(k);
            let divides = b >= 2 && k >= 1 && (&t % &bk).is_zero();
            ck.ob(F_GEN, "SMALL_SUBGROUP_BASE_ADICITY/b^k-divides-p-1", divides, || json!({"modulus": hexu(&p), "base": b, "power": k}));
            let l = mont_decode(lr, &p);
            ck.ob(F_GEN, "LARGE_SUBGROUP_ROOT_OF_UNITY/canonical", canon(lr), || json!({"raw": hx(lr)}));
            if divides {
                let exp = g.modpow(&(&t / &bk), &p);
                ck.ob(F_GEN, "LARGE_SUBGROUP_ROOT_OF_UNITY/equals-generator^((p-1)/(2^s b^k))", l == exp, || {
                    json!({"modulus": hexu(&p), "expected": hexu(&exp), "got": hexu(&l)})
                });
                let order = pow2(s as usize) * &bk;
                let mut primes: Vec<UInt> = prime_factors_small(b as u64).into_iter().map(u).collect();
                primes.push(u(2));
                let is_one = |e: &UInt| l.modpow(e, &p).is_one();
                ck.ob(F_GEN, "LARGE_SUBGROUP_ROOT_OF_UNITY/order-exactly-2^s*b^k", has_exact_order(&is_one, &order, &primes), || {
                    json!({"modulus": hexu(&p), "root": hexu(&l), "s": s, "base": b, "power": k})
                });
                sub = Some((b as u64, k));
            }
        },
        _ => {
            ck.ob(F_GEN, "SMALL_SUBGROUP/triple-consistent", false, || {
                json!({"SMALL_SUBGROUP_BASE": c.small_base, "SMALL_SUBGROUP_BASE_ADICITY": c.small_adicity, "LARGE_SUBGROUP_ROOT_OF_UNITY set": c.large_root.is_some()})
            });
        },
    }

    // --- get_root_of_unity(n): Some(element of order exactly n) for every n = 2^i b^j, None otherwise
    if qnr {
        let (b, k) = sub.unwrap_or((1, 0));
        let mut primes: Vec<UInt> = vec![u(2)];
        if b > 1 {
            primes.extend(prime_factors_small(b).into_iter().map(u));
        }
        let mut bad: Vec<Value> = vec![];
        let mut seen = 0u64;
        for j in 0..=k {
            let Some(bj) = b.checked_pow(j) else { break };
            for i in 0..=s.min(63) {
                let Some(nn) = (1u64 << i).checked_mul(bj) else { break };
                seen += 1;
                let got = (c.get_root)(nn);
                let ok = match &got {
                    Some(raw) if canon(raw) => {
                        let w = mont_decode(raw, &p);
                        has_exact_order(&|e: &UInt| w.modpow(e, &p).is_one(), &u(nn), &primes)
                    },
                    _ => false,
                };
                if !ok && bad.len() < 4 {
                    bad.push(json!({"n": nn, "i": i, "j": j, "got": got.as_ref().map(|r| hexu(&mont_decode(r, &p)))}));
                }
            }
        }
        ck.ob(F_GETROOT, "get_root_of_unity/order-exactly-n", bad.is_empty(), || {
            json!({"modulus": hexu(&p), "s": s, "small_subgroup": [b, k as u64], "sizes_checked": seen, "failures": bad})
        });
        // sizes that have no subgroup of the supported shape
        let mut outside: Vec<u64> = vec![];
        if s < 63 {
            outside.push(1u64 << (s + 1));
        }
        for cand in [3u64, 5, 6, 7, 9, 10, 11, 12, 13, 15, 25, 49, 121] {
            // a size is "inside" iff it is 2^i b^j with i <= s, j <= k
            let mut m = cand;
            let mut i = 0;
            while m % 2 == 0 {
                m /= 2;
                i += 1;
            }
            let mut j = 0;
            if b > 1 {
                while m % b == 0 {
                    m /= b;
                    j += 1;
                }
            }
            if !(m == 1 && i <= s && j <= k) {
                outside.push(cand);
            }
        }
        if sub.is_some() && k < 40 {
            if let Some(x) = b.checked_pow(k + 1) {
                outside.push(x);
            }
        }
        let wrong: Vec<u64> = outside.iter().copied().filter(|x| (c.get_root)(*x).is_some()).collect();
        ck.ob(F_GETROOT, "get_root_of_unity/none-outside-the-declared-subgroups", wrong.is_empty(), || {
            json!({"modulus": hexu(&p), "s": s, "small_subgroup": [b, k as u64], "returned Some for n in": wrong})
        });
    }

    // --- square-root precomputation
    {
        let three_mod_four = (&p % u(4)) == u(3);
        match &c.sqrt {
            SqrtC::Case3Mod4 { mp1d4 } => {
                ck.rep.class("field: SQRT_PRECOMP = Case3Mod4");
                ck.ob(F_SQRT, "SQRT_PRECOMP/variant-matches-p-mod-4", three_mod_four, || json!({"variant": "Case3Mod4", "p mod 4": (&p % u(4)).to_string()}));
                ck.ob(F_SQRT, "SQRT_PRECOMP/modulus_plus_one_div_four", from_limbs(mp1d4) == (&p + &one) >> 2usize, || {
                    json!({"expected": hexu(&((&p + &one) >> 2usize)), "got": hx(mp1d4)})
                });
            },
            SqrtC::TonelliShanks { two_adicity, qnr_to_t, tm1d2 } => {
                ck.rep.class("field: SQRT_PRECOMP = TonelliShanks");
                ck.ob(F_SQRT, "SQRT_PRECOMP/variant-matches-p-mod-4", !three_mod_four, || json!({"variant": "TonelliShanks", "p mod 4": (&p % u(4)).to_string()}));
                ck.ob(F_SQRT, "SQRT_PRECOMP/two_adicity", *two_adicity == s, || json!({"expected": s, "got": two_adicity}));
                ck.ob(F_SQRT, "SQRT_PRECOMP/trace_of_modulus_minus_one_div_two", from_limbs(tm1d2) == (&t - &one) >> 1usize, || {
                    json!({"expected": hexu(&((&t - &one) >> 1usize)), "got": hx(tm1d2)})
                });
                // a t-th power of a non-residue = an element of order exactly 2^s
                let z = match &c.sqrt_qnr_raw {
                    Some(raw) => mont_decode(raw, &p),
                    None => qnr_to_t[0].clone(),
                };
                let ok = z.modpow(&pow2(s as usize - 1), &p) == pm1;
                ck.ob(F_SQRT, "SQRT_PRECOMP/quadratic_nonresidue_to_trace", ok, || json!({"modulus": hexu(&p), "s": s, "got": hexu(&z)}));
            },
            SqrtC::Absent | SqrtC::Other => {
                ck.ob(F_SQRT, "SQRT_PRECOMP/variant-matches-p-mod-4", false, || json!({"variant": format!("{:?}", c.sqrt)}));
            },
        }
    }

    // --- flags
    {
        let spare = bits < 64 * n;
        ck.ob(F_FLAGS, "MODULUS_HAS_SPARE_BIT", c.spare_bit == spare, || json!({"modulus": hexu(&p), "expected": spare, "got": c.spare_bit}));
        // mul_assign's documentation: usable iff the most significant bit is zero and the remaining bits are not all one
        let all_ones = p == pow2(64 * n - 1) - &one;
        let usable = spare && !all_ones;
        ck.ob(F_FLAGS, "CAN_USE_NO_CARRY_MUL_OPT", c.no_carry_mul == usable, || json!({"modulus": hexu(&p), "expected": usable, "got": c.no_carry_mul}));
        // documented: top limb < u64::MAX >> 2 and not all ones  =>  flag; flag => the multiplication condition (squaring is a multiplication)
        let top = *c.modulus.last().unwrap();
        let doc_cond = top < (u64::MAX >> 2) && !(p == pow2(64 * n - 2) - &one);
        let ok = (!doc_cond || c.no_carry_sq) && (!c.no_carry_sq || usable);
        ck.ob(F_FLAGS, "CAN_USE_NO_CARRY_SQUARE_OPT", ok, || {
            json!({"modulus": hexu(&p), "documented condition": doc_cond, "multiplication condition": usable, "got": c.no_carry_sq})
        });
        ck.rep.class_if(c.no_carry_sq && !doc_cond, "field: CAN_USE_NO_CARRY_SQUARE_OPT true although top limb >= 2^62 (documented bound not applied; observation)");
        ck.rep.class_if(!spare, "field: modulus without spare bit");
        ck.rep.class_if(all_ones, "field: modulus 2^(64N-1)-1");
    }
    FieldFacts { p, s, t, g }
}

/// C20: what the derive macro computed at compile time vs run-time recomputation from the attribute strings.
pub fn check_derive_products(ck: &mut Ck, c: &PrimeC, p_str: &str, g_str: &str, root_str: Option<&str>, small: Option<(u32, u32)>) {
    let p: UInt = p_str.parse().expect("decimal modulus");
    let g: UInt = g_str.parse().expect("decimal generator");
    let n_exp = {
        // number of 64-bit limbs needed
        let mut n = 1;
        while pow2(64 * n) < p {
            n += 1;
        }
        n
    };
    ck.ob(F_DERIVE, "derive/N", c.n == n_exp && c.modulus.len() == n_exp, || json!({"modulus": p_str, "expected": n_exp, "got": c.n}));
    ck.ob(F_DERIVE, "derive/MODULUS", c.modulus.len() == n_exp && from_limbs(&c.modulus) == p && c.modulus == to_limbs(&p, n_exp), || {
        json!({"modulus": p_str, "got": hex_limbs(&c.modulus)})
    });
    if from_limbs(&c.modulus) != p {
        return;
    }
    let pm1 = &p - UInt::one();
    let s = pm1.trailing_zeros().unwrap() as usize;
    let t = &pm1 >> s;
    let gg = mont_decode(&c.generator, &p);
    ck.ob(F_DERIVE, "derive/GENERATOR", gg == &g % &p && from_limbs(&c.generator) < p, || json!({"modulus": p_str, "expected": g_str, "got": gg.to_string()}));
    let w = mont_decode(&c.two_adic_root, &p);
    let w_exp = g.modpow(&t, &p);
    ck.ob(F_DERIVE, "derive/TWO_ADIC_ROOT_OF_UNITY", w == w_exp && from_limbs(&c.two_adic_root) < p, || {
        json!({"modulus": p_str, "generator": g_str, "expected": w_exp.to_string(), "got": w.to_string()})
    });
    if let Some(rs) = root_str {
        // value recorded by the Python generator of the grid
        let r_py: UInt = rs.parse().expect("decimal root");
        ck.ob(F_DERIVE, "derive/TWO_ADIC_ROOT_OF_UNITY/python", w == r_py, || json!({"modulus": p_str, "expected": rs, "got": w.to_string()}));
    }
    match (small, &c.large_root) {
        (Some((b, k)), Some(lr)) => {
            let bk = u(b as u64).pow(k);
            let exp = g.modpow(&(&t / &bk), &p);
            let l = mont_decode(lr, &p);
            ck.ob(F_DERIVE, "derive/LARGE_SUBGROUP_ROOT_OF_UNITY", l == exp && c.small_base == Some(b) && c.small_adicity == Some(k), || {
                json!({"modulus": p_str, "base": b, "power": k, "expected": exp.to_string(), "got": l.to_string(), "got_base": c.small_base, "got_power": c.small_adicity})
            });
            ck.rep.class("derive macro: field with small-subgroup attributes");
        },
        (None, None) => {
            ck.ob(F_DERIVE, "derive/LARGE_SUBGROUP_ROOT_OF_UNITY", c.small_base.is_none() && c.small_adicity.is_none(), || json!({"got_base": c.small_base}));
        },
        (a, b) => {
            ck.ob(F_DERIVE, "derive/LARGE_SUBGROUP_ROOT_OF_UNITY", false, || json!({"attributes": format!("{a:?}"), "constant set": b.is_some()}));
        },
    }
    // R, R2, INV are derived by const fns from MODULUS: same recomputation as C16
    let rr = pow2(64 * c.n) % &p;
    ck.ob(F_DERIVE, "derive/R", from_limbs(&c.r) == rr, || json!({"modulus": p_str, "got": hex_limbs(&c.r)}));
    ck.ob(F_DERIVE, "derive/R2", from_limbs(&c.r2) == (&rr * &rr) % &p, || json!({"modulus": p_str, "got": hex_limbs(&c.r2)}));
    ck.ob(F_DERIVE, "derive/INV", c.inv.wrapping_mul(c.modulus[0]) == u64::MAX, || json!({"modulus": p_str, "got": format!("{:#x}", c.inv)}));
}
