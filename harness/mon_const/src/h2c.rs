//! Hash-to-curve parameter obligations: SWU ZETA, WB isogeny tables, Elligator2 helper constants.
use crate::adapt::{Ell2C, FlatPt, SwC, TeC, WbC};
use crate::chk::Ck;
use crate::curves::{hexpt, pt, sw_curve};
use crate::ora::*;
use monitor::*;

pub const H_SWU: &str = "h2c: SWU ZETA non-square, a*b != 0 on the isogenous curve";
pub const H_ISO_GEN: &str = "h2c: isogeny maps the isogenous generator onto the target curve";
pub const H_ISO_HOM: &str = "h2c: isogeny is a homomorphism on random pairs";
pub const H_ISO_DEG: &str = "h2c: isogeny table degrees";
pub const H_ELL2: &str = "h2c: Elligator2 Z non-square and helper constants";

struct Iso<'a> {
    dom: SwCurve,
    cod: SwCurve,
    t: &'a Tower,
    d: usize,
    xn: Vec<El>,
    xd: Vec<El>,
    yn: Vec<El>,
    yd: Vec<El>,
}

impl Iso<'_> {
    /// (x, y) -> (xn(x)/xd(x), y yn(x)/yd(x)); a vanishing denominator means a kernel point -> identity
    fn apply(&self, p: &Pt) -> Pt {
        let t = self.t;
        let (x, y) = p.as_ref()?;
        let xd = horner(t, self.d, &self.xd, x);
        let yd = horner(t, self.d, &self.yd, x);
        if t.is_zero(&xd) || t.is_zero(&yd) {
            return None;
        }
        let xi = t.mul(&horner(t, self.d, &self.xn, x), &tinv(t, &xd).unwrap());
        let yi = t.mul(&t.mul(y, &horner(t, self.d, &self.yn, x)), &tinv(t, &yd).unwrap());
        Some((xi, yi))
    }
}

fn flat_of(t: &Tower, p: &Pt) -> Value {
    match p {
        None => json!("identity"),
        Some((x, y)) => json!({"x": hexv(&t.to_flat(x)), "y": hexv(&t.to_flat(y))}),
    }
}

pub fn check_wb(ck: &mut Ck, target: &SwC, w: &WbC, rng: &mut Rng, pairs: usize) {
    let t = &target.base;
    let d = t.depth();
    let dim = t.dim(d);
    let p = &t.p;
    let canon = |v: &[UInt]| v.len() == dim && v.iter().all(|z| z < p);
    let same_field = w.iso.base.p == *p && w.iso.base.depth() == d;
    ck.ob(H_SWU, "IsogenousCurve/same-base-field", same_field, || json!({}));
    if !same_field || !ck.ob(H_SWU, "IsogenousCurve/BaseField/is-a-field", is_field(t), || json!({"p": hexu(p)})) {
        return;
    }
    // --- SWU prerequisites on the isogenous curve
    let zeta_ok = canon(&w.zeta) && t.quadratic_character(&t.from_flat(&w.zeta, d)) == -1;
    ck.ob(H_SWU, "ZETA/non-square", zeta_ok, || json!({"zeta": hexv(&w.zeta)}));
    let ab = !w.iso.a.iter().all(|z| z.is_zero()) && !w.iso.b.iter().all(|z| z.is_zero());
    ck.ob(H_SWU, "IsogenousCurve/a*b != 0", ab, || json!({"a": hexv(&w.iso.a), "b": hexv(&w.iso.b)}));
    let dom = sw_curve(&w.iso);
    if zeta_ok && ab {
        // RFC 9380 also asks g(B/(Z A)) to be a square; the trait calls it a convenience: observed, not demanded
        let za = t.mul(&t.from_flat(&w.zeta, d), &dom.a);
        let x0 = t.mul(&dom.b, &tinv(t, &za).unwrap());
        ck.rep.class_if(t.quadratic_character(&dom.rhs(&x0)) == 1, "h2c: g(B/(ZETA*A)) is a square (RFC 9380 criterion 4)");
    }
    // --- tables
    let tables = [("x_map_numerator", &w.x_num), ("x_map_denominator", &w.x_den), ("y_map_numerator", &w.y_num), ("y_map_denominator", &w.y_den)];
    let mut all_canon = true;
    for (name, tb) in &tables {
        let ok = !tb.is_empty() && tb.iter().all(|c| canon(c)) && !tb.last().unwrap().iter().all(|z| z.is_zero());
        all_canon &= ok;
        ck.ob(H_ISO_DEG, &format!("ISOGENY_MAP.{name}/canonical-with-non-zero-leading-coefficient"), ok, || json!({"len": tb.len()}));
    }
    if !all_canon {
        return;
    }
    // (x, y) -> (xn/xd, y yn/yd) lands on y^2 = x^3 + .. only if, as x -> infinity, deg xn = deg xd + 1,
    // deg yn = deg yd and (lead yn / lead yd)^2 = (lead xn / lead xd)^3
    let (dxn, dxd, dyn_, dyd) = (w.x_num.len() - 1, w.x_den.len() - 1, w.y_num.len() - 1, w.y_den.len() - 1);
    {
        let lead = |tb: &Vec<Vec<UInt>>| t.from_flat(tb.last().unwrap(), d);
        let lx = t.mul(&lead(&w.x_num), &tinv(t, &lead(&w.x_den)).unwrap());
        let ly = t.mul(&lead(&w.y_num), &tinv(t, &lead(&w.y_den)).unwrap());
        let lead_ok = t.mul(&ly, &ly) == t.mul(&lx, &t.mul(&lx, &lx));
        ck.ob(H_ISO_DEG, "ISOGENY_MAP/degrees and leading coefficients", dxn == dxd + 1 && dyn_ == dyd && lead_ok, || {
            json!({"deg x_num": dxn, "deg x_den": dxd, "deg y_num": dyn_, "deg y_den": dyd, "(ly)^2 == (lx)^3": lead_ok})
        });
    }
    ck.rep.class(&format!("h2c: isogeny of degree {dxn}"));
    let conv = |tb: &Vec<Vec<UInt>>| tb.iter().map(|c| t.from_flat(c, d)).collect::<Vec<_>>();
    let iso = Iso { dom: dom.clone(), cod: sw_curve(target), t, d, xn: conv(&w.x_num), xd: conv(&w.x_den), yn: conv(&w.y_num), yd: conv(&w.y_den) };
    // --- generator
    let g = pt(t, d, &w.iso.g);
    let img = iso.apply(&g);
    ck.ob(H_ISO_GEN, "ISOGENY_MAP/image-of-isogenous-generator-on-curve", img.is_some() && iso.cod.on_curve(&img) && iso.dom.on_curve(&g), || {
        json!({"generator": hexpt(&w.iso.g), "image": flat_of(t, &img)})
    });
    if img.is_some() && iso.cod.on_curve(&img) {
        let ri = iso.cod.mul(&img, &target.r);
        ck.ob(H_ISO_GEN, "ISOGENY_MAP/image-of-isogenous-generator-has-order-r", ri.is_none(), || json!({"image": flat_of(t, &img)}));
    }
    // --- homomorphism on random pairs of E'(F_q) (points found with the library's sqrt, re-checked here)
    let pts: Vec<FlatPt> = (w.iso.rand_points)(rng, 2 * pairs);
    let mut used = 0u64;
    let mut bad: Option<Value> = None;
    let mut off_curve: Option<Value> = None;
    for pq in pts.chunks(2) {
        if pq.len() < 2 {
            break;
        }
        let (a, b) = (pt(t, d, &pq[0]), pt(t, d, &pq[1]));
        if !iso.dom.on_curve(&a) || !iso.dom.on_curve(&b) {
            continue;
        }
        used += 1;
        let (ia, ib) = (iso.apply(&a), iso.apply(&b));
        if !iso.cod.on_curve(&ia) || !iso.cod.on_curve(&ib) {
            off_curve = Some(json!({"P": hexpt(&pq[0]), "Q": hexpt(&pq[1])}));
            break;
        }
        let lhs = iso.apply(&iso.dom.add(&a, &b));
        let rhs = iso.cod.add(&ia, &ib);
        let dbl_ok = iso.apply(&iso.dom.dbl(&a)) == iso.cod.dbl(&ia);
        let neg_ok = iso.apply(&iso.dom.neg(&a)) == iso.cod.neg(&ia);
        if lhs != rhs || !dbl_ok || !neg_ok {
            bad = Some(json!({"P": hexpt(&pq[0]), "Q": hexpt(&pq[1]), "phi(P+Q)": flat_of(t, &lhs), "phi(P)+phi(Q)": flat_of(t, &rhs), "phi(2P)=2phi(P)": dbl_ok, "phi(-P)=-phi(P)": neg_ok}));
            break;
        }
    }
    ck.rep.class_n("h2c: random pairs through the isogeny", used);
    ck.ob(H_ISO_HOM, "ISOGENY_MAP/images-on-target-curve", off_curve.is_none() && used > 0, || off_curve.clone().unwrap_or(json!({"pairs": used})));
    ck.ob(H_ISO_HOM, "ISOGENY_MAP/homomorphism", bad.is_none() && used > 0, || bad.clone().unwrap_or(json!({"pairs": used})));
}

pub fn check_ell2(ck: &mut Ck, te: &TeC, e: &Ell2C) {
    let p = te.base.p.clone();
    if !ck.ob(H_ELL2, "Elligator2/BaseField/is-a-field", is_field(&te.base) && te.base.depth() == 0, || json!({"p": hexu(&p)})) {
        return;
    }
    let z = Zp::new(p.clone());
    let ok1 = e.z.len() == 1 && e.z[0] < p && legendre(&e.z[0], &p) == -1;
    ck.ob(H_ELL2, "Z/non-square", ok1, || json!({"Z": hexv(&e.z)}));
    let (a, b) = (&te.mont_a[0], &te.mont_b[0]);
    let Some(ib) = z.inv(b) else {
        ck.ob(H_ELL2, "ONE_OVER_COEFF_B_SQUARE", false, || json!({"Montgomery B": 0}));
        return;
    };
    let e1 = z.mul(&ib, &ib);
    ck.ob(H_ELL2, "ONE_OVER_COEFF_B_SQUARE", e.one_over_b_sq[0] == e1, || json!({"expected": hexu(&e1), "got": hexv(&e.one_over_b_sq)}));
    let e2 = z.mul(a, &ib);
    ck.ob(H_ELL2, "COEFF_A_OVER_COEFF_B", e.a_over_b[0] == e2, || json!({"expected": hexu(&e2), "got": hexv(&e.a_over_b)}));
    // RFC 9380: Z is the non-square of smallest absolute value (ties: positive first)
    if ok1 {
        let mut k = 1u64;
        let want = loop {
            let pos = u(k) % &p;
            if legendre(&pos, &p) == -1 {
                break pos;
            }
            let neg = z.neg(&pos);
            if legendre(&neg, &p) == -1 {
                break neg;
            }
            k += 1;
        };
        ck.ob(H_ELL2, "Z/non-square-of-lowest-absolute-value", e.z[0] == want, || json!({"expected": hexu(&want), "got": hexv(&e.z)}));
    }
}
