use monitor::*;
fn main() {
    let args = Args::parse();
    panic!("mon_const does not serve property {} yet", args.prop);
}
