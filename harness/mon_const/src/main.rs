//! mon_const: C16 (every shipped configuration is internally consistent) and C20 (compile-time
//! literals denote the number that is written).
use monitor::*;
use std::time::Instant;

mod adapt;
mod c16;
mod c20;
mod chk;
mod curves;
mod fields;
mod h2c;
#[rustfmt::skip]
pub mod literals_gen;
mod ora;
mod pairings;
mod towers;

fn main() {
    let args = Args::parse();
    let t0 = Instant::now();
    let (items, rule): (Vec<Item>, &str) = match args.prop.as_str() {
        "C16" => (c16::items(&args), c16::RULE),
        "C20" => (c20::items(&args), c20::RULE),
        p => panic!("mon_const does not serve property {p}"),
    };
    let rep = run_items(&args, items);
    finish(&args, "mon_const", rule, rep, t0)
}
