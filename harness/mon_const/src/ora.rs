//! Oracle-side helpers local to mon_const (all num-bigint; nothing here calls repository arithmetic):
//! Montgomery decoding, inversion in the schoolbook tower, textbook affine short-Weierstrass
//! arithmetic over a tower, affine twisted-Edwards arithmetic over Z/p, signed-digit values,
//! Horner evaluation in the tower.
pub use oracle::tower::{El, Tower};
pub use oracle::{from_limbs, is_probable_prime, legendre, modinv, pow2, small_factors, smod, to_limbs, u, One, SInt, Signed, UInt, Zero, Zp};

/// value denoted by raw Montgomery limbs: L * R^-1 mod p with R = 2^(64 * limbs.len())
pub fn mont_decode(limbs: &[u64], p: &UInt) -> UInt {
    let r = pow2(64 * limbs.len()) % p;
    let rinv = modinv(&r, p).expect("R invertible mod p");
    (from_limbs(limbs) * rinv) % p
}

pub fn hexu(v: &UInt) -> String {
    format!("0x{:x}", v)
}
pub fn hexv(v: &[UInt]) -> Vec<String> {
    v.iter().map(hexu).collect()
}

pub fn depth_of(a: &El) -> usize {
    match a {
        El::P(_) => 0,
        El::X(v) => 1 + depth_of(&v[0]),
    }
}

/// Inverse in the tower model through relative norms (closed forms for degree 2 and 3 levels),
/// self-checked by multiplication.
pub fn tinv(t: &Tower, a: &El) -> Option<El> {
    if t.is_zero(a) {
        return None;
    }
    let d = depth_of(a);
    let r = match a {
        El::P(x) => El::P(modinv(x, &t.p)?),
        El::X(c) => {
            let beta = &t.levels[d - 1].nonresidue;
            match c.len() {
                2 => {
                    // (c0 - c1 u) / (c0^2 - beta c1^2)
                    let n = t.sub(&t.mul(&c[0], &c[0]), &t.mul(beta, &t.mul(&c[1], &c[1])));
                    let ni = tinv(t, &n)?;
                    El::X(vec![t.mul(&c[0], &ni), t.neg(&t.mul(&c[1], &ni))])
                },
                3 => {
                    let t0 = t.sub(&t.mul(&c[0], &c[0]), &t.mul(beta, &t.mul(&c[1], &c[2])));
                    let t1 = t.sub(&t.mul(beta, &t.mul(&c[2], &c[2])), &t.mul(&c[0], &c[1]));
                    let t2 = t.sub(&t.mul(&c[1], &c[1]), &t.mul(&c[0], &c[2]));
                    let n = t.add(&t.mul(&c[0], &t0), &t.mul(beta, &t.add(&t.mul(&c[2], &t1), &t.mul(&c[1], &t2))));
                    let ni = tinv(t, &n)?;
                    El::X(vec![t.mul(&t0, &ni), t.mul(&t1, &ni), t.mul(&t2, &ni)])
                },
                k => panic!("tinv: unsupported degree {k}"),
            }
        },
    };
    assert!(t.mul(a, &r) == t.one(d), "tinv self-check");
    Some(r)
}

/// The model is a field iff p is prime and every level adjoins a k-th root of a k-th power non-residue (k prime).
/// Curve-level obligations are only evaluated over a genuine field (inverses of non-zero elements then exist).
pub fn is_field(t: &Tower) -> bool {
    if !is_probable_prime(&t.p, 16) {
        return false;
    }
    let mut below = Tower::new(t.p.clone());
    for (d, l) in t.levels.iter().enumerate() {
        let q = below.order(d);
        let k = u(l.deg as u64);
        let qm1 = &q - UInt::one();
        if !(l.deg == 2 || l.deg == 3) || !(&qm1 % &k).is_zero() || below.is_zero(&l.nonresidue) {
            return false;
        }
        if below.pow(&l.nonresidue, &(&qm1 / &k)) == below.one(d) {
            return false;
        }
        let nr = below.to_flat(&l.nonresidue);
        below = below.extend(l.deg, &nr);
    }
    true
}

pub fn small(t: &Tower, d: usize, k: u64) -> El {
    t.embed(&El::P(u(k) % &t.p), 0, d)
}

/// Horner evaluation of sum c_i x^i (coefficients and x at the same depth).
pub fn horner(t: &Tower, d: usize, coeffs: &[El], x: &El) -> El {
    let mut acc = t.zero(d);
    for c in coeffs.iter().rev() {
        acc = t.add(&t.mul(&acc, x), c);
    }
    acc
}

// ------------------------------------------------------------------------------------------------
// short Weierstrass y^2 = x^3 + a x + b over a tower level, textbook affine chord-and-tangent

pub type Pt = Option<(El, El)>;

#[derive(Clone)]
pub struct SwCurve {
    pub t: Tower,
    pub d: usize,
    pub a: El,
    pub b: El,
}

impl SwCurve {
    pub fn rhs(&self, x: &El) -> El {
        let t = &self.t;
        t.add(&t.add(&t.mul(&t.mul(x, x), x), &t.mul(&self.a, x)), &self.b)
    }
    pub fn on_curve(&self, p: &Pt) -> bool {
        match p {
            None => true,
            Some((x, y)) => self.t.mul(y, y) == self.rhs(x),
        }
    }
    pub fn neg(&self, p: &Pt) -> Pt {
        p.as_ref().map(|(x, y)| (x.clone(), self.t.neg(y)))
    }
    pub fn dbl(&self, p: &Pt) -> Pt {
        let t = &self.t;
        let (x, y) = p.as_ref()?;
        if t.is_zero(y) {
            return None;
        }
        let xx = t.mul(x, x);
        let num = t.add(&t.add(&t.add(&xx, &xx), &xx), &self.a);
        let den = tinv(t, &t.add(y, y)).expect("2y != 0 (odd characteristic)");
        let l = t.mul(&num, &den);
        let x3 = t.sub(&t.sub(&t.mul(&l, &l), x), x);
        let y3 = t.sub(&t.mul(&l, &t.sub(x, &x3)), y);
        Some((x3, y3))
    }
    pub fn add(&self, p: &Pt, q: &Pt) -> Pt {
        let t = &self.t;
        let (Some((x1, y1)), Some((x2, y2))) = (p, q) else {
            return if p.is_none() { q.clone() } else { p.clone() };
        };
        if x1 == x2 {
            return if *y1 == *y2 { self.dbl(p) } else { None };
        }
        let den = tinv(t, &t.sub(x2, x1)).expect("x2 != x1");
        let l = t.mul(&t.sub(y2, y1), &den);
        let x3 = t.sub(&t.sub(&t.mul(&l, &l), x1), x2);
        let y3 = t.sub(&t.mul(&l, &t.sub(x1, &x3)), y1);
        Some((x3, y3))
    }
    pub fn mul(&self, p: &Pt, k: &UInt) -> Pt {
        let mut acc: Pt = None;
        for i in (0..k.bits()).rev() {
            acc = self.dbl(&acc);
            if k.bit(i) {
                acc = self.add(&acc, p);
            }
        }
        acc
    }
}

// ------------------------------------------------------------------------------------------------
// twisted Edwards a x^2 + y^2 = 1 + d x^2 y^2 over Z/p, affine unified law

#[derive(Clone)]
pub struct TeCurve {
    pub z: Zp,
    pub a: UInt,
    pub d: UInt,
}

pub type TePt = (UInt, UInt);

impl TeCurve {
    pub fn on_curve(&self, (x, y): &TePt) -> bool {
        let z = &self.z;
        let xx = z.mul(x, x);
        let yy = z.mul(y, y);
        z.add(&z.mul(&self.a, &xx), &yy) == z.add(&UInt::one(), &z.mul(&self.d, &z.mul(&xx, &yy)))
    }
    pub fn identity(&self) -> TePt {
        (UInt::zero(), UInt::one())
    }
    /// None when a denominator vanishes (law not defined on this pair)
    pub fn add(&self, (x1, y1): &TePt, (x2, y2): &TePt) -> Option<TePt> {
        let z = &self.z;
        let x1x2 = z.mul(x1, x2);
        let y1y2 = z.mul(y1, y2);
        let k = z.mul(&self.d, &z.mul(&x1x2, &y1y2));
        let dx = z.inv(&z.add(&UInt::one(), &k))?;
        let dy = z.inv(&z.sub(&UInt::one(), &k))?;
        let x3 = z.mul(&z.add(&z.mul(x1, y2), &z.mul(y1, x2)), &dx);
        let y3 = z.mul(&z.sub(&y1y2, &z.mul(&self.a, &x1x2)), &dy);
        Some((x3, y3))
    }
    pub fn mul(&self, p: &TePt, k: &UInt) -> Option<TePt> {
        let mut acc = self.identity();
        for i in (0..k.bits()).rev() {
            acc = self.add(&acc, &acc)?;
            if k.bit(i) {
                acc = self.add(&acc, p)?;
            }
        }
        Some(acc)
    }
}

// ------------------------------------------------------------------------------------------------

/// value of little-endian signed digits
pub fn digits_le(d: &[i8]) -> SInt {
    let mut acc = SInt::zero();
    for x in d.iter().rev() {
        acc = (acc << 1) + SInt::from(*x);
    }
    acc
}
/// value of big-endian signed digits
pub fn digits_be(d: &[i8]) -> SInt {
    let mut acc = SInt::zero();
    for x in d.iter() {
        acc = (acc << 1) + SInt::from(*x);
    }
    acc
}

pub fn isqrt(n: &UInt) -> UInt {
    n.sqrt()
}

/// |h*r - (q+1)| <= 2 sqrt(q)  <=>  (h*r - q - 1)^2 <= 4 q
pub fn hasse_ok(order: &UInt, q: &UInt) -> bool {
    let diff = SInt::from(order.clone()) - SInt::from(q.clone()) - SInt::one();
    &diff * &diff <= SInt::from(q.clone()) * SInt::from(4)
}

pub fn signed(neg: bool, v: &UInt) -> SInt {
    let s = SInt::from(v.clone());
    if neg {
        -s
    } else {
        s
    }
}

/// exact order check in a group given by `pow`: g^n == 1 and g^(n/q) != 1 for every prime q | n
pub fn has_exact_order(pow: &dyn Fn(&UInt) -> bool, n: &UInt, primes: &[UInt]) -> bool {
    if !pow(n) {
        return false;
    }
    for q in primes {
        if (n % q).is_zero() && pow(&(n / q)) {
            return false;
        }
    }
    true
}
