//! Pairing-parameter obligations: family polynomials, loop counts, final-exponent identities, twists.
use crate::adapt::{BnC, Bls12C, Bw6C, MntC, SwC, Twist};
use crate::chk::Ck;
use crate::curves::{pt, sw_curve};
use crate::ora::*;
use monitor::*;

pub const P_FAMILY: &str = "pairing: family polynomials p(x), r(x)";
pub const P_EMBED: &str = "pairing: embedding degree";
pub const P_LOOP: &str = "pairing: loop counts";
pub const P_TWIST: &str = "pairing: twist constants and G2 coefficients";
pub const P_FINALEXP: &str = "pairing: final exponent identity";
pub const P_GROUPS: &str = "pairing: G1/G2 share the scalar field";

fn sx(x: &[u64], neg: bool) -> SInt {
    signed(neg, &from_limbs(x))
}
fn su(v: &SInt) -> Option<UInt> {
    v.to_biguint()
}
fn embedding(ck: &mut Ck, p: &UInt, r: &UInt, k: u32) {
    let one = UInt::one();
    let mut ok = (p.modpow(&u(k as u64), r)) == one;
    let mut smaller = vec![];
    for i in 1..k {
        if k % i == 0 && p.modpow(&u(i as u64), r) == one {
            ok = false;
            smaller.push(i);
        }
    }
    ck.ob(P_EMBED, &format!("embedding-degree-{k}"), ok, || json!({"p": hexu(p), "r": hexu(r), "k": k, "p^i = 1 mod r for proper divisors": smaller}));
}
/// towers of both groups must be fields before any equation over them is evaluated
fn fields_ok(ck: &mut Ck, g1: &SwC, g2: &SwC) -> bool {
    ck.ob(P_GROUPS, "BaseField/is-a-field", is_field(&g1.base) && is_field(&g2.base), || json!({"p": hexu(&g2.base.p)}))
}
fn groups(ck: &mut Ck, g1: &SwC, g2: &SwC, p: &UInt, r: Option<&UInt>) {
    let ok = g1.r == g2.r && g1.base.p == *p && g2.base.p == *p && r.map(|r| *r == g1.r).unwrap_or(true);
    ck.ob(P_GROUPS, "G1Config,G2Config/fields", ok, || json!({"r1": hexu(&g1.r), "r2": hexu(&g2.r)}));
}

/// b2 = b1 * xi (M) or b2 * xi = b1 (D), a1 = a2 = 0; xi, b1 embedded in G2's base field
fn sextic_twist(ck: &mut Ck, g1: &SwC, g2: &SwC, xi_flat: &[UInt], xi_depth: usize, twist: Twist) {
    let t = &g2.base;
    let d = t.depth();
    let xi = t.embed(&t.from_flat(xi_flat, xi_depth), xi_depth, d);
    let b1 = t.embed(&g1.base.from_flat(&g1.b, 0), 0, d);
    let b2 = t.from_flat(&g2.b, d);
    let a_zero = g1.a.iter().all(|x| x.is_zero()) && g2.a.iter().all(|x| x.is_zero());
    let m = t.mul(&b1, &xi) == b2;
    let dd = t.mul(&b2, &xi) == b1;
    ck.rep.class_if(twist == Twist::M, "pairing: M-type twist");
    ck.rep.class_if(twist == Twist::D, "pairing: D-type twist");
    let ok = a_zero && match twist {
        Twist::M => m,
        Twist::D => dd,
    };
    ck.ob(P_TWIST, "TWIST_TYPE/consistent-with-G2-COEFF_B", ok, || {
        json!({"declared": format!("{twist:?}"), "b2 == b1*xi (M)": m, "b2*xi == b1 (D)": dd, "a1 = a2 = 0": a_zero, "xi": hexv(xi_flat), "b1": hexv(&g1.b), "b2": hexv(&g2.b)})
    });
}

pub fn check_bls12(ck: &mut Ck, c: &Bls12C) {
    if !fields_ok(ck, &c.g1, &c.g2) {
        return;
    }
    let x = sx(&c.x, c.x_neg);
    let one = SInt::one();
    let r = &x * &x * &x * &x - &x * &x + &one;
    let num = (&x - &one) * (&x - &one) * &r;
    let p = &num / SInt::from(3) + &x;
    let r_ok = su(&r).map(|v| v == c.g1.r).unwrap_or(false);
    ck.ob(P_FAMILY, "X/r = x^4 - x^2 + 1", r_ok && !x.is_zero(), || json!({"x": x.to_string(), "expected r": r.to_string(), "got": c.g1.r.to_string()}));
    let p_ok = (&num % SInt::from(3)).is_zero() && su(&p).map(|v| v == c.p).unwrap_or(false);
    ck.ob(P_FAMILY, "X/p = (x-1)^2 r/3 + x", p_ok, || json!({"x": x.to_string(), "expected p": p.to_string(), "got": c.p.to_string()}));
    ck.rep.class_if(c.x_neg, "pairing: negative x");
    ck.rep.class_if(!c.x_neg, "pairing: positive x");
    groups(ck, &c.g1, &c.g2, &c.p, None);
    embedding(ck, &c.p, &c.g1.r, 12);
    sextic_twist(ck, &c.g1, &c.g2, &c.xi, 1, c.twist);
    // G1 cofactor of the family: (x-1)^2/3
    let h1 = (&x - &one) * (&x - &one) / SInt::from(3);
    ck.ob(P_FAMILY, "G1 COFACTOR = (x-1)^2/3", su(&h1).map(|v| v == from_limbs(&c.g1.cofactor)).unwrap_or(false), || {
        json!({"expected": h1.to_string(), "got": from_limbs(&c.g1.cofactor).to_string()})
    });
}

pub fn check_bn(ck: &mut Ck, c: &BnC) {
    if !fields_ok(ck, &c.g1, &c.g2) {
        return;
    }
    let x = sx(&c.x, c.x_neg);
    let i = |k: i64| SInt::from(k);
    let x2 = &x * &x;
    let x3 = &x2 * &x;
    let x4 = &x2 * &x2;
    let p = i(36) * &x4 + i(36) * &x3 + i(24) * &x2 + i(6) * &x + i(1);
    let r = i(36) * &x4 + i(36) * &x3 + i(18) * &x2 + i(6) * &x + i(1);
    ck.ob(P_FAMILY, "X/p = 36x^4+36x^3+24x^2+6x+1", su(&p).map(|v| v == c.p).unwrap_or(false), || json!({"x": x.to_string(), "expected": p.to_string(), "got": c.p.to_string()}));
    ck.ob(P_FAMILY, "X/r = 36x^4+36x^3+18x^2+6x+1", su(&r).map(|v| v == c.g1.r).unwrap_or(false), || json!({"x": x.to_string(), "expected": r.to_string(), "got": c.g1.r.to_string()}));
    ck.rep.class_if(c.x_neg, "pairing: negative x");
    ck.rep.class_if(!c.x_neg, "pairing: positive x");
    groups(ck, &c.g1, &c.g2, &c.p, None);
    embedding(ck, &c.p, &c.g1.r, 12);
    sextic_twist(ck, &c.g1, &c.g2, &c.xi, 1, c.twist);
    // ATE_LOOP_COUNT: little-endian signed digits of |6x+2|, leading digit 1 (the Miller loop starts from Q)
    let want = (i(6) * &x + i(2)).abs();
    let digits_ok = c.ate.iter().all(|d| (-1..=1).contains(d));
    let top_ok = c.ate.last().copied() == Some(1);
    let val = digits_le(&c.ate);
    ck.ob(P_LOOP, "ATE_LOOP_COUNT = |6x+2|", digits_ok && top_ok && val == want, || {
        json!({"expected": want.to_string(), "got": val.to_string(), "digits in {-1,0,1}": digits_ok, "leading digit is 1": top_ok})
    });
    check_psi(ck, &c.g2, &c.xi, c.twist, &c.mul_by_q_x, &c.mul_by_q_y, None, ("TWIST_MUL_BY_Q_X", "TWIST_MUL_BY_Q_Y"));
}

/// (x,y) -> (x^p * X, y^p * Y) is the p-power Frobenius transported to the sextic twist over Fp2:
///  (1) X = xi^((p-1)/3), Y = xi^((p-1)/2) for a D-type twist (inverses for an M-type twist)
///  (2) it acts on G2 as multiplication by p
///  (3) optional: the constant D with psi^2(x,y) = (x D, -y), i.e. D = X^p X and Y^p Y = -1
pub fn check_psi(ck: &mut Ck, g2: &SwC, xi_flat: &[UInt], twist: Twist, cx: &[UInt], cy: &[UInt], double: Option<&[UInt]>, names: (&str, &str)) {
    let t = &g2.base;
    let d = t.depth();
    let p = &t.p;
    let canon = |v: &[UInt]| v.len() == 2 && v.iter().all(|z| z < p);
    if !is_field(t) {
        ck.ob(P_TWIST, names.0, false, || json!({"base field": "not a field"}));
        return;
    }
    if d != 1 || !canon(cx) || !canon(cy) || !canon(xi_flat) || double.map(|v| !canon(v)).unwrap_or(false) {
        ck.ob(P_TWIST, names.0, false, || json!({"non-canonical": true}));
        return;
    }
    let xi = t.from_flat(xi_flat, d);
    let pm1 = p - UInt::one();
    let tx = t.from_flat(cx, d);
    let ty = t.from_flat(cy, d);
    let (ex, ey) = {
        let a = t.pow(&xi, &(&pm1 / u(3)));
        let b = t.pow(&xi, &(&pm1 / u(2)));
        match twist {
            Twist::D => (a, b),
            Twist::M => (tinv(t, &a).unwrap(), tinv(t, &b).unwrap()),
        }
    };
    ck.ob(P_TWIST, names.0, (&pm1 % u(6)).is_zero() && tx == ex, || json!({"expected": hexv(&t.to_flat(&ex)), "got": hexv(cx)}));
    ck.ob(P_TWIST, names.1, (&pm1 % u(6)).is_zero() && ty == ey, || json!({"expected": hexv(&t.to_flat(&ey)), "got": hexv(cy)}));
    let e = sw_curve(g2);
    let g = pt(t, d, &g2.g);
    if let Some((gx, gy)) = &g {
        let psi: Pt = Some((t.mul(&t.pow(gx, p), &tx), t.mul(&t.pow(gy, p), &ty)));
        let pg = e.mul(&g, &(p % &g2.r));
        ck.ob(P_TWIST, &format!("{},{}/psi(G2) = [p]G2", names.0, names.1), e.on_curve(&psi) && psi == pg, || json!({"psi(G) on curve": e.on_curve(&psi)}));
    }
    if let Some(dv) = double {
        let dd = t.from_flat(dv, d);
        let exp = t.mul(&t.pow(&tx, p), &tx);
        let yy = t.mul(&t.pow(&ty, p), &ty);
        ck.ob(P_TWIST, "DOUBLE_P_POWER_ENDOMORPHISM", dd == exp && yy == t.neg(&t.one(d)), || json!({"expected": hexv(&t.to_flat(&exp)), "got": hexv(dv), "Y^p*Y == -1": yy == t.neg(&t.one(d))}));
    }
}

pub fn check_bw6(ck: &mut Ck, c: &Bw6C) {
    if !fields_ok(ck, &c.g1, &c.g2) {
        return;
    }
    let x = sx(&c.x, c.x_neg);
    let i = |k: i64| SInt::from(k);
    let one = SInt::one();
    let x2 = &x * &x;
    let x3 = &x2 * &x;
    let x4 = &x2 * &x2;
    let x5 = &x4 * &x;
    // r = p_BLS12(x)
    let num = (&x - &one) * (&x - &one) * (&x4 - &x2 + &one);
    let r = &num / i(3) + &x;
    ck.ob(P_FAMILY, "X/r = (x-1)^2 (x^4-x^2+1)/3 + x", (&num % i(3)).is_zero() && su(&r).map(|v| v == c.g1.r).unwrap_or(false), || {
        json!({"x": x.to_string(), "expected": r.to_string(), "got": c.g1.r.to_string()})
    });
    // Housni-Guillevic BW6 parameterisation: p = (t^2 + 3 y^2)/4 with
    //   t = r h_t + t0, y = r h_y + y0,
    //   (t0, y0) = (x^5-3x^4+3x^3-x+3, (x^5-3x^4+3x^3-x+3)/3)       when T_MOD_R_IS_ZERO is false
    //   (t0, y0) = (-x^5+3x^4-3x^3+x, (x^5-3x^4+3x^3-x)/3)          when T_MOD_R_IS_ZERO is true
    let z = &x5 - i(3) * &x4 + i(3) * &x3 - &x;
    let (t0, y0n) = if c.t_mod_r_is_zero { (-z.clone(), z.clone()) } else { (&z + i(3), &z + i(3)) };
    let t = &r * i(c.h_t) + &t0;
    let y = &r * i(c.h_y) + &y0n / i(3);
    let pp = (&t * &t + i(3) * &y * &y) / i(4);
    let exact = (&y0n % i(3)).is_zero() && ((&t * &t + i(3) * &y * &y) % i(4)).is_zero();
    ck.ob(P_FAMILY, "H_T,H_Y,T_MOD_R_IS_ZERO/p = (t^2+3y^2)/4", exact && su(&pp).map(|v| v == c.p).unwrap_or(false), || {
        json!({"x": x.to_string(), "h_t": c.h_t, "h_y": c.h_y, "t_mod_r_is_zero": c.t_mod_r_is_zero, "expected p": pp.to_string(), "got": c.p.to_string()})
    });
    ck.rep.class_if(c.t_mod_r_is_zero, "pairing: BW6 trace 0 mod r mod x");
    ck.rep.class_if(!c.t_mod_r_is_zero, "pairing: BW6 trace 3 mod r mod x");
    ck.rep.class_if(c.x_neg, "pairing: negative x");
    ck.rep.class_if(!c.x_neg, "pairing: positive x");
    // the trace must give the G1 group order: p + 1 - t = h1 * r
    let n1 = SInt::from(c.p.clone()) + &one - &t;
    let h1r = SInt::from(from_limbs(&c.g1.cofactor) * &c.g1.r);
    ck.ob(P_FAMILY, "H_T/p + 1 - t = COFACTOR(G1) * r", n1 == h1r, || json!({"p+1-t": n1.to_string(), "h1*r": h1r.to_string()}));
    groups(ck, &c.g1, &c.g2, &c.p, None);
    embedding(ck, &c.p, &c.g1.r, 6);
    sextic_twist(ck, &c.g1, &c.g2, &c.xi, 0, c.twist);
    // loop counts
    let xabs = from_limbs(&c.x);
    ck.ob(P_LOOP, "ATE_LOOP_COUNT_1 = |x|", from_limbs(&c.ate1) == xabs && c.ate1_neg == c.x_neg, || {
        json!({"expected": xabs.to_string(), "got": from_limbs(&c.ate1).to_string(), "sign flag": c.ate1_neg, "x negative": c.x_neg})
    });
    let want = if c.x_neg { (&xabs + UInt::one()) / u(3) } else { (&xabs - UInt::one()) / u(3) };
    let divisible = if c.x_neg { ((&xabs + UInt::one()) % u(3)).is_zero() } else { ((&xabs - UInt::one()) % u(3)).is_zero() };
    ck.ob(P_LOOP, "X_MINUS_1_DIV_3", divisible && from_limbs(&c.x_minus_1_div_3) == want, || json!({"expected": hexu(&want), "got": hex_limbs(&c.x_minus_1_div_3)}));
    let l2 = &x2 - &x - &one;
    let val = digits_le(&c.ate2);
    let digits_ok = c.ate2.iter().all(|d| (-1..=1).contains(d)) && c.ate2.last().copied() == Some(1);
    ck.ob(P_LOOP, "ATE_LOOP_COUNT_2 = |x^2-x-1|", digits_ok && val == l2.abs() && c.ate2_neg == l2.is_negative(), || {
        json!({"expected": l2.to_string(), "got": val.to_string(), "sign flag": c.ate2_neg, "digits ok": digits_ok})
    });
}

/// MNT4 / MNT6 (and the crate-local cp6_782 engine, which uses the same constants as plain items)
pub fn check_mnt(ck: &mut Ck, c: &MntC, ate_is_plain_bits: bool) {
    if !fields_ok(ck, &c.g1, &c.g2) {
        return;
    }
    let one = UInt::one();
    let (p, r) = (&c.p, &c.r);
    groups(ck, &c.g1, &c.g2, p, Some(r));
    embedding(ck, p, r, c.k as u32);
    // trace of Frobenius from the G1 order: t = p + 1 - h1 r. f_{T,Q}(P) is a pairing for T = t - 1 mod r
    // (Hess-Smart-Vercauteren); the shortest choice is T = t - 1 itself.
    let n1 = from_limbs(&c.g1.cofactor) * r;
    let tm1 = SInt::from(p.clone()) - SInt::from(n1);
    let val = signed(c.ate_neg, &digits_be(&c.ate).to_biguint().unwrap_or_default());
    let digits_ok = c.ate.iter().all(|d| (-1..=1).contains(d)) && c.ate.first().copied() == Some(1) && !digits_be(&c.ate).is_negative();
    let congruent = smod(&val, r) == smod(&tm1, r);
    ck.rep.class_if(val == tm1, "pairing: ate loop count equals t-1 exactly");
    ck.rep.class_if(congruent && val != tm1, "pairing: ate loop count is a longer representative of t-1 mod r (observation)");
    if congruent && val != tm1 {
        ck.rep.note(format!("{}: ATE_LOOP_COUNT has {} bits and is congruent to t-1 (= p) modulo r, but is not t-1 = {} itself", ck.cfg, val.bits(), tm1));
    }
    ck.ob(P_LOOP, "ATE_LOOP_COUNT = t-1 mod r", digits_ok && congruent, || {
        json!({"expected t-1": tm1.to_string(), "got": val.to_string(), "ATE_IS_LOOP_COUNT_NEG": c.ate_neg, "leading digit 1 and digits in {-1,0,1}": digits_ok,
               "digit order": if ate_is_plain_bits { "bits of a u64 array, most significant first" } else { "most significant first" }})
    });
    // final exponent: Phi_k(p)/r = w1 p + w0
    let phi = if c.k == 4 { p * p + &one } else { p * p - p + &one };
    let w = SInt::from(from_limbs(&c.w1)) * SInt::from(p.clone()) + signed(c.w0_neg, &from_limbs(&c.w0_abs));
    let ok = (&phi % r).is_zero() && w == SInt::from(&phi / r);
    ck.ob(P_FINALEXP, "FINAL_EXPONENT_LAST_CHUNK_1,W0/w1*p + w0 = Phi_k(p)/r", ok, || {
        json!({"k": c.k, "expected": (&phi / r).to_string(), "got": w.to_string(), "r | Phi_k(p)": (&phi % r).is_zero()})
    });
    // twist: TWIST is the adjoined root u of G2's base field (x_twist = TWIST * x is used as an element of F_{p^k});
    // TWIST_COEFF_A = a TWIST^2, G2 = (a TWIST^2, b TWIST^3)
    let t = &c.g2.base;
    let d = t.depth();
    let dim = t.dim(d);
    let mut uflat = vec![UInt::zero(); dim];
    uflat[1] = UInt::one();
    ck.ob(P_TWIST, "TWIST = adjoined root", c.twist == uflat, || json!({"expected": hexv(&uflat), "got": hexv(&c.twist)}));
    if c.twist.len() != dim || c.twist_coeff_a.len() != dim || c.twist.iter().chain(&c.twist_coeff_a).any(|z| z >= p) {
        ck.ob(P_TWIST, "TWIST_COEFF_A = a*TWIST^2", false, || json!({"non-canonical": true}));
        return;
    }
    let tw = t.from_flat(&c.twist, d);
    let tw2 = t.mul(&tw, &tw);
    let tw3 = t.mul(&tw2, &tw);
    let a1 = t.embed(&c.g1.base.from_flat(&c.g1.a, 0), 0, d);
    let b1 = t.embed(&c.g1.base.from_flat(&c.g1.b, 0), 0, d);
    let ea = t.mul(&a1, &tw2);
    let eb = t.mul(&b1, &tw3);
    ck.ob(P_TWIST, "TWIST_COEFF_A = a*TWIST^2", t.from_flat(&c.twist_coeff_a, d) == ea, || json!({"expected": hexv(&t.to_flat(&ea)), "got": hexv(&c.twist_coeff_a)}));
    ck.ob(P_TWIST, "G2 COEFF_A = a*TWIST^2", t.from_flat(&c.g2.a, d) == ea, || json!({"expected": hexv(&t.to_flat(&ea)), "got": hexv(&c.g2.a)}));
    ck.ob(P_TWIST, "G2 COEFF_B = b*TWIST^3", t.from_flat(&c.g2.b, d) == eb, || json!({"expected": hexv(&t.to_flat(&eb)), "got": hexv(&c.g2.b)}));
}
