//! Extension-tower obligations on `LevelC` data: non-residuosity (irreducibility of X^k - beta),
//! Frobenius tables entry by entry, Fp3 two-adicity constants.
//!
//! Reading of the tables (derived from `frobenius_map_in_place`: coefficient c_j of u^j is mapped to
//! c_j^(p^i) * TABLE_j[i % DEGREE_OVER_BASE_PRIME_FIELD], and (c_j u^j)^(p^i) = c_j^(p^i) u^j (u^k)^(j (p^i - 1)/k)):
//! TABLE_j[i] = NONRESIDUE^(j (p^i - 1) / k), an element of the field this level extends, which must lie in
//! the table's coefficient field.
use crate::adapt::{LevelC, SqrtC};
use crate::chk::Ck;
use crate::ora::*;
use monitor::*;

pub const T_NONRES: &str = "tower: NONRESIDUE is a k-th power non-residue (X^k - beta irreducible)";
pub const T_SHAPE: &str = "tower: degrees and wrapper constants";
pub const T_FROB: &str = "tower: FROBENIUS_COEFF entry equals NONRESIDUE^(j(p^i-1)/k)";
pub const T_FP3: &str = "tower: Fp3 TWO_ADICITY / TRACE_MINUS_ONE_DIV_TWO / QUADRATIC_NONRESIDUE_TO_T";
pub const T_SQRT: &str = "tower: SQRT_PRECOMP payload";

pub fn check_level(ck: &mut Ck, c: &LevelC) {
    let base = &c.base;
    let bd = base.depth();
    let p = base.p.clone();
    let one = UInt::one();
    let k = c.deg;
    let dim_base = base.dim(bd);
    ck.rep.class(&format!("tower kind: {}", c.kind));

    // --- shape
    ck.ob(T_SHAPE, "DEGREE_OVER_BASE_PRIME_FIELD", c.wrapper_degree == dim_base * k && c.degree_over_prime == dim_base * k && c.extension_degree as usize == dim_base * k, || {
        json!({"expected": dim_base * k, "wrapper": c.wrapper_degree, "extension_degree()": c.extension_degree})
    });
    ck.ob(T_SHAPE, "NONRESIDUE/wrapper-agrees", c.wrapper_nonresidue == c.nonresidue, || json!({"config": hexv(&c.nonresidue), "wrapper": hexv(&c.wrapper_nonresidue)}));
    if let Some(m) = &c.must_equal {
        ck.ob(T_SHAPE, "NONRESIDUE/required-value", &c.nonresidue == m, || json!({"required": hexv(m), "got": hexv(&c.nonresidue)}));
    }
    let canonical = c.nonresidue.iter().all(|x| x < &p) && c.nonresidue.len() == dim_base;
    ck.ob(T_SHAPE, "NONRESIDUE/canonical", canonical, || json!({"got": hexv(&c.nonresidue)}));
    if !canonical {
        return;
    }

    // --- non-residuosity
    let beta = base.from_flat(&c.nonresidue, bd);
    let q = base.order(bd);
    let qm1 = &q - &one;
    let kk = u(k as u64);
    let divisible = (&qm1 % &kk).is_zero();
    let nonres = divisible && !base.is_zero(&beta) && base.pow(&beta, &(&qm1 / &kk)) != base.one(bd);
    ck.ob(T_NONRES, "NONRESIDUE/non-residue", nonres, || json!({"p": hexu(&p), "k": k, "k | q-1": divisible, "nonresidue": hexv(&c.nonresidue)}));

    // --- Frobenius tables
    for tb in &c.frob {
        let len_ok = tb.entries.len() == c.degree_over_prime;
        ck.ob(T_FROB, &format!("{}/length", tb.name), len_ok, || json!({"expected": c.degree_over_prime, "got": tb.entries.len()}));
        let cdim = base.dim(tb.coeff_depth);
        let mut pi = UInt::one();
        for (i, e) in tb.entries.iter().enumerate() {
            let name = format!("{}[{}]", tb.name, i);
            let num = (&pi - &one) * u(tb.j as u64);
            let ok_div = (&num % &kk).is_zero();
            let mut detail = json!({});
            let ok = if !ok_div || e.len() != cdim || e.iter().any(|x| x >= &p) {
                detail = json!({"p": hexu(&p), "j(p^i-1) divisible by k": ok_div, "got": hexv(e)});
                false
            } else {
                // exponent reduced modulo the order of the multiplicative group beta lives in
                let ex = (&num / &kk) % &qm1;
                let expect = base.pow(&beta, &ex);
                let got = base.embed(&base.from_flat(e, tb.coeff_depth), tb.coeff_depth, bd);
                if expect != got {
                    detail = json!({"p": hexu(&p), "i": i, "j": tb.j, "k": k, "nonresidue": hexv(&c.nonresidue),
                        "expected (flat, in the extended field)": hexv(&base.to_flat(&expect)), "got": hexv(e)});
                }
                expect == got
            };
            ck.ob(T_FROB, &name, ok, || detail);
            pi *= &p;
        }
    }

    // --- Fp3 extras / SQRT_PRECOMP
    let level = {
        let mut t = base.clone();
        t = t.extend(k, &c.nonresidue);
        t
    };
    let ld = bd + 1;
    let ql = level.order(ld);
    let qlm1 = &ql - &one;
    let s = qlm1.trailing_zeros().unwrap() as usize;
    let t_odd = &qlm1 >> s;
    let order_2s = |flat: &[UInt]| -> bool {
        if flat.len() != level.dim(ld) || flat.iter().any(|x| x >= &p) {
            return false;
        }
        let z = level.from_flat(flat, ld);
        let minus_one = level.neg(&level.one(ld));
        level.pow(&z, &pow2(s - 1)) == minus_one
    };
    if let Some(x) = &c.fp3 {
        ck.ob(T_FP3, "TWO_ADICITY", x.two_adicity as usize == s, || json!({"expected": s, "got": x.two_adicity}));
        ck.ob(T_FP3, "TRACE_MINUS_ONE_DIV_TWO", from_limbs(&x.tm1d2) == (&t_odd - &one) >> 1usize, || {
            json!({"expected": hexu(&((&t_odd - &one) >> 1usize)), "got": hex_limbs(&x.tm1d2)})
        });
        ck.ob(T_FP3, "QUADRATIC_NONRESIDUE_TO_T", order_2s(&x.qnr_to_t), || json!({"p": hexu(&p), "s": s, "got": hexv(&x.qnr_to_t)}));
    }
    match (&c.sqrt, &c.fp3) {
        (SqrtC::Absent | SqrtC::Other, _) => {},
        // Fp3 forwards its three constants: the payload must be exactly them (their values are judged above)
        (SqrtC::TonelliShanks { two_adicity, qnr_to_t, tm1d2 }, Some(x)) => {
            let ok = *two_adicity == x.two_adicity && *qnr_to_t == x.qnr_to_t && *tm1d2 == x.tm1d2;
            ck.ob(T_SQRT, "SQRT_PRECOMP/TonelliShanks-forwards-the-Fp3Config-constants", ok, || json!({"two_adicity": two_adicity, "tm1d2": hex_limbs(tm1d2), "qnr_to_t": hexv(qnr_to_t)}));
        },
        (SqrtC::TonelliShanks { two_adicity, qnr_to_t, tm1d2 }, None) => {
            let ok = *two_adicity as usize == s && from_limbs(tm1d2) == (&t_odd - &one) >> 1usize && order_2s(qnr_to_t);
            ck.ob(T_SQRT, "SQRT_PRECOMP/TonelliShanks", ok, || json!({"s": s, "two_adicity": two_adicity, "tm1d2": hex_limbs(tm1d2), "qnr_to_t": hexv(qnr_to_t)}));
        },
        (SqrtC::Case3Mod4 { mp1d4 }, _) => {
            let ok = (&ql % u(4)) == u(3) && from_limbs(mp1d4) == (&ql + &one) >> 2usize;
            ck.ob(T_SQRT, "SQRT_PRECOMP/Case3Mod4", ok, || json!({"got": hex_limbs(mp1d4)}));
        },
    }
}
