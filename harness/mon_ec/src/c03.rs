//! C03 — curve point operations realise the elliptic-curve group law.
use crate::model::*;
use ark_ec::{AdditiveGroup, AffineRepr, CurveGroup};
use ark_ff::{Field, UniformRand};
use ark_std::rand::RngCore;
use ark_std::{One, Zero};
use monitor::*;

pub const RULE: &str = "cases = (curve, operation, ordered pair of points, coordinate representation of each operand); toy curves: \
ALL ordered pairs of curve points (twisted Edwards with incomplete law: all pairs of the prime-order subgroup) with representations \
drawn from {affine, Z=1, random projective rescalings, non-canonical identities (X,Y,0) / (0,v,0,v)}; shipped curves: pairs from \
relation classes {independent, P=Q, P=-Q, identity either/both sides, points outside the prime-order subgroup, 2-torsion where the \
cofactor is even}; expected results from the textbook affine law (toy: plain u64 arithmetic; shipped: field operations checked by \
C01/C02), results decoded from raw X,Y,Z / X,Y,T,Z by the oracle; non-trivial = not both operands the identity; \
distinct = digest of (curve, op, P, Q, representation)";

pub struct Sel {
    pub all_reps: bool,
    pub enumerated: bool,
}

fn lam<F: Field>(rng: &mut Rng) -> F {
    loop {
        let l = F::rand(rng);
        if !l.is_zero() {
            return l;
        }
    }
}

/// representation kinds: 0 = Z=1, 1..=2 = random rescaling, 3 = non-canonical identity (only for the identity)
fn rep_of<M: Model, R: Conv<M::F>>(ctx: &Ctx<M, R>, p: &OP<R::El>, kind: u32, rng: &mut Rng, rep: &mut Report) -> M::G {
    if ctx.cur.is_identity(p) && kind == 3 {
        rep.class("representation: non-canonical identity");
        return ctx.weird_identity(&lam::<M::F>(rng), &lam::<M::F>(rng));
    }
    match kind {
        0 => {
            rep.class("representation: Z = 1");
            ctx.proj(p, &M::F::one())
        },
        2 => {
            // the checked constructors (they normalise their input; the point must come back as the same point
            // with consistent hidden coordinates); refused for points outside the subgroup, then the plain one
            let l = if rng.next_u32() % 3 == 0 { M::F::one() } else { lam::<M::F>(rng) };
            // (one time in four: the constructor runs a subgroup test, and a refusal is a caught panic)
            let tried = if rng.next_u32() % 4 == 0 { ctx.proj_checked(p, &l) } else { None };
            match tried {
                Some(g) => {
                    rep.class("representation: checked constructor (Projective::new with Z != 1 / Affine::new)");
                    g
                },
                None => {
                    rep.class("representation: Z != 1 (random rescaling)");
                    ctx.proj(p, &l)
                },
            }
        },
        _ => {
            rep.class("representation: Z != 1 (random rescaling)");
            ctx.proj(p, &lam::<M::F>(rng))
        },
    }
}

pub fn pair<M: Model, R: Conv<M::F>>(ctx: &Ctx<M, R>, rep: &mut Report, rng: &mut Rng, p: &OP<R::El>, q: &OP<R::El>, sel: &Sel) {
    let cur = &ctx.cur;
    let (Ok(sum), Ok(diff), Ok(dbl)) = (cur.add(p, q), cur.sub(p, q), cur.add(p, p)) else {
        rep.class("skipped: twisted-Edwards law undefined for this pair (incomplete curve, outside the subgroup)");
        return;
    };
    let nt = !(cur.is_identity(p) && cur.is_identity(q));
    let idp = cur.is_identity(p);
    let idq = cur.is_identity(q);
    rep.class_if(p == q && !idp, "pair: P + P through add");
    rep.class_if(*q == cur.neg(p) && !idp, "pair: P + (-P)");
    rep.class_if(idp != idq, "pair: identity on one side");
    rep.class_if(idp && idq, "pair: identity on both sides");
    if !M::TE {
        if let Some((_, y)) = p {
            rep.class_if(cur.ar.is_zero(y), "pair: 2-torsion point (y = 0) as first operand");
        }
    }
    rep.class_if(cur.is_identity(&dbl) && !idp, "pair: doubling gives the identity");
    let base_dg = digest(&(ctx.name.as_str(), p, q));
    let kinds: Vec<(u32, u32)> = if sel.all_reps {
        vec![(0, 0), (1, 1), (0, 2), (2, 0), (3, 1), (1, 3), (3, 3)]
    } else {
        vec![(rng.next_u32() % 4, rng.next_u32() % 4)]
    };
    let (ap, aq) = (ctx.aff(p), ctx.aff(q));
    let sig = |op: &str, kind: &str| format!("group/{}/{}/{}", ctx.name, op, kind);
    for (kp, kq) in kinds {
        let gp = rep_of(ctx, p, kp, rng, rep);
        let gq = rep_of(ctx, q, kq, rng, rep);
        let gp2 = rep_of(ctx, p, 1, rng, rep);
        let dg = mix(base_dg, (kp * 4 + kq) as u64);
        let mut opn = 0u64;
        let detail = |op: &str| {
            json!({"curve": ctx.name, "op": op, "P": ctx.show(p), "Q": ctx.show(q), "rep_P": kp, "rep_Q": kq,
                   "raw_P": M::raw(&gp).iter().map(|f| format!("{f}")).collect::<Vec<_>>(), "raw_Q": M::raw(&gq).iter().map(|f| format!("{f}")).collect::<Vec<_>>()})
        };
        // compare a projective result
        macro_rules! g {
            ($op:literal, $exp:expr, $call:expr) => {{
                opn += 1;
                if let Some(r) = rep.total(&sig($op, "total"), || detail($op), || $call) {
                    if sel.enumerated { rep.eval_enumerated(nt) } else { rep.eval(mix(dg, opn), nt) }
                    match ctx.decode(&r) {
                        Ok(got) => {
                            if got != $exp {
                                let mut d = detail($op);
                                d["got"] = json!(ctx.show(&got));
                                d["expected"] = json!(ctx.show(&$exp));
                                rep.violation(sig($op, "value"), d);
                            }
                        },
                        Err(e) => {
                            let mut d = detail($op);
                            d["decode_error"] = json!(e);
                            rep.violation(sig($op, "invalid-representation"), d);
                        },
                    }
                }
            }};
        }
        // compare an affine result
        macro_rules! a {
            ($op:literal, $exp:expr, $call:expr) => {{
                opn += 1;
                if let Some(r) = rep.total(&sig($op, "total"), || detail($op), || $call) {
                    if sel.enumerated { rep.eval_enumerated(nt) } else { rep.eval(mix(dg, opn), nt) }
                    let got = ctx.decode_aff(&r);
                    // TE affine identity is (0,1); SW uses the infinity flag
                    if got != $exp {
                        let mut d = detail($op);
                        d["got"] = json!(ctx.show(&got));
                        d["expected"] = json!(ctx.show(&$exp));
                        rep.violation(sig($op, "value"), d);
                    }
                }
            }};
        }
        // ---- addition
        g!("proj + proj", sum, gp + gq);
        g!("proj + &proj", sum, gp + &gq);
        g!("proj += proj", sum, { let mut t = gp; t += gq; t });
        g!("proj += &proj", sum, { let mut t = gp; t += &gq; t });
        g!("proj + affine (mixed)", sum, gp + aq);
        g!("proj + &affine (mixed)", sum, gp + &aq);
        g!("proj += affine (mixed)", sum, { let mut t = gp; t += aq; t });
        g!("affine + affine", sum, ap + aq);
        g!("affine + &affine", sum, ap + &aq);
        g!("affine + proj", sum, ap + gq);
        g!("affine + &proj", sum, ap + &gq);
        // ---- subtraction
        g!("proj - proj", diff, gp - gq);
        g!("proj - &proj", diff, gp - &gq);
        g!("proj -= proj", diff, { let mut t = gp; t -= gq; t });
        g!("proj -= &proj", diff, { let mut t = gp; t -= &gq; t });
        g!("proj - affine (mixed)", diff, gp - aq);
        g!("proj -= affine (mixed)", diff, { let mut t = gp; t -= &aq; t });
        g!("affine - affine", diff, ap - aq);
        g!("affine - &affine", diff, ap - &aq);
        g!("affine - proj", diff, ap - gq);
        g!("affine - &proj", diff, ap - &gq);
        // ---- doubling, negation
        g!("double", dbl, gp.double());
        g!("double_in_place", dbl, { let mut t = gp; t.double_in_place(); t });
        g!("neg proj", cur.neg(p), -gp);
        g!("neg_in_place proj", cur.neg(p), { let mut t = gp; t.neg_in_place(); t });
        a!("neg affine", cur.neg(p), -ap);
        // ---- sums
        g!("Sum<proj>", sum, [gp, gq].into_iter().sum::<M::G>());
        g!("Sum<&proj>", sum, [gp, gq].iter().sum::<M::G>());
        g!("Sum<affine>", sum, [ap, aq].into_iter().sum::<M::G>());
        g!("Sum<&affine>", sum, [ap, aq].iter().sum::<M::G>());
        g!("Sum of three", cur.add(&sum, p).unwrap_or(sum.clone()), if cur.add(&sum, p).is_ok() { [gp, gq, gp2].into_iter().sum::<M::G>() } else { gp + gq });
        // ---- conversions
        a!("into_affine", *p, gp.into_affine());
        a!("Affine::from(proj)", *q, M::A::from(gq));
        g!("Projective::from(affine)", *p, M::G::from(ap));
        g!("into_group", *q, aq.into_group());
        // ---- batch normalisation: identities (canonical and not), normal and non-normal points mixed
        {
            let batch = vec![gp, gq, gp2, gp + gq, rep_of(ctx, &cur.identity(), 3, rng, rep), M::G::zero(), ctx.proj(q, &M::F::one())];
            let exp = [p.clone(), q.clone(), p.clone(), sum.clone(), cur.identity(), cur.identity(), q.clone()];
            opn += 1;
            if let Some(out) = rep.total(&sig("normalize_batch", "total"), || detail("normalize_batch"), || M::G::normalize_batch(&batch)) {
                if sel.enumerated { rep.eval_enumerated(nt) } else { rep.eval(mix(dg, opn), nt) }
                let got: Vec<_> = out.iter().map(|a| ctx.decode_aff(a)).collect();
                if out.len() != exp.len() || got.iter().zip(exp.iter()).any(|(g, e)| g != e) {
                    let mut d = detail("normalize_batch");
                    d["got"] = json!(got.iter().map(|g| ctx.show(g)).collect::<Vec<_>>());
                    d["expected"] = json!(exp.iter().map(|g| ctx.show(g)).collect::<Vec<_>>());
                    rep.violation(sig("normalize_batch", "value"), d);
                }
            }
        }
        // ---- equality does not depend on the representative; predicates
        {
            opn += 1;
            if sel.enumerated { rep.eval_enumerated(nt) } else { rep.eval(mix(dg, opn), nt) }
            let same = p == q;
            let checks = [
                ("proj == proj", (gp == gq) == same),
                ("proj == proj (other representative of P)", gp == gp2),
                ("proj == affine", M::eq_ga(&gp, &aq) == same),
                ("affine == proj", M::eq_ag(&ap, &gq) == same),
                ("affine == affine", (ap == aq) == same),
                ("proj.is_zero", gp.is_zero() == idp),
                ("affine.is_zero", AffineRepr::is_zero(&ap) == idp),
                ("affine.is_on_curve", M::aff_on_curve(&ap)),
                ("xy()", ap.xy().map(|(x, y)| (cur.ar.el(&x), cur.ar.el(&y))) == if idp { None } else { p.clone() }),
            ];
            for (name, ok) in checks {
                if !ok {
                    rep.violation(sig(name, "value"), detail(name));
                }
            }
        }
        // results stay on the curve (oracle equation on the decoded sum)
        if !cur.on_curve(&sum) {
            rep.harness_errors.push(format!("oracle produced an off-curve sum on {}", ctx.name));
        }
    }
}

/// exhaustive run over a toy curve, sharded by the index of the first operand
pub fn toy_exhaustive<M: Model>(meta: &'static ToyDesc, shard: usize, shards: usize, rep: &mut Report, rng: &mut Rng, args: &Args) {
    let ctx = toy_ctx::<M>(meta);
    rep.config(&format!("toy::{} ({})", meta.name, meta.note));
    let pts = if ctx.complete { &ctx.points } else { &ctx.subgroup };
    rep.class(if M::TE {
        if ctx.complete {
            "curve: twisted Edwards, complete law (whole curve)"
        } else {
            "curve: twisted Edwards, incomplete law (prime-order subgroup only)"
        }
    } else if ctx.cur.ar.is_zero(&ctx.cur.c1) {
        "curve: short Weierstrass, a = 0"
    } else {
        "curve: short Weierstrass, a != 0"
    });
    rep.class_if(meta.deg > 1, "curve: extension base field");
    rep.class_if(meta.h > 1, "curve: cofactor > 1");
    let sel = Sel { all_reps: !args.quick(), enumerated: true };
    for (i, p) in pts.iter().enumerate() {
        if i % shards != shard {
            continue;
        }
        for q in pts.iter() {
            pair(&ctx, rep, rng, p, q, &sel);
        }
    }
    if shard == 0 {
        rep.sample(&format!("c03/{}", meta.name), || json!({"curve": meta.name, "note": meta.note, "points": pts.len(), "pairs": pts.len() * pts.len(),
            "example_pair": [ctx.show(&pts[pts.len() / 2]), ctx.show(&pts[pts.len() - 1])], "ops": "add/sub/double/neg/Sum/conversions/normalize_batch/== in every operand form"}));
    }
    rep.exhaustive(&format!("toy::{}: all {}^2 ordered pairs of {} (union of {} shards)", meta.name, pts.len(), if ctx.complete { "curve points" } else { "prime-order-subgroup points" }, shards));
}

/// sampled run over a shipped curve
pub fn shipped<M: Model>(name: &str, rep: &mut Report, rng: &mut Rng, iters: usize) {
    let ctx = Ctx::<M, Fld<M::F>>::new(name, Fld(Default::default()));
    rep.config(name);
    let cur = &ctx.cur;
    let sel = Sel { all_reps: false, enumerated: false };
    let h_even = !ctx.h.bit(0);
    // a point of the curve, not necessarily in the subgroup
    let curve_point = |rng: &mut Rng| -> OP<M::F> {
        loop {
            let c = M::F::rand(rng);
            if let Some(a) = M::recover_point(c, rng.next_u32() % 2 == 0) {
                let p = ctx.decode_aff(&a);
                if cur.on_curve(&p) {
                    return p;
                }
            }
        }
    };
    let sub_point = |rng: &mut Rng| -> OP<M::F> {
        let k = M::S::rand(rng);
        ctx.decode_aff(&(M::A::generator() * k).into_affine())
    };
    let two_torsion: Option<OP<M::F>> = if h_even && !M::TE {
        // (h/2 * r) * R has order dividing 2
        let k = (&ctx.h >> 1usize) * &ctx.r;
        let mut found = None;
        for _ in 0..8 {
            let rp = curve_point(rng);
            let t = ctx.aff(&rp).mul_bigint(k.to_u64_digits());
            let tp = ctx.decode_aff(&t.into_affine());
            if !cur.is_identity(&tp) {
                found = Some(tp);
                break;
            }
        }
        found
    } else {
        None
    };
    for it in 0..iters {
        let p = match it % 5 {
            0 => sub_point(rng),
            1 => cur.identity(),
            2 => match &two_torsion {
                Some(t) => t.clone(),
                None => curve_point(rng),
            },
            _ => curve_point(rng),
        };
        rep.class_if(!M::aff_in_subgroup(&ctx.aff(&p)), "operand outside the prime-order subgroup");
        let q = match (it / 5) % 6 {
            0 => p.clone(),
            1 => cur.neg(&p),
            2 => cur.identity(),
            3 => sub_point(rng),
            _ => curve_point(rng),
        };
        if it == 0 {
            rep.sample(&format!("c03/{name}"), || json!({"curve": name, "P": ctx.show(&p), "Q": ctx.show(&q)}));
        }
        // twisted Edwards: the property covers the whole curve only when the law is complete there;
        // `pair` skips pairs for which the textbook formula is undefined
        pair(&ctx, rep, rng, &p, &q, &sel);
    }
}

pub fn items(args: &Args) -> Vec<Item> {
    let mut v: Vec<Item> = vec![];
    let shards = 8usize;
    macro_rules! toy_sw {
        ($name:literal, $cfg:ty) => {
            let meta = crate::model::toy_desc($name);
            for s in 0..shards {
                v.push(Item::new(format!("c03/toy::{}/{}", $name, s), move |rep, rng, args| {
                    for c in REQUIRED_TOY { rep.require(c); }
                    toy_exhaustive::<SWm<$cfg>>(meta, s, shards, rep, rng, args)
                }));
            }
        };
    }
    macro_rules! toy_te {
        ($name:literal, $cfg:ty) => {
            let meta = crate::model::toy_desc($name);
            for s in 0..shards {
                v.push(Item::new(format!("c03/toy::{}/{}", $name, s), move |rep, rng, args| toy_exhaustive::<TEm<$cfg>>(meta, s, shards, rep, rng, args)));
            }
        };
    }
    cfgs::for_each_toy_sw!(toy_sw);
    cfgs::for_each_toy_sw3!(toy_sw);
    cfgs::for_each_toy_te!(toy_te);
    let iters = args.pick(100usize, 8000);
    macro_rules! sw {
        ($name:literal, $cfg:ty) => {
            v.push(Item::new(format!("c03/{}", $name), move |rep, rng, _| shipped::<SWm<$cfg>>($name, rep, rng, iters)));
        };
    }
    macro_rules! te {
        ($name:literal, $cfg:ty) => {
            v.push(Item::new(format!("c03/{}", $name), move |rep, rng, _| shipped::<TEm<$cfg>>($name, rep, rng, iters)));
        };
    }
    crate::curves::for_each_shipped_sw!(sw);
    crate::curves::for_each_shipped_te!(te);
    v
}

const REQUIRED_TOY: &[&str] = &[
    "pair: P + P through add",
    "pair: P + (-P)",
    "pair: identity on one side",
    "pair: identity on both sides",
    "pair: 2-torsion point (y = 0) as first operand",
    "pair: doubling gives the identity",
    "representation: non-canonical identity",
    "representation: checked constructor (Projective::new with Z != 1 / Affine::new)",
    "representation: Z != 1 (random rescaling)",
    "representation: Z = 1",
    "curve: short Weierstrass, a = 0",
    "curve: short Weierstrass, a != 0",
    "curve: twisted Edwards, complete law (whole curve)",
    "curve: twisted Edwards, incomplete law (prime-order subgroup only)",
    "curve: extension base field",
    "curve: cofactor > 1",
];
