//! C04 — every scalar-multiplication path computes k*P.
use crate::model::*;
use ark_ec::{
    scalar_mul::{glv::GLVConfig, wnaf::WnafContext, BatchMulPreprocessing, ScalarMul},
    short_weierstrass::{self as sw, SWCurveConfig},
    twisted_edwards::TECurveConfig,
    AffineRepr, CurveGroup, PrimeGroup,
};
use ark_ff::{BigInteger, PrimeField, UniformRand};
use ark_std::rand::RngCore;
use ark_std::Zero;
use monitor::*;
use oracle::{One, UInt};

pub const RULE: &str = "cases = (curve, multiplication path, scalar k, point P); toy curves: every point of the prime-order subgroup \
(affine paths: every point of the curve) x k in a structural set within [0, 3r] plus random k, encoded with 1..3 limbs; shipped curves: \
P in {identity, generator, random subgroup point, -P} and k in {0,1,2,r-1,r-2,(r±1)/2,r,r+1,2^j,2^j-1,all-ones limbs, lambda±1, uniform, \
raw integers >= r, leading zero limbs}; reference k*P = MSB-first double-and-add with the textbook affine law (toy: u64 arithmetic); \
non-trivial = k != 0 and P != identity; distinct = digest of (curve, path, k limbs, P)";

fn limbs_of(k: &UInt, extra_zero: usize) -> Vec<u64> {
    let mut v = k.to_u64_digits();
    if v.is_empty() {
        v.push(0);
    }
    v.extend(std::iter::repeat(0).take(extra_zero));
    v
}

pub struct Paths {
    pub toy: bool,
}

/// All generic paths for one (k, P). `in_subgroup`: P lies in the prime-order subgroup (projective /
/// field-scalar paths are only exercised there, see DESIGN §7).
#[allow(clippy::too_many_arguments)]
pub fn one<M: Model, R: Conv<M::F>>(ctx: &Ctx<M, R>, rep: &mut Report, rng: &mut Rng, k: &UInt, extra_zero: usize, p: &OP<R::El>, in_subgroup: bool, enumerated: bool, extra: &mut dyn FnMut(&mut Report, &[u64], &M::A, &M::G, &OP<R::El>, u64)) {
    let cur = &ctx.cur;
    let Ok(exp) = cur.mul(k, p) else {
        rep.class("skipped: reference multiplication undefined (incomplete twisted-Edwards law)");
        return;
    };
    let n_limbs = <M::S as PrimeField>::BigInt::NUM_LIMBS;
    let limbs = limbs_of(k, extra_zero);
    let nt = !k.is_zero() && !cur.is_identity(p);
    let a = ctx.aff(p);
    let lambda = loop {
        let l = M::F::rand(rng);
        if !l.is_zero() {
            break l;
        }
    };
    let g = ctx.proj(p, &lambda);
    let s = M::S::from(k.clone()); // k mod r (C01-checked conversion)
    let dg = digest(&(ctx.name.as_str(), &limbs, p));
    rep.class_if(*k >= ctx.r, "scalar: raw integer >= r");
    rep.class_if(limbs.len() > 1 && *limbs.last().unwrap() == 0, "scalar: leading zero limbs");
    rep.class_if(limbs.len() > n_limbs, "scalar: more limbs than the scalar field");
    rep.class_if(k.is_zero(), "scalar: 0");
    rep.class_if(*k == &ctx.r - UInt::one(), "scalar: r-1");
    rep.class_if(cur.is_identity(p), "point: identity");
    rep.class_if(limbs.len() > 1 && limbs.iter().rev().skip_while(|l| **l == 0).any(|l| *l == 0), "scalar: zero limb below a non-zero limb");
    let sig = |op: &str, kind: &str| format!("scalar_mul/{}/{}/{}", ctx.name, op, kind);
    let detail = |op: &str| json!({"curve": ctx.name, "path": op, "k": k.to_string(), "k_limbs": hex_limbs(&limbs), "n_limbs": limbs.len(), "P": ctx.show(p)});
    let mut opn = 0u64;
    macro_rules! path {
        ($op:expr, $exp:expr, $call:expr) => {{
            opn += 1;
            let opname: &str = $op;
            if let Some(r) = rep.total(&sig(opname, "total"), || detail(opname), || $call) {
                if enumerated { rep.eval_enumerated(nt) } else { rep.eval(mix(dg, opn), nt) }
                match ctx.decode(&r) {
                    Ok(got) if got == $exp => {},
                    Ok(got) => {
                        let mut d = detail(opname);
                        d["got"] = json!(ctx.show(&got));
                        d["expected"] = json!(ctx.show(&$exp));
                        rep.violation(sig(opname, "value"), d);
                    },
                    Err(e) => {
                        let mut d = detail(opname);
                        d["decode_error"] = json!(e);
                        rep.violation(sig(opname, "invalid-representation"), d);
                    },
                }
            }
        }};
    }
    // raw-integer paths
    path!("Affine::mul_bigint", exp, a.mul_bigint(&limbs));
    if in_subgroup {
        path!("Projective::mul_bigint", exp, g.mul_bigint(&limbs));
        let bits: Vec<bool> = ark_ff::BitIteratorBE::new(&limbs[..]).collect();
        path!("mul_bits_be", exp, g.mul_bits_be(bits.iter().copied()));
        let bits_trim: Vec<bool> = ark_ff::BitIteratorBE::without_leading_zeros(&limbs[..]).collect();
        path!("mul_bits_be (no leading zeros)", exp, g.mul_bits_be(bits_trim.iter().copied()));
        // field-scalar paths (k mod r; on the subgroup k*P = (k mod r)*P)
        path!("Projective * ScalarField", exp, g * s);
        path!("Projective * &ScalarField", exp, g * &s);
        path!("Projective *= ScalarField", exp, { let mut t = g; t *= s; t });
        path!("Affine * ScalarField", exp, a * s);
        path!("Affine * &ScalarField", exp, a * &s);
        // windowed NAF, every window, fresh and precomputed tables
        let w = 2 + (dg % 9) as usize; // 2..=10
        let wctx = WnafContext::new(w);
        path!(&format!("WnafContext({w})::mul"), exp, wctx.mul(g, &s));
        let table = wctx.table(g);
        if table.len() != 1 << (w - 1) {
            rep.violation(sig("WnafContext::table", "length"), detail("table"));
        }
        // a table of at least 2^(w-1) entries must be accepted (None is documented for too small tables only)
        match rep.total(&sig("WnafContext::mul_with_table", "total"), || detail("exact table"), || wctx.mul_with_table(&table, &s)) {
            Some(Some(r)) => path!(&format!("WnafContext({w})::mul_with_table (exact)"), exp, r),
            Some(None) => rep.violation(sig("WnafContext::mul_with_table", "none-for-exact-table"), detail("exact table")),
            None => {},
        }
        if w < 10 {
            let big = WnafContext::new(w + 1).table(g);
            rep.class("wnaf: oversized table");
            match rep.total(&sig("WnafContext::mul_with_table", "total"), || detail("oversized table"), || wctx.mul_with_table(&big, &s)) {
                Some(Some(r)) => path!(&format!("WnafContext({w})::mul_with_table (oversized)"), exp, r),
                Some(None) => rep.violation(sig("WnafContext::mul_with_table", "none-for-oversized-table"), detail("oversized table")),
                None => {},
            }
        }
        if w > 2 {
            rep.class("wnaf: undersized table -> None");
            if wctx.mul_with_table(&table[..table.len() - 1], &s).is_some() {
                rep.violation(sig("WnafContext::mul_with_table", "some-for-undersized-table"), detail("undersized"));
            }
        }
        // fixed-base batch multiplication, table sizing hints != actual length
        // big tables are expensive on 700-bit curves: mostly small hints, occasionally 1000 / 2^16
        let hint = if enumerated {
            [0usize, 1, 31, 32, 33, 1000][(dg >> 8) as usize % 6]
        } else if (dg >> 8) % 24 == 0 {
            [1000usize, 1 << 16][(dg >> 20) as usize % 2]
        } else {
            [0usize, 1, 31, 32, 33][(dg >> 8) as usize % 5]
        };
        let bits_s = <M::S as PrimeField>::MODULUS_BIT_SIZE as usize;
        let size = [bits_s, bits_s + 1, bits_s + 7, 64 * n_limbs][(dg >> 16) as usize % 4];
        rep.class(if hint < 32 { "batch mul: table hint < 32" } else { "batch mul: table hint >= 32" });
        rep.class_if(size > bits_s, "batch mul: max_scalar_size > modulus bits");
        let others = [M::S::zero(), M::S::from(1u64), s, -s];
        let t1 = rep.total(&sig("BatchMulPreprocessing::new", "total"), || detail("new"), || BatchMulPreprocessing::<M::G>::new(g, hint));
        if let Some(t1) = t1 {
            let win = t1.window;
            rep.class_if(bits_s % win != 0, "batch mul: last window shorter than the window");
            if let Some(out) = rep.total(&sig("batch_mul", "total"), || detail("batch_mul"), || t1.batch_mul(&others)) {
                opn += 1;
                if enumerated { rep.eval_enumerated(nt) } else { rep.eval(mix(dg, opn), nt) }
                let exps = [cur.identity(), p.clone(), exp.clone(), cur.neg(&exp)];
                let got: Vec<_> = out.iter().map(|x| ctx.decode_aff(x)).collect();
                if got.len() != 4 || got.iter().zip(exps.iter()).any(|(g, e)| g != e) {
                    let mut d = detail("BatchMulPreprocessing::new + batch_mul");
                    d["hint"] = json!(hint);
                    d["got"] = json!(got.iter().map(|g| ctx.show(g)).collect::<Vec<_>>());
                    d["expected"] = json!(exps.iter().map(|g| ctx.show(g)).collect::<Vec<_>>());
                    rep.violation(sig("batch_mul", "value"), d);
                }
            }
            path!("batch_mul_with_preprocessing", exp, M::G::from(M::G::batch_mul_with_preprocessing(&t1, &[s])[0]));
        }
        let t2 = rep.total(&sig("with_num_scalars_and_scalar_size", "total"), || detail("with_size"), || BatchMulPreprocessing::<M::G>::with_num_scalars_and_scalar_size(g, hint, size));
        if let Some(t2) = t2 {
            path!(&format!("with_num_scalars_and_scalar_size(+{})", size - bits_s), exp, M::G::from(t2.batch_mul(&[s])[0]));
        }
        path!("ScalarMul::batch_mul", exp, M::G::from(g.batch_mul(&[s, s])[1]));
    }
    extra(rep, &limbs, &a, &g, &exp, dg);
}

fn structural_scalars(r: &UInt, n_limbs: usize, rng: &mut Rng) -> Vec<(UInt, usize)> {
    let one = UInt::one();
    let full = UInt::one() << (64 * n_limbs);
    let mut v: Vec<(UInt, usize)> = vec![
        (UInt::zero(), 0),
        (UInt::zero(), 2),
        (one.clone(), 0),
        (one.clone(), 1),
        (UInt::from(2u8), 0),
        (r - &one, 0),
        (r - UInt::from(2u8), 0),
        ((r - &one) >> 1usize, 0),
        ((r + &one) >> 1usize, 0),
        (r.clone(), 0),
        (r + &one, 0),
        (r + UInt::from(5u8), 1),
        (&full - &one, 0),
        (&full - UInt::from(2u8), 0),
        ((&full >> 1usize) + &one, 0),
    ];
    if (r << 1usize) < full {
        v.push(((r << 1usize) + UInt::from(3u8), 0));
    }
    // zero limbs below a non-zero limb (2^64, 2^128, 5 + 7*2^128, ...): limb-wise shortcuts must not drop the top
    for k in 1..n_limbs {
        v.push((UInt::one() << (64 * k), 0));
        v.push(((UInt::from(7u8) << (64 * k)) + UInt::from(if k > 1 { 5u8 } else { 0u8 }), 0));
    }
    let bits = r.bits() as usize;
    for _ in 0..4 {
        let j = 1 + rng.next_u32() as usize % (64 * n_limbs - 1);
        v.push((UInt::one() << j, 0));
        v.push(((UInt::one() << j) - &one, 0));
    }
    // values whose top wNAF window carries: r-1 already; also 2^bits - small
    v.push(((UInt::one() << bits) - UInt::from(1 + rng.next_u32() % 7), 0));
    v
}

pub fn toy<M: Model>(meta: &'static ToyDesc, shard: usize, shards: usize, rep: &mut Report, rng: &mut Rng, args: &Args, extra: &mut dyn FnMut(&mut Report, &[u64], &M::A, &M::G, &OP<[u64; 3]>, u64)) {
    let ctx = toy_ctx::<M>(meta);
    rep.config(&format!("toy::{}", meta.name));
    let r = meta.r;
    let in_sub = |p: &OP<[u64; 3]>| ctx.subgroup.contains(p);
    let pts: &Vec<OP<[u64; 3]>> = if ctx.complete { &ctx.points } else { &ctx.subgroup };
    let step = args.pick(7u64, 1);
    for (i, p) in pts.iter().enumerate() {
        if i % shards != shard {
            continue;
        }
        let sub = in_sub(p);
        // all k in [0, 3r] (thorough) / every 7th plus the structural ones (quick), with 1..3 limbs
        let mut ks: Vec<u64> = (0..=3 * r).filter(|k| k % step == (i as u64 % step)).collect();
        ks.extend([0, 1, 2, r - 1, r, r + 1, 2 * r - 1, 2 * r, 3 * r]);
        for k in ks {
            let ez = (k as usize + i) % 3;
            one(&ctx, rep, rng, &UInt::from(k), ez, p, sub, true, extra);
        }
        // multi-limb integers with a zero low limb (2^64, 3*2^64, 2^128 + small)
        for k in [UInt::one() << 64usize, UInt::from(3u8) << 64usize, (UInt::one() << 128usize) + UInt::from(i as u64 % 7)] {
            rep.class("scalar: zero limb below a non-zero limb");
            one(&ctx, rep, rng, &k, 0, p, sub, true, extra);
        }
        // large raw integers
        for _ in 0..2 {
            let k = UInt::from(rng.next_u64()) << (rng.next_u32() % 64);
            one(&ctx, rep, rng, &k, 0, p, sub, true, extra);
        }
    }
    if step == 1 {
        rep.exhaustive(&format!("toy::{}: every point x every k in [0, 3r] (r = {}) through every path (union of {} shards)", meta.name, r, shards));
    }
    if shard == 0 {
        rep.sample(&format!("c04/{}", meta.name), || json!({"curve": meta.name, "r": r, "points": pts.len(), "k_range": format!("0..={}", 3 * r), "limb_encodings": "1, 2 and 3 limbs",
            "paths": "mul_bigint (affine, projective), mul_bits_be, * ScalarField, wNAF w=2..10 (fresh/exact/oversized/undersized tables), BatchMulPreprocessing (hints 0..2^16, sizes bits..64N), config-level mul_affine/mul_projective"}));
    }
}

pub fn shipped<M: Model>(name: &str, rep: &mut Report, rng: &mut Rng, iters: usize, thorough: bool, special: &[UInt], extra: &mut dyn FnMut(&mut Report, &[u64], &M::A, &M::G, &OP<M::F>, u64)) {
    let ctx = Ctx::<M, Fld<M::F>>::new(name, Fld(Default::default()));
    rep.config(name);
    let cur = &ctx.cur;
    let n_limbs = <M::S as PrimeField>::BigInt::NUM_LIMBS;
    let gen = ctx.decode_aff(&M::A::generator());
    let mut scalars = structural_scalars(&ctx.r, n_limbs, rng);
    for s in special {
        scalars.push((s.clone(), 0));
        scalars.push((s + UInt::one(), 0));
        if !s.is_zero() {
            scalars.push((s - UInt::one(), 0));
        }
    }
    let sub_point = |rng: &mut Rng| -> OP<M::F> { ctx.decode_aff(&(M::A::generator() * M::S::rand(rng)).into_affine()) };
    let mut n = 0;
    let mut run = |rep: &mut Report, rng: &mut Rng, k: &UInt, ez: usize, p: &OP<M::F>, extra: &mut dyn FnMut(&mut Report, &[u64], &M::A, &M::G, &OP<M::F>, u64)| {
        if n == 0 {
            rep.sample(&format!("c04/{name}"), || json!({"curve": name, "k": k.to_string(), "P": ctx.show(p)}));
        }
        n += 1;
        one(&ctx, rep, rng, k, ez, p, true, false, extra);
    };
    // structural scalars on the generator and a random point; a few on the identity and -P
    let rp = sub_point(rng);
    for (i, (k, ez)) in scalars.iter().enumerate() {
        run(rep, rng, k, *ez, &gen, extra);
        if thorough || i % 4 == 0 {
            run(rep, rng, k, *ez, &rp, extra);
        }
    }
    for (k, ez) in scalars.iter().take(6) {
        run(rep, rng, k, *ez, &cur.identity(), extra);
        run(rep, rng, k, *ez, &cur.neg(&rp), extra);
    }
    for _ in 0..iters {
        let k = match rng.next_u32() % 4 {
            0 => oracle::from_limbs(&edge_limbs(rng, n_limbs)),
            1 => oracle::from_limbs(&(0..n_limbs).map(|_| rng.next_u64()).collect::<Vec<_>>()),
            _ => {
                let s: UInt = M::S::rand(rng).into();
                s
            },
        };
        let ez = if rng.next_u32() % 4 == 0 { 1 } else { 0 };
        let p = sub_point(rng);
        run(rep, rng, &k, ez, &p, extra);
    }
}

/// GLV: decomposition identity and size bound, endomorphism eigenvalue, both GLV multiplications.
pub fn glv<P: GLVConfig>(name: &str, rep: &mut Report, rng: &mut Rng, iters: usize) {
    type M<P> = SWm<P>;
    let ctx = Ctx::<M<P>, Fld<P::BaseField>>::new(name, Fld(Default::default()));
    rep.config(&format!("{name} (GLV)"));
    let r = ctx.r.clone();
    let lam: UInt = P::LAMBDA.into();
    let sig = |op: &str, kind: &str| format!("glv/{}/{}/{}", name, op, kind);
    let half = (r.bits() as usize + 1) / 2 + 2;
    // endomorphism acts as multiplication by lambda on the subgroup
    let gen = sw::Affine::<P>::generator();
    let mut scalars: Vec<UInt> = vec![UInt::zero(), UInt::one(), UInt::from(2u8), &r - UInt::one(), &r - UInt::from(2u8), (&r - UInt::one()) >> 1usize, (&r + UInt::one()) >> 1usize,
        lam.clone(), (&lam + UInt::one()) % &r, (&lam + &r - UInt::one()) % &r, (&lam * &lam) % &r];
    for c in P::SCALAR_DECOMP_COEFFS.iter() {
        let v: UInt = oracle::from_limbs(c.1.as_ref());
        scalars.push(&v % &r);
        scalars.push((&v + UInt::one()) % &r);
    }
    for _ in 0..iters {
        scalars.push(P::ScalarField::rand(rng).into());
        scalars.push((UInt::one() << (rng.next_u32() as usize % r.bits() as usize)) % &r);
    }
    for (i, kv) in scalars.iter().enumerate() {
        let k = P::ScalarField::from(kv.clone());
        let pa = if i % 5 == 4 {
            rep.class("glv: identity point");
            sw::Affine::<P>::identity()
        } else if i % 3 == 0 {
            gen
        } else {
            (gen * P::ScalarField::rand(rng)).into_affine()
        };
        let p = ctx.decode_aff(&pa);
        let dg = digest(&(name, "glv", kv.to_string(), &p));
        let d = || json!({"curve": name, "k": kv.to_string(), "P": ctx.show(&p)});
        // decomposition
        if let Some(((s1, k1), (s2, k2))) = rep.total(&sig("scalar_decomposition", "total"), d, || P::scalar_decomposition(k)) {
            rep.eval(mix(dg, 1), !kv.is_zero());
            let (k1u, k2u): (UInt, UInt) = (k1.into(), k2.into());
            rep.class_if(!s1 && !k1u.is_zero(), "glv: k1 negative");
            rep.class_if(!s2 && !k2u.is_zero(), "glv: k2 negative");
            rep.class_if(k2u.is_zero(), "glv: k2 = 0");
            let sk1 = if s1 { k1u.clone() } else { (&r - &k1u % &r) % &r };
            let sk2 = if s2 { k2u.clone() } else { (&r - &k2u % &r) % &r };
            let recomposed = (sk1 + &lam * sk2) % &r;
            if recomposed != kv % &r {
                rep.violation(sig("scalar_decomposition", "identity"), json!({"curve": name, "k": kv.to_string(), "k1": k1u.to_string(), "k2": k2u.to_string(), "sign1": s1, "sign2": s2}));
            }
            if k1u.bits() as usize > half || k2u.bits() as usize > half {
                rep.violation(sig("scalar_decomposition", "size-bound"), json!({"curve": name, "k": kv.to_string(), "k1_bits": k1u.bits(), "k2_bits": k2u.bits(), "bound_bits": half}));
            }
        }
        let Ok(exp) = ctx.cur.mul(kv, &p) else { continue };
        if let Some(gp) = rep.total(&sig("glv_mul_projective", "total"), d, || P::glv_mul_projective(pa.into_group(), k)) {
            rep.eval(mix(dg, 2), !kv.is_zero());
            if ctx.decode(&gp) != Ok(exp.clone()) {
                rep.violation(sig("glv_mul_projective", "value"), d());
            }
        }
        if let Some(ga) = rep.total(&sig("glv_mul_affine", "total"), d, || P::glv_mul_affine(pa, k)) {
            rep.eval(mix(dg, 3), !kv.is_zero());
            if ctx.decode_aff(&ga) != exp {
                rep.violation(sig("glv_mul_affine", "value"), d());
            }
        }
        if i < 12 || pa.infinity {
            if let Ok(lp) = ctx.cur.mul(&lam, &p) {
                rep.eval(mix(dg, 4), true);
                if ctx.decode_aff(&P::endomorphism_affine(&pa)) != lp || ctx.decode(&P::endomorphism(&pa.into_group())) != Ok(lp) {
                    rep.violation(sig("endomorphism", "not-lambda"), d());
                }
            }
        }
    }
}

pub fn items(args: &Args) -> Vec<Item> {
    let mut v: Vec<Item> = vec![];
    let shards = 8usize;
    // window sizes outside 2..=63 have no windowed-NAF recoding: documented to be refused by the constructor
    v.push(Item::new("c04/wnaf-window-range", |rep, _, _| {
        for w in [0usize, 1, 64, 65, 1000] {
            rep.class("wnaf: window size outside 2..=63 (must be refused)");
            rep.eval(digest(&("wnaf-window", w)), true);
            if guard(|| WnafContext::new(w)).is_ok() {
                rep.violation("scalar_mul/WnafContext::new/accepts-invalid-window".to_string(), json!({"window": w}));
            }
        }
        for w in [2usize, 3, 32, 63] {
            rep.eval(digest(&("wnaf-window", w)), true);
            if guard(|| WnafContext::new(w)).is_err() {
                rep.violation("scalar_mul/WnafContext::new/refuses-valid-window".to_string(), json!({"window": w}));
            }
        }
    }));
    macro_rules! toy_sw {
        ($name:literal, $cfg:ty) => {
            let meta = crate::model::toy_desc($name);
            for s in 0..shards {
                v.push(Item::new(format!("c04/toy::{}/{}", $name, s), move |rep, rng, args| {
                    for c in REQUIRED { rep.require(c); }
                    let name = format!("toy::{}", $name);
                    let mut extra = |rep: &mut Report, l: &[u64], a: &sw::Affine<$cfg>, g: &sw::Projective<$cfg>, e: &OP<[u64; 3]>, _dg: u64| {
                        let ctx = Ctx::<SWm<$cfg>, Toy>::new(&name, Toy { p: meta.p, deg: meta.deg, beta: meta.beta });
                        sw_paths::<$cfg, Toy>(&ctx, rep, l, a, g, e);
                    };
                    toy::<SWm<$cfg>>(meta, s, shards, rep, rng, args, &mut extra)
                }));
            }
        };
    }
    macro_rules! toy_te {
        ($name:literal, $cfg:ty) => {
            let meta = crate::model::toy_desc($name);
            for s in 0..shards {
                v.push(Item::new(format!("c04/toy::{}/{}", $name, s), move |rep, rng, args| {
                    let name = format!("toy::{}", $name);
                    let mut extra = |rep: &mut Report, l: &[u64], a: &ark_ec::twisted_edwards::Affine<$cfg>, g: &ark_ec::twisted_edwards::Projective<$cfg>, e: &OP<[u64; 3]>, _dg: u64| {
                        let ctx = Ctx::<TEm<$cfg>, Toy>::new(&name, Toy { p: meta.p, deg: meta.deg, beta: meta.beta });
                        te_paths::<$cfg, Toy>(&ctx, rep, l, a, g, e);
                    };
                    toy::<TEm<$cfg>>(meta, s, shards, rep, rng, args, &mut extra)
                }));
            }
        };
    }
    let iters = args.pick(4usize, 160);
    let thorough = !args.quick();
    macro_rules! sw {
        ($name:literal, $cfg:ty) => {
            v.push(Item::new(format!("c04/{}", $name), move |rep, rng, _| {
                let mut extra = |rep: &mut Report, l: &[u64], a: &sw::Affine<$cfg>, g: &sw::Projective<$cfg>, e: &OP<<$cfg as ark_ec::CurveConfig>::BaseField>, _dg: u64| {
                    let ctx = Ctx::<SWm<$cfg>, Fld<_>>::new($name, Fld(Default::default()));
                    sw_paths::<$cfg, Fld<_>>(&ctx, rep, l, a, g, e);
                };
                shipped::<SWm<$cfg>>($name, rep, rng, iters, thorough, &[], &mut extra)
            }));
        };
    }
    macro_rules! te {
        ($name:literal, $cfg:ty) => {
            v.push(Item::new(format!("c04/{}", $name), move |rep, rng, _| {
                let mut extra = |rep: &mut Report, l: &[u64], a: &ark_ec::twisted_edwards::Affine<$cfg>, g: &ark_ec::twisted_edwards::Projective<$cfg>, e: &OP<<$cfg as ark_ec::CurveConfig>::BaseField>, _dg: u64| {
                    let ctx = Ctx::<TEm<$cfg>, Fld<_>>::new($name, Fld(Default::default()));
                    te_paths::<$cfg, Fld<_>>(&ctx, rep, l, a, g, e);
                };
                shipped::<TEm<$cfg>>($name, rep, rng, iters, thorough, &[], &mut extra)
            }));
        };
    }
    crate::curves::for_each_shipped_sw!(sw);
    crate::curves::for_each_shipped_te!(te);
    let giters = args.pick(10usize, 300);
    macro_rules! glv_item {
        ($name:literal, $cfg:ty) => {
            v.push(Item::new(format!("c04/glv/{}", $name), move |rep, rng, _| {
                rep.require("glv: k1 negative");
                rep.require("glv: k2 negative");
                rep.require("glv: k2 = 0");
                rep.require("glv: identity point");
                glv::<$cfg>($name, rep, rng, giters)
            }));
        };
    }
    crate::curves::for_each_glv!(glv_item);
    cfgs::for_each_toy_sw!(toy_sw);
    cfgs::for_each_toy_sw3!(toy_sw);
    cfgs::for_each_toy_te!(toy_te);
    v
}

/// config-level and free-function paths of short-Weierstrass curves
fn sw_paths<P: SWCurveConfig, R: Conv<P::BaseField>>(ctx: &Ctx<SWm<P>, R>, rep: &mut Report, l: &[u64], a: &sw::Affine<P>, g: &sw::Projective<P>, e: &OP<R::El>) {
    use ark_ec::scalar_mul::{sw_double_and_add_affine, sw_double_and_add_projective};
    let outs: [(&str, Option<sw::Projective<P>>); 4] = [
        ("sw_double_and_add_affine", rep.total("scalar_mul/sw_double_and_add_affine", || json!({"curve": ctx.name}), || sw_double_and_add_affine(a, l))),
        ("sw_double_and_add_projective", rep.total("scalar_mul/sw_double_and_add_projective", || json!({"curve": ctx.name}), || sw_double_and_add_projective(g, l))),
        ("SWCurveConfig::mul_affine", rep.total("scalar_mul/SWCurveConfig::mul_affine", || json!({"curve": ctx.name}), || P::mul_affine(a, l))),
        ("SWCurveConfig::mul_projective", rep.total(&format!("scalar_mul/{}/SWCurveConfig::mul_projective/total", ctx.name), || json!({"curve": ctx.name, "k_limbs": hex_limbs(l), "n_limbs": l.len()}), || P::mul_projective(g, l))),
    ];
    for (name, out) in outs {
        if let Some(out) = out {
            rep.eval_enumerated(true);
            if ctx.decode(&out) != Ok(e.clone()) {
                rep.violation(format!("scalar_mul/{}/{}/value", ctx.name, name), json!({"curve": ctx.name, "path": name, "k_limbs": hex_limbs(l), "expected": ctx.show(e)}));
            }
        }
    }
}

fn te_paths<P: TECurveConfig, R: Conv<P::BaseField>>(ctx: &Ctx<TEm<P>, R>, rep: &mut Report, l: &[u64], a: &ark_ec::twisted_edwards::Affine<P>, g: &ark_ec::twisted_edwards::Projective<P>, e: &OP<R::El>) {
    let outs = [
        ("TECurveConfig::mul_affine", rep.total("scalar_mul/TECurveConfig::mul_affine", || json!({"curve": ctx.name}), || P::mul_affine(a, l))),
        ("TECurveConfig::mul_projective", rep.total("scalar_mul/TECurveConfig::mul_projective", || json!({"curve": ctx.name}), || P::mul_projective(g, l))),
    ];
    for (name, out) in outs {
        if let Some(out) = out {
            rep.eval_enumerated(true);
            if ctx.decode(&out) != Ok(e.clone()) {
                rep.violation(format!("scalar_mul/{}/{}/value", ctx.name, name), json!({"curve": ctx.name, "path": name, "k_limbs": hex_limbs(l), "expected": ctx.show(e)}));
            }
        }
    }
}

const REQUIRED: &[&str] = &[
    "scalar: raw integer >= r",
    "scalar: leading zero limbs",
    "scalar: more limbs than the scalar field",
    "scalar: 0",
    "scalar: r-1",
    "scalar: zero limb below a non-zero limb",
    "point: identity",
    "wnaf: oversized table",
    "wnaf: undersized table -> None",
    "batch mul: table hint < 32",
    "batch mul: table hint >= 32",
    "batch mul: max_scalar_size > modulus bits",
    "batch mul: last window shorter than the window",
];
