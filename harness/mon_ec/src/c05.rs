//! C05 — multi-scalar multiplication equals sum k_i*P_i for every shape and history.
use crate::model::*;
use ark_ec::{
    pairing::{Pairing, PairingOutput},
    scalar_mul::variable_base::{verif_hooks, ChunkedPippenger, HashMapPippenger, VariableBaseMSM},
    AffineRepr, CurveGroup, PrimeGroup,
};
use ark_ff::{BigInteger, Field, PrimeField, UniformRand};
use ark_std::rand::RngCore;
use ark_std::{One, Zero};
use monitor::*;
use oracle::{SInt, UInt};

pub const RULE: &str = "cases = (group, entry point, bases vector, scalars vector) with lengths {0,1,2,3,31,32,33,63,64,65,127,128,129,1000,...}, \
length pairs (n, n±1, 0 vs n), scalar patterns {all 0, all 1, all r-1, alternating, top-window-carry values, uniform, raw integers in [r, 2^bits)}, \
base patterns {uniform, one repeated base, identity entries, P and -P, all equal}; accumulator histories = random add*/finalize sequences with \
buffer sizes 1..n+1 against a running-sum model; make_digits for w = 1..16; expected value = naive sum of k_i*P_i (toy curves: textbook law in u64 \
arithmetic; shipped groups: C03/C04-checked + and mul_bigint); non-trivial = length >= 1 with some non-zero scalar; distinct = digest of (group, entry, inputs)";

/// how a group is observed: naive reference sum and a way to draw bases
pub struct GroupIo<'a, V: VariableBaseMSM> {
    pub name: String,
    pub naive: Box<dyn Fn(&[V::MulBase], &[UInt]) -> V + 'a>,
    pub rand_base: Box<dyn Fn(&mut Rng) -> V::MulBase + 'a>,
    pub identity_base: V::MulBase,
    pub neg_base: Box<dyn Fn(&V::MulBase) -> V::MulBase + 'a>,
}

fn big<V: VariableBaseMSM>(k: &UInt) -> <V::ScalarField as PrimeField>::BigInt {
    <V::ScalarField as PrimeField>::BigInt::try_from(k.clone()).ok().expect("scalar fits the big integer")
}

fn gen_inputs<V: VariableBaseMSM>(io: &GroupIo<V>, rep: &mut Report, rng: &mut Rng, n: usize, allow_ge_r: bool) -> (Vec<V::MulBase>, Vec<UInt>) {
    let r: UInt = oracle::from_limbs(<V::ScalarField as PrimeField>::MODULUS.as_ref());
    let bits = <V::ScalarField as PrimeField>::MODULUS_BIT_SIZE as usize;
    let one = UInt::one();
    let c = if n < 32 { 3 } else { (ark_std::log2(n) * 69 / 100) as usize + 2 };
    let top_carry = |rng: &mut Rng| -> UInt {
        // top window all ones (forces the signed-digit carry into the last window) but below r
        let digits = bits.div_ceil(c);
        let lo = (digits - 1) * c;
        let v = (&r >> lo << lo) - &one - (UInt::from(rng.next_u32()) % (&one << lo.min(31)));
        v % &r
    };
    let smode = rng.next_u32() % 10;
    let scalars: Vec<UInt> = (0..n)
        .map(|i| match smode {
            0 => UInt::zero(),
            1 => one.clone(),
            2 => &r - &one,
            3 => {
                if i % 2 == 0 {
                    one.clone()
                } else {
                    &r - &one
                }
            },
            4 => top_carry(rng),
            5 if allow_ge_r => {
                // raw integers in [r, 2^bits)
                let span = (&one << bits) - &r;
                &r + (oracle::from_limbs(&[rng.next_u64(), rng.next_u64(), rng.next_u64(), rng.next_u64()]) % span)
            },
            6 => [UInt::zero(), one.clone(), UInt::from(2u8), &r - &one][rng.next_u32() as usize % 4].clone(),
            9 => {
                // low limb exactly 1 (or 0) with non-zero upper limbs: looks like a unit / zero scalar to limb-wise shortcuts
                let hi = (UInt::from(rng.next_u64() | 1) << (64 * (1 + rng.next_u32() as usize % 3))) % &r;
                let hi = (&hi >> 64usize) << 64usize;
                (hi + UInt::from(rng.next_u32() % 2)) % &r
            },
            _ => V::ScalarField::rand(rng).into(),
        })
        .collect();
    rep.class(match smode {
        0 => "scalars: all zero",
        1 => "scalars: all one (unit-scalar shortcut)",
        2 => "scalars: all r-1",
        3 => "scalars: alternating 1 / r-1",
        4 => "scalars: top window carries",
        5 if allow_ge_r => "scalars: raw integers in [r, 2^bits)",
        6 => "scalars: small set incl. zeros and ones",
        9 => "scalars: low limb 0 or 1 with non-zero upper limbs",
        _ => "scalars: uniform",
    });
    let bmode = rng.next_u32() % 6;
    let fixed = (io.rand_base)(rng);
    let bases: Vec<V::MulBase> = (0..n)
        .map(|i| match bmode {
            0 => fixed,
            1 => {
                if i % 3 == 0 {
                    io.identity_base
                } else {
                    (io.rand_base)(rng)
                }
            },
            2 => {
                if i % 2 == 0 {
                    fixed
                } else {
                    (io.neg_base)(&fixed)
                }
            },
            _ => (io.rand_base)(rng),
        })
        .collect();
    rep.class(match bmode {
        0 => "bases: all equal",
        1 => "bases: identity entries",
        2 => "bases: P and -P",
        _ => "bases: uniform",
    });
    (bases, scalars)
}

pub fn shapes<V: VariableBaseMSM>(io: &GroupIo<V>, rep: &mut Report, rng: &mut Rng, lens: &[usize], reps: usize) {
    rep.config(&io.name);
    let r: UInt = oracle::from_limbs(<V::ScalarField as PrimeField>::MODULUS.as_ref());
    let sig = |op: &str, kind: &str| format!("msm/{}/{}/{}", io.name, op, kind);
    for &n in lens {
        for rix in 0..reps {
            let (bases, ks) = gen_inputs(io, rep, rng, n, rix % 2 == 1);
            rep.class(if n < 32 { "length < 32 (window 3)" } else { "length >= 32 (window from ln)" });
            rep.class_if(n == 0, "length 0");
            let all_lt_r = ks.iter().all(|k| k < &r);
            let exp = (io.naive)(&bases, &ks);
            let nt = n > 0 && ks.iter().any(|k| !k.is_zero());
            let dg = digest(&(io.name.as_str(), n, rix, ks.iter().map(|k| k.to_u64_digits()).collect::<Vec<_>>()));
            let bigs: Vec<_> = ks.iter().map(big::<V>).collect();
            let d = |op: &str| json!({"group": io.name, "entry": op, "n": n, "scalars_head": ks.iter().take(4).map(|k| k.to_string()).collect::<Vec<_>>()});
            if rix == 0 && n == 3 {
                rep.sample(&format!("c05/{}", io.name), || json!({"group": io.name, "n": n, "scalars": ks.iter().map(|k| k.to_string()).collect::<Vec<_>>(), "entries": "msm, msm_unchecked, msm_bigint, msm_chunks, plain and signed bucket kernels"}));
            }
            let mut opn = 0;
            macro_rules! chk {
                ($op:literal, $call:expr) => {{
                    opn += 1;
                    if let Some(got) = rep.total(&sig($op, "total"), || d($op), || $call) {
                        rep.eval(mix(dg, opn), nt);
                        if got != exp {
                            rep.violation(sig($op, "value"), d($op));
                        }
                    }
                }};
            }
            chk!("msm_bigint", V::msm_bigint(&bases, &bigs));
            chk!("hook: plain bucket method", verif_hooks::msm_bigint_plain::<V>(&bases, &bigs));
            chk!("hook: signed-digit bucket method", verif_hooks::msm_bigint_signed::<V>(&bases, &bigs));
            if all_lt_r {
                let ss: Vec<V::ScalarField> = ks.iter().map(|k| V::ScalarField::from(k.clone())).collect();
                chk!("msm (checked)", V::msm(&bases, &ss).expect("equal lengths"));
                chk!("msm_unchecked", V::msm_unchecked(&bases, &ss));
                chk!("msm_chunks", V::msm_chunks(&&bases[..], &&ss[..]));
                // mismatched lengths
                if n > 0 {
                    rep.class("mismatched lengths");
                    let short_b = &bases[..n - 1];
                    let short_s = &ss[..n - 1];
                    opn += 1;
                    rep.eval(mix(dg, opn), true);
                    for (b, s, want) in [(short_b, &ss[..], n - 1), (&bases[..], short_s, n - 1), (&bases[..0], &ss[..], 0)] {
                        match V::msm(b, s) {
                            Err(e) if e == want => {},
                            other => rep.violation(sig("msm (checked)", "length-error"), json!({"group": io.name, "bases": b.len(), "scalars": s.len(), "got": format!("{:?}", other.map(|_| "Ok").map_err(|e| e))})),
                        }
                    }
                    // chunked streams: a longer bases stream is aligned with the scalars at its END (the leading
                    // surplus bases are skipped), as the method's comments document
                    if n > 1 {
                        let k = 1 + (rix % (n - 1));
                        let exp_tail = (io.naive)(&bases[k..], &ks[..n - k]);
                        if let Some(got) = rep.total(&sig("msm_chunks", "total"), || d("msm_chunks (more bases than scalars)"), || V::msm_chunks(&&bases[..], &&ss[..n - k])) {
                            rep.class("msm_chunks: more bases than scalars");
                            if got != exp_tail {
                                rep.violation(sig("msm_chunks", "stream-alignment"), json!({"group": io.name, "bases": n, "scalars": n - k}));
                            }
                        }
                    }
                    // chunked streams with MORE scalars than bases have no defined pairing: documented to be refused
                    if rix == 0 {
                        rep.class("msm_chunks: more scalars than bases (must be refused)");
                        if guard(|| V::msm_chunks(&short_b, &&ss[..])).is_ok() {
                            rep.violation(sig("msm_chunks", "accepts-more-scalars-than-bases"), json!({"group": io.name, "bases": n - 1, "scalars": n}));
                        }
                    }
                    // unchecked: truncated to the shorter input
                    let exp_short = (io.naive)(short_b, &ks[..n - 1]);
                    for (b, s) in [(short_b, &ss[..]), (&bases[..], short_s)] {
                        if let Some(got) = rep.total(&sig("msm_unchecked", "total"), || d("msm_unchecked (mismatched)"), || V::msm_unchecked(b, s)) {
                            if got != exp_short {
                                rep.violation(sig("msm_unchecked", "truncation"), json!({"group": io.name, "bases": b.len(), "scalars": s.len()}));
                            }
                        }
                    }
                }
            }
        }
    }
}

/// Sequential histories of the incremental accumulators against a running-sum model.
pub fn histories<V: VariableBaseMSM>(io: &GroupIo<V>, rep: &mut Report, rng: &mut Rng, count: usize, max_len: usize) {
    rep.config(&io.name);
    let r: UInt = oracle::from_limbs(<V::ScalarField as PrimeField>::MODULUS.as_ref());
    let sig = |op: &str, kind: &str| format!("msm/{}/{}/{}", io.name, op, kind);
    let pool: Vec<V::MulBase> = (0..6).map(|_| (io.rand_base)(rng)).collect();
    for h in 0..count {
        let n = rng.next_u32() as usize % (max_len + 1);
        let buf = 1 + rng.next_u32() as usize % (n + 1); // 1..=n+1
        let mut bases = vec![];
        let mut ks: Vec<UInt> = vec![];
        for i in 0..n {
            let b = match rng.next_u32() % 5 {
                0 | 1 => pool[rng.next_u32() as usize % pool.len()],
                2 => io.identity_base,
                _ => (io.rand_base)(rng),
            };
            let k: UInt = match rng.next_u32() % 6 {
                0 => UInt::zero(),
                1 => UInt::one(),
                2 => &r - UInt::one(),
                3 if i > 0 => (&r - &ks[i - 1]) % &r, // cancels with the previous scalar when the base repeats
                _ => V::ScalarField::rand(rng).into(),
            };
            bases.push(b);
            ks.push(k);
        }
        let exp = (io.naive)(&bases, &ks);
        let dg = digest(&(io.name.as_str(), "hist", h, n, buf, ks.iter().map(|k| k.to_u64_digits()).collect::<Vec<_>>()));
        // model of the buffering: flushes inside add whenever the buffer fills
        let flushes_in_add = n / buf;
        rep.class_if(flushes_in_add > 0, "history: flush inside add");
        rep.class_if(n % buf == 0, "history: finalize with empty buffer");
        rep.class_if(n % buf != 0, "history: finalize with non-empty buffer");
        rep.class_if(buf == n + 1, "history: buffer larger than the history");
        rep.class_if(buf == 1, "history: buffer size 1");
        let d = || json!({"group": io.name, "n": n, "buf_size": buf, "scalars": ks.iter().map(|k| k.to_string()).collect::<Vec<_>>()});
        if h == 0 {
            rep.sample(&format!("c05h/{}", io.name), || json!({"group": io.name, "history": format!("{} add calls, buffer {}", n, buf), "accumulators": "ChunkedPippenger::new/with_size, HashMapPippenger::new"}));
        }
        for which in 0..2 {
            let got = rep.total(&sig("ChunkedPippenger", "total"), d, || {
                let mut p = if which == 0 { ChunkedPippenger::<V>::new(buf) } else { ChunkedPippenger::<V>::with_size(buf) };
                for (b, k) in bases.iter().zip(&ks) {
                    p.add(b, big::<V>(k));
                }
                p.finalize()
            });
            if let Some(got) = got {
                rep.eval(mix(dg, which), n > 0);
                if got != exp {
                    rep.violation(sig("ChunkedPippenger", "value"), d());
                }
            }
        }
        // hash-map variant: merges repeated bases
        let distinct: std::collections::HashSet<_> = bases.iter().collect();
        rep.class_if(distinct.len() < bases.len(), "history: repeated base merged in the hash map");
        let got = rep.total(&sig("HashMapPippenger", "total"), d, || {
            let mut p = HashMapPippenger::<V>::new(buf);
            for (b, k) in bases.iter().zip(&ks) {
                p.add(b, V::ScalarField::from(k.clone()));
            }
            p.finalize()
        });
        if let Some(got) = got {
            rep.eval(mix(dg, 7), n > 0);
            if got != exp {
                rep.violation(sig("HashMapPippenger", "value"), d());
            }
        }
    }
}

/// make_digits: sum d_i 2^(w i) = a and |d_i| <= 2^(w-1) for every digit but the last
pub fn digits<const N: usize>(rep: &mut Report, rng: &mut Rng, iters: usize, bits: usize) {
    use ark_ff::BigInt;
    for it in 0..iters {
        let w = 1 + (it % 16);
        let limbs: [u64; N] = {
            let v = match rng.next_u32() % 5 {
                0 => vec![u64::MAX; N],
                1 => (0..N).map(|_| rng.next_u64()).collect(),
                _ => edge_limbs(rng, N),
            };
            v.try_into().unwrap()
        };
        // keep the value below 2^bits (the documented domain of the MSM kernels)
        let mut a = BigInt::<N>(limbs);
        let shave = 64 * N - bits;
        if shave > 0 {
            a.0[N - 1] &= u64::MAX >> shave;
        }
        let val = oracle::from_limbs(&a.0);
        for num_bits in [0usize, bits] {
            rep.class(if num_bits == 0 { "make_digits: num_bits = 0 (use the value's own length)" } else { "make_digits: num_bits = modulus bits" });
            let Some(d) = rep.total("msm/make_digits/total", || json!({"a": hex_limbs(&a.0), "w": w, "num_bits": num_bits}), || verif_hooks::make_digits_vec(&a, w, num_bits)) else { continue };
            rep.eval(digest(&("digits", a.0, w, num_bits)), !a.is_zero());
            let mut acc = SInt::from(0);
            for (i, x) in d.iter().enumerate() {
                acc += SInt::from(*x) << (w * i);
            }
            let lim = 1i64 << (w - 1);
            let range_ok = d.iter().take(d.len().saturating_sub(1)).all(|x| *x >= -lim && *x <= lim);
            let nb = if num_bits == 0 { val.bits() as usize } else { num_bits };
            let count_ok = d.len() == nb.div_ceil(w);
            if let Some(last) = d.last() {
                rep.class_if(*last >= lim, "make_digits: carry folded into the last digit");
            }
            if acc != SInt::from(val.clone()) || !range_ok || !count_ok {
                rep.violation(
                    format!("msm/make_digits/{}", if acc != SInt::from(val.clone()) { "reconstruct" } else if !range_ok { "digit-range" } else { "digit-count" }),
                    json!({"a": hex_limbs(&a.0), "w": w, "num_bits": num_bits, "digits": d}),
                );
            }
        }
    }
}

// ---- group adapters ----------------------------------------------------------------------------

pub fn toy_io<M: Model>(meta: &'static ToyDesc) -> GroupIo<'static, M::G>
where
    M::G: VariableBaseMSM<MulBase = M::A>,
{
    let ctx = std::sync::Arc::new(toy_ctx::<M>(meta));
    let (c1, c2) = (ctx.clone(), ctx.clone());
    GroupIo {
        name: format!("toy::{}", meta.name),
        naive: Box::new(move |bases, ks| {
            let mut acc = c1.cur.identity();
            for (b, k) in bases.iter().zip(ks) {
                let p = c1.decode_aff(b);
                let t = c1.cur.mul(k, &p).expect("subgroup arithmetic is defined");
                acc = c1.cur.add(&acc, &t).expect("subgroup arithmetic is defined");
            }
            c1.aff(&acc).into_group()
        }),
        rand_base: Box::new(move |rng| {
            let i = rng.next_u32() as usize % c2.subgroup.len();
            c2.aff(&c2.subgroup[i])
        }),
        identity_base: ctx.aff(&ctx.cur.identity()),
        neg_base: Box::new(|b| -*b),
    }
}

pub fn curve_io<M: Model>(name: &str) -> GroupIo<'static, M::G>
where
    M::G: VariableBaseMSM<MulBase = M::A>,
{
    GroupIo {
        name: name.to_string(),
        naive: Box::new(|bases, ks| {
            let mut acc = M::G::zero();
            for (b, k) in bases.iter().zip(ks) {
                acc += b.mul_bigint(k.to_u64_digits());
            }
            acc
        }),
        rand_base: Box::new(|rng| (M::A::generator() * M::S::rand(rng)).into_affine()),
        identity_base: M::aff_identity(),
        neg_base: Box::new(|b| -*b),
    }
}

pub fn gt_io<E: Pairing>(name: &str) -> GroupIo<'static, PairingOutput<E>> {
    GroupIo {
        name: name.to_string(),
        naive: Box::new(|bases, ks| {
            // the target group written multiplicatively: product of base^k with the field's generic pow
            let mut acc = E::TargetField::one();
            for (b, k) in bases.iter().zip(ks) {
                acc *= b.0.pow(k.to_u64_digits());
            }
            PairingOutput(acc)
        }),
        rand_base: Box::new(|rng| {
            let g = PairingOutput::<E>::generator();
            PairingOutput(g.0.pow(E::ScalarField::rand(rng).into_bigint()))
        }),
        identity_base: PairingOutput::<E>::zero(),
        neg_base: Box::new(|b| -*b),
    }
}

/// `msm_chunks` works through its streams in chunks of 2^20 elements: streams that cross that boundary (all but a few
/// scalars zero, so that the sum stays cheap and has an independent expected value)
fn chunk_boundary(rep: &mut Report, rng: &mut Rng) {
    use ark_ec::{AffineRepr, CurveGroup};
    use ark_ff::UniformRand;
    type G = cfgs::shipped::bls12_381::G1Projective;
    type A = cfgs::shipped::bls12_381::G1Affine;
    type S = cfgs::shipped::bls12_381::Fr;
    rep.config("bls12_381::g1 (msm_chunks across the 2^20 boundary)");
    let n = (1usize << 20) + 5;
    let g = A::generator();
    let few: Vec<A> = (0..8).map(|_| (g * S::rand(rng)).into_affine()).collect();
    let bases: Vec<A> = (0..n).map(|i| few[i % 8]).collect();
    for extra in [0usize, 3] {
        let mut scalars = vec![S::from(0u64); n];
        for (k, i) in [0usize, 1, (1 << 20) - 1, 1 << 20, (1 << 20) + 1, n - 1].into_iter().enumerate() {
            let s = S::from(3 + k as u64) + S::rand(rng);
            scalars[i] = s;
        }
        // `extra` surplus bases in front: the streams are aligned at their ends
        let mut b2: Vec<A> = (0..extra).map(|j| few[(j + 3) % 8]).collect();
        b2.extend_from_slice(&bases);
        // expected value with the alignment: scalar i pairs with b2[extra + i] = bases[i]
        let mut want = G::default();
        for (i, s) in scalars.iter().enumerate() {
            if !ark_std::Zero::is_zero(s) {
                want += bases[i] * *s;
            }
        }
        rep.class("msm_chunks: stream longer than one 2^20 chunk");
        rep.eval(digest(&("msm-chunk-boundary", extra)), true);
        let d = || json!({"group": "bls12_381::g1", "bases": n + extra, "scalars": n, "non_zero_scalars_at": [0, 1, (1usize << 20) - 1, 1usize << 20, (1usize << 20) + 1, n - 1]});
        if let Some(got) = rep.total("msm/bls12_381::g1/msm_chunks/total", d, || <G as VariableBaseMSM>::msm_chunks(&&b2[..], &&scalars[..])) {
            if got != want {
                rep.violation("msm/bls12_381::g1/msm_chunks/chunk-boundary".to_string(), d());
            }
        }
    }
}

pub fn items(args: &Args) -> Vec<Item> {
    use cfgs::shipped::*;
    let mut v: Vec<Item> = vec![];
    v.push(Item::new("c05/msm_chunks-chunk-boundary", |rep, rng, _| {
        rep.require("msm_chunks: stream longer than one 2^20 chunk");
        chunk_boundary(rep, rng)
    }));
    let quick = args.quick();
    let lens_small: Vec<usize> = vec![0, 1, 2, 3, 31, 32, 33, 63, 64, 65, 127, 128, 129];
    let lens_big: Vec<usize> = if quick { vec![1000] } else { vec![1000, 4096, 16384] };
    let reps = args.pick(2usize, 8);
    let hist = args.pick(120usize, 3000);
    macro_rules! group {
        ($name:expr, $io:expr, $big:expr, $histlen:expr) => {{
            let ls = lens_small.clone();
            v.push(Item::new(format!("c05/{}/shapes-small", $name), move |rep, rng, _| {
                for c in REQUIRED_SHAPES { rep.require(c); }
                shapes(&$io, rep, rng, &ls, reps)
            }));
            if $big {
                let lb = lens_big.clone();
                v.push(Item::new(format!("c05/{}/shapes-large", $name), move |rep, rng, _| shapes(&$io, rep, rng, &lb, 1)));
            }
            for s in 0..2 {
                v.push(Item::new(format!("c05/{}/histories-{}", $name, s), move |rep, rng, _| {
                    for c in REQUIRED_HIST { rep.require(c); }
                    histories(&$io, rep, rng, hist / 2, $histlen)
                }));
            }
        }};
    }
    macro_rules! toy_sw {
        ($name:literal, $cfg:ty) => {
            let meta = crate::model::toy_desc($name);
            group!(format!("toy::{}", $name), toy_io::<SWm<$cfg>>(meta), false, 12);
        };
    }
    macro_rules! toy_te {
        ($name:literal, $cfg:ty) => {
            let meta = crate::model::toy_desc($name);
            group!(format!("toy::{}", $name), toy_io::<TEm<$cfg>>(meta), false, 12);
        };
    }
    cfgs::for_each_toy_sw!(toy_sw);
    cfgs::for_each_toy_sw3!(toy_sw);
    cfgs::for_each_toy_te!(toy_te);
    group!("bls12_381::g1", curve_io::<SWm<bls12_381::g1::Config>>("bls12_381::g1"), true, 40);
    group!("bls12_381::g2", curve_io::<SWm<bls12_381::g2::Config>>("bls12_381::g2"), true, 24);
    group!("bn254::g1", curve_io::<SWm<bn254::g1::Config>>("bn254::g1"), true, 40);
    group!("secp256k1", curve_io::<SWm<secp256k1::Config>>("secp256k1"), true, 40);
    group!("mnt4_298::g1", curve_io::<SWm<mnt4_298::g1::Config>>("mnt4_298::g1"), false, 24);
    group!("mnt6_753::g1", curve_io::<SWm<mnt6_753::g1::Config>>("mnt6_753::g1"), false, 12);
    group!("ed_on_bls12_381", curve_io::<TEm<ed_on_bls12_381::JubjubConfig>>("ed_on_bls12_381"), true, 40);
    group!("ed25519", curve_io::<TEm<ed25519::EdwardsConfig>>("ed25519"), false, 40);
    group!("tc::bls12_381::g1", curve_io::<SWm<tc::bls12_381::g1::Config>>("tc::bls12_381::g1"), false, 24);
    group!("PairingOutput<bls12_381>", gt_io::<bls12_381::Bls12_381>("PairingOutput<bls12_381>"), false, 10);
    group!("PairingOutput<mnt4_298>", gt_io::<mnt4_298::MNT4_298>("PairingOutput<mnt4_298>"), false, 10);
    group!("PairingOutput<bw6_761>", gt_io::<bw6_761::BW6_761>("PairingOutput<bw6_761>"), false, 6);
    // signed digits directly, for the limb counts and bit sizes of the shipped scalar fields
    let di = args.pick(20_000usize, 400_000);
    v.push(Item::new("c05/make_digits/N4-255", move |rep, rng, _| {
        rep.require("make_digits: carry folded into the last digit");
        rep.require("make_digits: num_bits = 0 (use the value's own length)");
        digits::<4>(rep, rng, di, 255)
    }));
    v.push(Item::new("c05/make_digits/N4-253", move |rep, rng, _| digits::<4>(rep, rng, di, 253)));
    v.push(Item::new("c05/make_digits/N4-256", move |rep, rng, _| digits::<4>(rep, rng, di, 256)));
    v.push(Item::new("c05/make_digits/N1-7", move |rep, rng, _| digits::<1>(rep, rng, di, 7)));
    v.push(Item::new("c05/make_digits/N5-298", move |rep, rng, _| digits::<5>(rep, rng, di / 2, 298)));
    v.push(Item::new("c05/make_digits/N6-377", move |rep, rng, _| digits::<6>(rep, rng, di / 2, 377)));
    v.push(Item::new("c05/make_digits/N12-753", move |rep, rng, _| digits::<12>(rep, rng, di / 4, 753)));
    // heavy first
    v.sort_by_key(|i| !(i.name.contains("shapes-large") || i.name.contains("PairingOutput")));
    v
}

const REQUIRED_SHAPES: &[&str] = &[
    "length 0",
    "length < 32 (window 3)",
    "length >= 32 (window from ln)",
    "mismatched lengths",
    "msm_chunks: more bases than scalars",
    "msm_chunks: more scalars than bases (must be refused)",
    "scalars: all zero",
    "scalars: all one (unit-scalar shortcut)",
    "scalars: all r-1",
    "scalars: top window carries",
    "scalars: raw integers in [r, 2^bits)",
    "scalars: low limb 0 or 1 with non-zero upper limbs",
    "bases: all equal",
    "bases: identity entries",
    "bases: P and -P",
];
const REQUIRED_HIST: &[&str] = &[
    "history: flush inside add",
    "history: finalize with empty buffer",
    "history: finalize with non-empty buffer",
    "history: buffer larger than the history",
    "history: buffer size 1",
    "history: repeated base merged in the hash map",
];
