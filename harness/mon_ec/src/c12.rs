//! C12 — subgroup membership tests and cofactor clearing agree with their definitions; and the
//! curve-coordinate recovery helpers of C11.
use crate::model::*;
use ark_ec::{AffineRepr, CurveGroup};
use ark_ff::{Field, PrimeField, UniformRand};
use ark_std::rand::RngCore;
use ark_std::Zero;
use monitor::*;
use oracle::{Integer, One, UInt};

pub const RULE: &str = "cases = (curve, operation, point of E(F_q)); points are generated from arbitrary x (short Weierstrass) / y \
(twisted Edwards) coordinates without cofactor clearing, so they are mostly outside the prime-order subgroup when the cofactor is > 1, \
plus small-order points r*T, sums subgroup+torsion, the identity and subgroup points; toy curves: every point of the curve; \
membership oracle: r*P = identity with the textbook law; clearing oracle: [h_eff]*P with h_eff = COFACTOR, or the documented effective \
cofactor for the BLS12 overrides (checked coprime to r); non-trivial = point not the identity; distinct = digest of (curve, op, point)";

pub const RULE_C11: &str = "cases = (curve, coordinate); toy curves: every field element as x (short Weierstrass) / y (twisted Edwards); \
shipped curves: coordinates of known points, their neighbours and uniform elements; a recovered pair must consist of the two solutions \
of the curve equation, negatives of each other, smaller first in the field's documented order, and None must be returned exactly when no \
solution exists (toy: by enumeration; shipped: Euler criterion); non-trivial = coordinate non-zero; distinct = digest of (curve, coordinate)";

pub struct Heff {
    pub h_eff: UInt,
    pub desc: &'static str,
}

pub fn check_point<M: Model, R: Conv<M::F>>(ctx: &Ctx<M, R>, rep: &mut Report, p: &OP<R::El>, heff: &Heff, enumerated: bool, sums: Option<&OP<R::El>>) {
    let cur = &ctx.cur;
    let a = ctx.aff(p);
    let sig = |op: &str, kind: &str| format!("subgroup/{}/{}/{}", ctx.name, op, kind);
    let d = || json!({"curve": ctx.name, "P": ctx.show(p)});
    let Ok(rp) = cur.mul(&ctx.r, p) else {
        rep.class("skipped: textbook law undefined (incomplete twisted Edwards curve outside the subgroup)");
        return;
    };
    let member = cur.is_identity(&rp);
    let nt = !cur.is_identity(p);
    let dg = digest(&(ctx.name.as_str(), "c12", p));
    rep.class(if cur.is_identity(p) {
        "point: identity"
    } else if member {
        "point: in the prime-order subgroup"
    } else {
        "point: outside the prime-order subgroup"
    });
    // small order: h*P = identity although P != identity
    if nt {
        if let Ok(hp) = cur.mul(&ctx.h, p) {
            rep.class_if(cur.is_identity(&hp), "point: small order (h*P = identity)");
        }
    }
    let mut opn = 0;
    let mut ev = |rep: &mut Report| {
        opn += 1;
        if enumerated {
            rep.eval_enumerated(nt)
        } else {
            rep.eval(mix(dg, opn), nt)
        }
    };
    // membership
    if let Some(got) = rep.total(&sig("is_in_correct_subgroup_assuming_on_curve", "total"), d, || M::aff_in_subgroup(&a)) {
        ev(rep);
        if got != member {
            rep.violation(sig("is_in_correct_subgroup_assuming_on_curve", if got { "accepts-non-member" } else { "rejects-member" }), d());
        }
    }
    // the checked constructors enforce membership ("enforcing that points are in the prime-order subgroup"):
    // they must accept exactly the members; for a non-member the documented outcome is a refusal (assertion)
    if let Some((x, y)) = p {
        if enumerated || (dg % 4 == 0) {
            let (fx, fy) = (ctx.cur.ar.fld(x), ctx.cur.ar.fld(y));
            let lam = fx + fy + M::F::one();
            let built = guard(|| M::aff_new_checked(fx, fy));
            let built_p = if lam.is_zero() {
                None
            } else {
                Some(guard(|| if M::TE { M::from_raw_checked(&[fx * lam, fy * lam, fx * fy * lam, lam]) } else { M::from_raw_checked(&[fx * lam * lam, fy * lam * lam * lam, lam]) }))
            };
            ev(rep);
            rep.class(if member { "checked constructors: member accepted" } else { "checked constructors: non-member refused" });
            match (&built, member) {
                (Ok(pt), true) => {
                    if ctx.decode_aff(pt) != *p {
                        rep.violation(sig("Affine::new", "value"), d());
                    }
                },
                (Ok(_), false) => rep.violation(sig("Affine::new", "accepts-non-member"), d()),
                (Err(_), true) => rep.violation(sig("Affine::new", "refuses-member"), d()),
                (Err(_), false) => {},
            }
            if let Some(bp) = built_p {
                match (&bp, member) {
                    (Ok(g), true) => {
                        if ctx.decode_aff(&g.into_affine()) != *p {
                            rep.violation(sig("Projective::new", "value"), d());
                        }
                    },
                    (Ok(_), false) => rep.violation(sig("Projective::new", "accepts-non-member"), d()),
                    (Err(_), true) => rep.violation(sig("Projective::new", "refuses-member"), d()),
                    (Err(_), false) => {},
                }
            }
            // a pair of coordinates off the curve must be refused as well
            let off = fy + M::F::one();
            let off_pt: OP<R::El> = Some((x.clone(), ctx.cur.ar.el(&off)));
            if !cur.on_curve(&off_pt) && guard(|| M::aff_new_checked(fx, off)).is_ok() {
                rep.violation(sig("Affine::new", "accepts-off-curve"), d());
            }
        }
    }
    // cofactor clearing
    if let Ok(exp) = cur.mul(&heff.h_eff, p) {
        if let Some(c) = rep.total(&sig("clear_cofactor", "total"), d, || a.clear_cofactor()) {
            ev(rep);
            let got = ctx.decode_aff(&c);
            let in_sub = cur.mul(&ctx.r, &got).map(|x| cur.is_identity(&x)).unwrap_or(false);
            if !in_sub {
                rep.violation(sig("clear_cofactor", "result-outside-subgroup"), d());
            } else if got != exp {
                let mut dd = d();
                dd["h_eff"] = json!(heff.desc);
                dd["got"] = json!(ctx.show(&got));
                dd["expected"] = json!(ctx.show(&exp));
                rep.violation(sig("clear_cofactor", "not-h_eff-times-P"), dd);
            }
            // homomorphism with a second point
            if let Some(q) = sums {
                if let (Ok(pq), Ok(eq)) = (cur.add(p, q), cur.mul(&heff.h_eff, q)) {
                    let cpq = ctx.decode_aff(&ctx.aff(&pq).clear_cofactor());
                    if let Ok(s) = cur.add(&exp, &eq) {
                        ev(rep);
                        if cpq != s {
                            rep.violation(sig("clear_cofactor", "not-a-homomorphism"), d());
                        }
                    }
                }
            }
        }
    }
    // multiplication by the cofactor and by its inverse
    if let Ok(hp) = cur.mul(&ctx.h, p) {
        if let Some((g, aa)) = rep.total(&sig("mul_by_cofactor", "total"), d, || (a.mul_by_cofactor_to_group(), a.mul_by_cofactor())) {
            ev(rep);
            if ctx.decode(&g) != Ok(hp.clone()) || ctx.decode_aff(&aa) != hp {
                rep.violation(sig("mul_by_cofactor", "value"), d());
            }
        }
        if member {
            // on the subgroup, inverse-cofactor multiplication undoes cofactor multiplication
            if let Some(back) = rep.total(&sig("mul_by_cofactor_inv", "total"), d, || a.mul_by_cofactor().mul_by_cofactor_inv()) {
                ev(rep);
                if ctx.decode_aff(&back) != *p {
                    rep.violation(sig("mul_by_cofactor_inv", "not-inverse-on-subgroup"), d());
                }
            }
            if let Some(back) = rep.total(&sig("mul_by_cofactor_inv", "total"), d, || a.mul_by_cofactor_inv().mul_by_cofactor()) {
                ev(rep);
                if ctx.decode_aff(&back) != *p {
                    rep.violation(sig("mul_by_cofactor_inv", "not-inverse-on-subgroup"), d());
                }
            }
        }
    }
}

fn check_heff<M: Model, R: Conv<M::F>>(ctx: &Ctx<M, R>, rep: &mut Report, heff: &Heff) {
    // the reference multiplier must be coprime to r (otherwise it is no cofactor clearing at all)
    if !heff.h_eff.gcd(&ctx.r).is_one() {
        rep.harness_errors.push(format!("{}: reference h_eff ({}) is not coprime to r", ctx.name, heff.desc));
    }
}

pub fn sampling<M: Model, R: Conv<M::F>>(ctx: &Ctx<M, R>, rep: &mut Report, rng: &mut Rng, n: usize) {
    let cur = &ctx.cur;
    for i in 0..n {
        let (a, g): (M::A, M::G) = (M::A::rand(rng), M::G::rand(rng));
        for (which, p) in [("UniformRand for Affine", ctx.decode_aff(&a)), ("UniformRand for Projective", match ctx.decode(&g) { Ok(p) => p, Err(_) => { rep.violation(format!("subgroup/{}/{}/invalid-representation", ctx.name, "UniformRand for Projective"), json!({"curve": ctx.name})); continue } })] {
            rep.eval(digest(&(ctx.name.as_str(), which, i, &p)), true);
            rep.class("sampled point checked");
            let ok = cur.on_curve(&p) && cur.mul(&ctx.r, &p).map(|x| cur.is_identity(&x)).unwrap_or(false);
            if !ok {
                rep.violation(format!("subgroup/{}/{}/outside-subgroup", ctx.name, which), json!({"curve": ctx.name, "P": ctx.show(&p)}));
            }
        }
    }
}

pub fn toy<M: Model>(meta: &'static ToyDesc, rep: &mut Report, rng: &mut Rng) {
    let ctx = toy_ctx::<M>(meta);
    rep.config(&format!("toy::{}", meta.name));
    let heff = Heff { h_eff: UInt::from(meta.h), desc: "COFACTOR" };
    check_heff(&ctx, rep, &heff);
    let pts = if ctx.complete { ctx.points.clone() } else { ctx.subgroup.clone() };
    for (i, p) in pts.iter().enumerate() {
        let q = &pts[(i * 7 + 3) % pts.len()];
        check_point(&ctx, rep, p, &heff, true, Some(q));
    }
    if ctx.complete {
        sampling(&ctx, rep, rng, 40);
    }
    rep.exhaustive(&format!("toy::{}: subgroup test, cofactor clearing and cofactor multiplications on all {} points", meta.name, pts.len()));
    rep.sample(&format!("c12/{}", meta.name), || json!({"curve": meta.name, "points": pts.len(), "r": meta.r, "h": meta.h}));
}

pub fn shipped<M: Model>(name: &str, rep: &mut Report, rng: &mut Rng, iters: usize, heff: Option<Heff>, small_order: usize) {
    let ctx = Ctx::<M, Fld<M::F>>::new(name, Fld(Default::default()));
    rep.config(name);
    let cur = &ctx.cur;
    let heff = heff.unwrap_or(Heff { h_eff: ctx.h.clone(), desc: "COFACTOR" });
    check_heff(&ctx, rep, &heff);
    let h_is_one = ctx.h.is_one();
    let curve_point = |rng: &mut Rng| -> OP<M::F> {
        loop {
            let c = M::F::rand(rng);
            if let Some(a) = M::recover_point(c, rng.next_u32() % 2 == 0) {
                let p = ctx.decode_aff(&a);
                if cur.on_curve(&p) {
                    return p;
                }
            }
        }
    };
    let sub_point = |rng: &mut Rng| -> OP<M::F> { ctx.decode_aff(&(M::A::generator() * M::S::rand(rng)).into_affine()) };
    let mut outside = 0usize;
    // points of exact small prime order l for every small prime l | h (and of order l^2 where they exist):
    // endomorphism-based membership tests compare two derived points and can be fooled exactly there
    if !h_is_one && small_order > 0 {
        let (ls, _) = oracle::small_factors(ctx.h.clone(), 70_000);
        // quick tier: the four smallest primes, one point each; thorough: all of them, two points each
        let take = if small_order == 1 { 4 } else { ls.len() };
        if !M::TE && !ls.is_empty() {
            rep.require_here("point: exact small prime order l | h");
        }
        for l in ls.into_iter().take(take) {
            let lu = UInt::from(l);
            let mut hl = ctx.h.clone();
            while (&hl % &lu).is_zero() {
                hl /= &lu;
            }
            let mut found = 0;
            for _try in 0..40 {
                let t = curve_point(rng);
                let Ok(tor) = cur.mul(&ctx.r, &t) else { continue };
                let Ok(mut u) = cur.mul(&hl, &tor) else { continue };
                if cur.is_identity(&u) {
                    continue;
                }
                // u has order l^j, j >= 1: walk down to exact order l, keeping the point one step above
                let mut above: Option<OP<M::F>> = None;
                loop {
                    let Ok(nx) = cur.mul(&lu, &u) else { break };
                    if cur.is_identity(&nx) {
                        break;
                    }
                    above = Some(u.clone());
                    u = nx;
                }
                rep.class("point: exact small prime order l | h");
                let sp = sub_point(rng);
                for p in [Some(u.clone()), Some(cur.neg(&u)), above, cur.add(&sp, &u).ok()].into_iter().flatten() {
                    let q = curve_point(rng);
                    check_point(&ctx, rep, &p, &heff, false, Some(&q));
                }
                found += 1;
                if found >= small_order {
                    break;
                }
            }
        }
    }
    for it in 0..iters {
        let p = match it % 6 {
            0 => sub_point(rng),
            1 => cur.identity(),
            2 if !h_is_one => {
                // small-order point r*T
                let t = curve_point(rng);
                cur.mul(&ctx.r, &t).unwrap_or(cur.identity())
            },
            3 if !h_is_one => {
                // subgroup + torsion
                let t = curve_point(rng);
                let tor = cur.mul(&ctx.r, &t).unwrap_or(cur.identity());
                cur.add(&sub_point(rng), &tor).unwrap_or(cur.identity())
            },
            _ => curve_point(rng),
        };
        if it == 0 {
            rep.sample(&format!("c12/{name}"), || json!({"curve": name, "P": ctx.show(&p), "h_eff": heff.desc}));
        }
        let q = curve_point(rng);
        let before = rep.classes.get("point: outside the prime-order subgroup").copied().unwrap_or(0);
        check_point(&ctx, rep, &p, &heff, false, Some(&q));
        if rep.classes.get("point: outside the prime-order subgroup").copied().unwrap_or(0) > before {
            outside += 1;
        }
    }
    if !h_is_one {
        rep.class_if(outside * 10 >= iters * 3, "cofactor > 1 curve: > 30% of the points were outside the subgroup");
        if outside * 10 < iters * 3 {
            rep.note(format!("{name}: only {outside}/{iters} points outside the subgroup"));
        }
    }
    sampling(&ctx, rep, rng, (iters / 4).max(4));
}

// ---- C11, curve part ---------------------------------------------------------------------------

fn c11_check<M: Model, R: Conv<M::F>>(ctx: &Ctx<M, R>, rep: &mut Report, c: &R::El, solutions: Option<Vec<R::El>>, enumerated: bool) {
    // solutions: Some(list) when the oracle enumerated them, None when only verification is possible
    let ar = &ctx.cur.ar;
    let cf = ar.fld(c);
    let what = if M::TE { "get_xs_from_y_unchecked" } else { "get_ys_from_x_unchecked" };
    let sig = |op: &str, kind: &str| format!("recover/{}/{}/{}", ctx.name, op, kind);
    let d = || json!({"curve": ctx.name, "coordinate": ar.show(c)});
    let nt = !ar.is_zero(c);
    if enumerated {
        rep.eval_enumerated(nt)
    } else {
        rep.eval(digest(&(ctx.name.as_str(), "c11", c)), nt)
    }
    let on = |other: &R::El| -> bool {
        let p = if M::TE { Some((other.clone(), c.clone())) } else { Some((c.clone(), other.clone())) };
        ctx.cur.on_curve(&p)
    };
    let Some(got) = rep.total(&sig(what, "total"), d, || M::recover(cf)) else { return };
    match got {
        None => {
            rep.class("recover: no solution");
            match &solutions {
                Some(s) if !s.is_empty() => rep.violation(sig(what, "none-although-solutions-exist"), d()),
                None => {
                    // shipped: decide existence with the Euler criterion on the right-hand side
                    if rhs_is_square::<M>(&cf) == Some(true) {
                        rep.violation(sig(what, "none-although-solutions-exist"), d());
                    }
                },
                _ => {},
            }
        },
        Some((s0, s1)) => {
            rep.class("recover: two solutions returned");
            let (e0, e1) = (ar.el(&s0), ar.el(&s1));
            rep.class_if(e0 == e1, "recover: double root (y = 0 / x = 0)");
            let mut bad = None;
            if !on(&e0) || !on(&e1) {
                bad = Some("not-a-solution");
            } else if ar.neg(&e0) != e1 {
                bad = Some("not-negatives");
            } else if s0 > s1 || ar.doc_cmp(&e0, &e1) == Some(std::cmp::Ordering::Greater) {
                bad = Some("wrong-order");
            } else if let Some(s) = &solutions {
                let mut want = s.clone();
                want.sort_by(|a, b| format!("{a:?}").cmp(&format!("{b:?}")));
                let mut have = vec![e0.clone(), e1.clone()];
                have.dedup();
                have.sort_by(|a, b| format!("{a:?}").cmp(&format!("{b:?}")));
                if want != have {
                    bad = Some("solution-set");
                }
            }
            if let Some(b) = bad {
                let mut dd = d();
                dd["got"] = json!([ar.show(&e0), ar.show(&e1)]);
                rep.violation(sig(what, b), dd);
            }
            // point recovery picks the documented one
            for greatest in [false, true] {
                let pt = M::recover_point(cf, greatest);
                let want = if greatest { &e1 } else { &e0 };
                let ok = match pt.map(|p| ctx.decode_aff(&p)) {
                    Some(Some((x, y))) => {
                        if M::TE {
                            y == *c && x == *want
                        } else {
                            x == *c && y == *want
                        }
                    },
                    _ => false,
                };
                if !ok {
                    rep.violation(sig(if M::TE { "get_point_from_y_unchecked" } else { "get_point_from_x_unchecked" }, "wrong-point"), d());
                }
            }
        },
    }
}

/// Euler criterion on the right-hand side of the recovery equation (shipped curves).
fn rhs_is_square<M: Model>(c: &M::F) -> Option<bool> {
    let (c1, c2) = M::coeffs();
    let rhs = if M::TE {
        // x^2 = (1 - y^2)/(a - d y^2)
        let y2 = c.square();
        let den = c1 - c2 * y2;
        let inv = den.inverse()?;
        (M::F::one() - y2) * inv
    } else {
        *c * c.square() + c1 * c + c2
    };
    if rhs.is_zero() {
        return Some(true);
    }
    // q = p^k; exponent (q-1)/2 through repeated Frobenius-free pow with the characteristic
    let p: UInt = oracle::from_limbs(M::F::characteristic());
    let k = M::F::extension_degree() as u32;
    let mut q = UInt::one();
    for _ in 0..k {
        q *= &p;
    }
    let e = (q - UInt::one()) >> 1usize;
    Some(rhs.pow(e.to_u64_digits()).is_one())
}

use ark_std::One as _;

pub fn c11_toy<M: Model>(meta: &'static ToyDesc, rep: &mut Report) {
    let ctx = toy_ctx::<M>(meta);
    rep.config(&format!("toy::{}", meta.name));
    let ar = ctx.cur.ar.clone();
    let els = ar.elems();
    // all affine solutions of the curve equation (including, for incomplete Edwards curves, points outside the subgroup)
    let mut all: Vec<([u64; 3], [u64; 3])> = vec![];
    for x in &els {
        for y in &els {
            if ctx.cur.on_curve(&Some((*x, *y))) {
                all.push((*x, *y));
            }
        }
    }
    for c in &els {
        let sols: Vec<[u64; 3]> = if M::TE { all.iter().filter(|(_, y)| y == c).map(|(x, _)| *x).collect() } else { all.iter().filter(|(x, _)| x == c).map(|(_, y)| *y).collect() };
        c11_check(&ctx, rep, c, Some(sols), true);
    }
    rep.exhaustive(&format!("toy::{}: coordinate recovery for every one of the {} field elements", meta.name, els.len()));
    rep.sample(&format!("c11/{}", meta.name), || json!({"curve": meta.name, "coordinates": els.len(), "affine_points": all.len()}));
}

pub fn c11_shipped<M: Model>(name: &str, rep: &mut Report, rng: &mut Rng, iters: usize) {
    let ctx = Ctx::<M, Fld<M::F>>::new(name, Fld(Default::default()));
    rep.config(name);
    let gen = ctx.decode_aff(&M::A::generator()).unwrap();
    let gc = if M::TE { gen.1 } else { gen.0 };
    let mut coords = vec![gc, gc + M::F::one(), gc - M::F::one(), M::F::zero(), M::F::one(), -M::F::one(), M::F::from(2u64), M::F::from(3u64)];
    for _ in 0..iters {
        coords.push(M::F::rand(rng));
    }
    if M::TE {
        // y with a - d*y^2 = 0: the recovery formula x^2 = (1 - y^2)/(a - d*y^2) has a zero denominator there; such y
        // exist exactly when a/d is a square, i.e. on curves with an incomplete addition law (Bandersnatch)
        let (a, d) = M::coeffs();
        if let Some(y0) = d.inverse().and_then(|di| (a * di).sqrt()) {
            rep.class("recover: twisted Edwards y with a - d*y^2 = 0 (zero denominator)");
            coords.push(y0);
            coords.push(-y0);
        }
    }
    for (i, c) in coords.iter().enumerate() {
        if i == 0 {
            rep.sample(&format!("c11/{name}"), || json!({"curve": name, "coordinate": format!("{c}")}));
        }
        c11_check(&ctx, rep, c, None, false);
    }
}

pub fn heff_for(name: &str) -> Option<Heff> {
    use ark_ec::bls12::Bls12Config;
    use cfgs::shipped::*;
    fn bls_g1(x: &[u64], neg: bool) -> UInt {
        let xv = oracle::from_limbs(x);
        // |1 - x|: the sign does not matter for "a fixed integer multiple" because -P handling is
        // part of the value; keep the convention of the code: (1 - x) for negative x, (x - 1) for positive
        if neg {
            xv + UInt::one()
        } else {
            xv - UInt::one()
        }
    }
    fn bls_g2(x: &[u64], h2: &[u64]) -> UInt {
        let xv = oracle::from_limbs(x);
        UInt::from(3u8) * (&xv * &xv - UInt::one()) * oracle::from_limbs(h2)
    }
    match name {
        "bls12_381::g1" => Some(Heff { h_eff: bls_g1(bls12_381::Config::X, bls12_381::Config::X_IS_NEGATIVE), desc: "1 - x (BLS12 G1 effective cofactor)" }),
        "tc::bls12_381::g1" => Some(Heff { h_eff: bls_g1(tc::bls12_381::Config::X, tc::bls12_381::Config::X_IS_NEGATIVE), desc: "1 - x (BLS12 G1 effective cofactor)" }),
        "bls12_377::g1" => Some(Heff { h_eff: bls_g1(bls12_377::Config::X, bls12_377::Config::X_IS_NEGATIVE), desc: "x - 1 (BLS12 G1 effective cofactor)" }),
        "bls12_381::g2" => Some(Heff { h_eff: bls_g2(bls12_381::Config::X, <bls12_381::g2::Config as ark_ec::CurveConfig>::COFACTOR), desc: "3(x^2-1)*h2 (psi-based clearing)" }),
        "tc::bls12_381::g2" => Some(Heff { h_eff: bls_g2(tc::bls12_381::Config::X, <tc::bls12_381::g2::Config as ark_ec::CurveConfig>::COFACTOR), desc: "3(x^2-1)*h2 (psi-based clearing)" }),
        "bls12_377::g2" => Some(Heff { h_eff: bls_g2(bls12_377::Config::X, <bls12_377::g2::Config as ark_ec::CurveConfig>::COFACTOR), desc: "3(x^2-1)*h2 (psi-based clearing)" }),
        _ => None,
    }
}

pub fn items(args: &Args) -> Vec<Item> {
    let mut v: Vec<Item> = vec![];
    macro_rules! toy_sw {
        ($name:literal, $cfg:ty) => {
            let meta = crate::model::toy_desc($name);
            v.push(Item::new(format!("c12/toy::{}", $name), move |rep, rng, _| {
                for c in REQUIRED { rep.require(c); }
                toy::<SWm<$cfg>>(meta, rep, rng)
            }));
        };
    }
    macro_rules! toy_te {
        ($name:literal, $cfg:ty) => {
            let meta = crate::model::toy_desc($name);
            v.push(Item::new(format!("c12/toy::{}", $name), move |rep, rng, _| toy::<TEm<$cfg>>(meta, rep, rng)));
        };
    }
    let iters = args.pick(12usize, 240);
    let so = args.pick(1usize, 2);
    macro_rules! sw {
        ($name:literal, $cfg:ty) => {
            for shard in 0..2 {
                v.push(Item::new(format!("c12/{}/{}", $name, shard), move |rep, rng, _| {
                    let one = <$cfg as ark_ec::CurveConfig>::cofactor_is_one();
                    if !one { rep.require_here("cofactor > 1 curve: > 30% of the points were outside the subgroup"); }
                    shipped::<SWm<$cfg>>($name, rep, rng, iters / 2, heff_for($name), if shard == 0 { so } else { 0 })
                }));
            }
        };
    }
    macro_rules! te {
        ($name:literal, $cfg:ty) => {
            for shard in 0..2 {
                v.push(Item::new(format!("c12/{}/{}", $name, shard), move |rep, rng, _| shipped::<TEm<$cfg>>($name, rep, rng, iters / 2, None, if shard == 0 { so } else { 0 })));
            }
        };
    }
    crate::curves::for_each_shipped_sw!(sw);
    crate::curves::for_each_shipped_te!(te);
    cfgs::for_each_toy_sw!(toy_sw);
    cfgs::for_each_toy_sw3!(toy_sw);
    cfgs::for_each_toy_te!(toy_te);
    v
}

pub fn items_c11(args: &Args) -> Vec<Item> {
    let mut v: Vec<Item> = vec![];
    macro_rules! toy_sw {
        ($name:literal, $cfg:ty) => {
            let meta = crate::model::toy_desc($name);
            v.push(Item::new(format!("c11/curve/toy::{}", $name), move |rep, _rng, _| {
                rep.require("recover: no solution");
                rep.require("recover: two solutions returned");
                rep.require("recover: double root (y = 0 / x = 0)");
                c11_toy::<SWm<$cfg>>(meta, rep)
            }));
        };
    }
    macro_rules! toy_te {
        ($name:literal, $cfg:ty) => {
            let meta = crate::model::toy_desc($name);
            v.push(Item::new(format!("c11/curve/toy::{}", $name), move |rep, _rng, _| c11_toy::<TEm<$cfg>>(meta, rep)));
        };
    }
    let iters = args.pick(24usize, 600);
    macro_rules! sw {
        ($name:literal, $cfg:ty) => {
            v.push(Item::new(format!("c11/curve/{}", $name), move |rep, rng, _| c11_shipped::<SWm<$cfg>>($name, rep, rng, iters)));
        };
    }
    macro_rules! te {
        ($name:literal, $cfg:ty) => {
            v.push(Item::new(format!("c11/curve/{}", $name), move |rep, rng, _| c11_shipped::<TEm<$cfg>>($name, rep, rng, iters)));
        };
    }
    crate::curves::for_each_shipped_sw!(sw);
    crate::curves::for_each_shipped_te!(te);
    cfgs::for_each_toy_sw!(toy_sw);
    cfgs::for_each_toy_sw3!(toy_sw);
    cfgs::for_each_toy_te!(toy_te);
    v
}

const REQUIRED: &[&str] = &[
    "point: identity",
    "point: in the prime-order subgroup",
    "point: outside the prime-order subgroup",
    "point: small order (h*P = identity)",
    "sampled point checked",
];
