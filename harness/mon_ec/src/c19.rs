//! C19 (curve part) — equality and hashing of curve points in every representation, pairing
//! outputs and polynomials coincide with mathematical identity.
use crate::model::*;
use ark_ec::{pairing::Pairing, AffineRepr, CurveGroup, PrimeGroup};
use ark_ff::{Field, PrimeField, UniformRand};
use ark_poly::{univariate::{DensePolynomial, SparsePolynomial}, DenseUVPolynomial, Polynomial};
use ark_std::rand::RngCore;
use ark_std::{One, Zero};
use monitor::*;
use std::collections::{BTreeMap, HashMap, HashSet};
use std::hash::{Hash, Hasher};

pub const RULE: &str = "cases = (type, pair of values) from pools in which every mathematical object occurs several times: projective \
rescalings, affine vs projective, P+Q-Q, k*P through different multiplication paths, non-canonical identities; pairing outputs via e(aP,Q), \
e(P,aQ), e(P,Q)^a; polynomials through different operator sequences; all pairs of each pool: == (both directions, also across affine / \
projective) agrees with equality of the oracle points, equal objects hash equally (std DefaultHasher), HashMap / HashSet keyed by points \
behave as sets of mathematical points; toy curves use every point of the curve; non-trivial = different pool entries; distinct = digest of \
(type, pair)";

fn h<T: Hash>(t: &T) -> u64 {
    let mut s = std::collections::hash_map::DefaultHasher::new();
    t.hash(&mut s);
    s.finish()
}

fn lam<F: Field>(rng: &mut Rng) -> F {
    loop {
        let l = F::rand(rng);
        if !l.is_zero() {
            return l;
        }
    }
}

/// pool entry: the oracle point and a projective representative obtained through some history
fn point_pool<M: Model, R: Conv<M::F>>(ctx: &Ctx<M, R>, rep: &mut Report, rng: &mut Rng, base_points: &[OP<R::El>]) -> Vec<(OP<R::El>, M::G)> {
    let cur = &ctx.cur;
    let mut pool: Vec<(OP<R::El>, M::G)> = vec![];
    for (i, p) in base_points.iter().enumerate() {
        let a = ctx.aff(p);
        pool.push((p.clone(), ctx.proj(p, &M::F::one())));
        pool.push((p.clone(), ctx.proj(p, &lam::<M::F>(rng))));
        pool.push((p.clone(), a.into_group()));
        let q = &base_points[(i * 5 + 1) % base_points.len()];
        if cur.add(p, q).is_ok() {
            let gq = ctx.proj(q, &lam::<M::F>(rng));
            pool.push((p.clone(), ctx.proj(p, &lam::<M::F>(rng)) + gq - gq)); // P+Q-Q
        }
        if cur.is_identity(p) {
            rep.class("pool: non-canonical identity");
            pool.push((p.clone(), ctx.weird_identity(&lam::<M::F>(rng), &lam::<M::F>(rng))));
            pool.push((p.clone(), M::G::zero()));
        }
    }
    pool
}

pub fn points<M: Model, R: Conv<M::F>>(ctx: &Ctx<M, R>, rep: &mut Report, rng: &mut Rng, base_points: &[OP<R::El>], enumerated: bool) {
    let mut pool = point_pool(ctx, rep, rng, base_points);
    // affine representatives, each obtained through a different public route (they must all be the same value:
    // Eq and Hash of the affine types are derived over the stored fields, so a route that leaves different
    // junk in the coordinates of the identity, or a different flag, shows up here)
    let batch: Vec<M::A> = <M::G as CurveGroup>::normalize_batch(&pool.iter().map(|(_, g)| *g).collect::<Vec<_>>());
    let mut affs: Vec<M::A> = pool
        .iter()
        .enumerate()
        .map(|(i, (p, g))| match i % 4 {
            0 => ctx.aff(p),
            1 => g.into_affine(),
            2 => batch[i],
            _ => <M::A as From<M::G>>::from(*g),
        })
        .collect();
    // the identity through every constructor there is
    if let Some(idp) = base_points.iter().find(|p| ctx.cur.is_identity(p)) {
        rep.class("pool: affine identity through zero() / default() / identity() / into_affine() / normalize_batch()");
        let g0 = <M::G as ark_std::Zero>::zero();
        for a in [<M::A as AffineRepr>::zero(), <M::A as Default>::default(), M::aff_identity(), g0.into_affine(), (g0 + M::A::generator() - M::A::generator()).into_affine()] {
            pool.push((idp.clone(), g0));
            affs.push(a);
        }
    }
    let sig = |kind: &str| format!("group/{}/eqhash/{}", ctx.name, kind);
    let hashes: Vec<u64> = pool.iter().map(|(_, g)| h(g)).collect();
    let ahashes: Vec<u64> = affs.iter().map(h).collect();
    for i in 0..pool.len() {
        for j in 0..pool.len() {
            let same = pool[i].0 == pool[j].0;
            if enumerated {
                rep.eval_enumerated(i != j)
            } else {
                rep.eval(digest(&(ctx.name.as_str(), "eqhash", i, j, &pool[i].0, &pool[j].0)), i != j)
            }
            rep.class(if same && i != j { "pair: same point, different representatives" } else if same { "pair: same entry" } else { "pair: different points" });
            let d = || json!({"curve": ctx.name, "P": ctx.show(&pool[i].0), "Q": ctx.show(&pool[j].0), "raw_P": M::raw(&pool[i].1).iter().map(|f| format!("{f}")).collect::<Vec<_>>(), "raw_Q": M::raw(&pool[j].1).iter().map(|f| format!("{f}")).collect::<Vec<_>>()});
            if (pool[i].1 == pool[j].1) != same {
                rep.violation(sig("projective-eq"), d());
            }
            if M::eq_ga(&pool[i].1, &affs[j]) != same || M::eq_ag(&affs[i], &pool[j].1) != same {
                rep.violation(sig("cross-type-eq"), d());
            }
            if (affs[i] == affs[j]) != same {
                rep.violation(sig("affine-eq"), d());
            }
            if same && (hashes[i] != hashes[j] || ahashes[i] != ahashes[j]) {
                rep.violation(sig(if hashes[i] != hashes[j] { "projective-hash-depends-on-representative" } else { "affine-hash" }), d());
            }
        }
    }
    // containers keyed by points behave as sets of mathematical points
    let distinct: HashSet<&OP<R::El>> = pool.iter().map(|(p, _)| p).collect();
    let hs: HashSet<M::G> = pool.iter().map(|(_, g)| *g).collect();
    let ha: HashSet<M::A> = affs.iter().copied().collect();
    let mut hm: HashMap<M::G, usize> = HashMap::new();
    for (_, g) in &pool {
        *hm.entry(*g).or_insert(0) += 1;
    }
    rep.eval(digest(&(ctx.name.as_str(), "sets", pool.len())), true);
    if hs.len() != distinct.len() || ha.len() != distinct.len() || hm.len() != distinct.len() || hm.values().sum::<usize>() != pool.len() {
        rep.violation(sig("set-cardinality"), json!({"curve": ctx.name, "hash_set_projective": hs.len(), "hash_set_affine": ha.len(), "hash_map": hm.len(), "distinct_points": distinct.len()}));
    }
    rep.sample(&format!("c19/{}", ctx.name), || json!({"curve": ctx.name, "pool": pool.len(), "distinct_points": distinct.len()}));
}

pub fn toy<M: Model>(meta: &'static ToyDesc, rep: &mut Report, rng: &mut Rng) {
    let ctx = toy_ctx::<M>(meta);
    rep.config(&format!("toy::{}", meta.name));
    let pts = if ctx.complete { ctx.points.clone() } else { ctx.subgroup.clone() };
    // all points (capped at ~120 per pool so that all pairs stay cheap); several pools cover the whole curve
    for chunk in pts.chunks(100) {
        let mut base = chunk.to_vec();
        base.push(ctx.cur.identity());
        points(&ctx, rep, rng, &base, true);
    }
    rep.exhaustive(&format!("toy::{}: every point of the curve appears in a pool with >= 3 representatives; all pairs inside each pool", meta.name));
}

pub fn shipped<M: Model>(name: &str, rep: &mut Report, rng: &mut Rng, n: usize) {
    let ctx = Ctx::<M, Fld<M::F>>::new(name, Fld(Default::default()));
    rep.config(name);
    let mut base = vec![ctx.cur.identity(), ctx.decode_aff(&M::A::generator())];
    for _ in 0..n {
        let k = M::S::rand(rng);
        let p = (M::A::generator() * k).into_affine();
        base.push(ctx.decode_aff(&p));
        base.push(ctx.cur.neg(&ctx.decode_aff(&p)));
    }
    points(&ctx, rep, rng, &base, false);
    // k*P through different paths denotes one point
    let k = M::S::rand(rng);
    let g = M::G::generator();
    let a = M::A::generator();
    let forms = [g * k, a * k, g.mul_bigint(k.into_bigint()), a.mul_bigint(k.into_bigint()), ark_ec::scalar_mul::wnaf::WnafContext::new(4).mul(g, &k)];
    for x in &forms {
        for y in &forms {
            rep.eval(digest(&(name, "paths", h(x), h(y))), true);
            if x != y || h(x) != h(y) || x.into_affine() != y.into_affine() || h(&x.into_affine()) != h(&y.into_affine()) {
                rep.violation(format!("group/{name}/eqhash/same-point-different-paths"), json!({"curve": name}));
            }
        }
    }
}

pub fn gt<E: Pairing>(name: &str, rep: &mut Report, rng: &mut Rng, n: usize) {
    rep.config(name);
    let p = E::G1::generator();
    let q = E::G2::generator();
    let base = E::pairing(p, q);
    let mut pool: Vec<(u64, ark_ec::pairing::PairingOutput<E>)> = vec![(0, ark_ec::pairing::PairingOutput::zero()), (1, base)];
    for i in 0..n {
        let a = 2 + (rng.next_u32() % 5) as u64 + i as u64 * 7;
        let s = E::ScalarField::from(a);
        pool.push((a, E::pairing(p * s, q)));
        pool.push((a, E::pairing(p, q * s)));
        pool.push((a, base * s));
        pool.push((a, ark_ec::pairing::PairingOutput(base.0.pow([a]))));
    }
    for (ka, x) in &pool {
        for (kb, y) in &pool {
            let same = ka == kb;
            rep.eval(digest(&(name, "gt", ka, kb, h(x), h(y))), true);
            rep.class(if same { "pair: same target-group element through different pairings" } else { "pair: different target-group elements" });
            if (x == y) != same || (same && h(x) != h(y)) {
                rep.violation(format!("gt/{name}/eqhash/{}", if (x == y) != same { "eq" } else { "hash" }), json!({"engine": name, "exponents": [ka, kb]}));
            }
            if x.is_zero() != (*ka == 0) {
                rep.violation(format!("gt/{name}/eqhash/is_zero"), json!({"engine": name}));
            }
        }
    }
    rep.sample(&format!("c19/{name}"), || json!({"engine": name, "pool": pool.len()}));
}

pub fn polys<F: PrimeField>(name: &str, rep: &mut Report, rng: &mut Rng, n: usize) {
    rep.config(&format!("polynomials over {name}"));
    // pool entry: canonical coefficient vector (oracle identity) + a polynomial obtained through some history
    let mut pool: Vec<(Vec<F>, DensePolynomial<F>)> = vec![(vec![], DensePolynomial::zero())];
    let canon = |mut v: Vec<F>| {
        while v.last().map(|c| c.is_zero()).unwrap_or(false) {
            v.pop();
        }
        v
    };
    for _ in 0..n {
        let da = rng.next_u32() as usize % 9;
        let a: Vec<F> = (0..=da).map(|_| if rng.next_u32() % 4 == 0 { F::zero() } else { F::rand(rng) }).collect();
        let ca = canon(a.clone());
        let pa = DensePolynomial::from_coefficients_vec(a.clone());
        let db = rng.next_u32() as usize % 9;
        let pb = DensePolynomial::<F>::rand(db, rng);
        pool.push((ca.clone(), pa.clone()));
        pool.push((ca.clone(), &(&pa + &pb) - &pb));
        pool.push((ca.clone(), -(-pa.clone())));
        pool.push((ca.clone(), DensePolynomial::from_coefficients_slice(&a)));
        let sp: SparsePolynomial<F> = pa.clone().into();
        pool.push((ca.clone(), sp.into()));
        let mut t = pa.clone();
        t += &pb;
        t -= &pb;
        pool.push((ca.clone(), t));
        pool.push((ca.clone(), &pa * F::one()));
        if !pb.is_zero() {
            pool.push((ca.clone(), &pa.naive_mul(&pb) / &pb));
        }
    }
    for (ca, x) in &pool {
        for (cb, y) in &pool {
            let same = ca == cb;
            rep.eval(digest(&(name, "poly", ca, cb, h(x), h(y))), true);
            rep.class(if same { "pair: same polynomial through different histories" } else { "pair: different polynomials" });
            if (x == y) != same || (same && h(x) != h(y)) {
                rep.violation(format!("poly/dense/eqhash/{}", if (x == y) != same { "eq" } else { "hash" }), json!({"field": name, "coeffs_a": ca.iter().map(|c| c.to_string()).collect::<Vec<_>>(), "coeffs_b": cb.iter().map(|c| c.to_string()).collect::<Vec<_>>(), "raw_a": x.coeffs.len(), "raw_b": y.coeffs.len()}));
            }
            // sparse view
            let (sx, sy): (SparsePolynomial<F>, SparsePolynomial<F>) = (x.clone().into(), y.clone().into());
            if (sx == sy) != same || (same && h(&sx) != h(&sy)) {
                rep.violation("poly/sparse/eqhash/eq-or-hash".to_string(), json!({"field": name}));
            }
        }
        if x.is_zero() != ca.is_empty() || (!ca.is_empty() && x.degree() != ca.len() - 1) {
            rep.violation("poly/dense/eqhash/is_zero-degree".to_string(), json!({"field": name}));
        }
    }
    let mut by_value: BTreeMap<Vec<String>, usize> = BTreeMap::new();
    for (c, _) in &pool {
        *by_value.entry(c.iter().map(|x| x.to_string()).collect()).or_insert(0) += 1;
    }
    let hs: HashSet<DensePolynomial<F>> = pool.iter().map(|(_, p)| p.clone()).collect();
    if hs.len() != by_value.len() {
        rep.violation("poly/dense/eqhash/set-cardinality".to_string(), json!({"field": name, "hash_set": hs.len(), "distinct": by_value.len()}));
    }
    let _ = F::one();
    rep.sample(&format!("c19/poly/{name}"), || json!({"field": name, "pool": pool.len(), "distinct": by_value.len()}));
}

/// Multivariate sparse polynomials: the oracle identity is the map {normalised monomial -> non-zero coefficient};
/// each pool entry reaches the same polynomial through a different history (term lists with duplicates, zero
/// coefficients and unordered variables; p+q-q; scaled adds that cancel; scaled add with factor zero; a larger
/// declared number of variables, which the library's `==` ignores on purpose).
pub fn mvpolys<F: PrimeField>(name: &str, rep: &mut Report, rng: &mut Rng, n: usize) {
    use ark_poly::multivariate::{SparsePolynomial as MvPoly, SparseTerm, Term};
    use ark_poly::DenseMVPolynomial;
    type Mono = Vec<(usize, usize)>;
    rep.config(&format!("multivariate sparse polynomials over {name}"));
    let build = |nv: usize, m: &BTreeMap<Mono, F>| -> MvPoly<F, SparseTerm> {
        MvPoly::from_coefficients_vec(nv, m.iter().map(|(t, c)| (*c, SparseTerm::new(t.clone()))).collect())
    };
    let rand_map = |rng: &mut Rng, nv: usize, terms: usize| -> BTreeMap<Mono, F> {
        let mut m = BTreeMap::new();
        for _ in 0..terms {
            let mut t: BTreeMap<usize, usize> = BTreeMap::new();
            for _ in 0..rng.next_u32() % 4 {
                *t.entry(rng.next_u32() as usize % nv).or_insert(0) += 1 + rng.next_u32() as usize % 3;
            }
            let c = F::from(1 + rng.next_u32() as u64 % 5);
            m.insert(t.into_iter().collect::<Mono>(), c);
        }
        m
    };
    let mut pool: Vec<(BTreeMap<Mono, F>, MvPoly<F, SparseTerm>)> = vec![(BTreeMap::new(), MvPoly::zero())];
    for it in 0..n {
        let nv = 1 + rng.next_u32() as usize % 4;
        let (ta, tb) = (rng.next_u32() as usize % 5, 1 + rng.next_u32() as usize % 4);
        let ma = rand_map(rng, nv, ta);
        let mb = rand_map(rng, nv, tb);
        let (pa, pb) = (build(nv, &ma), build(nv, &mb));
        pool.push((ma.clone(), pa.clone()));
        // term list with split coefficients, zero coefficients, unordered variables and reversed order
        let mut raw: Vec<(F, SparseTerm)> = vec![];
        for (t, c) in &ma {
            let mut tt = t.clone();
            tt.reverse();
            if let Some(&(v, pw)) = tt.first() {
                if pw > 1 {
                    tt[0] = (v, pw - 1);
                    tt.push((v, 1));
                }
            }
            let c1 = F::from(rng.next_u32() as u64);
            raw.push((c1, SparseTerm::new(tt.clone())));
            raw.push((*c - c1, SparseTerm::new(tt)));
        }
        raw.push((F::zero(), SparseTerm::new(vec![(0, 7)])));
        raw.reverse();
        pool.push((ma.clone(), MvPoly::from_coefficients_vec(nv, raw)));
        pool.push((ma.clone(), &(&pa + &pb) - &pb));
        pool.push((ma.clone(), -(-pa.clone())));
        let f = F::from(2 + rng.next_u32() as u64 % 9);
        let mut t = pa.clone();
        t += (f, &pb);
        t += (-f, &pb);
        pool.push((ma.clone(), t));
        let mut t = pa.clone();
        t += (F::zero(), &pb);
        rep.class("mv poly: scaled add with factor zero");
        pool.push((ma.clone(), t));
        let mut t = pa.clone();
        t -= &pb;
        t += &pb;
        pool.push((ma.clone(), t));
        // the same polynomial declared over one more variable
        pool.push((ma.clone(), build(nv + 1, &ma)));
        if it % 3 == 0 {
            rep.class("mv poly: identically zero through cancellation");
            pool.push((BTreeMap::new(), &pa - &pa));
            let mut z = MvPoly::<F, SparseTerm>::zero();
            z += (F::zero(), &pb);
            pool.push((BTreeMap::new(), z));
        }
    }
    for (i, (ca, x)) in pool.iter().enumerate() {
        for (j, (cb, y)) in pool.iter().enumerate() {
            let same = ca == cb;
            rep.eval(digest(&(name, "mvpoly", i, j, h(x), h(y))), i != j);
            rep.class(if same { "pair: same multivariate polynomial through different histories" } else { "pair: different multivariate polynomials" });
            if (x == y) != same || (same && h(x) != h(y)) {
                let show = |m: &BTreeMap<Mono, F>| m.iter().map(|(t, c)| format!("{c}*{t:?}")).collect::<Vec<_>>();
                rep.violation(
                    format!("poly/multivariate-sparse/eqhash/{}", if (x == y) != same { "eq" } else { "hash" }),
                    json!({"field": name, "a": show(ca), "b": show(cb), "a_num_vars": x.num_vars, "b_num_vars": y.num_vars,
                           "a_stored_terms": x.terms.len(), "b_stored_terms": y.terms.len(), "eq": x == y, "same_polynomial": same}),
                );
            }
        }
        if x.is_zero() != ca.is_empty() {
            rep.violation("poly/multivariate-sparse/eqhash/is_zero".to_string(), json!({"field": name, "stored_terms": x.terms.len()}));
        }
    }
    let distinct: HashSet<&BTreeMap<Mono, F>> = pool.iter().map(|(c, _)| c).collect();
    let hs: HashSet<MvPoly<F, SparseTerm>> = pool.iter().map(|(_, p)| p.clone()).collect();
    if hs.len() != distinct.len() {
        rep.violation("poly/multivariate-sparse/eqhash/set-cardinality".to_string(), json!({"field": name, "hash_set": hs.len(), "distinct": distinct.len()}));
    }
    rep.sample(&format!("c19/mvpoly/{name}"), || json!({"field": name, "pool": pool.len(), "distinct": distinct.len()}));
}

pub fn items(args: &Args) -> Vec<Item> {
    use cfgs::shipped::*;
    let mut v: Vec<Item> = vec![];
    macro_rules! toy_sw {
        ($name:literal, $cfg:ty) => {
            let meta = crate::model::toy_desc($name);
            v.push(Item::new(format!("c19/toy::{}", $name), move |rep, rng, _| {
                rep.require("pool: non-canonical identity");
                rep.require("pair: same point, different representatives");
                rep.require("pair: different points");
                toy::<SWm<$cfg>>(meta, rep, rng)
            }));
        };
    }
    macro_rules! toy_te {
        ($name:literal, $cfg:ty) => {
            let meta = crate::model::toy_desc($name);
            v.push(Item::new(format!("c19/toy::{}", $name), move |rep, rng, _| toy::<TEm<$cfg>>(meta, rep, rng)));
        };
    }
    let n = args.pick(4usize, 90);
    macro_rules! sw {
        ($name:literal, $cfg:ty) => {
            v.push(Item::new(format!("c19/{}", $name), move |rep, rng, _| shipped::<SWm<$cfg>>($name, rep, rng, n)));
        };
    }
    macro_rules! te {
        ($name:literal, $cfg:ty) => {
            v.push(Item::new(format!("c19/{}", $name), move |rep, rng, _| shipped::<TEm<$cfg>>($name, rep, rng, n)));
        };
    }
    crate::curves::for_each_shipped_sw!(sw);
    crate::curves::for_each_shipped_te!(te);
    cfgs::for_each_toy_sw!(toy_sw);
    cfgs::for_each_toy_sw3!(toy_sw);
    cfgs::for_each_toy_te!(toy_te);
    let gn = args.pick(2usize, 16);
    v.push(Item::new("c19/gt/bls12_381", move |rep, rng, _| {
        rep.require("pair: same target-group element through different pairings");
        gt::<bls12_381::Bls12_381>("bls12_381", rep, rng, gn)
    }));
    v.push(Item::new("c19/gt/bn254", move |rep, rng, _| gt::<bn254::Bn254>("bn254", rep, rng, gn)));
    v.push(Item::new("c19/gt/mnt4_298", move |rep, rng, _| gt::<mnt4_298::MNT4_298>("mnt4_298", rep, rng, gn)));
    v.push(Item::new("c19/gt/mnt6_298", move |rep, rng, _| gt::<mnt6_298::MNT6_298>("mnt6_298", rep, rng, gn)));
    v.push(Item::new("c19/gt/bw6_761", move |rep, rng, _| gt::<bw6_761::BW6_761>("bw6_761", rep, rng, gn)));
    let pn = args.pick(12usize, 160);
    v.push(Item::new("c19/poly/bls12_381::Fr", move |rep, rng, _| {
        rep.require("pair: same polynomial through different histories");
        polys::<bls12_381::Fr>("bls12_381::Fr", rep, rng, pn)
    }));
    v.push(Item::new("c19/poly/bn254::Fr", move |rep, rng, _| polys::<bn254::Fr>("bn254::Fr", rep, rng, pn)));
    v.push(Item::new("c19/poly/t97", move |rep, rng, _| polys::<cfgs::grid::t97::D>("grid/t97", rep, rng, pn)));
    v.push(Item::new("c19/mvpoly/bls12_381::Fr", move |rep, rng, _| {
        rep.require("mv poly: scaled add with factor zero");
        rep.require("mv poly: identically zero through cancellation");
        mvpolys::<bls12_381::Fr>("bls12_381::Fr", rep, rng, pn)
    }));
    v.push(Item::new("c19/mvpoly/t97", move |rep, rng, _| mvpolys::<cfgs::grid::t97::D>("grid/t97", rep, rng, pn)));
    v.sort_by_key(|i| !i.name.contains("/gt/"));
    v
}
