//! Registry of every curve configuration shipped in /repo (curves/* crates and test-curves).
//! `$m!("name", ConfigType);`

macro_rules! for_each_shipped_sw {
    ($m:ident) => {
        $m!("bls12_377::g1", cfgs::shipped::bls12_377::g1::Config);
        $m!("bls12_377::g2", cfgs::shipped::bls12_377::g2::Config);
        $m!("bls12_381::g1", cfgs::shipped::bls12_381::g1::Config);
        $m!("bls12_381::g2", cfgs::shipped::bls12_381::g2::Config);
        $m!("bn254::g1", cfgs::shipped::bn254::g1::Config);
        $m!("bn254::g2", cfgs::shipped::bn254::g2::Config);
        $m!("bw6_761::g1", cfgs::shipped::bw6_761::g1::Config);
        $m!("bw6_761::g2", cfgs::shipped::bw6_761::g2::Config);
        $m!("bw6_767::g1", cfgs::shipped::bw6_767::g1::Config);
        $m!("bw6_767::g2", cfgs::shipped::bw6_767::g2::Config);
        $m!("cp6_782::g1", cfgs::shipped::cp6_782::g1::Config);
        $m!("cp6_782::g2", cfgs::shipped::cp6_782::g2::Config);
        $m!("mnt4_298::g1", cfgs::shipped::mnt4_298::g1::Config);
        $m!("mnt4_298::g2", cfgs::shipped::mnt4_298::g2::Config);
        $m!("mnt4_753::g1", cfgs::shipped::mnt4_753::g1::Config);
        $m!("mnt4_753::g2", cfgs::shipped::mnt4_753::g2::Config);
        $m!("mnt6_298::g1", cfgs::shipped::mnt6_298::g1::Config);
        $m!("mnt6_298::g2", cfgs::shipped::mnt6_298::g2::Config);
        $m!("mnt6_753::g1", cfgs::shipped::mnt6_753::g1::Config);
        $m!("mnt6_753::g2", cfgs::shipped::mnt6_753::g2::Config);
        $m!("grumpkin", cfgs::shipped::grumpkin::GrumpkinConfig);
        $m!("pallas", cfgs::shipped::pallas::PallasConfig);
        $m!("vesta", cfgs::shipped::vesta::VestaConfig);
        $m!("secp256k1", cfgs::shipped::secp256k1::Config);
        $m!("secp256r1", cfgs::shipped::secp256r1::Config);
        $m!("secp384r1", cfgs::shipped::secp384r1::Config);
        $m!("secq256k1", cfgs::shipped::secq256k1::Config);
        $m!("ed_on_bls12_381::sw", cfgs::shipped::ed_on_bls12_381::JubjubConfig);
        $m!("bandersnatch::sw", cfgs::shipped::bandersnatch::BandersnatchConfig);
        $m!("tc::bls12_381::g1", cfgs::shipped::tc::bls12_381::g1::Config);
        $m!("tc::bls12_381::g2", cfgs::shipped::tc::bls12_381::g2::Config);
        $m!("tc::bls12_381::g1_swu_iso", cfgs::shipped::tc::bls12_381::g1_swu_iso::SwuIsoConfig);
        $m!("tc::bls12_381::g2_swu_iso", cfgs::shipped::tc::bls12_381::g2_swu_iso::SwuIsoConfig);
        $m!("tc::mnt4_753::g1", cfgs::shipped::tc::mnt4_753::g1::Config);
        $m!("tc::bn384::g1", cfgs::shipped::tc::bn384_small_two_adicity::g1::Config);
        $m!("tc::secp256k1", cfgs::shipped::tc::secp256k1::Config);
    };
}
pub(crate) use for_each_shipped_sw;

macro_rules! for_each_shipped_te {
    ($m:ident) => {
        $m!("bls12_377::g1 (te)", cfgs::shipped::bls12_377::g1::Config);
        $m!("curve25519", cfgs::shipped::curve25519::Curve25519Config);
        $m!("ed25519", cfgs::shipped::ed25519::EdwardsConfig);
        $m!("ed_on_bls12_377", cfgs::shipped::ed_on_bls12_377::EdwardsConfig);
        $m!("ed_on_bls12_381", cfgs::shipped::ed_on_bls12_381::JubjubConfig);
        $m!("bandersnatch", cfgs::shipped::bandersnatch::BandersnatchConfig);
        $m!("ed_on_bn254", cfgs::shipped::ed_on_bn254::EdwardsConfig);
        $m!("ed_on_cp6_782", cfgs::shipped::ed_on_cp6_782::EdwardsConfig);
        $m!("ed_on_mnt4_298", cfgs::shipped::ed_on_mnt4_298::EdwardsConfig);
        $m!("ed_on_mnt4_753", cfgs::shipped::ed_on_mnt4_753::EdwardsConfig);
        $m!("tc::ed_on_bls12_381", cfgs::shipped::tc::ed_on_bls12_381::EdwardsConfig);
    };
}
pub(crate) use for_each_shipped_te;

macro_rules! for_each_glv {
    ($m:ident) => {
        $m!("bls12_377::g1", cfgs::shipped::bls12_377::g1::Config);
        $m!("bls12_377::g2", cfgs::shipped::bls12_377::g2::Config);
        $m!("bls12_381::g1", cfgs::shipped::bls12_381::g1::Config);
        $m!("bls12_381::g2", cfgs::shipped::bls12_381::g2::Config);
        $m!("bn254::g1", cfgs::shipped::bn254::g1::Config);
        $m!("bn254::g2", cfgs::shipped::bn254::g2::Config);
        $m!("bw6_761::g1", cfgs::shipped::bw6_761::g1::Config);
        $m!("bw6_761::g2", cfgs::shipped::bw6_761::g2::Config);
        $m!("pallas", cfgs::shipped::pallas::PallasConfig);
        $m!("vesta", cfgs::shipped::vesta::VestaConfig);
        $m!("tc::bls12_381::g1", cfgs::shipped::tc::bls12_381::g1::Config);
    };
}
pub(crate) use for_each_glv;
