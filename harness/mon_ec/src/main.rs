//! Curve-layer monitors: C03 (group law), C04 (scalar multiplication), C05 (MSM), C12 (subgroup /
//! cofactor), the curve-coordinate part of C11 and the curve part of C19.
use monitor::*;
use std::time::Instant;

mod c03;
mod c04;
mod c05;
mod c12;
mod c19;
mod curves;
mod model;

fn main() {
    let args = Args::parse();
    let t0 = Instant::now();
    let (items, rule): (Vec<Item>, &str) = match args.prop.as_str() {
        "C03" => (c03::items(&args), c03::RULE),
        "C04" => (c04::items(&args), c04::RULE),
        "C05" => (c05::items(&args), c05::RULE),
        "C12" => (c12::items(&args), c12::RULE),
        "C19" => (c19::items(&args), c19::RULE),
        "C11" => (c12::items_c11(&args), c12::RULE_C11),
        p => panic!("mon_ec does not serve property {p}"),
    };
    let rep = run_items(&args, items);
    finish(&args, "mon_ec", rule, rep, t0)
}
