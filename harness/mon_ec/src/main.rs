use monitor::*;
fn main() {
    let args = Args::parse();
    panic!("mon_ec does not serve property {} yet", args.prop);
}
