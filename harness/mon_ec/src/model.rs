//! Oracle side of the curve monitors: textbook affine group laws written once over an abstract
//! arithmetic (`Arith`), instantiated (a) with plain u64 arithmetic in F_p / F_p[u]/(u^2-beta) for
//! the toy curves (fully independent of the repository) and (b) with the repository's field
//! operations for shipped curves (those operations are checked against num-bigint by C01/C02).
//! `Model` gives raw-coordinate access to the two curve models without going through the
//! conversion code under test.
use ark_ec::{
    short_weierstrass::{self as sw, SWCurveConfig},
    twisted_edwards::{self as te, TECurveConfig},
    AffineRepr, CurveConfig, CurveGroup,
};
use ark_ff::{Field, PrimeField};
use ark_std::{One, Zero};
use oracle::UInt;
use std::fmt::Debug;
use std::hash::Hash;
use std::marker::PhantomData;

// ------------------------------------------------------------------------------------------------
pub trait Arith: Clone + Send + Sync {
    type El: Clone + PartialEq + Eq + Debug + Hash + Send + Sync;
    fn zero(&self) -> Self::El;
    fn one(&self) -> Self::El;
    fn add(&self, a: &Self::El, b: &Self::El) -> Self::El;
    fn sub(&self, a: &Self::El, b: &Self::El) -> Self::El;
    fn mul(&self, a: &Self::El, b: &Self::El) -> Self::El;
    fn neg(&self, a: &Self::El) -> Self::El;
    fn inv(&self, a: &Self::El) -> Option<Self::El>;
    fn from_u64(&self, k: u64) -> Self::El;
    fn is_zero(&self, a: &Self::El) -> bool {
        *a == self.zero()
    }
    fn show(&self, a: &Self::El) -> String;
    /// the documented order of field elements, when the oracle can decide it by itself
    fn doc_cmp(&self, _a: &Self::El, _b: &Self::El) -> Option<std::cmp::Ordering> {
        None
    }
}

/// conversion between the repository's field elements and oracle elements
pub trait Conv<F: Field>: Arith {
    fn el(&self, f: &F) -> Self::El;
    fn fld(&self, e: &Self::El) -> F;
}

#[derive(Clone)]
pub struct Fld<F: Field>(pub PhantomData<F>);
impl<F: Field> Arith for Fld<F> {
    type El = F;
    fn zero(&self) -> F {
        F::zero()
    }
    fn one(&self) -> F {
        F::one()
    }
    fn add(&self, a: &F, b: &F) -> F {
        *a + b
    }
    fn sub(&self, a: &F, b: &F) -> F {
        *a - b
    }
    fn mul(&self, a: &F, b: &F) -> F {
        *a * b
    }
    fn neg(&self, a: &F) -> F {
        -*a
    }
    fn inv(&self, a: &F) -> Option<F> {
        a.inverse()
    }
    fn from_u64(&self, k: u64) -> F {
        F::from(k)
    }
    fn show(&self, a: &F) -> String {
        format!("{a}")
    }
}
impl<F: Field> Conv<F> for Fld<F> {
    fn el(&self, f: &F) -> F {
        *f
    }
    fn fld(&self, e: &F) -> F {
        *e
    }
}

/// F_p (deg 1), F_p[u]/(u^2 - beta) (deg 2) or F_p[v]/(v^3 - beta) (deg 3) with p < 2^31, elements as [c0, c1, c2]
#[derive(Clone, Debug)]
pub struct Toy {
    pub p: u64,
    pub deg: usize,
    pub beta: u64,
}
impl Toy {
    fn powm(&self, mut b: u64, mut e: u64) -> u64 {
        let mut r = 1u64;
        b %= self.p;
        while e > 0 {
            if e & 1 == 1 {
                r = r * b % self.p;
            }
            b = b * b % self.p;
            e >>= 1;
        }
        r
    }
    pub fn elems(&self) -> Vec<[u64; 3]> {
        let mut v = vec![];
        let p = self.p;
        match self.deg {
            1 => (0..p).for_each(|x| v.push([x, 0, 0])),
            2 => (0..p).for_each(|y| (0..p).for_each(|x| v.push([x, y, 0]))),
            _ => (0..p).for_each(|z| (0..p).for_each(|y| (0..p).for_each(|x| v.push([x, y, z])))),
        }
        v
    }
    fn pow_el(&self, a: &[u64; 3], mut e: u64) -> [u64; 3] {
        let mut r = [1, 0, 0];
        let mut b = *a;
        while e > 0 {
            if e & 1 == 1 {
                r = Arith::mul(self, &r, &b);
            }
            b = Arith::mul(self, &b, &b);
            e >>= 1;
        }
        r
    }
    pub fn q(&self) -> u64 {
        self.p.pow(self.deg as u32)
    }
}
impl Arith for Toy {
    type El = [u64; 3];
    fn zero(&self) -> [u64; 3] {
        [0, 0, 0]
    }
    fn one(&self) -> [u64; 3] {
        [1, 0, 0]
    }
    fn add(&self, a: &[u64; 3], b: &[u64; 3]) -> [u64; 3] {
        [(a[0] + b[0]) % self.p, (a[1] + b[1]) % self.p, (a[2] + b[2]) % self.p]
    }
    fn sub(&self, a: &[u64; 3], b: &[u64; 3]) -> [u64; 3] {
        [(a[0] + self.p - b[0]) % self.p, (a[1] + self.p - b[1]) % self.p, (a[2] + self.p - b[2]) % self.p]
    }
    fn mul(&self, a: &[u64; 3], b: &[u64; 3]) -> [u64; 3] {
        let p = self.p;
        match self.deg {
            1 => [a[0] * b[0] % p, 0, 0],
            2 => [(a[0] * b[0] + self.beta * (a[1] * b[1] % p)) % p, (a[0] * b[1] + a[1] * b[0]) % p, 0],
            _ => {
                // schoolbook product modulo v^3 = beta
                let mut c = [0u64; 5];
                for i in 0..3 {
                    for j in 0..3 {
                        c[i + j] = (c[i + j] + a[i] * b[j]) % p;
                    }
                }
                [(c[0] + self.beta * c[3]) % p, (c[1] + self.beta * c[4]) % p, c[2]]
            },
        }
    }
    fn neg(&self, a: &[u64; 3]) -> [u64; 3] {
        [(self.p - a[0]) % self.p, (self.p - a[1]) % self.p, (self.p - a[2]) % self.p]
    }
    fn inv(&self, a: &[u64; 3]) -> Option<[u64; 3]> {
        let p = self.p;
        if *a == [0, 0, 0] {
            return None;
        }
        match self.deg {
            1 => Some([self.powm(a[0], p - 2), 0, 0]),
            2 => {
                // 1/(a0 + a1 u) = (a0 - a1 u)/(a0^2 - beta a1^2)
                let n = (a[0] * a[0] % p + p - self.beta * (a[1] * a[1] % p) % p) % p;
                let ni = self.powm(n, p - 2);
                Some([a[0] * ni % p, (p - a[1]) % p * ni % p, 0])
            },
            // a^(q-2) by square and multiply (q = p^3 is tiny)
            _ => Some(self.pow_el(a, p * p * p - 2)),
        }
    }
    fn from_u64(&self, k: u64) -> [u64; 3] {
        [k % self.p, 0, 0]
    }
    fn doc_cmp(&self, a: &[u64; 3], b: &[u64; 3]) -> Option<std::cmp::Ordering> {
        // prime fields: integer order; extensions: highest coefficient first
        Some((a[2], a[1], a[0]).cmp(&(b[2], b[1], b[0])))
    }
    fn show(&self, a: &[u64; 3]) -> String {
        match self.deg {
            1 => format!("{}", a[0]),
            2 => format!("({},{})", a[0], a[1]),
            _ => format!("({},{},{})", a[0], a[1], a[2]),
        }
    }
}
impl<F: Field> Conv<F> for Toy {
    fn el(&self, f: &F) -> [u64; 3] {
        let mut out = [0u64; 3];
        for (i, c) in f.to_base_prime_field_elements().enumerate() {
            let u: UInt = c.into();
            out[i] = oracle::ToPrimitive::to_u64(&u).expect("toy coordinate");
        }
        out
    }
    fn fld(&self, e: &[u64; 3]) -> F {
        F::from_base_prime_field_elems(e.iter().take(self.deg).map(|c| F::BasePrimeField::from(*c))).expect("toy element")
    }
}

// ------------------------------------------------------------------------------------------------
/// Oracle point: `None` is the short-Weierstrass point at infinity; twisted-Edwards points are
/// always `Some` (identity (0,1)).
pub type OP<E> = Option<(E, E)>;

#[derive(Clone)]
pub struct Curve<R: Arith> {
    pub ar: R,
    pub te: bool,
    /// SW: a, b.  TE: a, d.
    pub c1: R::El,
    pub c2: R::El,
}

impl<R: Arith> Curve<R> {
    pub fn identity(&self) -> OP<R::El> {
        if self.te {
            Some((self.ar.zero(), self.ar.one()))
        } else {
            None
        }
    }
    pub fn is_identity(&self, p: &OP<R::El>) -> bool {
        *p == self.identity()
    }
    pub fn on_curve(&self, p: &OP<R::El>) -> bool {
        let ar = &self.ar;
        match p {
            None => !self.te,
            Some((x, y)) => {
                let x2 = ar.mul(x, x);
                let y2 = ar.mul(y, y);
                if self.te {
                    ar.add(&ar.mul(&self.c1, &x2), &y2) == ar.add(&ar.one(), &ar.mul(&self.c2, &ar.mul(&x2, &y2)))
                } else {
                    y2 == ar.add(&ar.add(&ar.mul(&x2, x), &ar.mul(&self.c1, x)), &self.c2)
                }
            },
        }
    }
    pub fn neg(&self, p: &OP<R::El>) -> OP<R::El> {
        p.as_ref().map(|(x, y)| if self.te { (self.ar.neg(x), y.clone()) } else { (x.clone(), self.ar.neg(y)) })
    }
    /// Textbook affine addition. `Err(())` when the twisted-Edwards formula is undefined for this
    /// pair (only possible on curves whose law is not complete).
    pub fn add(&self, p: &OP<R::El>, q: &OP<R::El>) -> Result<OP<R::El>, ()> {
        let ar = &self.ar;
        if self.te {
            let (x1, y1) = p.as_ref().unwrap();
            let (x2, y2) = q.as_ref().unwrap();
            let t = ar.mul(&self.c2, &ar.mul(&ar.mul(x1, x2), &ar.mul(y1, y2)));
            let dx = ar.add(&ar.one(), &t);
            let dy = ar.sub(&ar.one(), &t);
            let (Some(ix), Some(iy)) = (ar.inv(&dx), ar.inv(&dy)) else { return Err(()) };
            let x3 = ar.mul(&ar.add(&ar.mul(x1, y2), &ar.mul(y1, x2)), &ix);
            let y3 = ar.mul(&ar.sub(&ar.mul(y1, y2), &ar.mul(&self.c1, &ar.mul(x1, x2))), &iy);
            Ok(Some((x3, y3)))
        } else {
            let (Some((x1, y1)), Some((x2, y2))) = (p.as_ref(), q.as_ref()) else {
                return Ok(if p.is_none() { q.clone() } else { p.clone() });
            };
            let lam = if x1 == x2 {
                if ar.is_zero(&ar.add(y1, y2)) {
                    return Ok(None); // opposite points, including 2-torsion doubled
                }
                // tangent
                let num = ar.add(&ar.mul(&ar.from_u64(3), &ar.mul(x1, x1)), &self.c1);
                ar.mul(&num, &ar.inv(&ar.mul(&ar.from_u64(2), y1)).expect("2y != 0"))
            } else {
                ar.mul(&ar.sub(y2, y1), &ar.inv(&ar.sub(x2, x1)).expect("x2 != x1"))
            };
            let x3 = ar.sub(&ar.sub(&ar.mul(&lam, &lam), x1), x2);
            let y3 = ar.sub(&ar.mul(&lam, &ar.sub(x1, &x3)), y1);
            Ok(Some((x3, y3)))
        }
    }
    pub fn sub(&self, p: &OP<R::El>, q: &OP<R::El>) -> Result<OP<R::El>, ()> {
        self.add(p, &self.neg(q))
    }
    /// MSB-first double-and-add with the textbook law.
    pub fn mul(&self, k: &UInt, p: &OP<R::El>) -> Result<OP<R::El>, ()> {
        let mut r = self.identity();
        for i in (0..k.bits()).rev() {
            r = self.add(&r, &r)?;
            if k.bit(i) {
                r = self.add(&r, p)?;
            }
        }
        Ok(r)
    }
    pub fn mul_u64(&self, k: u64, p: &OP<R::El>) -> Result<OP<R::El>, ()> {
        self.mul(&UInt::from(k), p)
    }
    /// Jacobian (X, Y, Z) -> affine (X/Z^2, Y/Z^3)
    pub fn decode_sw(&self, x: &R::El, y: &R::El, z: &R::El) -> OP<R::El> {
        let ar = &self.ar;
        let zi = ar.inv(z)?;
        let zi2 = ar.mul(&zi, &zi);
        Some((ar.mul(x, &zi2), ar.mul(y, &ar.mul(&zi2, &zi))))
    }
    /// extended (X, Y, T, Z) -> affine (X/Z, Y/Z); `Err` if Z = 0 or T*Z != X*Y
    pub fn decode_te(&self, x: &R::El, y: &R::El, t: &R::El, z: &R::El) -> Result<OP<R::El>, &'static str> {
        let ar = &self.ar;
        let Some(zi) = ar.inv(z) else { return Err("Z = 0") };
        if ar.mul(t, z) != ar.mul(x, y) {
            return Err("T*Z != X*Y");
        }
        Ok(Some((ar.mul(x, &zi), ar.mul(y, &zi))))
    }
    pub fn show(&self, p: &OP<R::El>) -> String {
        match p {
            None => "infinity".into(),
            Some((x, y)) => format!("({}, {})", self.ar.show(x), self.ar.show(y)),
        }
    }
}

// ------------------------------------------------------------------------------------------------
/// Raw access to the two curve models.
pub trait Model: 'static + Send + Sync {
    type Cfg: CurveConfig<BaseField = Self::F, ScalarField = Self::S>;
    type A: AffineRepr<Group = Self::G, BaseField = Self::F, ScalarField = Self::S, Config = Self::Cfg>;
    type G: CurveGroup<Affine = Self::A, BaseField = Self::F, ScalarField = Self::S, Config = Self::Cfg>;
    type F: Field;
    type S: PrimeField;
    const TE: bool;
    fn coeffs() -> (Self::F, Self::F);
    /// SW: [X, Y, Z]; TE: [X, Y, T, Z]
    fn raw(g: &Self::G) -> Vec<Self::F>;
    fn from_raw(v: &[Self::F]) -> Self::G;
    /// the checked constructor `Projective::new` (asserts curve and subgroup membership, then normalises)
    fn from_raw_checked(v: &[Self::F]) -> Self::G;
    /// the checked constructor `Affine::new`
    fn aff_new_checked(x: Self::F, y: Self::F) -> Self::A;
    /// raw affine fields (SW: None when the infinity flag is set)
    fn aff_xy(a: &Self::A) -> Option<(Self::F, Self::F)>;
    fn aff_new(x: Self::F, y: Self::F) -> Self::A;
    fn aff_identity() -> Self::A;
    fn aff_on_curve(a: &Self::A) -> bool;
    fn aff_in_subgroup(a: &Self::A) -> bool;
    /// SW: both y for an x (smaller first); TE: both x for a y
    fn recover(c: Self::F) -> Option<(Self::F, Self::F)>;
    /// SW: point from x; TE: point from y
    fn recover_point(c: Self::F, greatest: bool) -> Option<Self::A>;
    /// the cross-type `==` operators
    fn eq_ga(g: &Self::G, a: &Self::A) -> bool;
    fn eq_ag(a: &Self::A, g: &Self::G) -> bool;
}

pub struct SWm<P>(PhantomData<P>);
impl<P: SWCurveConfig> Model for SWm<P> {
    type Cfg = P;
    type A = sw::Affine<P>;
    type G = sw::Projective<P>;
    type F = P::BaseField;
    type S = P::ScalarField;
    const TE: bool = false;
    fn coeffs() -> (Self::F, Self::F) {
        (P::COEFF_A, P::COEFF_B)
    }
    fn raw(g: &Self::G) -> Vec<Self::F> {
        vec![g.x, g.y, g.z]
    }
    fn from_raw(v: &[Self::F]) -> Self::G {
        sw::Projective::new_unchecked(v[0], v[1], v[2])
    }
    fn from_raw_checked(v: &[Self::F]) -> Self::G {
        sw::Projective::new(v[0], v[1], v[2])
    }
    fn aff_new_checked(x: Self::F, y: Self::F) -> Self::A {
        sw::Affine::new(x, y)
    }
    fn aff_xy(a: &Self::A) -> Option<(Self::F, Self::F)> {
        if a.infinity {
            None
        } else {
            Some((a.x, a.y))
        }
    }
    fn aff_new(x: Self::F, y: Self::F) -> Self::A {
        sw::Affine::new_unchecked(x, y)
    }
    fn aff_identity() -> Self::A {
        sw::Affine::identity()
    }
    fn aff_on_curve(a: &Self::A) -> bool {
        a.is_on_curve()
    }
    fn aff_in_subgroup(a: &Self::A) -> bool {
        a.is_in_correct_subgroup_assuming_on_curve()
    }
    fn recover(c: Self::F) -> Option<(Self::F, Self::F)> {
        sw::Affine::<P>::get_ys_from_x_unchecked(c)
    }
    fn recover_point(c: Self::F, greatest: bool) -> Option<Self::A> {
        sw::Affine::<P>::get_point_from_x_unchecked(c, greatest)
    }
    fn eq_ga(g: &Self::G, a: &Self::A) -> bool {
        g == a
    }
    fn eq_ag(a: &Self::A, g: &Self::G) -> bool {
        a == g
    }
}

pub struct TEm<P>(PhantomData<P>);
impl<P: TECurveConfig> Model for TEm<P> {
    type Cfg = P;
    type A = te::Affine<P>;
    type G = te::Projective<P>;
    type F = P::BaseField;
    type S = P::ScalarField;
    const TE: bool = true;
    fn coeffs() -> (Self::F, Self::F) {
        (P::COEFF_A, P::COEFF_D)
    }
    fn raw(g: &Self::G) -> Vec<Self::F> {
        vec![g.x, g.y, g.t, g.z]
    }
    fn from_raw(v: &[Self::F]) -> Self::G {
        te::Projective::new_unchecked(v[0], v[1], v[2], v[3])
    }
    fn from_raw_checked(v: &[Self::F]) -> Self::G {
        te::Projective::new(v[0], v[1], v[2], v[3])
    }
    fn aff_new_checked(x: Self::F, y: Self::F) -> Self::A {
        te::Affine::new(x, y)
    }
    fn aff_xy(a: &Self::A) -> Option<(Self::F, Self::F)> {
        Some((a.x, a.y))
    }
    fn aff_new(x: Self::F, y: Self::F) -> Self::A {
        te::Affine::new_unchecked(x, y)
    }
    fn aff_identity() -> Self::A {
        te::Affine::zero()
    }
    fn aff_on_curve(a: &Self::A) -> bool {
        a.is_on_curve()
    }
    fn aff_in_subgroup(a: &Self::A) -> bool {
        a.is_in_correct_subgroup_assuming_on_curve()
    }
    fn recover(c: Self::F) -> Option<(Self::F, Self::F)> {
        te::Affine::<P>::get_xs_from_y_unchecked(c)
    }
    fn recover_point(c: Self::F, greatest: bool) -> Option<Self::A> {
        te::Affine::<P>::get_point_from_y_unchecked(c, greatest)
    }
    fn eq_ga(g: &Self::G, a: &Self::A) -> bool {
        g == a
    }
    fn eq_ag(a: &Self::A, g: &Self::G) -> bool {
        a == g
    }
}

// ------------------------------------------------------------------------------------------------
/// Monitor context: a curve model `M` observed through oracle arithmetic `R`.
pub struct Ctx<M: Model, R: Conv<M::F>> {
    pub name: String,
    pub cur: Curve<R>,
    /// order of the prime-order subgroup and cofactor (from the configuration)
    pub r: UInt,
    pub h: UInt,
    /// all points of a toy curve (oracle-side enumeration), empty for shipped curves
    pub points: Vec<OP<R::El>>,
    /// toy curves: the prime-order subgroup
    pub subgroup: Vec<OP<R::El>>,
    pub complete: bool,
    _m: PhantomData<M>,
}


impl<M: Model, R: Conv<M::F>> Ctx<M, R> {
    pub fn new(name: &str, ar: R) -> Self {
        let (c1, c2) = M::coeffs();
        let cur = Curve { te: M::TE, c1: ar.el(&c1), c2: ar.el(&c2), ar };
        let r = oracle::from_limbs(<M::S as PrimeField>::MODULUS.as_ref());
        let h = oracle::from_limbs(<M::Cfg as CurveConfig>::COFACTOR);
        Ctx { name: name.to_string(), cur, r, h, points: vec![], subgroup: vec![], complete: true, _m: PhantomData }
    }
    pub fn decode(&self, g: &M::G) -> Result<OP<R::El>, &'static str> {
        let raw: Vec<R::El> = M::raw(g).iter().map(|f| self.cur.ar.el(f)).collect();
        if M::TE {
            self.cur.decode_te(&raw[0], &raw[1], &raw[2], &raw[3])
        } else {
            Ok(self.cur.decode_sw(&raw[0], &raw[1], &raw[2]))
        }
    }
    pub fn decode_aff(&self, a: &M::A) -> OP<R::El> {
        M::aff_xy(a).map(|(x, y)| (self.cur.ar.el(&x), self.cur.ar.el(&y)))
    }
    pub fn aff(&self, p: &OP<R::El>) -> M::A {
        match p {
            None => M::aff_identity(),
            Some((x, y)) => M::aff_new(self.cur.ar.fld(x), self.cur.ar.fld(y)),
        }
    }
    /// projective representative with Z = lambda (lambda != 0); lambda = 1 gives the canonical embedding
    pub fn proj(&self, p: &OP<R::El>, lambda: &M::F) -> M::G {
        let l = *lambda;
        match p {
            None => M::from_raw(&[M::F::one(), M::F::one(), M::F::zero()]),
            Some((x, y)) => {
                let (x, y) = (self.cur.ar.fld(x), self.cur.ar.fld(y));
                if M::TE {
                    M::from_raw(&[x * l, y * l, x * y * l, l])
                } else {
                    M::from_raw(&[x * l * l, y * l * l * l, l])
                }
            },
        }
    }
    /// the same representative as `proj`, but built with the checked constructors (`Projective::new`, or
    /// `Affine::new` + `into_group` when lambda = 1); None when the constructor refuses the point (documented
    /// for points outside the prime-order subgroup)
    pub fn proj_checked(&self, p: &OP<R::El>, lambda: &M::F) -> Option<M::G> {
        let l = *lambda;
        let (x, y) = p.as_ref()?;
        let (x, y) = (self.cur.ar.fld(x), self.cur.ar.fld(y));
        monitor::guard(|| {
            if l.is_one() {
                M::aff_new_checked(x, y).into_group()
            } else if M::TE {
                M::from_raw_checked(&[x * l, y * l, x * y * l, l])
            } else {
                M::from_raw_checked(&[x * l * l, y * l * l * l, l])
            }
        })
        .ok()
    }
    /// a non-canonical representative of the identity
    pub fn weird_identity(&self, u: &M::F, v: &M::F) -> M::G {
        if M::TE {
            // (0, v, 0, v)
            M::from_raw(&[M::F::zero(), *v, M::F::zero(), *v])
        } else {
            // (u, v, 0): what doubling a 2-torsion point produces
            M::from_raw(&[*u, *v, M::F::zero()])
        }
    }
    pub fn show(&self, p: &OP<R::El>) -> String {
        self.cur.show(p)
    }
}

/// Oracle-side description of a toy curve (from cfgs::toy_curves::{TOY_CURVES, TOY_CURVES3}).
#[derive(Clone, Debug)]
pub struct ToyDesc {
    pub name: &'static str,
    pub note: &'static str,
    pub p: u64,
    pub deg: usize,
    pub beta: u64,
    pub c1: [u64; 3],
    pub c2: [u64; 3],
    pub r: u64,
    pub h: u64,
    pub order: u64,
    pub gx: [u64; 3],
    pub gy: [u64; 3],
}

pub fn toy_desc(name: &str) -> &'static ToyDesc {
    static ALL: std::sync::OnceLock<Vec<ToyDesc>> = std::sync::OnceLock::new();
    let all = ALL.get_or_init(|| {
        let pad = |a: [u64; 2]| [a[0], a[1], 0];
        let mut v: Vec<ToyDesc> = cfgs::toy_curves::TOY_CURVES
            .iter()
            .map(|m| ToyDesc { name: m.name, note: m.note, p: m.p, deg: m.ext_degree, beta: m.beta, c1: pad(m.coeff1), c2: pad(m.coeff2), r: m.r, h: m.h, order: m.order, gx: pad(m.gen_x), gy: pad(m.gen_y) })
            .collect();
        v.extend(cfgs::toy_curves::TOY_CURVES3.iter().map(|m| ToyDesc { name: m.name, note: m.note, p: m.p, deg: 3, beta: m.beta, c1: m.coeff1, c2: m.coeff2, r: m.r, h: m.h, order: m.order, gx: m.gen_x, gy: m.gen_y }));
        v
    });
    all.iter().find(|m| m.name == name).unwrap_or_else(|| panic!("unknown toy curve {name}"))
}

/// Enumerate a toy curve from its metadata (plain integer arithmetic).
pub fn toy_ctx<M: Model>(meta: &ToyDesc) -> Ctx<M, Toy> {
    let ar = Toy { p: meta.p, deg: meta.deg, beta: meta.beta };
    let mut ctx = Ctx::<M, Toy>::new(meta.name, ar.clone());
    assert_eq!(ctx.cur.c1, meta.c1, "toy metadata and configuration disagree");
    assert_eq!(ctx.cur.c2, meta.c2, "toy metadata and configuration disagree");
    let mut pts: Vec<OP<[u64; 3]>> = vec![];
    if !M::TE {
        pts.push(None);
    }
    let els = ar.elems();
    if M::TE {
        for x in &els {
            for y in &els {
                let p = Some((*x, *y));
                if ctx.cur.on_curve(&p) {
                    pts.push(p);
                }
            }
        }
    } else {
        // y^2 = rhs: index squares
        let mut roots: std::collections::HashMap<[u64; 3], Vec<[u64; 3]>> = Default::default();
        for y in &els {
            roots.entry(ar.mul(y, y)).or_default().push(*y);
        }
        for x in &els {
            let rhs = ar.add(&ar.add(&ar.mul(&ar.mul(x, x), x), &ar.mul(&ctx.cur.c1, x)), &ctx.cur.c2);
            if let Some(ys) = roots.get(&rhs) {
                for y in ys {
                    pts.push(Some((*x, *y)));
                }
            }
        }
    }
    // completeness of the addition law on the rational points
    let mut complete = true;
    if M::TE {
        'o: for p in &pts {
            for q in &pts {
                if ctx.cur.add(p, q).is_err() {
                    complete = false;
                    break 'o;
                }
            }
        }
    }
    // subgroup generated by the configured generator
    let g = Some((meta.gx, meta.gy));
    assert!(ctx.cur.on_curve(&g));
    let mut sub = vec![ctx.cur.identity()];
    let mut c = g.clone();
    while !ctx.cur.is_identity(&c) {
        sub.push(c.clone());
        c = ctx.cur.add(&c, &g).expect("subgroup additions are defined");
        assert!(sub.len() as u64 <= meta.r);
    }
    assert_eq!(sub.len() as u64, meta.r, "generator order");
    if complete || !M::TE {
        assert_eq!(pts.len() as u64, meta.order, "point count");
    }
    ctx.points = pts;
    ctx.subgroup = sub;
    ctx.complete = complete;
    ctx
}
