//! C01 — prime-field operations equal integer arithmetic modulo p, for every modulus shape and for
//! derive-macro, hand-written (trait-default arithmetic) and shipped configurations.
use fadapt::*;
use ark_std::rand::RngCore;
use monitor::*;
use oracle::{from_limbs, pow2, to_limbs, One, SInt, UInt, Zero, Zp};

pub const RULE: &str = "cases = (field configuration, operation, operand tuple); operands are injected as raw Montgomery limbs \
L in [0,p) (value L*R^-1 mod p decoded by the oracle) drawn from structural values (0,1,2,p-1,p-2,(p±1)/2,R,R^2,2^k, raw limbs \
near p / near 2^(64N) / all-ones), correlated pairs (b=-a, b=a, b=1/a, La+Lb=p, La+Lb=p-1, La+Lb>=2^(64N)), limb-spliced and uniform; \
tiny fields (p<=251) enumerate all p^2 pairs; expected values from num-bigint; a case is non-trivial when some operand is non-zero; \
distinct = distinct digest of (config, op, operands)";

pub struct FC<'a> {
    pub name: &'a str,
    pub variant: &'static str,
    pub pf: &'a dyn PF,
    pub n: usize,
    pub p: UInt,
    pub zp: Zp,
    pub full: UInt,
    pub r: UInt,
    pub rinv: UInt,
    pub spare: bool,
    pub bits: u64,
    pub cd: u64,
}

impl<'a> FC<'a> {
    pub fn new(c: &'a Cfg) -> Self {
        let pf = c.pf.as_ref();
        let n = pf.n();
        let p = from_limbs(&pf.modulus());
        let full = pow2(64 * n);
        let r = &full % &p;
        let rinv = oracle::modinv(&r, &p).expect("R invertible");
        let variant = if c.hand {
            "hand"
        } else if c.name.contains("/d") {
            "derive"
        } else {
            "shipped"
        };
        FC {
            name: &c.name,
            variant,
            pf,
            n,
            zp: Zp::new(p.clone()),
            spare: pf.modulus()[n - 1] >> 63 == 0,
            bits: p.bits(),
            cd: digest(c.name.as_str()),
            p,
            full,
            r,
            rinv,
        }
    }
    pub fn dec(&self, l: &[u64]) -> UInt {
        (from_limbs(l) * &self.rinv) % &self.p
    }
    pub fn enc(&self, v: &UInt) -> L {
        to_limbs(&((v % &self.p) * &self.r % &self.p), self.n)
    }
    fn raw(&self, v: &UInt) -> L {
        to_limbs(&(v % &self.p), self.n)
    }
    pub fn sig(&self, op: &str, kind: &str) -> String {
        format!("field/{}/{}/{}", self.variant, op, kind)
    }
    /// check a returned element: canonical (raw limbs < p) and equal to the expected integer
    pub fn chk(&self, rep: &mut Report, op: &str, got: &[u64], exp: &UInt, ins: &[&[u64]]) -> bool {
        let g = from_limbs(got);
        if g >= self.p {
            rep.violation(self.sig(op, "non-canonical"), self.detail(op, got, exp, ins));
            return false;
        }
        if (g * &self.rinv) % &self.p != *exp {
            rep.violation(self.sig(op, "value"), self.detail(op, got, exp, ins));
            return false;
        }
        true
    }
    fn detail(&self, op: &str, got: &[u64], exp: &UInt, ins: &[&[u64]]) -> Value {
        json!({"config": self.name, "op": op, "modulus": self.p.to_string(),
               "inputs_raw_montgomery_limbs": ins.iter().map(|l| hex_limbs(l)).collect::<Vec<_>>(),
               "inputs_values": ins.iter().map(|l| self.dec(l).to_string()).collect::<Vec<_>>(),
               "got_raw": hex_limbs(got), "expected_value": exp.to_string()})
    }
    /// structural / edge-biased element as raw Montgomery limbs
    pub fn gen(&self, rng: &mut Rng) -> L {
        let p = &self.p;
        let one = UInt::one();
        match rng.next_u32() % 24 {
            // value-side structure
            0 => self.enc(&UInt::zero()),
            1 => self.enc(&one),
            2 => self.enc(&UInt::from(2u8)),
            3 => self.enc(&(p - &one)),
            4 => self.enc(&((p + p - UInt::from(2u8)) % p)),
            5 => self.enc(&((p - &one) >> 1usize)),
            6 => self.enc(&((p + &one) >> 1usize)),
            7 => self.enc(&self.r),
            8 => self.enc(&((&self.r * &self.r) % p)),
            9 => self.enc(&pow2(rng.next_u32() as usize % (64 * self.n))),
            // raw-side structure (Montgomery representation itself is extreme)
            10 => self.raw(&(p - &one)),
            11 => self.raw(&(p - &one - (UInt::from(rng.next_u32() % 5) % p))),
            12 => self.raw(&one),
            13 => self.raw(&UInt::from(rng.next_u32() % 4)),
            14 => self.raw(&((p - &one) >> 1usize)),
            15 => self.raw(&((p + &one) >> 1usize)),
            16 => {
                // largest all-ones pattern below p
                let k = (p.bits() - 1) as usize;
                self.raw(&(pow2(k) - &one))
            },
            17 => {
                // top fraction: p - small random
                let sh = (p.bits() as usize).saturating_sub(9).max(1);
                let x = UInt::from(rng.next_u64()) % pow2(sh);
                self.raw(&(p - &one - (x % p)))
            },
            18 | 19 => {
                let l = edge_limbs(rng, self.n);
                let v = from_limbs(&l);
                if &v < p {
                    l
                } else {
                    self.raw(&v)
                }
            },
            _ => {
                let l: Vec<u64> = (0..self.n).map(|_| rng.next_u64()).collect();
                self.raw(&from_limbs(&l))
            },
        }
    }
    /// second operand correlated with the first
    pub fn gen_pair(&self, rng: &mut Rng) -> (L, L) {
        let a = self.gen(rng);
        let la = from_limbs(&a);
        let p = &self.p;
        let b = match rng.next_u32() % 12 {
            0 => a.clone(),
            1 => self.raw(&((p - &la) % p)), // b = -a: raw sum exactly p
            2 => self.raw(&((p + p - UInt::one() - &la) % p)), // raw sum p-1
            3 => {
                // raw sum >= 2^(64N) when the modulus has no spare bit
                if !self.spare && !la.is_zero() {
                    let need = &self.full - &la;
                    if &need < p {
                        let slack = p - &need;
                        let extra = UInt::from(rng.next_u64()) % &slack;
                        self.raw(&(need + extra))
                    } else {
                        self.raw(&(p - UInt::one()))
                    }
                } else {
                    self.gen(rng)
                }
            },
            4 => match oracle::modinv(&self.dec(&a), p) {
                Some(i) => self.enc(&i),
                None => self.gen(rng),
            },
            _ => self.gen(rng),
        };
        (a, b)
    }
}

fn int_expected(p: &UInt, u: u128, i: i128, signed: bool) -> UInt {
    if signed {
        oracle::smod(&SInt::from(i), p)
    } else {
        UInt::from(u) % p
    }
}

fn bin_ops(fc: &FC, rep: &mut Report, rng: &mut Rng, a: &[u64], b: &[u64], all_forms: bool) {
    let (va, vb) = (fc.dec(a), fc.dec(b));
    let (la, lb) = (from_limbs(a), from_limbs(b));
    let nt = !la.is_zero() || !lb.is_zero();
    let dg = mix(fc.cd, digest(&(a, b)));
    let raw_sum = &la + &lb;
    rep.class_if(raw_sum >= fc.p, "add: raw sum >= p (reduction)");
    rep.class_if(raw_sum == fc.p, "add: raw sum == p exactly");
    rep.class_if(raw_sum >= fc.full, "add: raw sum >= 2^(64N) (carry out, no-spare-bit modulus)");
    rep.class_if(la < lb, "sub: a < b (borrow, add modulus)");
    rep.class_if(la == lb, "sub: a == b");
    let top = &fc.p - (&fc.p >> 8usize);
    rep.class_if(la >= top && lb >= top, "mul: both operands in the top 2^-8 fraction of [0,p)");
    let forms: Vec<u8> = if all_forms { (0..7).collect() } else { vec![(rng.next_u32() % 7) as u8, (rng.next_u32() % 7) as u8] };
    for &f in &forms {
        let d = || json!({"config": fc.name, "a": hex_limbs(a), "b": hex_limbs(b), "form": f});
        if let Some(r) = rep.total(&fc.sig("add", "total"), d, || fc.pf.bin(0, f, a, b)) {
            rep.eval(mix(dg, 10 + f as u64), nt);
            fc.chk(rep, "add", &r, &fc.zp.add(&va, &vb), &[a, b]);
        }
        if let Some(r) = rep.total(&fc.sig("sub", "total"), d, || fc.pf.bin(1, f, a, b)) {
            rep.eval(mix(dg, 20 + f as u64), nt);
            fc.chk(rep, "sub", &r, &fc.zp.sub(&va, &vb), &[a, b]);
        }
        if let Some(r) = rep.total(&fc.sig("mul", "total"), d, || fc.pf.bin(2, f, a, b)) {
            rep.eval(mix(dg, 30 + f as u64), nt);
            fc.chk(rep, "mul", &r, &fc.zp.mul(&va, &vb), &[a, b]);
        }
    }
    if let Some(r) = rep.total(&fc.sig("mul_by_base_prime_field", "total"), || json!({"config": fc.name}), || fc.pf.mul_by_base_prime_field(a, b)) {
        fc.chk(rep, "mul_by_base_prime_field", &r, &fc.zp.mul(&va, &vb), &[a, b]);
    }
}

fn un_ops(fc: &FC, rep: &mut Report, a: &[u64]) {
    let va = fc.dec(a);
    let la = from_limbs(a);
    let nt = !la.is_zero();
    let dg = mix(fc.cd, digest(&a));
    rep.class_if(la.is_zero(), "neg/double/square of zero");
    rep.class_if((&la << 1usize) >= fc.full, "double: raw 2a >= 2^(64N) (carry out)");
    rep.class_if((&la << 1usize) >= fc.p, "double: raw 2a >= p (reduction)");
    let exp = [
        fc.zp.neg(&va),
        fc.zp.add(&va, &va),
        fc.zp.mul(&va, &va),
        fc.zp.mul(&va, &va),
        fc.zp.add(&va, &va),
        fc.zp.mul(&va, &va),
        fc.zp.neg(&va),
    ];
    let names = ["neg", "double", "square", "mul-self", "double_in_place", "square_in_place", "neg_in_place"];
    for op in 0..7u8 {
        let d = || json!({"config": fc.name, "a": hex_limbs(a)});
        if let Some(r) = rep.total(&fc.sig(names[op as usize], "total"), d, || fc.pf.un(op, a)) {
            rep.eval(mix(dg, 40 + op as u64), nt);
            fc.chk(rep, names[op as usize], &r, &exp[op as usize], &[a]);
        }
    }
    // predicates
    if fc.pf.is_zero(a) != va.is_zero() || fc.pf.is_one(a) != va.is_one() {
        rep.violation(fc.sig("is_zero/is_one", "value"), json!({"config": fc.name, "a": hex_limbs(a)}));
    }
}

fn inv_div(fc: &FC, rep: &mut Report, a: &[u64], b: &[u64]) {
    let (va, vb) = (fc.dec(a), fc.dec(b));
    let dg = mix(fc.cd, digest(&("inv", a, b)));
    for in_place in [false, true] {
        let d = || json!({"config": fc.name, "a": hex_limbs(a)});
        if let Some(r) = rep.total(&fc.sig("inverse", "total"), d, || fc.pf.inverse(a, in_place)) {
            rep.eval(mix(dg, in_place as u64), !va.is_zero());
            match (r, fc.zp.inv(&va)) {
                (None, None) => rep.class("inverse of zero -> None"),
                (Some(g), Some(e)) => {
                    rep.class_if(va.is_one(), "inverse of 1");
                    rep.class_if(va == &fc.p - UInt::one(), "inverse of -1");
                    fc.chk(rep, "inverse", &g, &e, &[a]);
                },
                (g, _) => rep.violation(fc.sig("inverse", "some-none-mismatch"), json!({"config": fc.name, "a": hex_limbs(a), "got_some": g.is_some()})),
            }
        }
    }
    if let Some(ib) = fc.zp.inv(&vb) {
        let f = (dg % 7) as u8;
        if let Some(r) = rep.total(&fc.sig("div", "total"), || json!({"config": fc.name, "a": hex_limbs(a), "b": hex_limbs(b)}), || fc.pf.bin(3, f, a, b)) {
            rep.eval(mix(dg, 7), true);
            fc.chk(rep, "div", &r, &fc.zp.mul(&va, &ib), &[a, b]);
        }
    }
}

fn pow_ops(fc: &FC, rep: &mut Report, rng: &mut Rng, a: &[u64]) {
    let va = fc.dec(a);
    let pl = to_limbs(&fc.p, fc.n);
    let pm1 = to_limbs(&(&fc.p - UInt::one()), fc.n);
    let mut exps: Vec<Vec<u64>> = vec![vec![], vec![0], vec![1], vec![2], pm1.clone(), pl.clone()];
    let mut lz = pm1.clone();
    lz.extend_from_slice(&[0, 0]);
    exps.push(lz);
    exps.push(vec![rng.next_u64()]);
    exps.push(vec![rng.next_u64(), rng.next_u64(), 0]);
    let el = 1 + rng.next_u32() as usize % (fc.n + 1);
    exps.push(edge_limbs(rng, el));
    let pick = [rng.next_u32() as usize % exps.len(), rng.next_u32() as usize % exps.len(), 4 + rng.next_u32() as usize % 3];
    for i in pick {
        let e = &exps[i];
        let ev = from_limbs(e);
        rep.class_if(e.len() > fc.n, "pow: exponent slice longer than N limbs (leading zero limbs)");
        rep.class_if(e.is_empty() || ev.is_zero(), "pow: exponent 0");
        rep.class_if(ev >= fc.p, "pow: exponent >= p");
        if let Some(r) = rep.total(&fc.sig("pow", "total"), || json!({"config": fc.name, "a": hex_limbs(a), "e": hex_limbs(e)}), || fc.pf.pow(a, e)) {
            rep.eval(mix(fc.cd, digest(&("pow", a, e))), true);
            fc.chk(rep, "pow", &r, &fc.zp.pow(&va, &ev), &[a, e]);
        }
    }
    // pow_with_table: Some(a^e) when the table [a, a^2, a^4, ...] reaches the highest set bit of e, else None
    {
        let e = vec![rng.next_u64() >> (rng.next_u32() % 64), if rng.next_u32() % 2 == 0 { 0 } else { rng.next_u64() >> 40 }];
        let ev = from_limbs(&e);
        let need = ev.bits() as usize;
        for tl in [need, need + 2, need.saturating_sub(1)] {
            rep.class_if(tl < need, "pow_with_table: table too short (None)");
            if let Some(r) = rep.total(&fc.sig("pow_with_table", "total"), || json!({"config": fc.name, "a": hex_limbs(a), "e": hex_limbs(&e), "table_len": tl}), || fc.pf.pow_with_table(a, tl, &e)) {
                rep.eval(mix(fc.cd, digest(&("powt", a, &e, tl))), true);
                match r {
                    Some(g) if tl >= need => {
                        fc.chk(rep, "pow_with_table", &g, &fc.zp.pow(&va, &ev), &[a, &e]);
                    },
                    None if tl < need => {},
                    g => rep.violation(fc.sig("pow_with_table", "some-none-mismatch"), json!({"config": fc.name, "e": hex_limbs(&e), "table_len": tl, "got_some": g.is_some()})),
                }
            }
        }
    }
    // frobenius on a prime field is the identity
    let k = rng.next_u32() as usize % 5;
    if let Some(r) = rep.total(&fc.sig("frobenius_map", "total"), || json!({"config": fc.name}), || fc.pf.frobenius(a, k)) {
        fc.chk(rep, "frobenius_map", &r, &va, &[a]);
    }
}

fn sop_ops(fc: &FC, rep: &mut Report, rng: &mut Rng) {
    let ms = [1usize, 2, 3, 4, 6, 9, 17];
    let m = ms[rng.next_u32() as usize % ms.len()];
    let spare_bits = 64 * fc.n as u64 - fc.bits;
    let mode = rng.next_u32() % 6;
    // largest raw value below p whose lower limbs are all ones (maximises the low-limb partial products)
    let low_ones: L = {
        let mut l = to_limbs(&fc.p, fc.n);
        if fc.n > 1 && l[fc.n - 1] > 0 {
            l[fc.n - 1] -= 1;
            for x in l.iter_mut().take(fc.n - 1) {
                *x = u64::MAX;
            }
            l
        } else {
            fc.raw(&(&fc.p - UInt::one()))
        }
    };
    let (a, b): (Vec<L>, Vec<L>) = (0..m)
        .map(|_| match mode {
            0 => (fc.raw(&(&fc.p - UInt::one())), fc.raw(&(&fc.p - UInt::one()))), // all operands maximal (raw p-1)
            1 => (fc.enc(&(&fc.p - UInt::one())), fc.enc(&(&fc.p - UInt::one()))),
            2 => (low_ones.clone(), fc.raw(&(&fc.p - UInt::one()))),
            3 => (low_ones.clone(), low_ones.clone()),
            _ => fc.gen_pair(rng),
        })
        .unzip();
    rep.class_if(mode == 2 || mode == 3, "sum_of_products: operands with all-ones low limbs");
    if spare_bits >= 2 {
        let chunk = 2 * spare_bits as usize - 1;
        rep.class_if(m > chunk && m != 2, "sum_of_products: M > chunk_size (several chunks)");
        rep.class_if(m <= chunk && m != 2, "sum_of_products: single chunk");
    } else {
        rep.class("sum_of_products: fewer than 2 spare bits (naive path)");
    }
    rep.class_if(mode == 0, "sum_of_products: all operands raw p-1");
    let mut e = UInt::zero();
    for (x, y) in a.iter().zip(&b) {
        e = fc.zp.add(&e, &fc.zp.mul(&fc.dec(x), &fc.dec(y)));
    }
    let ins: Vec<&[u64]> = a.iter().chain(b.iter()).map(|v| v.as_slice()).collect();
    if let Some(Some(r)) = rep.total(&fc.sig("sum_of_products", "total"), || json!({"config": fc.name, "M": m, "a": a.iter().map(|l| hex_limbs(l)).collect::<Vec<_>>(), "b": b.iter().map(|l| hex_limbs(l)).collect::<Vec<_>>()}), || fc.pf.sop(&a, &b)) {
        rep.eval(mix(fc.cd, digest(&("sop", &a, &b))), true);
        fc.chk(rep, "sum_of_products", &r, &e, &ins);
    }
}

fn batch_ops(fc: &FC, rep: &mut Report, rng: &mut Rng) {
    batch_ops_with(fc, rep, rng, None)
}

fn batch_ops_with(fc: &FC, rep: &mut Report, rng: &mut Rng, forced: Option<(usize, u32)>) {
    let len = forced.map(|f| f.0).unwrap_or([0usize, 1, 2, 3, 5, 16, 17, 33, 100][rng.next_u32() as usize % 9]);
    let mode = forced.map(|f| f.1).unwrap_or(rng.next_u32() % 7);
    let v: Vec<L> = (0..len)
        .map(|i| match mode {
            0 => fc.enc(&UInt::zero()),
            1 if i % 3 == 0 => fc.enc(&UInt::zero()),
            2 if i + 1 == len || i == 0 => fc.enc(&UInt::zero()),
            // entries that are their own inverse (1, -1), alone and next to zeros: a skip of "trivial" entries shows here
            5 if i % 2 == 0 => fc.enc(&UInt::one()),
            6 => match (i + rng.next_u32() as usize) % 4 {
                0 => fc.enc(&UInt::one()),
                1 => fc.enc(&(&fc.p - UInt::one())),
                2 => fc.enc(&UInt::zero()),
                _ => fc.gen(rng),
            },
            _ => fc.gen(rng),
        })
        .collect();
    let coeff = match if forced.is_some() { 4 } else { rng.next_u32() % 4 } {
        4 => fc.enc(&(&fc.p - UInt::one())),
        0 => fc.enc(&UInt::one()),
        1 => fc.enc(&UInt::zero()),
        _ => fc.gen(rng),
    };
    let zeros = v.iter().filter(|x| from_limbs(x).is_zero()).count();
    rep.class_if(zeros > 0 && zeros < len, "batch inversion: some zero entries");
    rep.class_if(zeros == len && len > 0, "batch inversion: all entries zero");
    rep.class_if(len == 0, "batch inversion: empty");
    let ones = v.iter().filter(|x| fc.dec(x).is_one()).count();
    let c_one = fc.dec(&coeff).is_one();
    rep.class_if(ones > 0 && !c_one && !from_limbs(&coeff).is_zero(), "batch inversion: entries equal to one, coefficient not in {0,1}");
    rep.class_if(len == 1, "batch inversion: length 1");
    let vc = fc.dec(&coeff);
    for kind in 0..3u8 {
        let c = if kind == 0 { fc.enc(&UInt::one()) } else { coeff.clone() };
        let cv = if kind == 0 { UInt::one() } else { vc.clone() };
        let name = ["batch_inversion", "batch_inversion_and_mul", "serial_batch_inversion_and_mul"][kind as usize];
        let Some(r) = rep.total(&fc.sig(name, "total"), || json!({"config": fc.name, "len": len, "v": v.iter().map(|l| hex_limbs(l)).collect::<Vec<_>>(), "coeff": hex_limbs(&c)}), || fc.pf.batch_inv(kind, &v, &c)) else { continue };
        rep.eval(mix(fc.cd, digest(&(name, &v, &c))), len > 0);
        if r.len() != v.len() {
            rep.violation(fc.sig(name, "length"), json!({"config": fc.name}));
            continue;
        }
        for (x, g) in v.iter().zip(&r) {
            let vx = fc.dec(x);
            // zero entries are left untouched (documented: "ignoring zero elements")
            let e = match fc.zp.inv(&vx) {
                Some(i) => fc.zp.mul(&i, &cv),
                None => UInt::zero(),
            };
            if !fc.chk(rep, name, g, &e, &[x, &c]) {
                break;
            }
        }
    }
    // Sum / Product
    let mut s = UInt::zero();
    let mut pr = UInt::one();
    for x in &v {
        s = fc.zp.add(&s, &fc.dec(x));
        pr = fc.zp.mul(&pr, &fc.dec(x));
    }
    let ins: Vec<&[u64]> = v.iter().map(|x| x.as_slice()).collect();
    for by_ref in [false, true] {
        if let Some(r) = rep.total(&fc.sig("Sum", "total"), || json!({"config": fc.name}), || fc.pf.sum(&v, by_ref)) {
            rep.eval(mix(fc.cd, digest(&("sum", &v, by_ref))), len > 0);
            fc.chk(rep, "Sum", &r, &s, &ins);
        }
        if let Some(r) = rep.total(&fc.sig("Product", "total"), || json!({"config": fc.name}), || fc.pf.product(&v, by_ref)) {
            rep.eval(mix(fc.cd, digest(&("product", &v, by_ref))), len > 0);
            fc.chk(rep, "Product", &r, &pr, &ins);
        }
    }
}

fn conv_ops(fc: &FC, rep: &mut Report, rng: &mut Rng, a: &[u64]) {
    let va = fc.dec(a);
    let dg = mix(fc.cd, digest(&("conv", a)));
    // into_bigint / from_bigint / BigUint
    if let Some(r) = rep.total(&fc.sig("into_bigint", "total"), || json!({"config": fc.name, "a": hex_limbs(a)}), || fc.pf.into_bigint(a)) {
        rep.eval(mix(dg, 1), !va.is_zero());
        if from_limbs(&r) != va {
            rep.violation(fc.sig("into_bigint", "value"), json!({"config": fc.name, "a": hex_limbs(a), "got": hex_limbs(&r), "expected": va.to_string()}));
        }
    }
    if let Some((bad, dbg)) = rep.total(&fc.sig("Field views / Debug", "total"), || json!({"config": fc.name, "a": hex_limbs(a)}), || fc.pf.misc(a)) {
        rep.eval(mix(dg, 77), !va.is_zero());
        for b in bad {
            rep.violation(fc.sig("Field views", "value"), json!({"config": fc.name, "a": hex_limbs(a), "identity": b}));
        }
        if dbg != va.to_string() {
            rep.violation(fc.sig("Debug", "value"), json!({"config": fc.name, "a": hex_limbs(a), "got": dbg, "expected": va.to_string()}));
        }
    }
    {
        // from_bigint on canonical, on p, p+small, and arbitrary limbs
        let cand: Vec<UInt> = vec![va.clone(), fc.p.clone(), &fc.p + UInt::from(rng.next_u32() % 3), (from_limbs(&edge_limbs(rng, fc.n))), &fc.full - UInt::one()];
        for x in cand {
            if x >= fc.full {
                continue;
            }
            let xl = to_limbs(&x, fc.n);
            rep.class_if(x >= fc.p, "from_bigint: integer >= p (must be rejected)");
            if let Some(r) = rep.total(&fc.sig("from_bigint", "total"), || json!({"config": fc.name, "x": hex_limbs(&xl)}), || fc.pf.from_bigint(&xl)) {
                rep.eval(mix(dg, digest(&("fb", &xl))), !x.is_zero());
                match r {
                    Some(g) if x < fc.p => {
                        fc.chk(rep, "from_bigint", &g, &x, &[&xl]);
                    },
                    None if x >= fc.p => {},
                    g => rep.violation(fc.sig("from_bigint", "accept-reject"), json!({"config": fc.name, "x": hex_limbs(&xl), "got_some": g.is_some()})),
                }
            }
        }
    }
    if let Some(r) = rep.total(&fc.sig("Into<BigUint>", "total"), || json!({"config": fc.name}), || fc.pf.to_biguint(a)) {
        if r != va {
            rep.violation(fc.sig("Into<BigUint>", "value"), json!({"config": fc.name, "a": hex_limbs(a)}));
        }
    }
    {
        // From<BigUint> reduces modulo p (values far above p included)
        let x = match rng.next_u32() % 4 {
            0 => va.clone(),
            1 => &va + &fc.p * UInt::from(rng.next_u64()),
            2 => from_limbs(&edge_limbs(rng, 2 * fc.n + 1)),
            _ => &fc.p * UInt::from(1 + rng.next_u32() % 3),
        };
        rep.class_if(x >= fc.p, "From<BigUint>: value >= p");
        if let Some(r) = rep.total(&fc.sig("From<BigUint>", "total"), || json!({"config": fc.name, "x": x.to_string()}), || fc.pf.from_biguint(&x)) {
            rep.eval(mix(dg, digest(&("fbu", x.to_string()))), true);
            fc.chk(rep, "From<BigUint>", &r, &(&x % &fc.p), &[]);
        }
    }
    // bytes mod order, both endiannesses, lengths 0 ..= 3*ceil(bits/8)
    {
        let mb = ((fc.bits + 7) / 8) as usize;
        let len = match rng.next_u32() % 6 {
            0 => 0,
            1 => mb,
            2 => mb - 1,
            3 => mb + 1,
            _ => rng.next_u32() as usize % (3 * mb + 1),
        };
        let bytes: Vec<u8> = match rng.next_u32() % 4 {
            0 => vec![0xff; len],
            1 => {
                let mut v = fc.p.to_bytes_le();
                v.resize(len, 0);
                v
            },
            _ => (0..len).map(|_| rng.next_u32() as u8).collect(),
        };
        rep.class_if(len > mb, "bytes_mod_order: input longer than the modulus");
        rep.class_if(len == 0, "bytes_mod_order: empty input");
        let le_val = UInt::from_bytes_le(&bytes) % &fc.p;
        let be_val = UInt::from_bytes_be(&bytes) % &fc.p;
        if let Some(r) = rep.total(&fc.sig("from_le_bytes_mod_order", "total"), || json!({"config": fc.name, "bytes": hex_bytes(&bytes)}), || fc.pf.from_bytes_mod_order(true, &bytes)) {
            rep.eval(mix(dg, digest(&("le", &bytes))), len > 0);
            if !fc.chk(rep, "from_le_bytes_mod_order", &r, &le_val, &[]) {
                rep.note(format!("bytes {}", hex_bytes(&bytes)));
            }
        }
        if let Some(r) = rep.total(&fc.sig("from_be_bytes_mod_order", "total"), || json!({"config": fc.name, "bytes": hex_bytes(&bytes)}), || fc.pf.from_bytes_mod_order(false, &bytes)) {
            rep.eval(mix(dg, digest(&("be", &bytes))), len > 0);
            fc.chk(rep, "from_be_bytes_mod_order", &r, &be_val, &[]);
        }
        // from_random_bytes: little-endian integer with the bits above the modulus size masked away
        if len <= mb {
            let mut v = UInt::from_bytes_le(&bytes);
            v &= pow2(fc.bits as usize) - UInt::one();
            if let Some(r) = rep.total(&fc.sig("from_random_bytes", "total"), || json!({"config": fc.name, "bytes": hex_bytes(&bytes)}), || fc.pf.from_random_bytes(&bytes)) {
                rep.eval(mix(dg, digest(&("frb", &bytes))), len > 0);
                rep.class_if(v >= fc.p, "from_random_bytes: masked value >= p (None)");
                match r {
                    Some(g) if v < fc.p => {
                        fc.chk(rep, "from_random_bytes", &g, &v, &[]);
                    },
                    None if v >= fc.p => {},
                    g => rep.violation(fc.sig("from_random_bytes", "accept-reject"), json!({"config": fc.name, "bytes": hex_bytes(&bytes), "got_some": g.is_some()})),
                }
            }
        }
    }
    // decimal strings
    {
        let k = SInt::from(rng.next_u32() % 7) - SInt::from(3);
        let x: SInt = SInt::from(va.clone()) + k * SInt::from(fc.p.clone());
        let s = x.to_string();
        rep.class_if(s.starts_with('-'), "FromStr: negative decimal");
        rep.class_if(x >= SInt::from(fc.p.clone()), "FromStr: decimal >= p");
        if let Some(r) = rep.total(&fc.sig("FromStr", "total"), || json!({"config": fc.name, "s": s}), || fc.pf.from_str(&s)) {
            rep.eval(mix(dg, digest(&("str", &s))), true);
            match r {
                Some(g) => {
                    fc.chk(rep, "FromStr", &g, &va, &[]);
                },
                None => rep.violation(fc.sig("FromStr", "rejects-decimal"), json!({"config": fc.name, "s": s})),
            }
        }
        if let Some(r) = rep.total(&fc.sig("Display", "total"), || json!({"config": fc.name}), || fc.pf.to_string(a)) {
            if r != va.to_string() {
                rep.violation(fc.sig("Display", "value"), json!({"config": fc.name, "a": hex_limbs(a), "got": r, "expected": va.to_string()}));
            }
        }
    }
    // machine integers
    {
        let u: u128 = match rng.next_u32() % 6 {
            0 => 0,
            1 => u128::MAX,
            2 => (rng.next_u64() as u128) << 64 | rng.next_u64() as u128,
            3 => rng.next_u64() as u128,
            4 => 1u128 << (rng.next_u32() % 128),
            _ => (rng.next_u32() % 1000) as u128,
        };
        let i: i128 = match rng.next_u32() % 7 {
            0 => i128::MIN,
            1 => i128::MAX,
            2 => -1,
            3 => 0,
            4 => -((rng.next_u64() as i128) << 40),
            5 => i64::MIN as i128,
            _ => u as i128,
        };
        for kind in [1i16, 8, 16, 32, 64, 128, -8, -16, -32, -64, -128] {
            let (uu, ii) = match kind {
                1 => ((u & 1), 0),
                8 => (u as u8 as u128, 0),
                16 => (u as u16 as u128, 0),
                32 => (u as u32 as u128, 0),
                64 => (u as u64 as u128, 0),
                128 => (u, 0),
                -8 => (0, i as i8 as i128),
                -16 => (0, i as i16 as i128),
                -32 => (0, i as i32 as i128),
                -64 => (0, i as i64 as i128),
                _ => (0, i),
            };
            let e = int_expected(&fc.p, uu, ii, kind < 0);
            rep.class_if(kind > 1 && UInt::from(uu) >= fc.p, "From<uN>: value >= p");
            rep.class_if(kind < 0 && ii < 0, "From<iN>: negative");
            rep.class_if(kind < 0 && (ii == i128::MIN || ii == i64::MIN as i128 || ii == i8::MIN as i128), "From<iN>: MIN");
            if let Some(r) = rep.total(&fc.sig("From<int>", "total"), || json!({"config": fc.name, "kind": kind, "u": uu.to_string(), "i": ii.to_string()}), || fc.pf.from_int(kind, uu, ii)) {
                rep.eval(mix(dg, digest(&("int", kind, uu, ii))), true);
                if !fc.chk(rep, "From<int>", &r, &e, &[]) {
                    rep.note(format!("From<int> kind {kind} u {uu} i {ii} config {}", fc.name));
                }
            }
        }
    }
}

pub fn run_field(fc: &FC, rep: &mut Report, rng: &mut Rng, args: &Args) {
    rep.config(fc.name);
    let small = fc.p < UInt::from(256u32);
    if small {
        // exhaustive over all pairs
        let p = oracle::ToPrimitive::to_u64(&fc.p).unwrap();
        for x in 0..p {
            let a = fc.enc(&UInt::from(x));
            un_ops(fc, rep, &a);
            for y in 0..p {
                let b = fc.enc(&UInt::from(y));
                bin_ops(fc, rep, rng, &a, &b, y == x || p < 20);
                inv_div(fc, rep, &a, &b);
            }
        }
        rep.exhaustive(&format!("{}: all {}^2 operand pairs for add/sub/mul/div, all elements for unary ops and inverse", fc.name, p));
    }
    // deterministic prologue: the structural elements and the degenerate batch shapes, so that every
    // configuration is certain to see them whatever the seed
    let one = UInt::one();
    let specials: Vec<L> = vec![
        fc.enc(&UInt::zero()),
        fc.enc(&one),
        fc.enc(&(&fc.p - &one)),
        fc.enc(&UInt::from(2u8)),
        fc.raw(&(&fc.p - &one)),
        fc.raw(&one),
        fc.raw(&((&fc.p - &one) >> 1usize)),
        fc.raw(&((&fc.p + &one) >> 1usize)),
    ];
    for a in &specials {
        un_ops(fc, rep, a);
        conv_ops(fc, rep, rng, a);
        pow_ops(fc, rep, rng, a);
        for b in &specials {
            bin_ops(fc, rep, rng, a, b, true);
            inv_div(fc, rep, a, b);
        }
    }
    for (len, mode) in [(1, 5), (4, 5), (17, 5), (8, 6), (33, 6)] {
        batch_ops_with(fc, rep, rng, Some((len, mode)));
    }
    for _ in 0..40 {
        batch_ops(fc, rep, rng);
        sop_ops(fc, rep, rng);
    }
    let iters = args.pick(if small { 600 } else { 6000 }, if small { 20_000 } else { 240_000 }) * 6 / (5 + fc.n);
    for it in 0..iters {
        let (a, b) = fc.gen_pair(rng);
        if it == 0 {
            rep.sample(&format!("c01/{}", fc.name), || json!({"config": fc.name, "modulus": fc.p.to_string(), "a_raw": hex_limbs(&a), "b_raw": hex_limbs(&b), "a_value": fc.dec(&a).to_string(), "ops": "add sub mul div neg double square inverse pow sum_of_products batch_inversion conversions"}));
        }
        bin_ops(fc, rep, rng, &a, &b, false);
        un_ops(fc, rep, &a);
        if it % 4 == 0 {
            inv_div(fc, rep, &a, &b);
            pow_ops(fc, rep, rng, &a);
        }
        if it % 3 == 0 {
            sop_ops(fc, rep, rng);
        }
        if it % 8 == 0 {
            batch_ops(fc, rep, rng);
        }
        if it % 2 == 0 {
            conv_ops(fc, rep, rng, &b);
        }
    }
}

pub const REQUIRED_ANY: &[&str] = &[
    "add: raw sum >= p (reduction)",
    "add: raw sum == p exactly",
    "sub: a < b (borrow, add modulus)",
    "sub: a == b",
    "neg/double/square of zero",
    "double: raw 2a >= p (reduction)",
    "inverse of zero -> None",
    "inverse of 1",
    "inverse of -1",
    "pow: exponent slice longer than N limbs (leading zero limbs)",
    "pow: exponent >= p",
    "sum_of_products: all operands raw p-1",
    "batch inversion: some zero entries",
    "batch inversion: all entries zero",
    "batch inversion: empty",
    "batch inversion: entries equal to one, coefficient not in {0,1}",
    "from_bigint: integer >= p (must be rejected)",
    "From<BigUint>: value >= p",
    "bytes_mod_order: input longer than the modulus",
    "FromStr: negative decimal",
    "FromStr: decimal >= p",
    "From<iN>: negative",
    "From<iN>: MIN",
];

pub fn items(_args: &Args) -> Vec<Item> {
    let mut v = vec![];
    let mut all = crate::registry::all_prime_fields();
    all.sort_by_key(|c| std::cmp::Reverse(c.pf.n()));
    for c in all {
        let nospare = c.pf.modulus()[c.pf.n() - 1] >> 63 == 1;
        let bits = c.pf.modulus_bits() as usize;
        let n = c.pf.n();
        v.push(Item::new(format!("c01/{}", c.name), move |rep, rng, args| {
            let fc = FC::new(&c);
            for r in REQUIRED_ANY {
                rep.require_here(r);
            }
            if nospare {
                rep.require_here("add: raw sum >= 2^(64N) (carry out, no-spare-bit modulus)");
                rep.require_here("double: raw 2a >= 2^(64N) (carry out)");
            }
            if bits > 16 {
                rep.require_here("mul: both operands in the top 2^-8 fraction of [0,p)");
            }
            let k = 64 * n - bits;
            if k >= 2 && 2 * k - 1 < 17 {
                rep.require_here("sum_of_products: M > chunk_size (several chunks)");
            }
            run_field(&fc, rep, rng, args);
        }));
    }
    v
}
