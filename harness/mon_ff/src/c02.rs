//! C02 — extension towers implement F_p[X]/(X^k − β): every operation compared with the schoolbook
//! tower model (`oracle::tower`), Frobenius with x^(p^k) (linear map built from oracle `pow`),
//! cyclotomic fast paths with the generic operations on subgroup elements.
use ark_ff::{
    CubicExtConfig, CubicExtField, CyclotomicMultSubgroup, Field, Fp, Fp12, Fp12Config, Fp2, Fp2Config, Fp3,
    Fp3Config, Fp4, Fp4Config, Fp6Config, FpConfig, QuadExtConfig, QuadExtField,
};
use ark_ff::fields::fp6_2over3::{Fp6 as Fp6_2o3, Fp6Config as Fp6_2o3Config};
use ark_ff::fields::fp6_3over2::Fp6 as Fp6_3o2;
use ark_std::rand::RngCore;
use ark_std::{One, Zero};
use monitor::*;
use oracle::tower::{El, Tower};
use oracle::UInt;

pub const RULE: &str = "cases = (tower configuration, operation, element tuple); elements are built from flat base-prime-field \
coordinates drawn from classes {zero, one, base-prime-field element, element of a proper subfield, exactly one non-zero \
coordinate (every position), all coordinates p-1, uniform}; toy towers (Fp2 over F_7, F_17, Fp3 over F_7, F_13) enumerate all pairs; \
expected values from the schoolbook tower model over num-bigint; non-trivial = some operand non-zero; distinct = digest of \
(config, op, operands)";

pub trait TowerSpec: Field {
    fn tower() -> Tower;
}
impl<P: FpConfig<N>, const N: usize> TowerSpec for Fp<P, N> {
    fn tower() -> Tower {
        Tower::new(oracle::from_limbs(&P::MODULUS.0))
    }
}
impl<P: QuadExtConfig> TowerSpec for QuadExtField<P>
where
    P::BaseField: TowerSpec,
{
    fn tower() -> Tower {
        P::BaseField::tower().extend(2, &flat(&P::NONRESIDUE))
    }
}
impl<P: CubicExtConfig> TowerSpec for CubicExtField<P>
where
    P::BaseField: TowerSpec,
{
    fn tower() -> Tower {
        P::BaseField::tower().extend(3, &flat(&P::NONRESIDUE))
    }
}

pub fn flat<F: Field>(x: &F) -> Vec<UInt> {
    x.to_base_prime_field_elements().map(|e| e.into()).collect()
}
pub fn unflat<F: Field>(v: &[UInt]) -> F {
    F::from_base_prime_field_elems(v.iter().map(|u| F::BasePrimeField::from(u.clone()))).expect("flat length")
}
fn hexf(v: &[UInt]) -> Vec<String> {
    v.iter().map(|u| format!("0x{:x}", u)).collect()
}

pub struct TC<F: TowerSpec> {
    pub name: String,
    pub t: Tower,
    pub d: usize,
    pub dim: usize,
    pub p: UInt,
    _f: std::marker::PhantomData<F>,
}

impl<F: TowerSpec> TC<F> {
    pub fn new(name: &str) -> Self {
        let mut t = F::tower();
        t.build_frobenius();
        let d = t.depth();
        TC { name: name.to_string(), dim: t.dim(d), d, p: t.p.clone(), t, _f: Default::default() }
    }
    pub fn el(&self, x: &F) -> El {
        self.t.from_flat(&flat(x), self.d)
    }
    fn sig(&self, op: &str, kind: &str) -> String {
        format!("tower/{}/{}/{}", self.name, op, kind)
    }
    /// compare an implementation result with the oracle element
    pub fn chk(&self, rep: &mut Report, op: &str, got: &F, exp: &El, ins: &[&F]) -> bool {
        let g = flat(got);
        let ok = g.iter().all(|c| c < &self.p) && self.t.from_flat(&g, self.d) == *exp;
        if !ok {
            rep.violation(
                self.sig(op, "value"),
                json!({"config": self.name, "op": op, "inputs": ins.iter().map(|x| hexf(&flat(*x))).collect::<Vec<_>>(),
                       "got": hexf(&g), "expected": hexf(&self.t.to_flat(exp))}),
            );
        }
        ok
    }
    /// element classes
    pub fn gen(&self, rng: &mut Rng, rep: &mut Report) -> F {
        let k = rng.next_u32();
        self.gen_class(k, rng, rep)
    }
    pub fn gen_class(&self, k: u32, rng: &mut Rng, rep: &mut Report) -> F {
        let n = self.dim;
        let pm1 = &self.p - UInt::one();
        let rnd = |rng: &mut Rng| -> UInt {
            let limbs = (self.p.bits() as usize + 63) / 64;
            oracle::from_limbs(&(0..limbs + 1).map(|_| rng.next_u64()).collect::<Vec<_>>()) % &self.p
        };
        let mut v = vec![UInt::zero(); n];
        match k % 12 {
            0 => rep.class("element: zero"),
            1 => {
                v[0] = UInt::one();
                rep.class("element: one");
            },
            2 => {
                v[0] = rnd(rng);
                rep.class("element: base-prime-field element");
            },
            3 => {
                // proper subfield: only the coordinates of the constant coefficient of the top level
                let top_deg = self.t.levels.last().map(|l| l.deg).unwrap_or(1);
                let sub = n / top_deg;
                for c in v.iter_mut().take(sub) {
                    *c = rnd(rng);
                }
                rep.class("element: in the subfield below the top level");
            },
            4 | 5 => {
                let i = rng.next_u32() as usize % n;
                v[i] = match rng.next_u32() % 3 {
                    0 => UInt::one(),
                    1 => pm1.clone(),
                    _ => rnd(rng),
                };
                rep.class("element: exactly one non-zero coordinate");
            },
            6 => {
                for c in v.iter_mut() {
                    *c = pm1.clone();
                }
                rep.class("element: all coordinates p-1");
            },
            7 => {
                // sparse: each coordinate zero with probability 1/2
                for c in v.iter_mut() {
                    if rng.next_u32() % 2 == 0 {
                        *c = rnd(rng);
                    }
                }
                rep.class("element: some zero coordinates");
            },
            _ => {
                for c in v.iter_mut() {
                    *c = rnd(rng);
                }
                rep.class("element: uniform");
            },
        }
        unflat::<F>(&v)
    }
}

const ELEMENT_CLASSES: &[&str] = &[
    "element: zero",
    "element: one",
    "element: base-prime-field element",
    "element: in the subfield below the top level",
    "element: exactly one non-zero coordinate",
    "element: all coordinates p-1",
    "element: uniform",
];

/// Operations every `Field` offers, for one operand pair.
pub fn generic_pair<F: TowerSpec>(tc: &TC<F>, rep: &mut Report, rng: &mut Rng, a: &F, b: &F, light: bool) {
    let t = &tc.t;
    let (ea, eb) = (tc.el(a), tc.el(b));
    let nt = !a.is_zero() || !b.is_zero();
    let dg = digest(&(tc.name.as_str(), a, b));
    let one = t.one(tc.d);
    macro_rules! run {
        ($op:literal, $k:expr, $ins:expr, $call:expr, $exp:expr) => {
            if let Some(r) = rep.total(&tc.sig($op, "total"), || json!({"config": tc.name, "a": hexf(&flat(a)), "b": hexf(&flat(b))}), || $call) {
                if light { rep.eval_enumerated(nt) } else { rep.eval(mix(dg, $k), nt) };
                tc.chk(rep, $op, &r, &$exp, $ins);
            }
        };
    }
    run!("add", 1, &[a, b], *a + *b, t.add(&ea, &eb));
    run!("add_assign", 2, &[a, b], { let mut x = *a; x += b; x }, t.add(&ea, &eb));
    run!("sub", 3, &[a, b], *a - b, t.sub(&ea, &eb));
    run!("sub_assign", 4, &[a, b], { let mut x = *a; x -= *b; x }, t.sub(&ea, &eb));
    run!("neg", 5, &[a], -*a, t.neg(&ea));
    run!("double", 6, &[a], a.double(), t.add(&ea, &ea));
    run!("double_in_place", 7, &[a], { let mut x = *a; x.double_in_place(); x }, t.add(&ea, &ea));
    let prod = t.mul(&ea, &eb);
    run!("mul", 8, &[a, b], *a * b, prod);
    run!("mul_assign", 9, &[a, b], { let mut x = *a; x *= *b; x }, prod);
    let sq = t.mul(&ea, &ea);
    run!("square", 10, &[a], a.square(), sq);
    run!("square_in_place", 11, &[a], { let mut x = *a; x.square_in_place(); x }, sq);
    run!("mul-self", 12, &[a], *a * *a, sq);
    // predicates
    if a.is_zero() != t.is_zero(&ea) || a.is_one() != (ea == one) {
        rep.violation(tc.sig("is_zero/is_one", "value"), json!({"config": tc.name, "a": hexf(&flat(a))}));
    }
    // inverse: verified by the defining relation a * inv == 1 in the model
    for in_place in [false, true] {
        let r = rep.total(&tc.sig("inverse", "total"), || json!({"config": tc.name, "a": hexf(&flat(a))}), || {
            if in_place {
                let mut x = *a;
                let ok = x.inverse_in_place().is_some();
                ok.then_some(x)
            } else {
                a.inverse()
            }
        });
        if let Some(r) = r {
            if light { rep.eval_enumerated(!a.is_zero()) } else { rep.eval(mix(dg, 13 + in_place as u64), !a.is_zero()) };
            match r {
                None => {
                    rep.class("inverse of zero -> None");
                    if !t.is_zero(&ea) {
                        rep.violation(tc.sig("inverse", "none-for-nonzero"), json!({"config": tc.name, "a": hexf(&flat(a))}));
                    }
                },
                Some(i) => {
                    let ei = tc.el(&i);
                    if t.is_zero(&ea) || t.mul(&ea, &ei) != one || flat(&i).iter().any(|c| c >= &tc.p) {
                        rep.violation(tc.sig("inverse", "value"), json!({"config": tc.name, "a": hexf(&flat(a)), "got": hexf(&flat(&i))}));
                    }
                },
            }
        }
    }
    if !b.is_zero() {
        if let Some(q) = rep.total(&tc.sig("div", "total"), || json!({"config": tc.name}), || *a / b) {
            if light { rep.eval_enumerated(nt) } else { rep.eval(mix(dg, 15), nt) };
            if t.mul(&tc.el(&q), &eb) != ea {
                rep.violation(tc.sig("div", "value"), json!({"config": tc.name, "a": hexf(&flat(a)), "b": hexf(&flat(b)), "got": hexf(&flat(&q))}));
            }
        }
    }
    // multiplication by base-prime-field elements
    {
        let s = flat(b)[0].clone();
        let se = F::BasePrimeField::from(s.clone());
        run!("mul_by_base_prime_field", 16, &[a], a.mul_by_base_prime_field(&se), t.scale(&ea, &s));
        let emb = t.embed(&El::P(s.clone()), 0, tc.d);
        run!("from_base_prime_field", 17, &[], F::from_base_prime_field(se), emb);
    }
    if light {
        return;
    }
    // Frobenius: every power index from 0 to 2*dim+1 (table indices wrap)
    {
        let k = rng.next_u32() as usize % (2 * tc.dim + 2);
        rep.class_if(k >= tc.dim, "frobenius: power >= extension degree (table index wraps)");
        rep.class_if(k == 0, "frobenius: power 0");
        let exp = t.frobenius(&ea, k);
        run!("frobenius_map", 100 + k as u64, &[a], a.frobenius_map(k), exp);
        run!("frobenius_map_in_place", 200 + k as u64, &[a], { let mut x = *a; x.frobenius_map_in_place(k); x }, exp);
    }
    // pow with short exponents and the characteristic itself (x^p must equal frobenius 1)
    {
        let e: Vec<u64> = match rng.next_u32() % 6 {
            0 => vec![],
            1 => vec![0],
            2 => vec![1, 0, 0],
            3 => vec![rng.next_u32() as u64 % 64],
            4 => vec![rng.next_u64(), 0],
            _ => vec![rng.next_u64() >> 40],
        };
        let ev = oracle::from_limbs(&e);
        run!("pow", 300, &[a], a.pow(&e), t.pow(&ea, &ev));
    }
    // sum_of_products at extension level
    {
        let c = tc.gen(rng, rep);
        let ec = tc.el(&c);
        let e2 = t.add(&t.mul(&ea, &eb), &t.mul(&eb, &ec));
        run!("sum_of_products<2>", 400, &[a, b, &c], F::sum_of_products::<2>(&[*a, *b], &[*b, c]), e2);
        let e3 = t.add(&e2, &t.mul(&ec, &ea));
        run!("sum_of_products<3>", 401, &[a, b, &c], F::sum_of_products::<3>(&[*a, *b, c], &[*b, c, *a]), e3);
        run!("Sum", 402, &[a, b, &c], [*a, *b, c].iter().sum::<F>(), t.add(&t.add(&ea, &eb), &ec));
        run!("Product", 403, &[a, b, &c], [*a, *b, c].iter().product::<F>(), t.mul(&t.mul(&ea, &eb), &ec));
    }
    // the remaining operator spellings (owned / by reference / &mut, plain and compound); `b` non-zero for division
    {
        let mut bm = *b;
        run!("add (a + &b)", 500, &[a, b], *a + b, t.add(&ea, &eb));
        run!("add (a + &mut b)", 501, &[a, b], *a + &mut bm, t.add(&ea, &eb));
        run!("add_assign (+= b)", 502, &[a, b], { let mut x = *a; x += *b; x }, t.add(&ea, &eb));
        run!("add_assign (+= &mut b)", 503, &[a, b], { let mut x = *a; x += &mut bm; x }, t.add(&ea, &eb));
        run!("sub (a - b)", 504, &[a, b], *a - *b, t.sub(&ea, &eb));
        run!("sub (a - &mut b)", 505, &[a, b], *a - &mut bm, t.sub(&ea, &eb));
        run!("sub_assign (-= &b)", 506, &[a, b], { let mut x = *a; x -= b; x }, t.sub(&ea, &eb));
        run!("sub_assign (-= &mut b)", 507, &[a, b], { let mut x = *a; x -= &mut bm; x }, t.sub(&ea, &eb));
        run!("mul (a * b)", 508, &[a, b], *a * *b, prod);
        run!("mul (a * &mut b)", 509, &[a, b], *a * &mut bm, prod);
        run!("mul_assign (*= &b)", 510, &[a, b], { let mut x = *a; x *= b; x }, prod);
        run!("mul_assign (*= &mut b)", 511, &[a, b], { let mut x = *a; x *= &mut bm; x }, prod);
        if !b.is_zero() {
            for (k, q) in [
                rep.total(&tc.sig("div (a / b)", "total"), || json!({"config": tc.name}), || *a / *b),
                rep.total(&tc.sig("div (a / &mut b)", "total"), || json!({"config": tc.name}), || *a / &mut bm),
                rep.total(&tc.sig("div_assign (/= b)", "total"), || json!({"config": tc.name}), || { let mut x = *a; x /= *b; x }),
                rep.total(&tc.sig("div_assign (/= &b)", "total"), || json!({"config": tc.name}), || { let mut x = *a; x /= b; x }),
                rep.total(&tc.sig("div_assign (/= &mut b)", "total"), || json!({"config": tc.name}), || { let mut x = *a; x /= &mut bm; x }),
            ]
            .into_iter()
            .enumerate()
            {
                let Some(q) = q else { continue };
                rep.eval(mix(dg, 520 + k as u64), nt);
                if t.mul(&tc.el(&q), &eb) != ea {
                    rep.violation(tc.sig(["div (a / b)", "div (a / &mut b)", "div_assign (/= b)", "div_assign (/= &b)", "div_assign (/= &mut b)"][k], "value"),
                                  json!({"config": tc.name, "a": hexf(&flat(a)), "b": hexf(&flat(b)), "got": hexf(&flat(&q))}));
                }
            }
        }
        run!("neg_in_place", 530, &[a], { let mut x = *a; x.neg_in_place(); x }, t.neg(&ea));
    }
    // embeddings of machine integers (From<uN> / From<iN>): the integer mod p in the base prime field, zero elsewhere
    {
        let u: u128 = match rng.next_u32() % 5 {
            0 => 0,
            1 => 1,
            2 => u128::MAX,
            3 => rng.next_u64() as u128,
            _ => ((rng.next_u64() as u128) << 64) | rng.next_u64() as u128,
        };
        let i = u as i128;
        let emb_u = |v: u128| t.embed(&El::P(UInt::from(v) % &tc.p), 0, tc.d);
        let emb_i = |v: i128| t.embed(&El::P(oracle::smod(&oracle::SInt::from(v), &tc.p)), 0, tc.d);
        rep.class_if(i < 0, "From<iN>: negative integer into an extension field");
        run!("From<u128>", 600, &[], F::from(u), emb_u(u));
        run!("From<u64>", 601, &[], F::from(u as u64), emb_u(u as u64 as u128));
        run!("From<u32>", 602, &[], F::from(u as u32), emb_u(u as u32 as u128));
        run!("From<u16>", 603, &[], F::from(u as u16), emb_u(u as u16 as u128));
        run!("From<u8>", 604, &[], F::from(u as u8), emb_u(u as u8 as u128));
        run!("From<i128>", 605, &[], F::from(i), emb_i(i));
        run!("From<i64>", 606, &[], F::from(i as i64), emb_i(i as i64 as i128));
        run!("From<i32>", 607, &[], F::from(i as i32), emb_i(i as i32 as i128));
        run!("From<i16>", 608, &[], F::from(i as i16), emb_i(i as i16 as i128));
        run!("From<i8>", 609, &[], F::from(i as i8), emb_i(i as i8 as i128));
        for m in [i128::MIN, i64::MIN as i128, -1] {
            run!("From<i128>", 610, &[], F::from(m), emb_i(m));
        }
        run!("From<i64>", 611, &[], F::from(i64::MIN), emb_i(i64::MIN as i128));
        run!("From<i8>", 612, &[], F::from(i8::MIN), emb_i(i8::MIN as i128));
    }
    // flat round trip and wrong lengths
    {
        let f = flat(a);
        let back: F = unflat(&f);
        if back != *a {
            rep.violation(tc.sig("to/from_base_prime_field_elems", "round-trip"), json!({"config": tc.name, "a": hexf(&f)}));
        }
        let short = F::from_base_prime_field_elems(f.iter().take(tc.dim - 1).map(|u| F::BasePrimeField::from(u.clone())));
        let long = F::from_base_prime_field_elems(f.iter().chain(f.iter().take(1)).map(|u| F::BasePrimeField::from(u.clone())));
        if (short.is_some() && tc.dim > 1) || long.is_some() {
            rep.violation(tc.sig("from_base_prime_field_elems", "accepts-wrong-length"), json!({"config": tc.name}));
        }
    }
}

// ---- template-specific operations -------------------------------------------------------------

fn sub_el<F: TowerSpec>(t: &Tower, x: &F, depth: usize) -> El {
    t.from_flat(&flat(x), depth)
}

pub fn quad_extras<P: QuadExtConfig>(tc: &TC<QuadExtField<P>>, rep: &mut Report, rng: &mut Rng, a: &QuadExtField<P>)
where
    P::BaseField: TowerSpec,
{
    let t = &tc.t;
    let d = tc.d;
    let ea = tc.el(a);
    let El::X(co) = &ea else { unreachable!() };
    let beta = &t.levels[d - 1].nonresidue;
    // norm = c0^2 - beta c1^2
    let exp = t.sub(&t.mul(&co[0], &co[0]), &t.mul(beta, &t.mul(&co[1], &co[1])));
    if let Some(n) = rep.total(&tc.sig("norm", "total"), || json!({"config": tc.name}), || a.norm()) {
        rep.eval(digest(&(tc.name.as_str(), "norm", a)), !a.is_zero());
        if sub_el(t, &n, d - 1) != exp {
            rep.violation(tc.sig("norm", "value"), json!({"config": tc.name, "a": hexf(&flat(a)), "got": hexf(&flat(&n))}));
        }
    }
    // multiplication by an element of the base field of this level
    let sub_dim = t.dim(d - 1);
    let limbs = (tc.p.bits() as usize + 63) / 64;
    let e: Vec<UInt> = (0..sub_dim).map(|_| oracle::from_limbs(&(0..limbs + 1).map(|_| rng.next_u64()).collect::<Vec<_>>()) % &tc.p).collect();
    let eb: P::BaseField = unflat(&e);
    let emb = t.embed(&t.from_flat(&e, d - 1), d - 1, d);
    if let Some(r) = rep.total(&tc.sig("mul_assign_by_basefield", "total"), || json!({"config": tc.name}), || { let mut x = *a; x.mul_assign_by_basefield(&eb); x }) {
        rep.eval(digest(&(tc.name.as_str(), "mabb", a, &eb)), true);
        tc.chk(rep, "mul_assign_by_basefield", &r, &t.mul(&ea, &emb), &[a]);
    }
    // conjugate = (c0, -c1)
    let mut c = *a;
    c.conjugate_in_place();
    tc.chk(rep, "conjugate_in_place", &c, &El::X(vec![co[0].clone(), t.neg(&co[1])]), &[a]);
    // the specialisable non-residue helpers of the configuration, called directly on base-field operands
    // (x = c0 of a, y = the random base-field element above): each is defined by a formula in beta
    {
        let (x, y) = (a.c0, eb);
        let (ex, ey) = (co[0].clone(), t.from_flat(&e, d - 1));
        let by = t.mul(beta, &ey);
        let chk_sub = |rep: &mut Report, op: &str, got: &P::BaseField, exp: &El| {
            rep.eval(digest(&(tc.name.as_str(), op, &x, &y)), true);
            if sub_el(t, got, d - 1) != *exp {
                rep.violation(tc.sig(op, "value"), json!({"config": tc.name, "x": hexf(&flat(&x)), "y": hexf(&flat(&y)), "got": hexf(&flat(got))}));
            }
        };
        if let Some(r) = rep.total(&tc.sig("Config::mul_base_field_by_nonresidue_in_place", "total"), || json!({"config": tc.name}), || { let mut v = y; P::mul_base_field_by_nonresidue_in_place(&mut v); v }) {
            chk_sub(rep, "Config::mul_base_field_by_nonresidue_in_place", &r, &by);
        }
        if let Some(r) = rep.total(&tc.sig("Config::mul_base_field_by_nonresidue_and_add", "total"), || json!({"config": tc.name}), || { let mut v = y; P::mul_base_field_by_nonresidue_and_add(&mut v, &x); v }) {
            chk_sub(rep, "Config::mul_base_field_by_nonresidue_and_add", &r, &t.add(&ex, &by));
        }
        if let Some(r) = rep.total(&tc.sig("Config::mul_base_field_by_nonresidue_plus_one_and_add", "total"), || json!({"config": tc.name}), || { let mut v = y; P::mul_base_field_by_nonresidue_plus_one_and_add(&mut v, &x); v }) {
            chk_sub(rep, "Config::mul_base_field_by_nonresidue_plus_one_and_add", &r, &t.add(&t.add(&ex, &by), &ey));
        }
        if let Some(r) = rep.total(&tc.sig("Config::sub_and_mul_base_field_by_nonresidue", "total"), || json!({"config": tc.name}), || { let mut v = y; P::sub_and_mul_base_field_by_nonresidue(&mut v, &x); v }) {
            chk_sub(rep, "Config::sub_and_mul_base_field_by_nonresidue", &r, &t.sub(&ex, &by));
        }
    }
}

pub fn cubic_extras<P: CubicExtConfig>(tc: &TC<CubicExtField<P>>, rep: &mut Report, rng: &mut Rng, a: &CubicExtField<P>)
where
    P::BaseField: TowerSpec,
{
    let t = &tc.t;
    let d = tc.d;
    let ea = tc.el(a);
    let El::X(c) = &ea else { unreachable!() };
    let beta = &t.levels[d - 1].nonresidue;
    // N(a) = c0^3 + beta c1^3 + beta^2 c2^3 - 3 beta c0 c1 c2
    let cube = |x: &El| t.mul(&t.mul(x, x), x);
    let three = {
        let o = t.one(d - 1);
        t.add(&t.add(&o, &o), &o)
    };
    let exp = t.sub(
        &t.add(&t.add(&cube(&c[0]), &t.mul(beta, &cube(&c[1]))), &t.mul(&t.mul(beta, beta), &cube(&c[2]))),
        &t.mul(&three, &t.mul(beta, &t.mul(&c[0], &t.mul(&c[1], &c[2])))),
    );
    if let Some(n) = rep.total(&tc.sig("norm", "total"), || json!({"config": tc.name}), || a.norm()) {
        rep.eval(digest(&(tc.name.as_str(), "norm", a)), !a.is_zero());
        if sub_el(t, &n, d - 1) != exp {
            rep.violation(tc.sig("norm", "value"), json!({"config": tc.name, "a": hexf(&flat(a)), "got": hexf(&flat(&n))}));
        }
    }
    let sub_dim = t.dim(d - 1);
    let limbs = (tc.p.bits() as usize + 63) / 64;
    let e: Vec<UInt> = (0..sub_dim).map(|_| oracle::from_limbs(&(0..limbs + 1).map(|_| rng.next_u64()).collect::<Vec<_>>()) % &tc.p).collect();
    let eb: P::BaseField = unflat(&e);
    let emb = t.embed(&t.from_flat(&e, d - 1), d - 1, d);
    if let Some(r) = rep.total(&tc.sig("mul_assign_by_base_field", "total"), || json!({"config": tc.name}), || { let mut x = *a; x.mul_assign_by_base_field(&eb); x }) {
        rep.eval(digest(&(tc.name.as_str(), "mabb", a, &eb)), true);
        tc.chk(rep, "mul_assign_by_base_field", &r, &t.mul(&ea, &emb), &[a]);
    }
    // the specialisable non-residue helpers of the configuration
    {
        let by = t.mul(beta, &t.from_flat(&e, d - 1));
        for (op, r) in [
            ("Config::mul_base_field_by_nonresidue_in_place", rep.total(&tc.sig("Config::mul_base_field_by_nonresidue_in_place", "total"), || json!({"config": tc.name}), || { let mut v = eb; P::mul_base_field_by_nonresidue_in_place(&mut v); v })),
            ("Config::mul_base_field_by_nonresidue", rep.total(&tc.sig("Config::mul_base_field_by_nonresidue", "total"), || json!({"config": tc.name}), || P::mul_base_field_by_nonresidue(eb))),
        ] {
            let Some(r) = r else { continue };
            rep.eval(digest(&(tc.name.as_str(), op, &eb)), true);
            if sub_el(t, &r, d - 1) != by {
                rep.violation(tc.sig(op, "value"), json!({"config": tc.name, "y": hexf(&flat(&eb)), "got": hexf(&flat(&r))}));
            }
        }
    }
}

/// embed a list of (flat position, element of a subfield of dimension `w`) into a full element
fn sparse_el<F: TowerSpec>(tc: &TC<F>, w: usize, parts: &[(usize, Vec<UInt>)]) -> El {
    let mut f = vec![UInt::zero(); tc.dim];
    for (pos, v) in parts {
        assert_eq!(v.len(), w);
        for (i, x) in v.iter().enumerate() {
            f[pos * w + i] = x.clone();
        }
    }
    tc.t.from_flat(&f, tc.d)
}

fn rnd_flat(p: &UInt, w: usize, rng: &mut Rng) -> Vec<UInt> {
    let limbs = (p.bits() as usize + 63) / 64;
    let zero = rng.next_u32() % 8 == 0;
    (0..w).map(|_| if zero { UInt::zero() } else { oracle::from_limbs(&(0..limbs + 1).map(|_| rng.next_u64()).collect::<Vec<_>>()) % p }).collect()
}

macro_rules! sparse_case {
    ($tc:expr, $rep:expr, $a:expr, $op:literal, $w:expr, $parts:expr, $call:expr) => {{
        let tc = $tc;
        let parts: Vec<(usize, Vec<UInt>)> = $parts;
        let m = sparse_el(tc, $w, &parts);
        let exp = tc.t.mul(&tc.el($a), &m);
        if let Some(r) = $rep.total(&tc.sig($op, "total"), || json!({"config": tc.name}), || { let mut x = *$a; $call(&mut x); x }) {
            $rep.eval(digest(&(tc.name.as_str(), $op, $a, format!("{:?}", parts))), true);
            $rep.class(concat!("sparse multiplication: ", $op));
            tc.chk($rep, $op, &r, &exp, &[$a]);
        }
    }};
}

pub fn fp2_extras<P: Fp2Config>(tc: &TC<Fp2<P>>, rep: &mut Report, rng: &mut Rng, a: &Fp2<P>)
where
    P::Fp: TowerSpec,
{
    let e = rnd_flat(&tc.p, 1, rng);
    let x: P::Fp = unflat(&e);
    sparse_case!(tc, rep, a, "Fp2::mul_assign_by_fp", 1, vec![(0, e.clone())], |y: &mut Fp2<P>| y.mul_assign_by_fp(&x));
}

pub fn fp3_extras<P: Fp3Config>(tc: &TC<Fp3<P>>, rep: &mut Report, rng: &mut Rng, a: &Fp3<P>)
where
    P::Fp: TowerSpec,
{
    let e = rnd_flat(&tc.p, 1, rng);
    let x: P::Fp = unflat(&e);
    sparse_case!(tc, rep, a, "Fp3::mul_assign_by_fp", 1, vec![(0, e.clone())], |y: &mut Fp3<P>| y.mul_assign_by_fp(&x));
}

pub fn fp4_extras<P: Fp4Config>(tc: &TC<Fp4<P>>, rep: &mut Report, rng: &mut Rng, a: &Fp4<P>)
where
    <P::Fp2Config as Fp2Config>::Fp: TowerSpec,
{
    let e = rnd_flat(&tc.p, 1, rng);
    let x: <P::Fp2Config as Fp2Config>::Fp = unflat(&e);
    sparse_case!(tc, rep, a, "Fp4::mul_by_fp", 1, vec![(0, e.clone())], |y: &mut Fp4<P>| y.mul_by_fp(&x));
    let e2 = rnd_flat(&tc.p, 2, rng);
    let x2: Fp2<P::Fp2Config> = unflat(&e2);
    sparse_case!(tc, rep, a, "Fp4::mul_by_fp2", 2, vec![(0, e2.clone())], |y: &mut Fp4<P>| y.mul_by_fp2(&x2));
}

pub fn fp6_2o3_extras<P: Fp6_2o3Config>(tc: &TC<Fp6_2o3<P>>, rep: &mut Report, rng: &mut Rng, a: &Fp6_2o3<P>)
where
    <P::Fp3Config as Fp3Config>::Fp: TowerSpec,
{
    type Fq<P> = <<P as Fp6_2o3Config>::Fp3Config as Fp3Config>::Fp;
    let (e0, e1, e2) = (rnd_flat(&tc.p, 1, rng), rnd_flat(&tc.p, 1, rng), rnd_flat(&tc.p, 1, rng));
    let (x0, x1, x2): (Fq<P>, Fq<P>, Fq<P>) = (unflat(&e0), unflat(&e1), unflat(&e2));
    sparse_case!(tc, rep, a, "Fp6_2over3::mul_by_034", 1, vec![(0, e0.clone()), (3, e1.clone()), (4, e2.clone())], |y: &mut Fp6_2o3<P>| y.mul_by_034(&x0, &x1, &x2));
    sparse_case!(tc, rep, a, "Fp6_2over3::mul_by_014", 1, vec![(0, e0.clone()), (1, e1.clone()), (4, e2.clone())], |y: &mut Fp6_2o3<P>| y.mul_by_014(&x0, &x1, &x2));
}

pub fn fp6_3o2_extras<P: Fp6Config>(tc: &TC<Fp6_3o2<P>>, rep: &mut Report, rng: &mut Rng, a: &Fp6_3o2<P>)
where
    <P::Fp2Config as Fp2Config>::Fp: TowerSpec,
{
    let e = rnd_flat(&tc.p, 1, rng);
    let x: <P::Fp2Config as Fp2Config>::Fp = unflat(&e);
    sparse_case!(tc, rep, a, "Fp6_3over2::mul_by_fp", 1, vec![(0, e.clone())], |y: &mut Fp6_3o2<P>| y.mul_by_fp(&x));
    let (f0, f1) = (rnd_flat(&tc.p, 2, rng), rnd_flat(&tc.p, 2, rng));
    let (y0, y1): (Fp2<P::Fp2Config>, Fp2<P::Fp2Config>) = (unflat(&f0), unflat(&f1));
    sparse_case!(tc, rep, a, "Fp6_3over2::mul_by_fp2", 2, vec![(0, f0.clone())], |y: &mut Fp6_3o2<P>| y.mul_by_fp2(&y0));
    sparse_case!(tc, rep, a, "Fp6_3over2::mul_assign_by_fp2", 2, vec![(0, f0.clone())], |y: &mut Fp6_3o2<P>| y.mul_assign_by_fp2(y0));
    sparse_case!(tc, rep, a, "Fp6_3over2::mul_by_1", 2, vec![(1, f1.clone())], |y: &mut Fp6_3o2<P>| y.mul_by_1(&y1));
    sparse_case!(tc, rep, a, "Fp6_3over2::mul_by_01", 2, vec![(0, f0.clone()), (1, f1.clone())], |y: &mut Fp6_3o2<P>| y.mul_by_01(&y0, &y1));
}

pub fn fp12_extras<P: Fp12Config>(tc: &TC<Fp12<P>>, rep: &mut Report, rng: &mut Rng, a: &Fp12<P>)
where
    <<P::Fp6Config as Fp6Config>::Fp2Config as Fp2Config>::Fp: TowerSpec,
{
    type F2<P> = Fp2<<<P as Fp12Config>::Fp6Config as Fp6Config>::Fp2Config>;
    let e = rnd_flat(&tc.p, 1, rng);
    let x: <Fp12<P> as Field>::BasePrimeField = unflat(&e);
    sparse_case!(tc, rep, a, "Fp12::mul_by_fp", 1, vec![(0, e.clone())], |y: &mut Fp12<P>| y.mul_by_fp(&x));
    let (f0, f1, f2) = (rnd_flat(&tc.p, 2, rng), rnd_flat(&tc.p, 2, rng), rnd_flat(&tc.p, 2, rng));
    let (y0, y1, y2): (F2<P>, F2<P>, F2<P>) = (unflat(&f0), unflat(&f1), unflat(&f2));
    sparse_case!(tc, rep, a, "Fp12::mul_by_034", 2, vec![(0, f0.clone()), (3, f1.clone()), (4, f2.clone())], |y: &mut Fp12<P>| y.mul_by_034(&y0, &y1, &y2));
    sparse_case!(tc, rep, a, "Fp12::mul_by_014", 2, vec![(0, f0.clone()), (1, f1.clone()), (4, f2.clone())], |y: &mut Fp12<P>| y.mul_by_014(&y0, &y1, &y2));
}

/// Cyclotomic fast paths against the generic operations on elements of the subgroup of order
/// Φ_k(q). `easy(f)` maps a non-zero element into that subgroup using only the oracle Frobenius and
/// an inverse witness verified by the oracle.
pub fn cyclo<F: TowerSpec + CyclotomicMultSubgroup>(tc: &TC<F>, rep: &mut Report, rng: &mut Rng, a: &F, frob_steps: &[(usize, bool)], extra_exp: &[Vec<u64>]) {
    if a.is_zero() {
        return;
    }
    let t = &tc.t;
    let one = t.one(tc.d);
    // g = prod over steps: (frob^k(g) * g^{±1})
    let mut g = tc.el(a);
    for (k, invert) in frob_steps {
        let gf: F = unflat(&t.to_flat(&g));
        let fr = t.frobenius(&g, *k);
        if *invert {
            let Some(inv) = gf.inverse() else { return };
            let ei = tc.el(&inv);
            if t.mul(&g, &ei) != one {
                return; // reported by generic_pair
            }
            g = t.mul(&fr, &ei);
        } else {
            g = t.mul(&fr, &g);
        }
    }
    let gf: F = unflat(&t.to_flat(&g));
    rep.class("cyclotomic: subgroup element");
    rep.class_if(g == one, "cyclotomic: subgroup element is one");
    let dg = digest(&(tc.name.as_str(), "cyclo", &gf));
    let d = || json!({"config": tc.name, "g": hexf(&flat(&gf))});
    if let Some(r) = rep.total(&tc.sig("cyclotomic_square", "total"), d, || (gf.cyclotomic_square(), { let mut x = gf; x.cyclotomic_square_in_place(); x })) {
        rep.eval(mix(dg, 1), true);
        let e = t.mul(&g, &g);
        tc.chk(rep, "cyclotomic_square", &r.0, &e, &[&gf]);
        tc.chk(rep, "cyclotomic_square_in_place", &r.1, &e, &[&gf]);
    }
    if let Some(r) = rep.total(&tc.sig("cyclotomic_inverse", "total"), d, || gf.cyclotomic_inverse()) {
        rep.eval(mix(dg, 2), true);
        match r {
            Some(i) if t.mul(&g, &tc.el(&i)) == one => {},
            other => rep.violation(tc.sig("cyclotomic_inverse", "value"), json!({"config": tc.name, "g": hexf(&flat(&gf)), "got_some": other.is_some()})),
        }
    }
    let mut exps: Vec<Vec<u64>> = vec![
        vec![],
        vec![0],
        vec![1],
        vec![2],
        vec![0b1011],
        vec![1u64 << (rng.next_u32() % 64)],
        vec![u64::MAX],
        vec![u64::MAX, u64::MAX],
        vec![rng.next_u64(), 0, 0],
        vec![rng.next_u64(), rng.next_u64() >> 32],
        vec![u64::MAX - 1],
        vec![(1u64 << 63) | 1],
    ];
    exps.extend(extra_exp.iter().cloned());
    for _ in 0..3 {
        let e = &exps[rng.next_u32() as usize % exps.len()];
        let ev = oracle::from_limbs(e);
        rep.class_if(e.iter().all(|l| *l == u64::MAX) && !e.is_empty(), "cyclotomic_exp: all-ones limb(s) (NAF carries out of the top limb)");
        rep.class_if(ev.is_zero(), "cyclotomic_exp: exponent 0");
        if let Some(r) = rep.total(&tc.sig("cyclotomic_exp", "total"), || json!({"config": tc.name, "e": hex_limbs(e)}), || (gf.cyclotomic_exp(e), { let mut x = gf; x.cyclotomic_exp_in_place(e); x })) {
            rep.eval(mix(dg, digest(e)), true);
            let ex = t.pow(&g, &ev);
            if !tc.chk(rep, "cyclotomic_exp", &r.0, &ex, &[&gf]) {
                rep.note(format!("cyclotomic_exp exponent {}", hex_limbs(e)));
            }
            tc.chk(rep, "cyclotomic_exp_in_place", &r.1, &ex, &[&gf]);
        }
    }
}

pub fn run_tower<F: TowerSpec>(tc: &TC<F>, rep: &mut Report, rng: &mut Rng, iters: usize, mut extras: impl FnMut(&TC<F>, &mut Report, &mut Rng, &F)) {
    rep.config(&tc.name);
    for c in ELEMENT_CLASSES {
        rep.require_here(c);
    }
    rep.require_here("frobenius: power >= extension degree (table index wraps)");
    rep.require_here("inverse of zero -> None");
    for it in 0..iters {
        let a = tc.gen_class(it as u32, rng, rep);
        let b = match rng.next_u32() % 5 {
            0 => a,
            1 => -a,
            _ => tc.gen(rng, rep),
        };
        if it == 0 {
            rep.sample(&format!("c02/{}", tc.name), || json!({"config": tc.name, "p": tc.p.to_string(), "levels": tc.t.levels.iter().map(|l| l.deg).collect::<Vec<_>>(),
                "a": hexf(&flat(&a)), "b": hexf(&flat(&b)), "ops": "add sub neg double mul square inverse div frobenius pow sum_of_products norm sparse-mul cyclotomic"}));
        }
        generic_pair(tc, rep, rng, &a, &b, false);
        extras(tc, rep, rng, &a);
    }
}

/// all pairs of a toy tower
pub fn run_tower_exhaustive<F: TowerSpec>(tc: &TC<F>, rep: &mut Report, rng: &mut Rng, shard: u64, shards: u64, mut extras: impl FnMut(&TC<F>, &mut Report, &mut Rng, &F)) {
    rep.config(&tc.name);
    let p = oracle::ToPrimitive::to_u64(&tc.p).unwrap();
    let n = tc.dim;
    let total = p.pow(n as u32);
    let elem = |mut i: u64| -> F {
        let mut v = vec![];
        for _ in 0..n {
            v.push(UInt::from(i % p));
            i /= p;
        }
        unflat(&v)
    };
    for i in (0..total).filter(|i| i % shards == shard) {
        let a = elem(i);
        extras(tc, rep, rng, &a);
        generic_pair(tc, rep, rng, &a, &a, false);
        for j in 0..total {
            let b = elem(j);
            generic_pair(tc, rep, rng, &a, &b, true);
        }
    }
    rep.exhaustive(&format!("{}: all {}^2 ordered pairs of elements (add sub mul div inverse), all elements for the unary/Frobenius/norm/cyclotomic operations (union of the {} shards)", tc.name, total, shards));
}

pub fn items(args: &Args) -> Vec<Item> {
    use cfgs::shipped::*;
    let mut v: Vec<Item> = vec![];
    let q = args.pick(3usize, 40);
    // (iters are scaled inversely to the tower dimension)
    macro_rules! tower {
        ($name:literal, $ty:ty, $iters:expr, $extras:expr) => {
            for shard in 0..4 {
                v.push(Item::new(format!("c02/{}/{}", $name, shard), move |rep, rng, _a| {
                    let tc = TC::<$ty>::new($name);
                    run_tower(&tc, rep, rng, $iters * q, $extras);
                }));
            }
        };
    }
    // Fp2 (all pairing curves)
    macro_rules! fp2 {
        ($name:literal, $ty:ty) => {
            tower!($name, $ty, 260, |tc, rep, rng, a| {
                quad_extras(tc, rep, rng, a);
                fp2_extras(tc, rep, rng, a);
                cyclo(tc, rep, rng, a, &[(1, true)], &[]);
            });
        };
    }
    fp2!("bls12_377::Fq2", bls12_377::Fq2);
    fp2!("bls12_381::Fq2", bls12_381::Fq2);
    fp2!("bn254::Fq2", bn254::Fq2);
    fp2!("mnt4_298::Fq2", mnt4_298::Fq2);
    fp2!("mnt4_753::Fq2", mnt4_753::Fq2);
    fp2!("tc::bls12_381::Fq2", tc::bls12_381::Fq2);
    macro_rules! fp3 {
        ($name:literal, $ty:ty) => {
            tower!($name, $ty, 160, |tc, rep, rng, a| {
                cubic_extras(tc, rep, rng, a);
                fp3_extras(tc, rep, rng, a);
                cyclo(tc, rep, rng, a, &[], &[]);
            });
        };
    }
    fp3!("bw6_761::Fq3", bw6_761::Fq3);
    fp3!("bw6_767::Fq3", bw6_767::Fq3);
    fp3!("cp6_782::Fq3", cp6_782::Fq3);
    fp3!("mnt6_298::Fq3", mnt6_298::Fq3);
    fp3!("mnt6_753::Fq3", mnt6_753::Fq3);
    fp3!("tc::mnt6_753::Fq3", tc::mnt6_753::Fq3);
    macro_rules! fp4 {
        ($name:literal, $ty:ty) => {
            tower!($name, $ty, 110, |tc, rep, rng, a| {
                quad_extras(tc, rep, rng, a);
                fp4_extras(tc, rep, rng, a);
                cyclo(tc, rep, rng, a, &[(2, true)], &[]);
            });
        };
    }
    fp4!("mnt4_298::Fq4", mnt4_298::Fq4);
    fp4!("mnt4_753::Fq4", mnt4_753::Fq4);
    macro_rules! fp6a {
        ($name:literal, $ty:ty) => {
            tower!($name, $ty, 60, |tc, rep, rng, a| {
                quad_extras(tc, rep, rng, a);
                fp6_2o3_extras(tc, rep, rng, a);
                // easy part (q^3 - 1)(q + 1)
                cyclo(tc, rep, rng, a, &[(3, true), (1, false)], &[]);
            });
        };
    }
    fp6a!("bw6_761::Fq6", bw6_761::Fq6);
    fp6a!("bw6_767::Fq6", bw6_767::Fq6);
    fp6a!("cp6_782::Fq6", cp6_782::Fq6);
    fp6a!("mnt6_298::Fq6", mnt6_298::Fq6);
    fp6a!("mnt6_753::Fq6", mnt6_753::Fq6);
    macro_rules! fp6b {
        ($name:literal, $ty:ty) => {
            tower!($name, $ty, 60, |tc, rep, rng, a| {
                cubic_extras(tc, rep, rng, a);
                fp6_3o2_extras(tc, rep, rng, a);
                cyclo(tc, rep, rng, a, &[], &[]);
            });
        };
    }
    fp6b!("bls12_377::Fq6", bls12_377::Fq6);
    fp6b!("bls12_381::Fq6", bls12_381::Fq6);
    fp6b!("bn254::Fq6", bn254::Fq6);
    fp6b!("tc::bls12_381::Fq6", tc::bls12_381::Fq6);
    macro_rules! fp12 {
        ($name:literal, $ty:ty, $x:expr) => {
            tower!($name, $ty, 22, |tc, rep, rng, a| {
                quad_extras(tc, rep, rng, a);
                fp12_extras(tc, rep, rng, a);
                // easy part (q^6 - 1)(q^2 + 1)
                cyclo(tc, rep, rng, a, &[(6, true), (2, false)], &[$x.to_vec()]);
            });
        };
    }
    fp12!("bls12_377::Fq12", bls12_377::Fq12, <bls12_377::Config as ark_ec::bls12::Bls12Config>::X);
    fp12!("bls12_381::Fq12", bls12_381::Fq12, <bls12_381::Config as ark_ec::bls12::Bls12Config>::X);
    fp12!("bn254::Fq12", bn254::Fq12, <bn254::Config as ark_ec::bn::BnConfig>::X);
    fp12!("tc::bls12_381::Fq12", tc::bls12_381::Fq12, <tc::bls12_381::Config as ark_ec::bls12::Bls12Config>::X);

    // toy towers: exhaustive
    macro_rules! toy {
        ($name:literal, $ty:ty, $extras:expr) => {
            for shard in 0..16u64 {
                v.push(Item::new(format!("c02/{}/{}", $name, shard), move |rep, rng, _a| {
                    let tc = TC::<$ty>::new($name);
                    run_tower_exhaustive(&tc, rep, rng, shard, 16, $extras);
                }));
            }
        };
    }
    toy!("toy::Fp2<7,beta=-1>", cfgs::toy_towers::F7_2, |tc, rep, rng, a| {
        quad_extras(tc, rep, rng, a);
        fp2_extras(tc, rep, rng, a);
        cyclo(tc, rep, rng, a, &[(1, true)], &[]);
    });
    toy!("toy::Fp2<17,beta=3>", cfgs::toy_towers::F17_2, |tc, rep, rng, a| {
        quad_extras(tc, rep, rng, a);
        fp2_extras(tc, rep, rng, a);
        cyclo(tc, rep, rng, a, &[(1, true)], &[]);
    });
    toy!("toy::Fp3<7,beta=3>", cfgs::toy_towers::F7_3, |tc, rep, rng, a| {
        cubic_extras(tc, rep, rng, a);
        fp3_extras(tc, rep, rng, a);
        cyclo(tc, rep, rng, a, &[], &[]);
    });
    toy!("toy::Fp3<13,beta=2>", cfgs::toy_towers::F13_3, |tc, rep, rng, a| {
        cubic_extras(tc, rep, rng, a);
        fp3_extras(tc, rep, rng, a);
        cyclo(tc, rep, rng, a, &[], &[]);
    });
    // long uniform items first
    v.sort_by_key(|i| !i.name.contains("toy::Fp3<13"));
    v
}
