//! C11 — square roots and quadratic-residue tests are exact (field part; the curve-coordinate
//! helpers are monitored by mon_ec).
use crate::c01::FC;
use crate::c02::{flat, unflat, TowerSpec, TC};
use ark_ff::LegendreSymbol;
use ark_std::rand::RngCore;
use monitor::*;
use oracle::{from_limbs, One, UInt, Zero};

pub const RULE: &str = "cases = (field configuration, element); elements: 0, 1, -1, generator^odd (non-residues), squares of \
uniform elements, elements of exact order 2^j for every j up to the two-adicity (Tonelli-Shanks worst cases), base-field \
elements inside extensions split by residuosity, uniform; tiny fields and toy towers are enumerated; oracle = Euler criterion \
(num-bigint modpow; for towers the quadratic character of the norm chain, cross-checked against x^((q-1)/2) in the schoolbook \
model) and squaring the returned root in the model; non-trivial = element non-zero; distinct = digest of (config, element)";

fn prime_field(fc: &FC, rep: &mut Report, rng: &mut Rng, args: &Args) {
    rep.config(fc.name);
    let p = &fc.p;
    let s = fc.pf.two_adicity() as usize;
    let g = fc.dec(&fc.pf.generator());
    let root = fc.dec(&fc.pf.two_adic_root());
    let check = |rep: &mut Report, v: &UInt, enumerated: bool| {
        let a = fc.enc(v);
        let chi = oracle::legendre(v, p);
        if enumerated {
            rep.eval_enumerated(!v.is_zero())
        } else {
            rep.eval(mix(fc.cd, digest(&("sqrt", &a))), !v.is_zero())
        }
        rep.class(match chi {
            0 => "sqrt: zero",
            1 => "sqrt: quadratic residue",
            _ => "sqrt: non-residue",
        });
        let d = || json!({"config": fc.name, "x": v.to_string()});
        if let Some(l) = rep.total(&fc.sig("legendre", "total"), d, || (fc.pf.legendre(&a), fc.pf.legendre_predicates(&a))) {
            let (sym, (z, qr, qnr)) = l;
            if sym as i32 != chi || z != (chi == 0) || qr != (chi == 1) || qnr != (chi == -1) {
                rep.violation(fc.sig("legendre", "value"), json!({"config": fc.name, "x": v.to_string(), "got": sym, "expected": chi}));
            }
        }
        if let Some(r) = rep.total(&fc.sig("sqrt", "total"), d, || fc.pf.sqrt(&a)) {
            match r {
                Some(rt) => {
                    let rl = from_limbs(&rt);
                    let rv = fc.dec(&rt);
                    if chi == -1 {
                        rep.violation(fc.sig("sqrt", "some-for-non-residue"), json!({"config": fc.name, "x": v.to_string(), "root": rv.to_string()}));
                    } else if rl >= *p || (&rv * &rv) % p != *v {
                        rep.violation(fc.sig("sqrt", "root-does-not-square-to-x"), json!({"config": fc.name, "x": v.to_string(), "root": rv.to_string()}));
                    } else if v.is_zero() && !rv.is_zero() {
                        rep.violation(fc.sig("sqrt", "sqrt-of-zero"), json!({"config": fc.name}));
                    }
                },
                None => {
                    if chi != -1 {
                        rep.violation(fc.sig("sqrt", "none-for-square"), json!({"config": fc.name, "x": v.to_string()}));
                    }
                },
            }
        }
    };
    if *p < UInt::from(70000u32) {
        let pp = oracle::ToPrimitive::to_u64(p).unwrap();
        for x in 0..pp {
            check(rep, &UInt::from(x), true);
        }
        rep.exhaustive(&format!("{}: sqrt/legendre of all {} elements", fc.name, pp));
        rep.class("sqrt: element of exact order 2^j, every j <= two-adicity");
        return;
    }
    // structural
    let one = UInt::one();
    for v in [UInt::zero(), one.clone(), p - &one, UInt::from(2u8), UInt::from(4u8), g.clone(), (&g * &g) % p, root.clone()] {
        check(rep, &v, false);
    }
    // elements of exact order 2^j for every j <= s: root^(2^(s-j)); the one of order 2^s is a non-residue,
    // the one of order 2^(s-1) needs the maximal number of Tonelli-Shanks rounds
    let mut w = root.clone();
    for _j in (0..=s).rev() {
        check(rep, &w, false);
        // times an odd-order square (keeps the 2-part of the order)
        let u = fc.dec(&fc.gen(rng));
        let odd_part = u.modpow(&(UInt::one() << s), p);
        if !odd_part.is_zero() {
            check(rep, &((&w * &odd_part) % p), false);
        }
        w = (&w * &w) % p;
    }
    rep.class("sqrt: element of exact order 2^j, every j <= two-adicity");
    let iters = args.pick(600, 20_000) * 4 / (3 + fc.n);
    for _ in 0..iters {
        let u = fc.dec(&fc.gen(rng));
        match rng.next_u32() % 4 {
            0 => check(rep, &((&u * &u) % p), false),
            1 => {
                // non-residue: square times g^odd
                let k = UInt::from(1 + 2 * (rng.next_u32() % 50));
                check(rep, &((&u * &u % p) * g.modpow(&k, p) % p), false)
            },
            _ => check(rep, &u, false),
        }
    }
}

fn hexf(v: &[UInt]) -> Vec<String> {
    v.iter().map(|u| format!("0x{:x}", u)).collect()
}

fn ext_check<F: TowerSpec>(tc: &TC<F>, rep: &mut Report, a: &F, enumerated: bool, cross_check: bool) {
    let t = &tc.t;
    let ea = tc.el(a);
    let chi = t.quadratic_character(&ea);
    if cross_check {
        rep.class("oracle cross-check: norm-chain character vs x^((q-1)/2)");
        if t.euler_criterion(&ea) != chi {
            rep.harness_errors.push(format!("oracle self-check failed for {}: norm-chain character != Euler criterion", tc.name));
        }
    }
    if enumerated {
        rep.eval_enumerated(!a.is_zero())
    } else {
        rep.eval(digest(&(tc.name.as_str(), "sqrt", a)), !a.is_zero())
    }
    rep.class(match chi {
        0 => "sqrt: zero",
        1 => "sqrt: quadratic residue",
        _ => "sqrt: non-residue",
    });
    let sig = |op: &str, k: &str| format!("tower/{}/{}/{}", tc.name, op, k);
    let d = || json!({"config": tc.name, "x": hexf(&flat(a))});
    if let Some(l) = rep.total(&sig("legendre", "total"), d, || a.legendre()) {
        let got = match l {
            LegendreSymbol::Zero => 0,
            LegendreSymbol::QuadraticResidue => 1,
            LegendreSymbol::QuadraticNonResidue => -1,
        };
        if got != chi {
            rep.violation(sig("legendre", "value"), json!({"config": tc.name, "x": hexf(&flat(a)), "got": got, "expected": chi}));
        }
    }
    let r = rep.total(&sig("sqrt", "total"), d, || (a.sqrt(), { let mut x = *a; let ok = x.sqrt_in_place().is_some(); ok.then_some(x) }));
    if let Some((r, r2)) = r {
        if r != r2 {
            rep.violation(sig("sqrt_in_place", "differs-from-sqrt"), json!({"config": tc.name, "x": hexf(&flat(a))}));
        }
        match r {
            Some(rt) => {
                let er = tc.el(&rt);
                if chi == -1 {
                    rep.violation(sig("sqrt", "some-for-non-residue"), json!({"config": tc.name, "x": hexf(&flat(a)), "root": hexf(&flat(&rt))}));
                } else if t.mul(&er, &er) != ea || flat(&rt).iter().any(|c| c >= &tc.p) {
                    rep.violation(sig("sqrt", "root-does-not-square-to-x"), json!({"config": tc.name, "x": hexf(&flat(a)), "root": hexf(&flat(&rt))}));
                } else if a.is_zero() && !rt.is_zero() {
                    rep.violation(sig("sqrt", "sqrt-of-zero"), json!({"config": tc.name}));
                }
            },
            None => {
                if chi != -1 {
                    rep.violation(sig("sqrt", "none-for-square"), json!({"config": tc.name, "x": hexf(&flat(a))}));
                }
            },
        }
    }
}

fn ext_field<F: TowerSpec>(name: &str, rep: &mut Report, rng: &mut Rng, iters: usize, cross: usize) {
    let tc = TC::<F>::new(name);
    rep.config(name);
    let p = tc.p.clone();
    let rnd = |rng: &mut Rng| -> UInt {
        let limbs = (p.bits() as usize + 63) / 64;
        oracle::from_limbs(&(0..limbs + 1).map(|_| rng.next_u64()).collect::<Vec<_>>()) % &p
    };
    let base = |v: UInt| -> F {
        let mut f = vec![UInt::zero(); tc.dim];
        f[0] = v;
        unflat(&f)
    };
    // structural: 0, 1, -1, small base-field elements (both residuosities in the base field)
    ext_check(&tc, rep, &F::zero(), false, true);
    ext_check(&tc, rep, &F::one(), false, true);
    ext_check(&tc, rep, &-F::one(), false, false);
    let mut seen = (false, false);
    let mut k = 2u32;
    while !(seen.0 && seen.1) && k < 200 {
        let chi = oracle::legendre(&UInt::from(k), &p);
        if chi == 1 && !seen.0 {
            seen.0 = true;
            rep.class("sqrt: base-prime-field element that is a residue in F_p");
            ext_check(&tc, rep, &base(UInt::from(k)), false, false);
        }
        if chi == -1 && !seen.1 {
            seen.1 = true;
            rep.class("sqrt: base-prime-field element that is a non-residue in F_p");
            ext_check(&tc, rep, &base(UInt::from(k)), false, false);
        }
        k += 1;
    }
    // a non-square witness (found with the oracle), used to manufacture non-residues on purpose
    let mut nu: Option<F> = None;
    for _ in 0..200 {
        let c = tc.gen_class(8, rng, rep);
        if tc.t.quadratic_character(&tc.el(&c)) == -1 {
            nu = Some(c);
            break;
        }
    }
    for it in 0..iters {
        let a: F = match it % 7 {
            0 => {
                let u = tc.gen(rng, rep);
                u.square()
            },
            6 => {
                let u = tc.gen_class(8, rng, rep);
                match nu {
                    Some(n) => u.square() * n,
                    None => u,
                }
            },
            1 => base(rnd(rng)),
            2 => {
                // element of the subfield below the top level
                let top_deg = tc.t.levels.last().map(|l| l.deg).unwrap_or(1);
                let mut f = vec![UInt::zero(); tc.dim];
                for c in f.iter_mut().take(tc.dim / top_deg) {
                    *c = rnd(rng);
                }
                rep.class("sqrt: element of the subfield below the top level (c1 = 0 branch)");
                unflat(&f)
            },
            3 => {
                // only the top coefficient non-zero (c0 = 0)
                let mut f = vec![UInt::zero(); tc.dim];
                let top_deg = tc.t.levels.last().map(|l| l.deg).unwrap_or(1);
                let sub = tc.dim / top_deg;
                for c in f.iter_mut().skip(sub).take(sub) {
                    *c = rnd(rng);
                }
                rep.class("sqrt: c0 = 0");
                unflat(&f)
            },
            _ => tc.gen(rng, rep),
        };
        ext_check(&tc, rep, &a, false, it < cross);
    }
}

fn ext_field_exhaustive<F: TowerSpec>(name: &str, rep: &mut Report) {
    let tc = TC::<F>::new(name);
    rep.config(name);
    let p = oracle::ToPrimitive::to_u64(&tc.p).unwrap();
    let total = p.pow(tc.dim as u32);
    for mut i in 0..total {
        let mut v = vec![];
        for _ in 0..tc.dim {
            v.push(UInt::from(i % p));
            i /= p;
        }
        let a: F = unflat(&v);
        ext_check(&tc, rep, &a, true, true);
    }
    rep.exhaustive(&format!("{}: sqrt/legendre of all {} elements (oracle character cross-checked with the Euler criterion on each)", name, total));
}

pub fn items(args: &Args) -> Vec<Item> {
    use cfgs::shipped::*;
    let mut v = vec![];
    let mut all = crate::registry::all_prime_fields();
    all.sort_by_key(|c| std::cmp::Reverse(c.pf.n()));
    for c in all {
        v.push(Item::new(format!("c11/{}", c.name), move |rep, rng, args| {
            let fc = FC::new(&c);
            rep.require_here("sqrt: zero");
            rep.require_here("sqrt: quadratic residue");
            rep.require_here("sqrt: non-residue");
            rep.require_here("sqrt: element of exact order 2^j, every j <= two-adicity");
            prime_field(&fc, rep, rng, args);
        }));
    }
    let it = args.pick(400usize, 6000);
    let cross = args.pick(1usize, 6);
    macro_rules! ext {
        ($name:literal, $ty:ty, $scale:expr) => {
            for shard in 0..2 {
                v.push(Item::new(format!("c11/{}/{}", $name, shard), move |rep, rng, _| {
                    rep.require_here("sqrt: zero");
                    rep.require_here("sqrt: quadratic residue");
                    rep.require_here("sqrt: non-residue");
                    rep.require_here("sqrt: base-prime-field element that is a residue in F_p");
                    rep.require_here("sqrt: base-prime-field element that is a non-residue in F_p");
                    ext_field::<$ty>($name, rep, rng, (it / $scale).max(12), cross);
                }));
            }
        };
    }
    ext!("bls12_377::Fq2", bls12_377::Fq2, 1);
    ext!("bls12_381::Fq2", bls12_381::Fq2, 1);
    ext!("bn254::Fq2", bn254::Fq2, 1);
    ext!("mnt4_298::Fq2", mnt4_298::Fq2, 1);
    ext!("mnt4_753::Fq2", mnt4_753::Fq2, 2);
    ext!("tc::bls12_381::Fq2", tc::bls12_381::Fq2, 1);
    ext!("mnt4_298::Fq4", mnt4_298::Fq4, 2);
    ext!("mnt4_753::Fq4", mnt4_753::Fq4, 3);
    ext!("bw6_761::Fq3", bw6_761::Fq3, 2);
    ext!("bw6_767::Fq3", bw6_767::Fq3, 2);
    ext!("cp6_782::Fq3", cp6_782::Fq3, 2);
    ext!("mnt6_298::Fq3", mnt6_298::Fq3, 1);
    ext!("mnt6_753::Fq3", mnt6_753::Fq3, 2);
    ext!("tc::mnt6_753::Fq3", tc::mnt6_753::Fq3, 2);
    ext!("bw6_761::Fq6", bw6_761::Fq6, 3);
    ext!("bw6_767::Fq6", bw6_767::Fq6, 3);
    ext!("cp6_782::Fq6", cp6_782::Fq6, 3);
    ext!("mnt6_298::Fq6", mnt6_298::Fq6, 2);
    ext!("mnt6_753::Fq6", mnt6_753::Fq6, 3);
    macro_rules! toy {
        ($name:literal, $ty:ty) => {
            v.push(Item::new(format!("c11/{}", $name), move |rep, _rng, _| ext_field_exhaustive::<$ty>($name, rep)));
        };
    }
    toy!("toy::Fp2<7,beta=-1>", cfgs::toy_towers::F7_2);
    toy!("toy::Fp2<17,beta=3>", cfgs::toy_towers::F17_2);
    toy!("toy::Fp3<7,beta=3>", cfgs::toy_towers::F7_3);
    toy!("toy::Fp3<13,beta=2>", cfgs::toy_towers::F13_3);
    v
}
