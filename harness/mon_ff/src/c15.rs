//! C15 — BigInt<N> is arithmetic modulo 2^(64N) with exact flags; recodings reconstruct.
use ark_ff::biginteger::arithmetic::{find_naf, find_relaxed_naf};
use ark_ff::{signed_mod_reduction, BigInt, BigInteger, BitIteratorBE, BitIteratorLE};
use ark_std::rand::{Rng as _, RngCore};
use monitor::*;
use oracle::{from_limbs, pow2, to_limbs, One, SInt, UInt, Zero};
use std::str::FromStr;

pub const RULE: &str = "cases = (limb count N in 1..=13, operation, operands, parameter) drawn from structural values \
(0,1,2,3,2^k,2^k±1 on limb boundaries, all-ones, 2^(64N)-small), limb-spliced and uniform distributions, plus all \
values 0..2^16 for N=1 recodings; every result compared with num-bigint; a case is non-trivial when some operand is non-zero; \
distinct = distinct digest of (N, op, operands, parameter)";

fn structural<const N: usize>(rng: &mut Rng) -> BigInt<N> {
    let bits = 64 * N;
    let full = pow2(bits);
    let v: UInt = match rng.next_u32() % 14 {
        0 => UInt::zero(),
        1 => UInt::one(),
        2 => UInt::from(2u8),
        3 => UInt::from(3u8),
        4 => &full - UInt::one(),
        5 => &full - UInt::from(1 + rng.next_u32() % 70000),
        6 => &full - (UInt::one() << (rng.next_u32() as usize % 63)),
        7 | 8 => {
            // 2^k, 2^k ± 1 with k on/near a limb boundary
            let limb = rng.next_u32() as usize % N;
            let off = [0usize, 1, 62, 63][rng.next_u32() as usize % 4];
            let k = (64 * limb + off).min(bits - 1);
            let base = pow2(k);
            match rng.next_u32() % 3 {
                0 => base,
                1 => base + UInt::one(),
                _ => base - UInt::one(),
            }
        },
        9 => pow2(rng.next_u32() as usize % bits),
        10 => (pow2(1 + rng.next_u32() as usize % bits) - UInt::one()) % &full,
        _ => return BigInt::<N>(edge_limbs(rng, N).try_into().unwrap()),
    };
    BigInt::<N>(to_limbs(&(v % &full), N).try_into().unwrap())
}

fn gen<const N: usize>(rng: &mut Rng) -> BigInt<N> {
    match rng.next_u32() % 4 {
        0 => BigInt::<N>(core::array::from_fn(|_| rng.next_u64())),
        1 => BigInt::<N>(edge_limbs(rng, N).try_into().unwrap()),
        _ => structural::<N>(rng),
    }
}

fn ui<const N: usize>(a: &BigInt<N>) -> UInt {
    from_limbs(&a.0)
}

fn digits_value(d: &[i64]) -> SInt {
    let mut acc = SInt::zero();
    for (i, x) in d.iter().enumerate() {
        if *x != 0 {
            acc += SInt::from(*x) << i;
        }
    }
    acc
}

macro_rules! bad {
    ($rep:expr, $n:expr, $op:expr, $kind:expr, $($k:tt : $v:expr),* $(,)?) => {
        $rep.violation(format!("bigint/{}/{}", $op, $kind), json!({"N": $n, "op": $op, $($k: $v),*}))
    };
}

fn check_wnaf(rep: &mut Report, n: usize, limbs: &[u64], val: &UInt, w: usize, res: Option<Vec<i64>>) {
    let Some(d) = res else {
        bad!(rep, n, "find_wnaf", "none-for-valid-window", "value": hex_limbs(limbs), "w": w);
        return;
    };
    let rec = digits_value(&d);
    if rec != SInt::from(val.clone()) {
        let near_top = (pow2(64 * n) - val) <= pow2(w - 1);
        bad!(rep, n, "find_wnaf", if near_top { "reconstruct-top-carry" } else { "reconstruct" },
             "value": hex_limbs(limbs), "w": w, "digits_len": d.len(), "reconstructed": rec.to_string());
        return;
    }
    let lim = 1i64 << (w - 1);
    let mut last_nz: Option<usize> = None;
    for (i, x) in d.iter().enumerate() {
        if *x != 0 {
            if x % 2 == 0 || *x >= lim || *x <= -lim {
                bad!(rep, n, "find_wnaf", "digit-range", "value": hex_limbs(limbs), "w": w, "digit": x, "pos": i);
                return;
            }
            if let Some(l) = last_nz {
                if i - l < w {
                    bad!(rep, n, "find_wnaf", "non-adjacency", "value": hex_limbs(limbs), "w": w, "pos": i);
                    return;
                }
            }
            last_nz = Some(i);
        }
    }
    if let Some(x) = d.last() {
        if *x == 0 {
            bad!(rep, n, "find_wnaf", "trailing-zero-digit", "value": hex_limbs(limbs), "w": w);
        }
    }
}

fn check_naf(rep: &mut Report, limbs: &[u64]) {
    let n = limbs.len();
    let val = from_limbs(limbs);
    let l = limbs.to_vec();
    let near_top = (pow2(64 * n) - &val) <= UInt::one();
    rep.class_if(near_top, "naf: value within 1 of 2^(64N) (carry out of the top limb)");
    let Some(d) = rep.total("bigint/find_naf", || json!({"value": hex_limbs(limbs)}), || find_naf(&l)) else { return };
    let d64: Vec<i64> = d.iter().map(|x| *x as i64).collect();
    if digits_value(&d64) != SInt::from(val.clone()) {
        bad!(rep, n, "find_naf", if near_top { "reconstruct-top-carry" } else { "reconstruct" }, "value": hex_limbs(limbs), "len": d.len());
    } else {
        let ok_digits = d.iter().all(|x| (-1..=1).contains(x));
        let ok_adj = d.windows(2).all(|p| p[0] == 0 || p[1] == 0);
        if !ok_digits || !ok_adj {
            bad!(rep, n, "find_naf", "digit-constraints", "value": hex_limbs(limbs));
        }
    }
    // relaxed NAF
    rep.class_if(d.len() < 3, "relaxed naf: plain NAF shorter than 3 digits");
    let Some(r) =
        rep.total("bigint/find_relaxed_naf", || json!({"value": hex_limbs(limbs), "naf_len": d.len()}), || find_relaxed_naf(&l))
    else {
        return;
    };
    let r64: Vec<i64> = r.iter().map(|x| *x as i64).collect();
    if digits_value(&r64) != SInt::from(val) {
        bad!(rep, n, "find_relaxed_naf", if near_top { "reconstruct-top-carry" } else { "reconstruct" }, "value": hex_limbs(limbs));
        return;
    }
    rep.class_if(r.len() < d.len(), "relaxed naf: rewrite shortened the sequence");
    let ok_digits = r.iter().all(|x| (-1..=1).contains(x));
    let body_adj = if r.len() >= 2 { r[..r.len() - 1].windows(2).all(|p| p[0] == 0 || p[1] == 0) } else { true };
    if !ok_digits || r.len() > d.len() || !body_adj {
        bad!(rep, n, "find_relaxed_naf", "digit-constraints", "value": hex_limbs(limbs));
    }
}

fn shifts(n: usize, rng: &mut Rng) -> u32 {
    let b = 64 * n as u32;
    let fixed = [0, 1, 2, 31, 32, 33, 63, 64, 65, 127, 128, 129, b - 1, b, b + 1, b + 63, b + 64, 2 * b, u32::MAX, u32::MAX - 63, 1 << 31];
    match rng.next_u32() % 3 {
        0 => fixed[rng.next_u32() as usize % fixed.len()],
        1 => rng.next_u32() % (b + 2),
        _ => 64 * (rng.next_u32() % (n as u32 + 1)) + [0u32, 1, 63][rng.next_u32() as usize % 3],
    }
}

fn run_n<const N: usize>(rep: &mut Report, rng: &mut Rng, args: &Args) {
    let iters = args.pick(4000, 120_000) / (1 + N / 4);
    let bits = 64 * N;
    let full = pow2(bits);
    rep.config(&format!("BigInt<{N}>"));
    for it in 0..iters {
        let a = gen::<N>(rng);
        let b = match rng.next_u32() % 6 {
            0 => a,
            1 => {
                // b = 2^(64N) - a  (sum exactly wraps to zero)
                BigInt::<N>(to_limbs(&((&full - ui(&a)) % &full), N).try_into().unwrap())
            },
            2 => BigInt::<N>(to_limbs(&((&full - UInt::one() - ui(&a)) % &full), N).try_into().unwrap()),
            _ => gen::<N>(rng),
        };
        let (ua, ub) = (ui(&a), ui(&b));
        let nontriv = !ua.is_zero() || !ub.is_zero();
        let dg = digest(&(N, a.0, b.0));
        if it < 2 {
            rep.sample(&format!("ops{N}"), || json!({"N": N, "a": hex_limbs(&a.0), "b": hex_limbs(&b.0), "ops": "add/sub/mul/shift/cmp/bits/bytes/str/recode"}));
        }

        // add_with_carry
        {
            let mut r = a;
            let c = r.add_with_carry(&b);
            let s = &ua + &ub;
            let ec = s >= full;
            rep.eval(mix(dg, 1), nontriv);
            rep.class(if ec { "add: carry out" } else { "add: no carry" });
            if ui(&r) != &s % &full || c != ec {
                bad!(rep, N, "add_with_carry", if c != ec { "flag" } else { "value" }, "a": hex_limbs(&a.0), "b": hex_limbs(&b.0), "got": hex_limbs(&r.0), "carry": c);
            }
        }
        // sub_with_borrow
        {
            let mut r = a;
            let c = r.sub_with_borrow(&b);
            let eb = ua < ub;
            let e = if eb { &full + &ua - &ub } else { &ua - &ub };
            rep.eval(mix(dg, 2), nontriv);
            rep.class(if eb { "sub: borrow" } else { "sub: no borrow" });
            if ui(&r) != e || c != eb {
                bad!(rep, N, "sub_with_borrow", if c != eb { "flag" } else { "value" }, "a": hex_limbs(&a.0), "b": hex_limbs(&b.0), "got": hex_limbs(&r.0), "borrow": c);
            }
        }
        // mul2 / div2
        {
            let mut r = a;
            let c = r.mul2();
            let s = &ua << 1usize;
            rep.eval(mix(dg, 3), nontriv);
            rep.class_if(s >= full, "mul2: carry out");
            if ui(&r) != &s % &full || c != (s >= full) {
                bad!(rep, N, "mul2", "value-or-flag", "a": hex_limbs(&a.0), "got": hex_limbs(&r.0), "carry": c);
            }
            let mut r = a;
            r.div2();
            rep.eval(mix(dg, 4), nontriv);
            if ui(&r) != &ua >> 1usize {
                bad!(rep, N, "div2", "value", "a": hex_limbs(&a.0), "got": hex_limbs(&r.0));
            }
        }
        // shifts
        for _ in 0..3 {
            let n = shifts(N, rng);
            rep.class(if n as usize >= bits {
                "shift: amount >= 64N"
            } else if n % 64 == 0 {
                "shift: whole limbs"
            } else if n > 64 {
                "shift: limbs + bits"
            } else {
                "shift: < 64 bits"
            });
            let el = if n as usize >= bits { UInt::zero() } else { (&ua << n as usize) % &full };
            let er = if n as usize >= bits { UInt::zero() } else { &ua >> n as usize };
            let dn = mix(dg, 100 + n as u64);
            let d = || json!({"N": N, "a": hex_limbs(&a.0), "shift": n});
            if let Some(r) = rep.total("bigint/muln", d, || { let mut r = a; r.muln(n); r }) {
                rep.eval(mix(dn, 1), nontriv);
                if ui(&r) != el { bad!(rep, N, "muln", "value", "a": hex_limbs(&a.0), "shift": n, "got": hex_limbs(&r.0)); }
            }
            if let Some(r) = rep.total("bigint/divn", d, || { let mut r = a; r.divn(n); r }) {
                rep.eval(mix(dn, 2), nontriv);
                if ui(&r) != er { bad!(rep, N, "divn", "value", "a": hex_limbs(&a.0), "shift": n, "got": hex_limbs(&r.0)); }
            }
            if let Some(r) = rep.total("bigint/shl", d, || { let mut r = a; r <<= n; (r, a << n) }) {
                rep.eval(mix(dn, 3), nontriv);
                if ui(&r.0) != el || r.0 != r.1 { bad!(rep, N, "shl", "value", "a": hex_limbs(&a.0), "shift": n, "got": hex_limbs(&r.0.0)); }
            }
            if let Some(r) = rep.total("bigint/shr", d, || { let mut r = a; r >>= n; (r, a >> n) }) {
                rep.eval(mix(dn, 4), nontriv);
                if ui(&r.0) != er || r.0 != r.1 { bad!(rep, N, "shr", "value", "a": hex_limbs(&a.0), "shift": n, "got": hex_limbs(&r.0.0)); }
            }
        }
        // mul / mul_low / mul_high
        {
            let prod = &ua * &ub;
            let (lo, hi) = (&prod % &full, &prod >> bits);
            rep.class_if(!hi.is_zero(), "mul: high half non-zero");
            let d = || json!({"N": N, "a": hex_limbs(&a.0), "b": hex_limbs(&b.0)});
            if let Some((l, h)) = rep.total("bigint/mul", d, || a.mul(&b)) {
                rep.eval(mix(dg, 5), nontriv);
                if ui(&l) != lo || ui(&h) != hi { bad!(rep, N, "mul", "value", "a": hex_limbs(&a.0), "b": hex_limbs(&b.0), "lo": hex_limbs(&l.0), "hi": hex_limbs(&h.0)); }
            }
            if let Some(l) = rep.total("bigint/mul_low", d, || a.mul_low(&b)) {
                rep.eval(mix(dg, 6), nontriv);
                if ui(&l) != lo { bad!(rep, N, "mul_low", "value", "a": hex_limbs(&a.0), "b": hex_limbs(&b.0), "got": hex_limbs(&l.0)); }
            }
            if let Some(h) = rep.total("bigint/mul_high", d, || a.mul_high(&b)) {
                rep.eval(mix(dg, 7), nontriv);
                if ui(&h) != hi { bad!(rep, N, "mul_high", "value", "a": hex_limbs(&a.0), "b": hex_limbs(&b.0), "got": hex_limbs(&h.0)); }
            }
        }
        // comparison
        {
            rep.eval(mix(dg, 8), nontriv);
            let e = ua.cmp(&ub);
            rep.class(match e { std::cmp::Ordering::Equal => "cmp: equal", std::cmp::Ordering::Less => "cmp: less", _ => "cmp: greater" });
            if a.cmp(&b) != e || a.partial_cmp(&b) != Some(e) || (a == b) != (e == std::cmp::Ordering::Equal) || (a < b) != (ua < ub) || (a >= b) != (ua >= ub) {
                bad!(rep, N, "cmp", "order", "a": hex_limbs(&a.0), "b": hex_limbs(&b.0));
            }
        }
        // predicates, bit length, bit access
        {
            rep.eval(mix(dg, 9), nontriv);
            if a.is_zero() != ua.is_zero() || a.is_odd() != ua.bit(0) || a.is_even() == ua.bit(0) {
                bad!(rep, N, "predicates", "value", "a": hex_limbs(&a.0));
            }
            if a.num_bits() as u64 != ua.bits() {
                bad!(rep, N, "num_bits", "value", "a": hex_limbs(&a.0), "got": a.num_bits());
            }
            rep.class_if(a.0[N - 1] == 0 && N > 1, "num_bits: zero top limb");
            let idx = [0usize, 1, 63, 64, 65, bits - 1, bits, bits + 1, bits + 64, usize::MAX, rng.next_u32() as usize % (bits + 2)];
            for i in idx {
                let e = if i < bits { ua.bit(i as u64) } else { false };
                rep.class_if(i >= bits, "get_bit: index out of range");
                match rep.total("bigint/get_bit", || json!({"N": N, "a": hex_limbs(&a.0), "i": i}), || a.get_bit(i)) {
                    Some(g) if g != e => bad!(rep, N, "get_bit", "value", "a": hex_limbs(&a.0), "i": i),
                    _ => {},
                }
            }
        }
        // bits and bytes, both endiannesses
        {
            rep.eval(mix(dg, 10), nontriv);
            let le: Vec<bool> = (0..bits).map(|i| ua.bit(i as u64)).collect();
            let mut be = le.clone();
            be.reverse();
            if a.to_bits_le() != le || a.to_bits_be() != be {
                bad!(rep, N, "to_bits", "value", "a": hex_limbs(&a.0));
            }
            // from_bits on a prefix-trimmed slice (shorter inputs are zero-extended)
            let keep = if rng.next_u32() % 2 == 0 { bits } else { (ua.bits() as usize + (rng.next_u32() as usize % 3)).min(bits) };
            rep.class_if(keep < bits, "from_bits: shorter than 64N bits");
            let fl = BigInt::<N>::from_bits_le(&le[..keep]);
            let fb = BigInt::<N>::from_bits_be(&be[bits - keep..]);
            if fl != a || fb != a {
                bad!(rep, N, "from_bits", "round-trip", "a": hex_limbs(&a.0), "bits_kept": keep, "le": hex_limbs(&fl.0), "be": hex_limbs(&fb.0));
            }
            let mut bytes = ua.to_bytes_le();
            bytes.resize(8 * N, 0);
            let mut rb = bytes.clone();
            rb.reverse();
            if a.to_bytes_le() != bytes || a.to_bytes_be() != rb {
                bad!(rep, N, "to_bytes", "value", "a": hex_limbs(&a.0));
            }
            let it_be: Vec<bool> = BitIteratorBE::new(&a.0).collect();
            let it_le: Vec<bool> = BitIteratorLE::new(&a.0).collect();
            let nb = ua.bits() as usize;
            let it_be_t: Vec<bool> = BitIteratorBE::without_leading_zeros(&a.0).collect();
            let it_le_t: Vec<bool> = BitIteratorLE::without_trailing_zeros(&a.0).collect();
            if it_be != be || it_le != le || it_be_t != be[bits - nb..] || it_le_t != le[..nb] {
                bad!(rep, N, "BitIterator", "value", "a": hex_limbs(&a.0));
            }
        }
        // strings and BigUint conversions
        {
            rep.eval(mix(dg, 11), nontriv);
            let dec = ua.to_string();
            if a.to_string() != dec || format!("{a:?}") != format!("{ua:?}") {
                bad!(rep, N, "Display", "value", "a": hex_limbs(&a.0), "got": a.to_string());
            }
            if format!("{a:X}") != format!("{ua:016X}") {
                bad!(rep, N, "UpperHex", "value", "a": hex_limbs(&a.0), "got": format!("{a:X}"));
            }
            match BigInt::<N>::from_str(&dec) {
                Ok(x) if x == a => {},
                _ => bad!(rep, N, "FromStr", "round-trip", "a": hex_limbs(&a.0)),
            }
            if UInt::from(a) != ua || BigInt::<N>::try_from(ua.clone()) != Ok(a) {
                bad!(rep, N, "BigUint-conversion", "round-trip", "a": hex_limbs(&a.0));
            }
            if num_bigint::BigInt::from(a) != SInt::from(ua.clone()) {
                bad!(rep, N, "BigInt-conversion", "value", "a": hex_limbs(&a.0));
            }
            // too large
            let big = &full + &ua;
            rep.class("TryFrom<BigUint>: value >= 2^(64N)");
            if BigInt::<N>::try_from(big.clone()).is_ok() || BigInt::<N>::from_str(&big.to_string()).is_ok() {
                bad!(rep, N, "TryFrom<BigUint>", "accepts-too-large", "value": big.to_string());
            }
        }
        // bit operators
        {
            rep.eval(mix(dg, 12), nontriv);
            let mask = &full - UInt::one();
            if ui(&(a & b)) != (&ua & &ub) || ui(&(a | b)) != (&ua | &ub) || ui(&(a ^ b)) != (&ua ^ &ub) || ui(&!a) != (&mask ^ &ua) {
                bad!(rep, N, "bitops", "value", "a": hex_limbs(&a.0), "b": hex_limbs(&b.0));
            }
            let (mut x, mut y, mut z) = (a, a, a);
            x &= b; y |= &b; z ^= b;
            if x != (a & b) || y != (a | b) || z != (a ^ b) {
                bad!(rep, N, "bitops-assign", "value", "a": hex_limbs(&a.0), "b": hex_limbs(&b.0));
            }
        }
        // const helpers
        {
            rep.eval(mix(dg, 13), nontriv);
            if ui(&a.const_shr()) != &ua >> 1usize || ui(&a.divide_by_2_round_down()) != &ua >> 1usize {
                bad!(rep, N, "const_shr", "value", "a": hex_limbs(&a.0));
            }
            if a.mod_4() as u64 != a.0[0] % 4 || a.const_is_even() == ua.bit(0) || a.const_is_odd() != ua.bit(0) {
                bad!(rep, N, "mod_4", "value", "a": hex_limbs(&a.0));
            }
            if a.0[N - 1] != 0 && a.const_num_bits() as u64 != ua.bits() {
                bad!(rep, N, "const_num_bits", "value", "a": hex_limbs(&a.0));
            }
            if ua.bit(0) && ua > UInt::one() {
                let m1 = &ua - UInt::one();
                let s = m1.trailing_zeros().unwrap();
                rep.class_if(s >= 64, "two_adic_valuation: >= 64");
                if a.two_adic_valuation() as u64 != s || ui(&a.two_adic_coefficient()) != &m1 >> s as usize {
                    bad!(rep, N, "two_adic", "value", "a": hex_limbs(&a.0));
                }
                // Montgomery constants of an odd modulus occupying the top limb
                if a.0[N - 1] != 0 {
                    rep.class("montgomery_r/r2 on odd modulus");
                    let r = &full % &ua;
                    let r2 = (&full * &full) % &ua;
                    let d = || json!({"N": N, "modulus": hex_limbs(&a.0)});
                    if let Some((gr, gr2)) = rep.total("bigint/montgomery_r", d, || (a.montgomery_r(), a.montgomery_r2())) {
                        if ui(&gr) != r || ui(&gr2) != r2 {
                            bad!(rep, N, "montgomery_r", "value", "modulus": hex_limbs(&a.0), "r": hex_limbs(&gr.0), "r2": hex_limbs(&gr2.0));
                        }
                    }
                }
            }
        }
        // recodings
        {
            for w in [2usize, 3, 4, 5, 7, 8, 16, 31, 32, 33, 62, 63, 2 + rng.next_u32() as usize % 62] {
                let near = (&full - &ua) <= pow2(w - 1) && !ua.is_zero() && ua.bit(0);
                rep.class_if(near, "wnaf: value within 2^(w-1) of 2^(64N) (carry out of the top limb)");
                rep.eval(mix(dg, 200 + w as u64), nontriv);
                if let Some(r) = rep.total("bigint/find_wnaf", || json!({"N": N, "value": hex_limbs(&a.0), "w": w}), || a.find_wnaf(w)) {
                    check_wnaf(rep, N, &a.0, &ua, w, r);
                }
            }
            for w in [0usize, 1, 64, 65, 1000] {
                rep.class("wnaf: invalid window");
                if a.find_wnaf(w).is_some() {
                    bad!(rep, N, "find_wnaf", "some-for-invalid-window", "w": w);
                }
            }
            rep.eval(mix(dg, 14), nontriv);
            check_naf(rep, &a.0);
        }
    }
    // signed_mod_reduction: result ≡ n (mod m), in [-m/2, m/2) for the power-of-two moduli the recoders use
    for _ in 0..args.pick(2000, 50_000) {
        let w = 1 + rng.next_u32() % 63;
        let m = 1u64 << w;
        let n = match rng.next_u32() % 4 { 0 => edge_limb(rng), 1 => (m / 2).wrapping_add(rng.gen_range(0..3)).wrapping_sub(1), _ => rng.next_u64() };
        rep.eval(digest(&("smr", n, m)), true);
        rep.class_if(n % m == m / 2, "signed_mod_reduction: residue exactly m/2");
        let Some(r) = rep.total("bigint/signed_mod_reduction", || json!({"n": n, "modulus": m}), || signed_mod_reduction(n, m) as i128) else { continue };
        let ok = (r - (n % m) as i128).rem_euclid(m as i128) == 0 && r >= -((m / 2) as i128) && r < (m / 2) as i128;
        if !ok {
            bad!(rep, 1, "signed_mod_reduction", "value", "n": n, "modulus": m, "got": r as i64);
        }
    }
}

fn exhaustive_small(rep: &mut Report, _rng: &mut Rng, args: &Args) {
    let top = args.pick(1u64 << 14, 1u64 << 16);
    for v in 0..top {
        let a = BigInt::<1>([v]);
        let ua = UInt::from(v);
        for w in 2..=6usize {
            rep.eval(digest(&("ex-wnaf", v, w)), v != 0);
            if let Some(r) = rep.total("bigint/find_wnaf", || json!({"N": 1, "value": v, "w": w}), || a.find_wnaf(w)) {
                check_wnaf(rep, 1, &a.0, &ua, w, r);
            }
        }
        rep.eval(digest(&("ex-naf", v)), v != 0);
        check_naf(rep, &a.0);
        // the same small value with leading zero limbs, and mirrored at the top of the range
        check_naf(rep, &[v, 0]);
        check_naf(rep, &[u64::MAX - v]);
        check_naf(rep, &[u64::MAX - v, u64::MAX]);
        let t = BigInt::<2>([u64::MAX - v, u64::MAX]);
        for w in [2usize, 3, 5] {
            rep.eval(digest(&("ex-wnaf-top", v, w)), true);
            if let Some(r) = rep.total("bigint/find_wnaf", || json!({"N": 2, "value": hex_limbs(&t.0), "w": w}), || t.find_wnaf(w)) {
                check_wnaf(rep, 2, &t.0, &from_limbs(&t.0), w, r);
            }
        }
    }
    rep.exhaustive(&format!("recodings of all values 0..{top} (N=1; plus the mirrored values 2^64-1-v and 2^128-1-v)"));
    rep.sample("exh", || json!({"exhaustive": format!("v in 0..{top}"), "ops": "find_wnaf(2..=6), find_naf, find_relaxed_naf"}));
}

pub fn items(_args: &Args) -> Vec<Item> {
    let mut v: Vec<Item> = vec![];
    macro_rules! n {
        ($($n:literal),*) => { $( v.push(Item::new(format!("bigint/N{}", $n), |r, g, a| {
            for c in REQUIRED { r.require(c); }
            run_n::<$n>(r, g, a)
        })); )* };
    }
    n!(1, 2, 3, 4, 5, 6, 7, 8, 9, 10, 11, 12, 13);
    v.push(Item::new("bigint/exhaustive-small", exhaustive_small));
    v
}

const REQUIRED: &[&str] = &[
    "add: carry out",
    "add: no carry",
    "sub: borrow",
    "sub: no borrow",
    "mul2: carry out",
    "shift: amount >= 64N",
    "shift: whole limbs",
    "shift: < 64 bits",
    "mul: high half non-zero",
    "cmp: equal",
    "cmp: less",
    "cmp: greater",
    "get_bit: index out of range",
    "wnaf: value within 2^(w-1) of 2^(64N) (carry out of the top limb)",
    "naf: value within 1 of 2^(64N) (carry out of the top limb)",
    "relaxed naf: plain NAF shorter than 3 digits",
    "relaxed naf: rewrite shortened the sequence",
    "montgomery_r/r2 on odd modulus",
    "signed_mod_reduction: residue exactly m/2",
];
