//! C19 (field part) — equality, ordering and hashing coincide with mathematical identity for big
//! integers, prime-field elements and tower elements.
use crate::c01::FC;
use crate::c02::{flat, unflat, TowerSpec, TC};
use ark_ff::{BigInt, Field};
use ark_std::rand::RngCore;
use ark_std::{One, Zero};
use monitor::*;
use oracle::{from_limbs, UInt};
use std::cmp::Ordering;
use std::collections::{BTreeSet, HashSet};
use std::hash::{Hash, Hasher};

pub const RULE: &str = "cases = (type, pair or triple of values) from pools in which every mathematical value occurs several times through \
different operation histories (a+b-b, (a*b)/b, -(-a), from decimal string, from bytes, from big integer, deserialised); all pairs of each \
pool: == in both directions agrees with equality of the oracle values, equal values hash equally (std DefaultHasher), cmp/partial_cmp are \
antisymmetric, agree with == and with the integer order (prime fields, BigInt) or the documented lexicographic order (extensions: highest \
coefficient first), transitivity on random triples, sort() equals the oracle order; non-trivial = the two values are not the same pool entry; \
distinct = digest of (type, value pair)";

fn h<T: Hash>(t: &T) -> u64 {
    let mut s = std::collections::hash_map::DefaultHasher::new();
    t.hash(&mut s);
    s.finish()
}

pub fn bigint<const N: usize>(rep: &mut Report, rng: &mut Rng, args: &Args) {
    rep.config(&format!("BigInt<{N}>"));
    let n = args.pick(60, 400);
    let mut pool: Vec<BigInt<N>> = vec![BigInt::zero(), BigInt::one()];
    for _ in 0..n {
        let l: [u64; N] = edge_limbs(rng, N).try_into().unwrap();
        pool.push(BigInt(l));
        // a second copy produced through arithmetic
        let mut c = BigInt::<N>(l);
        use ark_ff::BigInteger;
        let one = BigInt::<N>::one();
        c.add_with_carry(&one);
        c.sub_with_borrow(&one);
        pool.push(c);
    }
    let vals: Vec<UInt> = pool.iter().map(|b| from_limbs(&b.0)).collect();
    for i in 0..pool.len() {
        for j in 0..pool.len() {
            let e = vals[i].cmp(&vals[j]);
            rep.eval(digest(&("bigint", N, pool[i].0, pool[j].0)), i != j);
            rep.class(match e { Ordering::Equal => "pair: equal values", _ => "pair: different values" });
            let ok = pool[i].cmp(&pool[j]) == e
                && pool[i].partial_cmp(&pool[j]) == Some(e)
                && (pool[i] == pool[j]) == (e == Ordering::Equal)
                && (e != Ordering::Equal || h(&pool[i]) == h(&pool[j]))
                && pool[j].cmp(&pool[i]) == e.reverse();
            if !ok {
                rep.violation("eqord/BigInt/cmp-eq-hash", json!({"N": N, "a": hex_limbs(&pool[i].0), "b": hex_limbs(&pool[j].0)}));
            }
        }
    }
    let mut sorted = pool.clone();
    sorted.sort();
    let mut sv = vals.clone();
    sv.sort();
    if sorted.iter().map(|b| from_limbs(&b.0)).collect::<Vec<_>>() != sv {
        rep.violation("eqord/BigInt/sort", json!({"N": N}));
    }
}

pub fn prime_field(fc: &FC, rep: &mut Report, rng: &mut Rng, args: &Args) {
    rep.config(fc.name);
    let pf = fc.pf;
    let n = args.pick(16, 140);
    // pool of (limbs, value); several histories per value
    let mut pool: Vec<(Vec<u64>, UInt)> = vec![];
    let mut push = |l: Vec<u64>, rep: &mut Report| {
        let v = fc.dec(&l);
        if from_limbs(&l) >= fc.p {
            rep.violation(fc.sig("history", "non-canonical"), json!({"config": fc.name, "raw": hex_limbs(&l)}));
        }
        pool.push((l, v));
    };
    push(pf.zero(), rep);
    push(pf.one(), rep);
    push(fc.enc(&(&fc.p - UInt::one())), rep);
    for _ in 0..n {
        let a = fc.gen(rng);
        let b = fc.gen(rng);
        let va = fc.dec(&a);
        push(a.clone(), rep);
        push(pf.bin(1, 0, &pf.bin(0, 0, &a, &b), &b), rep); // a+b-b
        if !pf.is_zero(&b) {
            push(pf.bin(3, 0, &pf.bin(2, 0, &a, &b), &b), rep); // (a*b)/b
        }
        push(pf.un(0, &pf.un(0, &a)), rep); // -(-a)
        if let Some(s) = pf.from_str(&va.to_string()) {
            push(s, rep);
        }
        push(pf.from_bytes_mod_order(true, &va.to_bytes_le()), rep);
        push(pf.from_biguint(&(&va + &fc.p)), rep);
        if let Some(x) = pf.from_bigint(&oracle::to_limbs(&va, fc.n)) {
            push(x, rep);
        }
    }
    for i in 0..pool.len() {
        for j in 0..pool.len() {
            let e = pool[i].1.cmp(&pool[j].1);
            rep.eval(mix(fc.cd, digest(&("eqord", &pool[i].0, &pool[j].0))), i != j);
            rep.class(match e { Ordering::Equal if i != j => "pair: same value through different histories", Ordering::Equal => "pair: same entry", _ => "pair: different values" });
            let (c, pc, eq) = pf.cmp(&pool[i].0, &pool[j].0);
            let (c2, _, _) = pf.cmp(&pool[j].0, &pool[i].0);
            let mut bad = None;
            if eq != (e == Ordering::Equal) {
                bad = Some("eq");
            } else if c != e || pc != Some(e) {
                bad = Some("cmp-not-integer-order");
            } else if c2 != e.reverse() {
                bad = Some("cmp-antisymmetry");
            } else if e == Ordering::Equal && pf.hash(&pool[i].0) != pf.hash(&pool[j].0) {
                bad = Some("hash");
            }
            if let Some(b) = bad {
                rep.violation(fc.sig("eqord", b), json!({"config": fc.name, "a": pool[i].1.to_string(), "b": pool[j].1.to_string(), "a_raw": hex_limbs(&pool[i].0), "b_raw": hex_limbs(&pool[j].0)}));
            }
        }
        // predicates agree with comparison against the constants
        let (_, _, eq0) = pf.cmp(&pool[i].0, &pf.zero());
        let (_, _, eq1) = pf.cmp(&pool[i].0, &pf.one());
        if pf.is_zero(&pool[i].0) != eq0 || pf.is_one(&pool[i].0) != eq1 || eq0 != pool[i].1.is_zero() || eq1 != pool[i].1.is_one() {
            rep.violation(fc.sig("eqord", "is_zero-is_one"), json!({"config": fc.name, "a": pool[i].1.to_string()}));
        }
    }
    rep.sample(&format!("c19/{}", fc.name), || json!({"config": fc.name, "pool": pool.len(), "distinct_values": pool.iter().map(|p| p.1.to_string()).collect::<HashSet<_>>().len()}));
}

/// documented order of tower elements: compare flat base-prime-field coordinates from the last
/// (highest coefficient) to the first
fn tower_order(a: &[UInt], b: &[UInt]) -> Ordering {
    for i in (0..a.len()).rev() {
        match a[i].cmp(&b[i]) {
            Ordering::Equal => {},
            o => return o,
        }
    }
    Ordering::Equal
}

pub fn tower<F: TowerSpec>(name: &str, rep: &mut Report, rng: &mut Rng, args: &Args) {
    use ark_serialize::{CanonicalDeserialize, CanonicalSerialize};
    let tc = TC::<F>::new(name);
    rep.config(name);
    let n = args.pick(8, 70);
    let mut pool: Vec<F> = vec![F::zero(), F::one(), -F::one()];
    for k in 0..n {
        let a = tc.gen_class(k as u32 + 2, rng, rep);
        let b = tc.gen(rng, rep);
        pool.push(a);
        pool.push(a + b - b);
        if !b.is_zero() {
            pool.push((a * b) / b);
        }
        pool.push(-(-a));
        pool.push(unflat::<F>(&flat(&a)));
        let mut bytes = vec![];
        a.serialize_compressed(&mut bytes).unwrap();
        if let Ok(x) = F::deserialize_compressed(&bytes[..]) {
            pool.push(x);
        }
        // neighbours in the documented order: differ only in the lowest / highest coordinate
        let mut f = flat(&a);
        f[0] = (&f[0] + UInt::one()) % &tc.p;
        pool.push(unflat::<F>(&f));
        let last = f.len() - 1;
        f[last] = (&f[last] + UInt::one()) % &tc.p;
        pool.push(unflat::<F>(&f));
    }
    let flats: Vec<Vec<UInt>> = pool.iter().map(flat).collect();
    for i in 0..pool.len() {
        for j in 0..pool.len() {
            let e = tower_order(&flats[i], &flats[j]);
            rep.eval(digest(&(name, "eqord", &pool[i], &pool[j])), i != j);
            rep.class(match e { Ordering::Equal if i != j => "pair: same value through different histories", Ordering::Equal => "pair: same entry", _ => "pair: different values" });
            let mut bad = None;
            if (pool[i] == pool[j]) != (e == Ordering::Equal) {
                bad = Some("eq");
            } else if pool[i].cmp(&pool[j]) != e || pool[i].partial_cmp(&pool[j]) != Some(e) {
                bad = Some("cmp-not-documented-lexicographic-order");
            } else if pool[j].cmp(&pool[i]) != e.reverse() {
                bad = Some("cmp-antisymmetry");
            } else if e == Ordering::Equal && h(&pool[i]) != h(&pool[j]) {
                bad = Some("hash");
            }
            if let Some(b) = bad {
                rep.violation(format!("tower/{name}/eqord/{b}"), json!({"config": name, "a": flats[i].iter().map(|u| u.to_string()).collect::<Vec<_>>(), "b": flats[j].iter().map(|u| u.to_string()).collect::<Vec<_>>()}));
            }
        }
        if pool[i].is_zero() != (pool[i] == F::zero()) || pool[i].is_one() != (pool[i] == F::one()) {
            rep.violation(format!("tower/{name}/eqord/is_zero-is_one"), json!({"config": name}));
        }
    }
    // transitivity on random triples and sortedness
    for _ in 0..args.pick(300, 5000) {
        let (a, b, c) = (&pool[rng.next_u32() as usize % pool.len()], &pool[rng.next_u32() as usize % pool.len()], &pool[rng.next_u32() as usize % pool.len()]);
        if a <= b && b <= c && !(a <= c) {
            rep.violation(format!("tower/{name}/eqord/transitivity"), json!({"config": name}));
        }
    }
    let mut sorted = pool.clone();
    sorted.sort();
    let mut fs = flats.clone();
    fs.sort_by(|a, b| tower_order(a, b));
    if sorted.iter().map(flat).collect::<Vec<_>>() != fs {
        rep.violation(format!("tower/{name}/eqord/sort"), json!({"config": name}));
    }
    // as keys of ordered / hashed sets the pool collapses to the distinct mathematical values
    let distinct: HashSet<Vec<String>> = flats.iter().map(|f| f.iter().map(|u| u.to_string()).collect()).collect();
    let hs: HashSet<F> = pool.iter().copied().collect();
    let bs: BTreeSet<F> = pool.iter().copied().collect();
    if hs.len() != distinct.len() || bs.len() != distinct.len() {
        rep.violation(format!("tower/{name}/eqord/set-cardinality"), json!({"config": name, "hash_set": hs.len(), "btree_set": bs.len(), "expected": distinct.len()}));
    }
    rep.sample(&format!("c19/{name}"), || json!({"config": name, "pool": pool.len(), "distinct_values": distinct.len()}));
}

pub fn items(_args: &Args) -> Vec<Item> {
    use cfgs::shipped::*;
    let mut v: Vec<Item> = vec![];
    macro_rules! bi {
        ($($n:literal),*) => { $( v.push(Item::new(format!("c19/BigInt<{}>", $n), |r, g, a| bigint::<$n>(r, g, a))); )* };
    }
    bi!(1, 2, 3, 4, 6, 12, 13);
    let mut all = crate::registry::all_prime_fields();
    all.sort_by_key(|c| std::cmp::Reverse(c.pf.n()));
    for c in all {
        v.push(Item::new(format!("c19/{}", c.name), move |rep, rng, args| {
            rep.require_here("pair: same value through different histories");
            rep.require_here("pair: different values");
            let fc = FC::new(&c);
            prime_field(&fc, rep, rng, args);
        }));
    }
    macro_rules! tw {
        ($name:literal, $ty:ty) => {
            v.push(Item::new(format!("c19/{}", $name), move |rep, rng, args| {
                rep.require_here("pair: same value through different histories");
                rep.require_here("pair: different values");
                tower::<$ty>($name, rep, rng, args)
            }));
        };
    }
    tw!("bls12_377::Fq2", bls12_377::Fq2);
    tw!("bls12_381::Fq2", bls12_381::Fq2);
    tw!("bn254::Fq2", bn254::Fq2);
    tw!("mnt4_298::Fq2", mnt4_298::Fq2);
    tw!("mnt4_753::Fq2", mnt4_753::Fq2);
    tw!("tc::bls12_381::Fq2", tc::bls12_381::Fq2);
    tw!("bw6_761::Fq3", bw6_761::Fq3);
    tw!("bw6_767::Fq3", bw6_767::Fq3);
    tw!("cp6_782::Fq3", cp6_782::Fq3);
    tw!("mnt6_298::Fq3", mnt6_298::Fq3);
    tw!("mnt6_753::Fq3", mnt6_753::Fq3);
    tw!("tc::mnt6_753::Fq3", tc::mnt6_753::Fq3);
    tw!("mnt4_298::Fq4", mnt4_298::Fq4);
    tw!("mnt4_753::Fq4", mnt4_753::Fq4);
    tw!("bw6_761::Fq6", bw6_761::Fq6);
    tw!("mnt6_298::Fq6", mnt6_298::Fq6);
    tw!("mnt6_753::Fq6", mnt6_753::Fq6);
    tw!("bls12_377::Fq6", bls12_377::Fq6);
    tw!("bls12_381::Fq6", bls12_381::Fq6);
    tw!("bn254::Fq6", bn254::Fq6);
    tw!("bls12_377::Fq12", bls12_377::Fq12);
    tw!("bls12_381::Fq12", bls12_381::Fq12);
    tw!("bn254::Fq12", bn254::Fq12);
    tw!("tc::bls12_381::Fq12", tc::bls12_381::Fq12);
    tw!("toy::Fp2<7>", cfgs::toy_towers::F7_2);
    tw!("toy::Fp2<17>", cfgs::toy_towers::F17_2);
    tw!("toy::Fp3<7>", cfgs::toy_towers::F7_3);
    tw!("toy::Fp3<13>", cfgs::toy_towers::F13_3);
    v
}
