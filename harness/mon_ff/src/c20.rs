//! C20, run-time part for the `const fn` constructors (see `fadapt::constrt`): every one of the 204
//! prime-field configurations.
use fadapt::constrt::*;
use monitor::*;

pub use fadapt::constrt::RULE;

pub fn items(_args: &Args) -> Vec<Item> {
    let mut v = vec![];
    let mut all = crate::registry::all_prime_fields();
    all.sort_by_key(|c| std::cmp::Reverse(c.pf.n()));
    for c in all {
        let n = c.pf.n();
        v.push(Item::new(format!("c20rt/{}", c.name), move |rep, rng, args| {
            let variant = if c.hand {
                "hand"
            } else if c.name.contains("/d") {
                "derive"
            } else {
                "shipped"
            };
            let fc = FC::new(&c.name, variant, c.pf.as_ref());
            for r in required(n) {
                rep.require_here(r);
            }
            run_field(&fc, rep, rng, args);
        }));
    }
    v
}
