//! Field-layer monitors: C15 (big integers), C01 (prime fields), C02 (towers), C11 (square roots),
//! and the field part of C19.
#![allow(deprecated)]
use monitor::*;
use std::time::Instant;


mod c01;
mod c02;
mod c11;
mod c15;
mod c19;
mod c20;
mod registry;

fn main() {
    let args = Args::parse();
    let t0 = Instant::now();
    let (items, rule): (Vec<Item>, &str) = match args.prop.as_str() {
        "C15" => (c15::items(&args), c15::RULE),
        "C01" => (c01::items(&args), c01::RULE),
        "C02" => (c02::items(&args), c02::RULE),
        "C11" => (c11::items(&args), c11::RULE),
        "C19" => (c19::items(&args), c19::RULE),
        "C20" => (c20::items(&args), c20::RULE),
        p => panic!("mon_ff does not serve property {p}"),
    };
    let rep = run_items(&args, items);
    finish(&args, "mon_ff", rule, rep, t0)
}
