//! All prime-field configurations under test: the generated grid (derive + hand-written variants)
//! and every configuration shipped in /repo. The adapters are instantiated in the reg_* crates.
use fadapt::Cfg;

pub fn grid_fields() -> Vec<Cfg> {
    let mut v = reg_q0::fields();
    v.extend(reg_q1::fields());
    v.extend(reg_q2::fields());
    v.extend(reg_q3::fields());
    v
}

pub fn shipped_fields() -> Vec<Cfg> {
    reg_shipped::fields()
}

pub fn all_prime_fields() -> Vec<Cfg> {
    let mut v = grid_fields();
    v.extend(shipped_fields());
    v
}
