//! C13 — hash-to-field and hash-to-curve follow RFC 9380 and always land on the curve / in the subgroup.
//!
//! The monitor (a) checks in-process predicates on every event with plain field operations and
//! (b) records an event log; `/verif/pyref/check_h2c.py` recomputes every recorded value with an
//! independent Python implementation of RFC 9380 (`/verif/pyref/rfc9380.py`).
use crate::toy::*;
use ark_ec::{
    bls12::Bls12Config,
    hashing::{
        curve_maps::{
            elligator2::{Elligator2Config, Elligator2Map},
            swu::{SWUConfig, SWUMap},
            wb::{WBConfig, WBMap},
        },
        map_to_curve_hasher::{MapToCurve, MapToCurveBasedHasher},
        HashToCurve,
    },
    short_weierstrass as sw, twisted_edwards as te,
    twisted_edwards::MontCurveConfig,
    AffineRepr, CurveGroup,
};
use ark_ff::{
    field_hashers::{hash_to_field as xof_hash_to_field, DefaultFieldHasher, HashToField},
    BigInteger, Field, One, PrimeField, UniformRand, Zero,
};
use ark_std::rand::RngCore;
use blake2::{Blake2b512, Blake2s256};
use monitor::*;
use sha2::digest::{crypto_common::BlockSizeUser, ExtendableOutput, FixedOutputReset, Update};
use sha2::{Sha256, Sha384, Sha512};
use sha3::{Sha3_256, Sha3_512, Shake128, Shake256};
use std::str::FromStr;
use std::sync::Mutex;

pub const RULE: &str = "cases = (a) hash_to_field events (field, hash function, security parameter k, element count N, \
message, DST) over message lengths 0..300 incl. block-size boundaries, DST lengths {0,1,16,43,255,256,257,1000}, \
requested lengths from 1 byte to the 255*b_len limit; (b) map_to_curve events (suite, map, field element u) with u from \
structural values (0, +-1, small, (p+-1)/2, roots of Z^2u^4+Zu^2, inputs with g(x1)=0, Fp2 elements with a zero \
coordinate), u/-u pairs and uniform elements, toy configurations enumerated over the whole field; (c) hash-to-curve events \
(suite, hash function, message, DST). Every event is checked in-process (on-curve by plain field operations, sgn0 rule, \
r*P = 0, determinism, no panic) and recomputed offline by an independent Python RFC 9380 implementation. Every case is \
counted as non-trivial (hash inputs and exceptional u values such as 0 are exactly the cases of interest); distinct = \
distinct digest of (kind, configuration, inputs)";

// ------------------------------------------------------------------------------------------------
// event log

static EVENTS: Mutex<Vec<(String, Vec<String>)>> = Mutex::new(Vec::new());

pub struct Cx<'a> {
    pub rep: &'a mut Report,
    pub ev: Vec<String>,
}

impl<'a> Cx<'a> {
    fn new(rep: &'a mut Report) -> Self {
        Cx { rep, ev: Vec::new() }
    }
    fn event(&mut self, v: Value) {
        self.ev.push(serde_json::to_string(&v).unwrap());
    }
    fn flush(self) {
        let name = self.rep.cur_item.clone();
        EVENTS.lock().unwrap().push((name, self.ev));
    }
}

pub fn write_events(path: &str) -> std::io::Result<usize> {
    use std::io::Write;
    let mut all = EVENTS.lock().unwrap();
    all.sort();
    let mut f = std::io::BufWriter::new(std::fs::File::create(path)?);
    let mut n = 0;
    for p in all_suite_params() {
        writeln!(f, "{}", serde_json::to_string(&p).unwrap())?;
    }
    for (item, evs) in all.iter() {
        for e in evs {
            // splice the item name in without re-parsing
            writeln!(f, "{{\"item\":{},{}", serde_json::to_string(item).unwrap(), &e[1..])?;
            n += 1;
        }
    }
    f.flush()?;
    Ok(n)
}

// ------------------------------------------------------------------------------------------------
// field helpers (export + RFC 9380 sgn0 written from the specification text)

fn fe<F: Field>(x: &F) -> Value {
    Value::Array(x.to_base_prime_field_elements().map(|c| Value::String(c.into_bigint().to_string())).collect())
}

fn fes<F: Field>(xs: &[F]) -> Value {
    Value::Array(xs.iter().map(fe).collect())
}

/// flat list of decimal strings for prime fields, nested for extensions
fn fe_list<F: Field>(xs: &[F]) -> Value {
    if F::extension_degree() == 1 {
        Value::Array(
            xs.iter()
                .map(|x| Value::String(x.to_base_prime_field_elements().next().unwrap().into_bigint().to_string()))
                .collect(),
        )
    } else {
        fes(xs)
    }
}

fn field_desc<F: Field>() -> Value {
    let m = F::extension_degree() as usize;
    let mut d = json!({"p": F::BasePrimeField::MODULUS.to_string(), "m": m,
                       "bits": F::BasePrimeField::MODULUS_BIT_SIZE});
    if m == 2 {
        let i = F::from_base_prime_field_elems([F::BasePrimeField::zero(), F::BasePrimeField::one()]).unwrap();
        let beta = i * i; // i^2 = beta, computed by the field itself and cross-checked in Python (beta must be a non-square)
        d["beta"] = fe(&beta);
    }
    d
}

/// RFC 9380 section 4.1, sgn0 for an extension of degree m (little-endian coordinate order).
fn sgn0<F: Field>(x: &F) -> bool {
    let mut sign = false;
    let mut zero = true;
    for c in x.to_base_prime_field_elements() {
        let sign_i = c.into_bigint().is_odd();
        let zero_i = c.is_zero();
        sign = sign || (zero && sign_i);
        zero = zero && zero_i;
    }
    sign
}

fn from_small<F: Field>(cs: &[i64]) -> F {
    let m = F::extension_degree() as usize;
    let conv = |v: i64| {
        let a = F::BasePrimeField::from(v.unsigned_abs());
        if v < 0 {
            -a
        } else {
            a
        }
    };
    F::from_base_prime_field_elems((0..m).map(|j| conv(cs.get(j).copied().unwrap_or(0)))).unwrap()
}

fn from_dec<F: Field>(cs: &[String]) -> Option<F> {
    let mut v = Vec::new();
    for c in cs {
        v.push(F::BasePrimeField::from_str(c).ok()?);
    }
    F::from_base_prime_field_elems(v)
}

fn c0_is_zero<F: Field>(x: &F) -> bool {
    x.to_base_prime_field_elements().next().unwrap().is_zero()
}

fn horner<F: Field>(coeffs: &[F], x: &F) -> F {
    let mut acc = F::zero();
    for c in coeffs.iter().rev() {
        acc = acc * x + c;
    }
    acc
}

// ------------------------------------------------------------------------------------------------
// points

pub trait Pt: AffineRepr {
    fn coords(&self) -> Option<(Self::BaseField, Self::BaseField)>;
    /// curve equation re-evaluated with plain field operations
    fn on_curve_plain(&self) -> bool;
}

impl<P: sw::SWCurveConfig> Pt for sw::Affine<P> {
    fn coords(&self) -> Option<(P::BaseField, P::BaseField)> {
        if self.infinity {
            None
        } else {
            Some((self.x, self.y))
        }
    }
    fn on_curve_plain(&self) -> bool {
        if self.infinity {
            return true;
        }
        let (x, y) = (self.x, self.y);
        y * y == x * x * x + P::COEFF_A * x + P::COEFF_B
    }
}

impl<P: te::TECurveConfig> Pt for te::Affine<P> {
    fn coords(&self) -> Option<(P::BaseField, P::BaseField)> {
        Some((self.x, self.y))
    }
    fn on_curve_plain(&self) -> bool {
        let (x2, y2) = (self.x * self.x, self.y * self.y);
        P::COEFF_A * x2 + y2 == P::BaseField::one() + P::COEFF_D * x2 * y2
    }
}

fn pt_json<A: Pt>(p: &A) -> Value {
    match p.coords() {
        Some((x, y)) => json!({"x": fe(&x), "y": fe(&y)}),
        None => json!({"inf": true}),
    }
}

fn limbs_hex(l: &[u64]) -> String {
    hex_limbs(l)
}

// ------------------------------------------------------------------------------------------------
// suite parameters exported for the Python side

fn sw_curve_desc<P: sw::SWCurveConfig>() -> Value {
    json!({"A": fe(&P::COEFF_A), "B": fe(&P::COEFF_B)})
}

fn wb_params<P: WBConfig>(suite: &str, rfc_suite: &str, x: &str, h_eff_rule: &str) -> Value {
    let iso = &P::ISOGENY_MAP;
    json!({
        "kind": "suite", "suite": suite, "rfc_suite": rfc_suite, "map": "wb", "model": "sw",
        "field": field_desc::<P::BaseField>(),
        "curve": sw_curve_desc::<P>(),
        "iso_curve": sw_curve_desc::<P::IsogenousCurve>(),
        "Z": fe(&<P::IsogenousCurve as SWUConfig>::ZETA),
        "iso_map": {
            "x_num": fes(iso.x_map_numerator), "x_den": fes(iso.x_map_denominator),
            "y_num": fes(iso.y_map_numerator), "y_den": fes(iso.y_map_denominator),
        },
        "cofactor": limbs_hex(P::COFACTOR),
        "r": <P::ScalarField as PrimeField>::MODULUS.to_string(),
        "x": x, "h_eff_rule": h_eff_rule, "k": 128,
    })
}

fn swu_params<P: SWUConfig>(suite: &str) -> Value {
    json!({
        "kind": "suite", "suite": suite, "rfc_suite": "", "map": "swu", "model": "sw",
        "field": field_desc::<P::BaseField>(),
        "curve": sw_curve_desc::<P>(),
        "Z": fe(&P::ZETA),
        "cofactor": limbs_hex(P::COFACTOR),
        "r": <P::ScalarField as PrimeField>::MODULUS.to_string(),
        "x": "0", "h_eff_rule": "cofactor", "k": 128,
    })
}

fn ell2_params<P: Elligator2Config>(suite: &str, rfc_suite: &str) -> Value {
    json!({
        "kind": "suite", "suite": suite, "rfc_suite": rfc_suite, "map": "ell2", "model": "te",
        "field": field_desc::<P::BaseField>(),
        "curve": {"a": fe(&<P as te::TECurveConfig>::COEFF_A), "d": fe(&<P as te::TECurveConfig>::COEFF_D)},
        "mont": {"J": fe(&<P as MontCurveConfig>::COEFF_A), "K": fe(&<P as MontCurveConfig>::COEFF_B)},
        "Z": fe(&P::Z),
        "cofactor": limbs_hex(P::COFACTOR),
        "r": <P::ScalarField as PrimeField>::MODULUS.to_string(),
        "x": "0", "h_eff_rule": "cofactor", "k": 128,
    })
}

fn bls_x<C: Bls12Config>() -> String {
    let mut s = String::new();
    if C::X_IS_NEGATIVE {
        s.push('-');
    }
    s.push_str(&oracle_free_dec(C::X));
    s
}

/// decimal string of a little-endian limb slice (no bignum crate needed: X has one limb everywhere)
fn oracle_free_dec(l: &[u64]) -> String {
    assert!(l.iter().skip(1).all(|x| *x == 0), "multi-limb BLS parameter: extend oracle_free_dec");
    l[0].to_string()
}

const S_381G1: &str = "bls12_381.g1";
const S_381G2: &str = "bls12_381.g2";
const S_T381G1: &str = "test_curves.bls12_381.g1";
const S_T381G2: &str = "test_curves.bls12_381.g2";
const S_377G1: &str = "bls12_377.g1";
const S_377G2: &str = "bls12_377.g2";
const S_BANDER: &str = "bandersnatch";
const S_TOYSWU: &str = "toy_swu_f127";
const S_TOYWB: &str = "toy_wb_f127";
const S_TOYELL2: &str = "toy_ell2_f101";
const S_TOYELL2B: &str = "toy_ell2_f107";

pub fn all_suite_params() -> Vec<Value> {
    let x381 = bls_x::<ark_bls12_381::Config>();
    let xt381 = bls_x::<ark_test_curves::bls12_381::Config>();
    let x377 = bls_x::<ark_bls12_377::Config>();
    vec![
        wb_params::<ark_bls12_381::g1::Config>(S_381G1, "BLS12381G1_XMD:SHA-256_SSWU_RO_", &x381, "bls12-g1"),
        wb_params::<ark_bls12_381::g2::Config>(S_381G2, "BLS12381G2_XMD:SHA-256_SSWU_RO_", &x381, "bls12-g2"),
        wb_params::<ark_test_curves::bls12_381::g1::Config>(S_T381G1, "BLS12381G1_XMD:SHA-256_SSWU_RO_", &xt381, "bls12-g1"),
        wb_params::<ark_test_curves::bls12_381::g2::Config>(S_T381G2, "BLS12381G2_XMD:SHA-256_SSWU_RO_", &xt381, "bls12-g2"),
        wb_params::<ark_bls12_377::g1::Config>(S_377G1, "BLS12377G1_XMD:SHA-256_SSWU_RO_", &x377, "bls12-g1"),
        wb_params::<ark_bls12_377::g2::Config>(S_377G2, "BLS12377G2_XMD:SHA-256_SSWU_RO_", &x377, "bls12-g2"),
        ell2_params::<ark_ed_on_bls12_381_bandersnatch::BandersnatchConfig>(S_BANDER, "Bandersnatch_XMD:SHA-512_ELL2_RO_"),
        swu_params::<ToySwu>(S_TOYSWU),
        wb_params::<ToyWb>(S_TOYWB, "", "0", "cofactor"),
        ell2_params::<ToyEll2>(S_TOYELL2, ""),
        ell2_params::<ToyEll2b>(S_TOYELL2B, ""),
    ]
}

// ------------------------------------------------------------------------------------------------
// hash functions

pub trait HName {
    const NAME: &'static str;
    /// output size in bytes (RFC: b_in_bytes) and input block size (RFC: s_in_bytes), from the
    /// hash functions' specifications (FIPS 180-4, FIPS 202, RFC 7693), not from the digest crate
    const B: usize;
    const S: usize;
}
macro_rules! hname {
    ($t:ty, $n:expr, $b:expr, $s:expr) => {
        impl HName for $t {
            const NAME: &'static str = $n;
            const B: usize = $b;
            const S: usize = $s;
        }
    };
}
hname!(Sha256, "SHA-256", 32, 64);
hname!(Sha384, "SHA-384", 48, 128);
hname!(Sha512, "SHA-512", 64, 128);
hname!(Sha3_256, "SHA3-256", 32, 136);
hname!(Sha3_512, "SHA3-512", 64, 72);
hname!(Blake2b512, "BLAKE2b-512", 64, 128);
hname!(Blake2s256, "BLAKE2s-256", 32, 64);

// `BlockSizeUser` is not needed by the current `DefaultFieldHasher`; it is listed so that the monitor also builds
// against a tree where the Z_pad fix (findings/C13-expand-message-zpad-length.md) added that bound.
pub trait Hh: FixedOutputReset + BlockSizeUser + Default + Clone + HName {}
impl<T: FixedOutputReset + BlockSizeUser + Default + Clone + HName> Hh for T {}

// ------------------------------------------------------------------------------------------------
// workload generators

const MSG_LENS: &[usize] = &[
    0, 1, 2, 3, 31, 32, 33, 54, 55, 56, 57, 62, 63, 64, 65, 100, 118, 119, 120, 126, 127, 128, 129, 135, 136, 137, 191,
    192, 193, 255, 256, 257, 299, 300,
];
const DST_LENS: &[usize] = &[0, 1, 16, 43, 255, 256, 257, 1000];
/// the five messages of the RFC 9380 appendix J/K vectors
const RFC_MSGS: &[&str] = &["", "abc", "abcdef0123456789",
    "q128_qqqqqqqqqqqqqqqqqqqqqqqqqqqqqqqqqqqqqqqqqqqqqqqqqqqqqqqqqqqqqqqqqqqqqqqqqqqqqqqqqqqqqqqqqqqqqqqqqqqqqqqqqqqqqqqqqqqqqqqqqqqqqqq",
    "a512_aaaaaaaaaaaaaaaaaaaaaaaaaaaaaaaaaaaaaaaaaaaaaaaaaaaaaaaaaaaaaaaaaaaaaaaaaaaaaaaaaaaaaaaaaaaaaaaaaaaaaaaaaaaaaaaaaaaaaaaaaaaaaaaaaaaaaaaaaaaaaaaaaaaaaaaaaaaaaaaaaaaaaaaaaaaaaaaaaaaaaaaaaaaaaaaaaaaaaaaaaaaaaaaaaaaaaaaaaaaaaaaaaaaaaaaaaaaaaaaaaaaaaaaaaaaaaaaaaaaaaaaaaaaaaaaaaaaaaaaaaaaaaaaaaaaaaaaaaaaaaaaaaaaaaaaaaaaaaaaaaaaaaaaaaaaaaaaaaaaaaaaaaaaaaaaaaaaaaaaaaaaaaaaaaaaaaaaaaaaaaaaaaaaaaaaaaaaaaaaaaaaaaaaaaaaaaaaaaaaaaaaaaaaaaaaaaaaaaaaaaaaaaaaaaaaaaaaaaaaaaaaaaaaaaaaaaaaaaaaaaaaaaaaaaaaaaaaaaaaaaaaaaaaaaaaaaaaaaaaaaaaaaaaaaaaaaaaaaaaaaaaaaaaa"];

fn rand_bytes(rng: &mut Rng, n: usize) -> Vec<u8> {
    let mut v = vec![0u8; n];
    rng.fill_bytes(&mut v);
    v
}

fn gen_msg(rng: &mut Rng, n: usize) -> Vec<u8> {
    match rng.next_u32() % 8 {
        0 => vec![0u8; n],
        1 => vec![0xffu8; n],
        2 => (0..n).map(|i| b'a' + (i % 26) as u8).collect(),
        _ => rand_bytes(rng, n),
    }
}

/// DST of the requested length; length 43 is the RFC test-vector tag layout "QUUX-V01-CS02-with-<suite id>".
fn gen_dst(rng: &mut Rng, n: usize, rfc_suite: &str) -> Vec<u8> {
    if n == 43 && !rfc_suite.is_empty() {
        let mut d = format!("QUUX-V01-CS02-with-{rfc_suite}").into_bytes();
        d.resize(43, b'_');
        return d;
    }
    match rng.next_u32() % 4 {
        0 => (0..n).map(|i| b"QUUX-V01-CS02-with-expander-"[i % 28]).collect(),
        _ => rand_bytes(rng, n),
    }
}

/// (msg_len, dst_len) pairs of chunk `chunk` of `nchunks`: the structural grid plus random pairs.
fn msg_dst_grid(args: &Args, rng: &mut Rng, chunk: usize, nchunks: usize) -> Vec<(usize, usize)> {
    let mut all = Vec::new();
    if args.quick() {
        for &m in MSG_LENS {
            for &d in DST_LENS {
                all.push((m, d));
            }
        }
    } else {
        for m in 0..=300 {
            for &d in DST_LENS {
                all.push((m, d));
            }
        }
    }
    let mut v: Vec<(usize, usize)> = all.into_iter().enumerate().filter(|(i, _)| i % nchunks == chunk).map(|(_, p)| p).collect();
    let extra = args.pick(48, 1000) / nchunks;
    for _ in 0..extra {
        let d = if rng.next_u32() % 3 == 0 { DST_LENS[rng.next_u32() as usize % DST_LENS.len()] } else { rng.next_u32() as usize % 300 };
        v.push((rng.next_u32() as usize % 301, d));
    }
    v
}

fn msg_classes(rep: &mut Report, msg: &[u8], dst: &[u8], s: usize) {
    rep.class_if(msg.is_empty(), "empty message");
    rep.class_if(dst.len() > 255, "oversize DST (> 255 bytes, hashed with H2C-OVERSIZE-DST-)");
    rep.class_if(dst.len() == 255, "DST of exactly 255 bytes (largest not hashed)");
    rep.class_if(dst.is_empty(), "empty DST");
    rep.class_if(!msg.is_empty() && msg.len() < s, "message shorter than one hash block");
    rep.class_if(msg.len() + 1 == s, "message length = block size - 1");
    rep.class_if(msg.len() == s, "message length = block size");
    rep.class_if(msg.len() == s + 1, "message length = block size + 1");
    rep.class_if(msg.len() > s, "message longer than one hash block");
}

// ------------------------------------------------------------------------------------------------
// (a) hash_to_field events

/// RFC 9380 section 5.2: L = ceil((ceil(log2(p)) + k) / 8)
fn rfc_l(bits: usize, k: usize) -> usize {
    (bits + k + 7) / 8
}

fn h2f<F: Field, H: Hh, const K: usize, const N: usize>(cx: &mut Cx, fname: &str, msg: &[u8], dst: &[u8]) {
    let m = F::extension_degree() as usize;
    let l = rfc_l(F::BasePrimeField::MODULUS_BIT_SIZE as usize, K);
    let len = N * m * l;
    let ell = len.div_ceil(H::B);
    let cfg = format!("{}/{}/k={}", H::NAME, fname, K);
    let d = digest(&("h2f", &cfg, N, msg, dst));
    cx.rep.eval(d, true);
    cx.rep.config(&format!("h2f:{cfg}"));
    cx.rep.op("hash_to_field");
    let detail = || json!({"field": fname, "hash": H::NAME, "k": K, "count": N, "msg": hex_bytes(msg), "dst": hex_bytes(dst)});
    if ell > 255 || len > 65535 {
        // RFC 9380 5.3.1 step 3: abort. The implementation documents this with an assert!.
        cx.rep.class("requested length above the 255*b_len limit -> documented abort");
        let r = guard(|| {
            let h = <DefaultFieldHasher<H, K> as HashToField<F>>::new(dst);
            let u: [F; N] = h.hash_to_field::<N>(msg);
            u.len()
        });
        match r {
            Err(p) if !p.in_harness() => {},
            Err(p) => cx.rep.harness_errors.push(format!("h2f limit case: harness panic {} at {}", p.msg, p.site())),
            Ok(_) => cx.rep.violation("h2c/expand_message_xmd/over-limit/no-abort".to_string(), detail()),
        }
        return;
    }
    msg_classes(cx.rep, msg, dst, H::S);
    cx.rep.class_if(ell > 1, "ell > 1 (more than one output block)");
    cx.rep.class_if(ell == 1, "ell = 1");
    cx.rep.class_if(ell == 255, "ell = 255 (largest allowed)");
    cx.rep.class_if(len % H::B != 0, "requested length not a multiple of b_len (last block truncated)");
    cx.rep.class_if(m > 1, "extension field (m > 1) hash_to_field");
    cx.rep.class_if(l != H::S, "L (bytes per element) differs from the hash block size");
    let Some(u) = cx.rep.total("h2c/hash_to_field", detail, || {
        let h = <DefaultFieldHasher<H, K> as HashToField<F>>::new(dst);
        let u: [F; N] = h.hash_to_field::<N>(msg);
        u
    }) else {
        return;
    };
    // determinism: a second hasher instance and a second call on the same instance
    let again = cx.rep.total("h2c/hash_to_field", detail, || {
        let h = <DefaultFieldHasher<H, K> as HashToField<F>>::new(dst);
        let _u1: [F; N] = h.hash_to_field::<N>(msg);
        let u2: [F; N] = h.hash_to_field::<N>(msg);
        u2
    });
    if let Some(u2) = again {
        cx.rep.check(u2 == u, || "h2c/hash_to_field/nondeterministic".to_string(), detail);
    }
    cx.rep.sample(&format!("h2f/{}", H::NAME), || json!({"kind": "hash_to_field", "field": fname, "hash": H::NAME, "k": K,
        "count": N, "msg": hex_bytes(msg), "dst_len": dst.len(), "u0": fe(&u[0])}));
    cx.event(json!({"kind": "h2f", "expander": "xmd", "hash": H::NAME, "fname": fname, "field": field_desc::<F>(), "k": K,
        "count": N, "msg": hex_bytes(msg), "dst": hex_bytes(dst), "u": fe_list(&u[..])}));
}

/// the public XOF-reader based `hash_to_field` (reads L bytes per coordinate from the reader)
fn xof_h2f<F: Field, X: ExtendableOutput + Update + Default, const K: usize>(cx: &mut Cx, xname: &str, fname: &str, input: &[u8], count: usize) {
    let d = digest(&("xof_h2f", xname, fname, K, count, input));
    cx.rep.eval(d, true);
    cx.rep.config(&format!("xof_h2f:{xname}/{fname}/k={K}"));
    cx.rep.op("hash_to_field (XofReader)");
    let detail = || json!({"field": fname, "xof": xname, "k": K, "count": count, "input": hex_bytes(input)});
    let run = || {
        let mut x = X::default();
        x.update(input);
        let mut rd = x.finalize_xof();
        (0..count).map(|_| xof_hash_to_field::<F, _, K>(&mut rd)).collect::<Vec<F>>()
    };
    let Some(u) = cx.rep.total("h2c/xof_hash_to_field", detail, run) else { return };
    if let Some(u2) = cx.rep.total("h2c/xof_hash_to_field", detail, run) {
        cx.rep.check(u2 == u, || "h2c/xof_hash_to_field/nondeterministic".to_string(), detail);
    }
    cx.event(json!({"kind": "xof_h2f", "xof": xname, "fname": fname, "field": field_desc::<F>(), "k": K, "count": count,
        "input": hex_bytes(input), "u": fe_list(&u[..])}));
}

type Fq381 = ark_bls12_381::Fq;
type Fq2_381 = ark_bls12_381::Fq2;
type Fq6_381 = ark_bls12_381::Fq6;
type Fq12_381 = ark_bls12_381::Fq12;
type Fr381 = ark_bls12_381::Fr;
type Fq377 = ark_bls12_377::Fq;
type Fq2_377 = ark_bls12_377::Fq2;
type Fr377 = ark_bls12_377::Fr;
type TFq381 = ark_test_curves::bls12_381::Fq;
type TFq2_381 = ark_test_curves::bls12_381::Fq2;

/// pick (msg, dst) for one h2f case
fn pick_md(rng: &mut Rng, i: usize) -> (Vec<u8>, Vec<u8>) {
    let ml = if i % 2 == 0 { MSG_LENS[(i / 2) % MSG_LENS.len()] } else { rng.next_u32() as usize % 301 };
    let dl = match rng.next_u32() % 3 {
        0 => rng.next_u32() as usize % 300,
        _ => DST_LENS[rng.next_u32() as usize % DST_LENS.len()],
    };
    (gen_msg(rng, ml), gen_dst(rng, dl, ""))
}

macro_rules! h2f_many {
    ($cx:expr, $rng:expr, $reps:expr, $H:ty, $F:ty, $fname:expr, $K:expr, [$($N:expr),*]) => {
        $(
            for i in 0..$reps {
                let (msg, dst) = pick_md($rng, i + $N);
                h2f::<$F, $H, $K, $N>($cx, $fname, &msg, &dst);
            }
        )*
    };
}

/// group A: byte-transparent fields (k = 0, L = 1, 2, 16, 32): u_i is the i-th output byte (mod 251) etc.,
/// so every requested length 1..=255*b_len is observable through the public API.
fn h2f_group_bytes<H: Hh>(rep: &mut Report, rng: &mut Rng, args: &Args) {
    let mut cx = Cx::new(rep);
    for c in ["empty message", "oversize DST (> 255 bytes, hashed with H2C-OVERSIZE-DST-)", "ell > 1 (more than one output block)",
              "ell = 255 (largest allowed)", "requested length not a multiple of b_len (last block truncated)",
              "requested length above the 255*b_len limit -> documented abort",
              "message length = block size - 1", "message length = block size", "message length = block size + 1"] {
        cx.rep.require(c);
    }
    let r = args.pick(6, 60);
    let rb = args.pick(2, 8);
    h2f_many!(&mut cx, rng, r, H, F251, "F251", 0, [1, 2, 3, 16, 31, 32, 33, 47, 48, 49, 63, 64, 65, 96, 97, 127, 128, 129, 192, 255, 256, 257]);
    h2f_many!(&mut cx, rng, rb, H, F251, "F251", 0, [1024, 8129, 8160, 8161, 12240, 12241, 16320, 16321]);
    h2f_many!(&mut cx, rng, r, H, F65521, "F65521", 0, [1, 2, 16, 17, 32, 33]);
    h2f_many!(&mut cx, rng, r, H, FT128, "F(2^128-159)", 0, [1, 2, 3, 4, 5]);
    h2f_many!(&mut cx, rng, r, H, FT256, "F(2^256-189)", 0, [1, 2, 3, 8]);
    h2f_many!(&mut cx, rng, rb, H, FT256, "F(2^256-189)", 0, [255, 256]);
    // block-size boundary messages at full DST grid on the smallest shape
    for &ml in MSG_LENS {
        for &dl in DST_LENS {
            let (msg, dst) = (gen_msg(rng, ml), gen_dst(rng, dl, ""));
            h2f::<F251, H, 0, 32>(&mut cx, "F251", &msg, &dst);
            h2f::<F251, H, 0, 100>(&mut cx, "F251", &msg, &dst);
        }
    }
    cx.flush();
}

/// group B: the fields of the shipped suites with the RFC security parameter k = 128 (and other k)
fn h2f_group_suites<H: Hh>(rep: &mut Report, rng: &mut Rng, args: &Args) {
    let mut cx = Cx::new(rep);
    for c in ["extension field (m > 1) hash_to_field", "ell > 1 (more than one output block)", "empty message",
              "oversize DST (> 255 bytes, hashed with H2C-OVERSIZE-DST-)"] {
        cx.rep.require(c);
    }
    let r = args.pick(8, 80);
    let rb = args.pick(2, 8);
    h2f_many!(&mut cx, rng, r, H, Fq381, "bls12_381::Fq", 128, [1, 2, 3, 4, 8]);
    h2f_many!(&mut cx, rng, rb, H, Fq381, "bls12_381::Fq", 128, [127, 128, 255, 256]);
    h2f_many!(&mut cx, rng, r, H, Fq2_381, "bls12_381::Fq2", 128, [1, 2, 4]);
    h2f_many!(&mut cx, rng, r, H, TFq381, "test_curves::bls12_381::Fq", 128, [1, 2]);
    h2f_many!(&mut cx, rng, r, H, TFq2_381, "test_curves::bls12_381::Fq2", 128, [1, 2]);
    h2f_many!(&mut cx, rng, r, H, Fq6_381, "bls12_381::Fq6", 128, [1, 2]);
    h2f_many!(&mut cx, rng, r, H, Fq12_381, "bls12_381::Fq12", 128, [1, 2]);
    h2f_many!(&mut cx, rng, r, H, Fr381, "bls12_381::Fr", 128, [1, 2, 5]);
    h2f_many!(&mut cx, rng, rb, H, Fr381, "bls12_381::Fr", 128, [170, 171, 255, 256]);
    h2f_many!(&mut cx, rng, r, H, Fq377, "bls12_377::Fq", 128, [1, 2]);
    h2f_many!(&mut cx, rng, r, H, Fq2_377, "bls12_377::Fq2", 128, [1, 2]);
    h2f_many!(&mut cx, rng, r, H, Fr377, "bls12_377::Fr", 128, [1, 2]);
    h2f_many!(&mut cx, rng, r, H, F127, "F127", 128, [1, 2, 7]);
    h2f_many!(&mut cx, rng, r, H, F101, "F101", 128, [1, 2]);
    // other security parameters (L = 48, 61, 80, 96)
    h2f_many!(&mut cx, rng, r, H, Fq381, "bls12_381::Fq", 0, [1, 2]);
    h2f_many!(&mut cx, rng, r, H, Fq381, "bls12_381::Fq", 100, [1, 2]);
    h2f_many!(&mut cx, rng, r, H, Fq381, "bls12_381::Fq", 256, [1, 2]);
    h2f_many!(&mut cx, rng, r, H, Fq2_381, "bls12_381::Fq2", 384, [1, 2]);
    h2f_many!(&mut cx, rng, r, H, Fr381, "bls12_381::Fr", 1, [1, 2]);
    h2f_many!(&mut cx, rng, r, H, Fr381, "bls12_381::Fr", 2, [1, 2]);
    cx.flush();
}

fn xof_group(rep: &mut Report, rng: &mut Rng, args: &Args) {
    let mut cx = Cx::new(rep);
    let r = args.pick(20, 300);
    for i in 0..r {
        let input = gen_msg(rng, [0usize, 1, 135, 136, 137, 167, 168, 169, 300][i % 9]);
        let count = 1 + rng.next_u32() as usize % 6;
        xof_h2f::<Fq381, Shake128, 128>(&mut cx, "SHAKE128", "bls12_381::Fq", &input, count);
        xof_h2f::<Fq2_381, Shake128, 128>(&mut cx, "SHAKE128", "bls12_381::Fq2", &input, count);
        xof_h2f::<Fq381, Shake256, 256>(&mut cx, "SHAKE256", "bls12_381::Fq", &input, count);
        xof_h2f::<Fq2_377, Shake256, 128>(&mut cx, "SHAKE256", "bls12_377::Fq2", &input, count);
        xof_h2f::<Fr381, Shake256, 128>(&mut cx, "SHAKE256", "bls12_381::Fr", &input, count);
        xof_h2f::<F251, Shake128, 0>(&mut cx, "SHAKE128", "F251", &input, 1 + rng.next_u32() as usize % 400);
        xof_h2f::<Fq12_381, Shake128, 128>(&mut cx, "SHAKE128", "bls12_381::Fq12", &input, 1);
    }
    cx.flush();
}

// ------------------------------------------------------------------------------------------------
// (b) map_to_curve events

fn structural_us<F: Field>(rng: &mut Rng) -> Vec<F> {
    let m = F::extension_degree() as usize;
    let mut v: Vec<F> = Vec::new();
    for s in 0..=12i64 {
        v.push(from_small(&[s]));
    }
    let half = F::from(2u64).inverse().unwrap(); // (p+1)/2
    v.push(half);
    v.push(half - F::one()); // (p-1)/2
    if m >= 2 {
        for j in 1..m {
            for s in [1i64, 2, 3, 4, 7, 8] {
                let mut cs = vec![0i64; m];
                cs[j] = s;
                v.push(from_small(&cs)); // c0 = 0: sgn0 is decided by a later coordinate
                cs[0] = 1;
                v.push(from_small(&cs));
                cs[0] = 2;
                v.push(from_small(&cs));
            }
        }
        for _ in 0..8 {
            // (0, random), (random, 0)
            let r = F::BasePrimeField::rand(rng);
            v.push(F::from_base_prime_field_elems((0..m).map(|j| if j == 1 { r } else { F::BasePrimeField::zero() })).unwrap());
            v.push(F::from_base_prime_field_elems((0..m).map(|j| if j == 0 { r } else { F::BasePrimeField::zero() })).unwrap());
        }
    }
    v
}

/// roots of Z^2 u^4 + Z u^2 other than 0: u = +-sqrt(-1/Z) when that is a square (input crafting only;
/// the class is counted from the predicate re-evaluated with plain field operations)
fn swu_exceptional_us<F: Field>(z: F) -> Vec<F> {
    match (-z.inverse().unwrap()).sqrt() {
        Some(s) => vec![s],
        None => vec![],
    }
}

static SPECIAL_U: &str = include_str!("../special_u.json");

/// crafted inputs produced offline by /verif/pyref/gen_h2c_special.py (validated at run time)
fn special_us<F: Field>(suite: &str) -> Vec<(String, F)> {
    let v: Value = serde_json::from_str(SPECIAL_U).expect("special_u.json parses");
    let mut out = Vec::new();
    if let Some(list) = v.get(suite).filter(|_| !suite.starts_with('_')).and_then(|x| x.as_array()) {
        for e in list {
            let class = e["class"].as_str().unwrap_or("").to_string();
            let cs: Vec<String> = e["u"].as_array().map(|a| a.iter().map(|s| s.as_str().unwrap_or("").to_string()).collect()).unwrap_or_default();
            if let Some(u) = from_dec::<F>(&cs) {
                out.push((class, u));
            }
        }
    }
    out
}

fn special_info(suite: &str) -> String {
    let v: Value = serde_json::from_str(SPECIAL_U).expect("special_u.json parses");
    match v.get("_info").and_then(|i| i.get(suite)) {
        Some(i) => i.to_string(),
        None => "no entry in special_u.json: regenerate with pyref/gen_h2c_special.py".to_string(),
    }
}

/// SWU on curve P for one u (and -u): in-process predicates + events. Returns the map output for u.
fn swu_pair<P: SWUConfig>(cx: &mut Cx, suite: &str, which: &str, u: P::BaseField) {
    let a = P::COEFF_A;
    let b = P::COEFF_B;
    let z = P::ZETA;
    let mut outs: Vec<Option<sw::Affine<P>>> = Vec::new();
    for uu in [u, -u] {
        let d = digest(&("map", suite, which, "swu", fe(&uu).to_string()));
        cx.rep.eval(d, true);
        cx.rep.op("SWUMap::map_to_curve");
        let detail = || json!({"suite": suite, "curve": which, "map": "swu", "u": fe(&uu)});
        let sig = |k: &str| format!("h2c/{suite}/swu/{k}");
        // oracle-side facts about the input, plain field operations only
        let zu2 = z * uu * uu;
        let ta = zu2 * zu2 + zu2;
        let x1 = if ta.is_zero() { b * (z * a).inverse().unwrap() } else { -b * a.inverse().unwrap() * (P::BaseField::one() + ta.inverse().unwrap()) };
        let gx1 = x1 * x1 * x1 + a * x1 + b;
        cx.rep.class_if(uu.is_zero(), "u = 0");
        cx.rep.class_if(ta.is_zero(), "exceptional SWU denominator (Z^2 u^4 + Z u^2 = 0)");
        cx.rep.class_if(ta.is_zero() && !uu.is_zero(), "exceptional SWU denominator with u != 0");
        cx.rep.class_if(gx1.is_zero(), "g(x1) = 0 (x1 is the abscissa of a 2-torsion point)");
        cx.rep.class_if(P::BaseField::extension_degree() > 1 && c0_is_zero(&uu) && !uu.is_zero(), "Fp2 input with c0 = 0 (sgn0 decided by c1)");
        let res = cx.rep.total(&sig("map_to_curve"), detail, || SWUMap::<P>::map_to_curve(uu));
        let q = match res {
            Some(Ok(q)) => q,
            Some(Err(e)) => {
                cx.rep.violation(sig("map_to_curve/error"), json!({"suite": suite, "u": fe(&uu), "error": format!("{e:?}")}));
                outs.push(None);
                continue;
            },
            None => {
                outs.push(None);
                continue;
            },
        };
        cx.rep.check(q.on_curve_plain() && !q.infinity, || sig("map_to_curve/off-curve"), || json!({"suite": suite, "curve": which, "u": fe(&uu), "Q": pt_json(&q)}));
        if !q.infinity {
            let square = q.x == x1;
            cx.rep.class_if(square, "gx1 square (x = x1)");
            cx.rep.class_if(!square, "gx1 non-square (x = x2)");
            cx.rep.class_if(P::BaseField::extension_degree() > 1 && c0_is_zero(&q.y) && !q.y.is_zero(), "Fp2 output y with c0 = 0");
            // RFC 9380 6.6.2 step 9/10: sgn0(u) == sgn0(y)
            if !q.y.is_zero() {
                cx.rep.check(sgn0(&q.y) == sgn0(&uu), || sig("map_to_curve/sgn0"), || json!({"suite": suite, "curve": which, "u": fe(&uu), "Q": pt_json(&q)}));
            }
        }
        // determinism
        if let Some(Ok(q2)) = cx.rep.total(&sig("map_to_curve"), detail, || SWUMap::<P>::map_to_curve(uu)) {
            cx.rep.check(q2 == q, || sig("map_to_curve/nondeterministic"), detail);
        }
        cx.event(json!({"kind": "map", "suite": suite, "map": "swu", "curve": which, "u": fe(&uu), "Q": pt_json(&q)}));
        outs.push(Some(q));
    }
    if let (Some(q), Some(qn)) = (outs[0], outs[1]) {
        if !u.is_zero() && !q.infinity && !q.y.is_zero() {
            cx.rep.class("sign flip: u and -u both mapped (outputs must be opposite points)");
            cx.rep.check(qn.x == q.x && qn.y == -q.y, || format!("h2c/{suite}/swu/map_to_curve/sign-of-minus-u"),
                || json!({"suite": suite, "curve": which, "u": fe(&u), "Q(u)": pt_json(&q), "Q(-u)": pt_json(&qn)}));
        }
    }
}

fn wb_pair<P: WBConfig>(cx: &mut Cx, suite: &str, u: P::BaseField) {
    swu_pair::<P::IsogenousCurve>(cx, suite, "iso", u);
    let iso = &P::ISOGENY_MAP;
    let mut outs: Vec<Option<sw::Affine<P>>> = Vec::new();
    for uu in [u, -u] {
        let d = digest(&("map", suite, "wb", fe(&uu).to_string()));
        cx.rep.eval(d, true);
        cx.rep.op("WBMap::map_to_curve");
        let detail = || json!({"suite": suite, "map": "wb", "u": fe(&uu)});
        let sig = |k: &str| format!("h2c/{suite}/wb/{k}");
        let res = cx.rep.total(&sig("map_to_curve"), detail, || WBMap::<P>::map_to_curve(uu));
        let q = match res {
            Some(Ok(q)) => q,
            Some(Err(e)) => {
                cx.rep.violation(sig("map_to_curve/error"), json!({"suite": suite, "u": fe(&uu), "error": format!("{e:?}")}));
                outs.push(None);
                continue;
            },
            None => {
                outs.push(None);
                continue;
            },
        };
        // was the point on the isogenous curve in the kernel of the isogeny? (plain Horner evaluation)
        let qi = guard(|| SWUMap::<P::IsogenousCurve>::map_to_curve(uu)).ok().and_then(|r| r.ok());
        let mut kernel = false;
        if let Some(qi) = qi {
            if !qi.infinity {
                let xd = horner(iso.x_map_denominator, &qi.x);
                let yd = horner(iso.y_map_denominator, &qi.x);
                kernel = xd.is_zero() || yd.is_zero();
            }
        }
        cx.rep.class_if(kernel, "isogeny exceptional input (zero denominator, image must be the identity)");
        if kernel {
            cx.rep.check(q.infinity, || "h2c/wb/iso_map/kernel-point-not-identity".to_string(), || json!({"suite": suite, "u": fe(&uu), "Q": pt_json(&q),
                "expected": "identity (RFC 9380 6.6.3 / 4.3: zero denominator means the point is in the kernel)"}));
        } else {
            cx.rep.check(q.on_curve_plain(), || sig("map_to_curve/off-curve"), || json!({"suite": suite, "u": fe(&uu), "Q": pt_json(&q)}));
        }
        if let Some(Ok(q2)) = cx.rep.total(&sig("map_to_curve"), detail, || WBMap::<P>::map_to_curve(uu)) {
            cx.rep.check(q2 == q, || sig("map_to_curve/nondeterministic"), detail);
        }
        cx.event(json!({"kind": "map", "suite": suite, "map": "wb", "curve": "target", "u": fe(&uu), "Q": pt_json(&q)}));
        outs.push(Some(q));
    }
    if let (Some(q), Some(qn)) = (outs[0], outs[1]) {
        if !u.is_zero() && !q.infinity && q.on_curve_plain() {
            cx.rep.check(qn.x == q.x && qn.y == -q.y, || format!("h2c/{suite}/wb/map_to_curve/sign-of-minus-u"),
                || json!({"suite": suite, "u": fe(&u), "Q(u)": pt_json(&q), "Q(-u)": pt_json(&qn)}));
        }
    }
}

fn ell2_pair<P: Elligator2Config>(cx: &mut Cx, suite: &str, u: P::BaseField) {
    let one = P::BaseField::one();
    let j = <P as MontCurveConfig>::COEFF_A;
    let k = <P as MontCurveConfig>::COEFF_B;
    let kinv = k.inverse().unwrap();
    let j_on_k = j * kinv;
    let mut outs: Vec<Option<te::Affine<P>>> = Vec::new();
    for uu in [u, -u] {
        let d = digest(&("map", suite, "ell2", fe(&uu).to_string()));
        cx.rep.eval(d, true);
        cx.rep.op("Elligator2Map::map_to_curve");
        let detail = || json!({"suite": suite, "map": "ell2", "u": fe(&uu)});
        let sig = |s: &str| format!("h2c/{suite}/ell2/{s}");
        // oracle-side: x1 = -(J/K) / (1 + Z u^2), or -(J/K) in the exceptional case
        let den = one + P::Z * uu * uu;
        let x1 = if den.is_zero() { -j_on_k } else { -j_on_k * den.inverse().unwrap() };
        cx.rep.class_if(uu.is_zero(), "u = 0");
        cx.rep.class_if(den.is_zero(), "exceptional Elligator2 denominator (1 + Z u^2 = 0)");
        let res = cx.rep.total(&sig("map_to_curve"), detail, || Elligator2Map::<P>::map_to_curve(uu));
        let q = match res {
            Some(Ok(q)) => q,
            Some(Err(e)) => {
                cx.rep.violation(sig("map_to_curve/error"), json!({"suite": suite, "u": fe(&uu), "error": format!("{e:?}")}));
                outs.push(None);
                continue;
            },
            None => {
                outs.push(None);
                continue;
            },
        };
        cx.rep.check(q.on_curve_plain(), || sig("map_to_curve/off-curve"), || json!({"suite": suite, "u": fe(&uu), "Q": pt_json(&q)}));
        // invert the rational map (App. D.1): s = (1+w)/(1-w), t = s/v; Montgomery point (x, y) = (s/K, t/K)
        let (v, w) = (q.x, q.y);
        if !v.is_zero() && w != one {
            let s = (one + w) * (one - w).inverse().unwrap();
            let t = s * v.inverse().unwrap();
            let (x, y) = (s * kinv, t * kinv);
            // K t^2 = s^3 + J s^2 + s
            cx.rep.check(k * t * t == s * s * s + j * s * s + s, || sig("map_to_curve/montgomery-equation"), || json!({"suite": suite, "u": fe(&uu), "Q": pt_json(&q)}));
            let square = x == x1;
            cx.rep.class_if(square, "gx1 square (x = x1)");
            cx.rep.class_if(!square, "gx1 non-square (x = x2)");
            if !square {
                cx.rep.check(x == -x1 - j_on_k, || sig("map_to_curve/x-not-x1-or-x2"), || json!({"suite": suite, "u": fe(&uu), "Q": pt_json(&q)}));
            }
            // RFC 9380 6.7.1 steps 6/7: sgn0(y) == 1 iff gx1 is square
            if !y.is_zero() {
                cx.rep.check(sgn0(&y) == square, || sig("map_to_curve/sgn0"), || json!({"suite": suite, "u": fe(&uu), "Q": pt_json(&q), "gx1_square": square}));
            }
        } else {
            cx.rep.class("Elligator2 output on the exceptional set of the rational map (v = 0 or w = 1)");
        }
        if let Some(Ok(q2)) = cx.rep.total(&sig("map_to_curve"), detail, || Elligator2Map::<P>::map_to_curve(uu)) {
            cx.rep.check(q2 == q, || sig("map_to_curve/nondeterministic"), detail);
        }
        cx.event(json!({"kind": "map", "suite": suite, "map": "ell2", "curve": "target", "u": fe(&uu), "Q": pt_json(&q)}));
        outs.push(Some(q));
    }
    if let (Some(q), Some(qn)) = (outs[0], outs[1]) {
        // Elligator 2 depends on u only through u^2 (the sign of y is fixed by the square-ness of gx1)
        cx.rep.class_if(!u.is_zero(), "sign flip: u and -u both mapped (Elligator2 outputs must coincide)");
        cx.rep.check(q == qn, || format!("h2c/{suite}/ell2/map_to_curve/minus-u-differs"),
            || json!({"suite": suite, "u": fe(&u), "Q(u)": pt_json(&q), "Q(-u)": pt_json(&qn)}));
    }
}

#[derive(Clone, Copy)]
enum MapPart {
    Structural,
    /// index of the uniform chunk (only distinguishes the item names, hence the PRNG streams)
    Uniform(#[allow(dead_code)] usize),
}

fn map_inputs<F: Field>(rng: &mut Rng, args: &Args, part: MapPart, suite: &str, z: F, swu_like: bool) -> Vec<F> {
    match part {
        MapPart::Structural => {
            let mut v = structural_us::<F>(rng);
            if swu_like {
                v.extend(swu_exceptional_us(z));
            } else {
                // Elligator 2: 1 + Z u^2 = 0
                v.extend(swu_exceptional_us(z));
            }
            for (_, u) in special_us::<F>(suite) {
                v.push(u);
            }
            v
        },
        MapPart::Uniform(_) => (0..args.pick(70, 1500)).map(|_| F::rand(rng)).collect(),
    }
}

fn map_wb_item<P: WBConfig>(rep: &mut Report, rng: &mut Rng, args: &Args, suite: &'static str, part: MapPart) {
    let mut cx = Cx::new(rep);
    cx.rep.config(&format!("map:{suite}"));
    cx.rep.require(&format!("suite seen: {suite}"));
    cx.rep.class(&format!("suite seen: {suite}"));
    let z = <P::IsogenousCurve as SWUConfig>::ZETA;
    if let MapPart::Structural = part {
        for c in ["u = 0", "exceptional SWU denominator (Z^2 u^4 + Z u^2 = 0)", "gx1 square (x = x1)", "gx1 non-square (x = x2)",
                  "sign flip: u and -u both mapped (outputs must be opposite points)"] {
            cx.rep.require(c);
        }
        if P::BaseField::extension_degree() > 1 {
            cx.rep.require("Fp2 input with c0 = 0 (sgn0 decided by c1)");
        }
        if !swu_exceptional_us(z).is_empty() {
            cx.rep.require("exceptional SWU denominator with u != 0");
        }
        let sp = special_us::<P::BaseField>(suite);
        let n_ker = sp.iter().filter(|(c, _)| c == "iso-kernel").count();
        let n_gx0 = sp.iter().filter(|(c, _)| c == "gx1-zero").count();
        if n_ker > 0 {
            cx.rep.require("isogeny exceptional input (zero denominator, image must be the identity)");
            cx.rep.note(format!("{suite}: {n_ker} crafted inputs u whose SWU output is a rational kernel point of the isogeny"));
        } else {
            cx.rep.note(format!("{suite}: isogeny exceptional inputs are unreachable for the shipped isogeny ({})", special_info(suite)));
        }
        if n_gx0 > 0 {
            cx.rep.require("g(x1) = 0 (x1 is the abscissa of a 2-torsion point)");
        }
    }
    for u in map_inputs::<P::BaseField>(rng, args, part, suite, z, true) {
        wb_pair::<P>(&mut cx, suite, u);
    }
    cx.flush();
}

fn map_ell2_item<P: Elligator2Config>(rep: &mut Report, rng: &mut Rng, args: &Args, suite: &'static str, part: MapPart) {
    let mut cx = Cx::new(rep);
    cx.rep.config(&format!("map:{suite}"));
    cx.rep.require(&format!("suite seen: {suite}"));
    cx.rep.class(&format!("suite seen: {suite}"));
    if let MapPart::Structural = part {
        for c in ["u = 0", "gx1 square (x = x1)", "gx1 non-square (x = x2)", "sign flip: u and -u both mapped (Elligator2 outputs must coincide)"] {
            cx.rep.require(c);
        }
    }
    for u in map_inputs::<P::BaseField>(rng, args, part, suite, P::Z, false) {
        ell2_pair::<P>(&mut cx, suite, u);
    }
    cx.flush();
}

// ------------------------------------------------------------------------------------------------
// (c) hash-to-curve events

fn hash_case<G, M, H>(cx: &mut Cx, suite: &str, msg: &[u8], dst: &[u8])
where
    G: CurveGroup,
    G::Affine: Pt,
    M: MapToCurve<G>,
    H: Hh,
{
    let d = digest(&("hash", suite, H::NAME, msg, dst));
    cx.rep.eval(d, true);
    cx.rep.op("MapToCurveBasedHasher::hash");
    cx.rep.config(&format!("hash:{suite}/{}", H::NAME));
    msg_classes(cx.rep, msg, dst, H::S);
    let sig = |s: &str| format!("h2c/{suite}/{s}");
    let detail = || json!({"suite": suite, "hash": H::NAME, "msg": hex_bytes(msg), "dst": hex_bytes(dst)});
    let run = || MapToCurveBasedHasher::<G, DefaultFieldHasher<H, 128>, M>::new(dst).and_then(|h| h.hash(msg));
    let p = match cx.rep.total(&sig("hash"), detail, run) {
        Some(Ok(p)) => p,
        Some(Err(e)) => {
            cx.rep.violation(sig("hash/error"), json!({"suite": suite, "msg": hex_bytes(msg), "dst": hex_bytes(dst), "error": format!("{e:?}")}));
            return;
        },
        None => return,
    };
    // determinism (fresh hasher)
    if let Some(Ok(p2)) = cx.rep.total(&sig("hash"), detail, run) {
        cx.rep.check(p2 == p, || sig("hash/nondeterministic"), detail);
    }
    // final point: on the curve (plain equation) and in the prime-order subgroup (r * P = 0)
    cx.rep.check(p.on_curve_plain(), || sig("hash/off-curve"), || json!({"suite": suite, "msg": hex_bytes(msg), "dst": hex_bytes(dst), "P": pt_json(&p)}));
    let rp = cx.rep.total(&sig("hash/subgroup-mul"), detail, || p.mul_bigint(<G::ScalarField as PrimeField>::MODULUS));
    if let Some(rp) = rp {
        cx.rep.check(rp.is_zero(), || sig("hash/not-in-subgroup"), || json!({"suite": suite, "msg": hex_bytes(msg), "dst": hex_bytes(dst), "P": pt_json(&p)}));
    }
    cx.rep.class_if(p.is_zero(), "hash output is the identity");
    // intermediate values through the public API: u = hash_to_field(msg, 2), Q_i = map_to_curve(u_i)
    let u = cx.rep.total(&sig("hash_to_field"), detail, || {
        let h = <DefaultFieldHasher<H, 128> as HashToField<G::BaseField>>::new(dst);
        let u: [G::BaseField; 2] = h.hash_to_field::<2>(msg);
        u
    });
    let Some(u) = u else { return };
    let mut qs = Vec::new();
    for ui in u.iter() {
        match cx.rep.total(&sig("map_to_curve"), || json!({"suite": suite, "u": fe(ui)}), || M::map_to_curve(*ui)) {
            Some(Ok(q)) => {
                cx.rep.check(q.on_curve_plain(), || sig("map_to_curve/off-curve"), || json!({"suite": suite, "u": fe(ui), "Q": pt_json(&q)}));
                qs.push(pt_json(&q));
            },
            Some(Err(e)) => {
                cx.rep.violation(sig("map_to_curve/error"), json!({"suite": suite, "u": fe(ui), "error": format!("{e:?}")}));
                qs.push(Value::Null);
            },
            None => qs.push(Value::Null),
        }
    }
    cx.rep.sample(&format!("hash/{suite}"), || json!({"kind": "hash_to_curve", "suite": suite, "hash": H::NAME, "msg": hex_bytes(msg),
        "dst_len": dst.len(), "P": pt_json(&p)}));
    cx.event(json!({"kind": "hash", "suite": suite, "hash": H::NAME, "k": 128, "msg": hex_bytes(msg), "dst": hex_bytes(dst),
        "u": fes(&u[..]), "Q0": qs[0], "Q1": qs[1], "P": pt_json(&p)}));
}

fn hash_item<G, M, H>(rep: &mut Report, rng: &mut Rng, args: &Args, suite: &'static str, rfc_suite: &'static str, chunk: usize, nchunks: usize)
where
    G: CurveGroup,
    G::Affine: Pt,
    M: MapToCurve<G>,
    H: Hh,
{
    let mut cx = Cx::new(rep);
    for c in ["empty message", "oversize DST (> 255 bytes, hashed with H2C-OVERSIZE-DST-)", "message length = block size - 1",
              "message length = block size", "message length = block size + 1"] {
        cx.rep.require(c);
    }
    cx.rep.require(&format!("suite seen: {suite}"));
    for (ml, dl) in msg_dst_grid(args, rng, chunk, nchunks) {
        let msg = gen_msg(rng, ml);
        let dst = gen_dst(rng, dl, rfc_suite);
        cx.rep.class(&format!("suite seen: {suite}"));
        hash_case::<G, M, H>(&mut cx, suite, &msg, &dst);
    }
    if chunk == 0 {
        // the RFC appendix messages under the RFC test tag (reproduces the published vectors on the RFC suites)
        let dst = gen_dst(rng, 43, rfc_suite);
        for m in RFC_MSGS {
            cx.rep.class("RFC 9380 appendix message under the QUUX-V01-CS02 tag");
            hash_case::<G, M, H>(&mut cx, suite, m.as_bytes(), &dst);
        }
    }
    cx.flush();
}

// ------------------------------------------------------------------------------------------------
// toy configurations, enumerated over the whole field

fn toy_exhaustive_item(rep: &mut Report, _rng: &mut Rng, _args: &Args, which: &'static str) {
    let mut cx = Cx::new(rep);
    cx.rep.require("u = 0");
    cx.rep.require("gx1 square (x = x1)");
    cx.rep.require("gx1 non-square (x = x2)");
    match which {
        S_TOYSWU => {
            cx.rep.config(&format!("map:{which}"));
            for i in 0..=63u64 {
                swu_pair::<ToySwu>(&mut cx, which, "target", F127::from(i));
            }
            cx.rep.exhaustive("SWUMap over all 127 elements of F_127 (toy curve y^2 = x^3 + x + 63)");
        },
        S_TOYWB => {
            cx.rep.config(&format!("map:{which}"));
            for i in 0..=63u64 {
                wb_pair::<ToyWb>(&mut cx, which, F127::from(i));
            }
            cx.rep.exhaustive("WBMap over all 127 elements of F_127 (toy 13-isogeny onto y^2 = x^3 + 3)");
        },
        S_TOYELL2B => {
            cx.rep.config(&format!("map:{which}"));
            cx.rep.require("exceptional Elligator2 denominator (1 + Z u^2 = 0)");
            for i in 0..=53u64 {
                ell2_pair::<ToyEll2b>(&mut cx, which, F107::from(i));
            }
            cx.rep.exhaustive("Elligator2Map over all 107 elements of F_107 (q = 3 mod 4, Z = -1: the exceptional inputs u = +-1 exist; toy curve 57 x^2 + y^2 = 1 + 55 x^2 y^2)");
        },
        _ => {
            cx.rep.config(&format!("map:{which}"));
            for i in 0..=50u64 {
                ell2_pair::<ToyEll2>(&mut cx, which, F101::from(i));
            }
            cx.rep.exhaustive("Elligator2Map over all 101 elements of F_101 (toy curve -x^2 + y^2 = 1 + 12 x^2 y^2)");
        },
    }
    cx.rep.class(&format!("suite seen: {which}"));
    cx.flush();
}

// ------------------------------------------------------------------------------------------------
// item list

macro_rules! push_h2f {
    ($items:ident, $($H:ty),*) => {
        $(
            $items.push(Item::new(format!("h2f/{}/bytes", <$H as HName>::NAME), |rep, rng, args| h2f_group_bytes::<$H>(rep, rng, args)));
            $items.push(Item::new(format!("h2f/{}/suite-fields", <$H as HName>::NAME), |rep, rng, args| h2f_group_suites::<$H>(rep, rng, args)));
        )*
    };
}

macro_rules! push_wb_suite {
    ($items:ident, $suite:expr, $rfc:expr, $P:ty, $H:ty, $nchunks:expr) => {
        $items.push(Item::new(format!("map/{}/structural", $suite), |rep, rng, args| map_wb_item::<$P>(rep, rng, args, $suite, MapPart::Structural)));
        for i in 0..2usize {
            $items.push(Item::new(format!("map/{}/uniform-{i}", $suite), move |rep, rng, args| map_wb_item::<$P>(rep, rng, args, $suite, MapPart::Uniform(i))));
        }
        for c in 0..$nchunks {
            $items.push(Item::new(format!("hash/{}/{}/{c}", $suite, <$H as HName>::NAME), move |rep, rng, args| {
                hash_item::<sw::Projective<$P>, WBMap<$P>, $H>(rep, rng, args, $suite, $rfc, c, $nchunks)
            }));
        }
    };
}

pub fn items(_args: &Args) -> Vec<Item> {
    let mut items: Vec<Item> = Vec::new();
    type Bander = ark_ed_on_bls12_381_bandersnatch::BandersnatchConfig;

    // longest first: G2 hash chunks
    push_wb_suite!(items, S_381G2, "BLS12381G2_XMD:SHA-256_SSWU_RO_", ark_bls12_381::g2::Config, Sha256, 6usize);
    push_wb_suite!(items, S_T381G2, "BLS12381G2_XMD:SHA-256_SSWU_RO_", ark_test_curves::bls12_381::g2::Config, Sha256, 6usize);
    push_wb_suite!(items, S_377G2, "BLS12377G2_XMD:SHA-256_SSWU_RO_", ark_bls12_377::g2::Config, Sha256, 6usize);
    push_wb_suite!(items, S_381G1, "BLS12381G1_XMD:SHA-256_SSWU_RO_", ark_bls12_381::g1::Config, Sha256, 3usize);
    push_wb_suite!(items, S_T381G1, "BLS12381G1_XMD:SHA-256_SSWU_RO_", ark_test_curves::bls12_381::g1::Config, Sha256, 3usize);
    push_wb_suite!(items, S_377G1, "BLS12377G1_XMD:SHA-256_SSWU_RO_", ark_bls12_377::g1::Config, Sha256, 3usize);
    // other hash functions on one G1 suite (not RFC suites; same construction)
    items.push(Item::new(format!("hash/{S_381G1}/SHA-512/0"), |rep, rng, args| {
        hash_item::<sw::Projective<ark_bls12_381::g1::Config>, WBMap<ark_bls12_381::g1::Config>, Sha512>(rep, rng, args, S_381G1, "BLS12381G1_XMD:SHA-512_SSWU_RO_", 0, 4)
    }));
    items.push(Item::new(format!("hash/{S_381G1}/SHA3-256/0"), |rep, rng, args| {
        hash_item::<sw::Projective<ark_bls12_381::g1::Config>, WBMap<ark_bls12_381::g1::Config>, Sha3_256>(rep, rng, args, S_381G1, "BLS12381G1_XMD:SHA3-256_SSWU_RO_", 1, 4)
    }));

    // bandersnatch (Elligator 2)
    items.push(Item::new(format!("map/{S_BANDER}/structural"), |rep, rng, args| map_ell2_item::<Bander>(rep, rng, args, S_BANDER, MapPart::Structural)));
    for i in 0..2usize {
        items.push(Item::new(format!("map/{S_BANDER}/uniform-{i}"), move |rep, rng, args| map_ell2_item::<Bander>(rep, rng, args, S_BANDER, MapPart::Uniform(i))));
    }
    for c in 0..2usize {
        items.push(Item::new(format!("hash/{S_BANDER}/SHA-512/{c}"), move |rep, rng, args| {
            hash_item::<te::Projective<Bander>, Elligator2Map<Bander>, Sha512>(rep, rng, args, S_BANDER, "Bandersnatch_XMD:SHA-512_ELL2_RO_", c, 2)
        }));
    }
    items.push(Item::new(format!("hash/{S_BANDER}/SHA-256/0"), |rep, rng, args| {
        hash_item::<te::Projective<Bander>, Elligator2Map<Bander>, Sha256>(rep, rng, args, S_BANDER, "Bandersnatch_XMD:SHA-256_ELL2_RO_", 0, 4)
    }));

    // toy configurations
    for which in [S_TOYSWU, S_TOYWB, S_TOYELL2, S_TOYELL2B] {
        items.push(Item::new(format!("map/{which}/exhaustive"), move |rep, rng, args| toy_exhaustive_item(rep, rng, args, which)));
    }
    items.push(Item::new(format!("hash/{S_TOYSWU}/SHA-256/0"), |rep, rng, args| {
        hash_item::<sw::Projective<ToySwu>, SWUMap<ToySwu>, Sha256>(rep, rng, args, S_TOYSWU, "", 0, 2)
    }));
    items.push(Item::new(format!("hash/{S_TOYWB}/SHA-256/0"), |rep, rng, args| {
        hash_item::<sw::Projective<ToyWb>, WBMap<ToyWb>, Sha256>(rep, rng, args, S_TOYWB, "", 0, 2)
    }));
    items.push(Item::new(format!("hash/{S_TOYELL2}/SHA-256/0"), |rep, rng, args| {
        hash_item::<te::Projective<ToyEll2>, Elligator2Map<ToyEll2>, Sha256>(rep, rng, args, S_TOYELL2, "", 0, 2)
    }));
    items.push(Item::new(format!("hash/{S_TOYELL2B}/SHA-256/0"), |rep, rng, args| {
        hash_item::<te::Projective<ToyEll2b>, Elligator2Map<ToyEll2b>, Sha256>(rep, rng, args, S_TOYELL2B, "", 0, 2)
    }));

    // expander / hash_to_field alone
    push_h2f!(items, Sha256, Sha384, Sha512, Sha3_256, Sha3_512, Blake2b512, Blake2s256);
    items.push(Item::new("xof_h2f/shake", xof_group));
    items
}
