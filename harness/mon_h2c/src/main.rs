//! C13 monitor: hash-to-field / hash-to-curve (RFC 9380). Runs the real code on generated workloads,
//! checks the in-process predicates (on-curve, sgn0 rule, subgroup, determinism, totality) and records
//! an event log that `/verif/pyref/check_h2c.py` re-derives with an independent Python implementation.
use monitor::*;
use std::time::Instant;

mod c13;
mod toy;

fn main() {
    let args = Args::parse();
    let t0 = Instant::now();
    let (items, rule): (Vec<Item>, &str) = match args.prop.as_str() {
        "C13" => (c13::items(&args), c13::RULE),
        p => panic!("mon_h2c does not serve property {p}"),
    };
    let mut rep = run_items(&args, items);
    // ---- write the event log next to the report
    let ev_path = match (args.extra.get("events"), &args.out) {
        (Some(p), _) => p.clone(),
        (None, Some(o)) => format!("{o}.events.jsonl"),
        (None, None) => format!("/var/tmp/mon_h2c.{}.events.jsonl", std::process::id()),
    };
    let n_events = match c13::write_events(&ev_path) {
        Ok(n) => n,
        Err(e) => {
            rep.harness_errors.push(format!("cannot write event log {ev_path}: {e}"));
            0
        },
    };
    rep.note(format!("event log: {n_events} events in {ev_path} (checked offline by pyref/check_h2c.py)"));
    // ---- same as monitor::finish, plus the event_log key
    let mut v = rep.to_json(&args, "mon_h2c", rule, t0.elapsed().as_secs_f64());
    v["event_log"] = json!(ev_path);
    v["events"] = json!(n_events);
    let s = serde_json::to_string_pretty(&v).unwrap();
    match &args.out {
        Some(p) => std::fs::write(p, s).expect("write report"),
        None => println!("{s}"),
    }
    let code = if !rep.violations.is_empty() {
        1
    } else if !rep.harness_errors.is_empty()
        || v["required_missing"].as_array().map(|a| !a.is_empty()).unwrap_or(false)
    {
        2
    } else {
        0
    };
    std::process::exit(code)
}
