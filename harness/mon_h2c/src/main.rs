use monitor::*;
fn main() {
    let args = Args::parse();
    panic!("mon_h2c does not serve property {} yet", args.prop);
}
