//! Toy configurations re-created from the unit tests of /repo/ec/src/hashing/curve_maps/{swu,wb,elligator2}.rs
//! (the originals are private to `#[cfg(test)]` modules), plus small "byte-transparent" prime fields
//! used to observe the expander output through the public `hash_to_field` API.
use ark_ec::{
    hashing::curve_maps::{
        elligator2::Elligator2Config,
        swu::SWUConfig,
        wb::{IsogenyMap, WBConfig},
    },
    models::CurveConfig,
    short_weierstrass::{self, SWCurveConfig},
    twisted_edwards::{self, MontCurveConfig, TECurveConfig},
};
use ark_ff::{fields::Fp64, Fp128, Fp256, MontBackend, MontFp};

#[derive(ark_ff::MontConfig)]
#[modulus = "127"]
#[generator = "6"]
pub struct F127Config;
pub type F127 = Fp64<MontBackend<F127Config, 1>>;

#[derive(ark_ff::MontConfig)]
#[modulus = "101"]
#[generator = "2"]
pub struct F101Config;
pub type F101 = Fp64<MontBackend<F101Config, 1>>;

#[derive(ark_ff::MontConfig)]
#[modulus = "11"]
#[generator = "2"]
pub struct F11Config;
pub type F11 = Fp64<MontBackend<F11Config, 1>>;

#[derive(ark_ff::MontConfig)]
#[modulus = "107"]
#[generator = "2"]
pub struct F107Config;
pub type F107 = Fp64<MontBackend<F107Config, 1>>;

#[derive(ark_ff::MontConfig)]
#[modulus = "23"]
#[generator = "5"]
pub struct F23Config;
pub type F23 = Fp64<MontBackend<F23Config, 1>>;

// ---- byte-transparent fields: p = 2^(8j) - c, SEC_PARAM = 0 gives L = j, so u_i = bytes mod p ----
#[derive(ark_ff::MontConfig)]
#[modulus = "251"]
#[generator = "6"]
pub struct F251Config;
pub type F251 = Fp64<MontBackend<F251Config, 1>>;

#[derive(ark_ff::MontConfig)]
#[modulus = "65521"]
#[generator = "17"]
pub struct F65521Config;
pub type F65521 = Fp64<MontBackend<F65521Config, 1>>;

#[derive(ark_ff::MontConfig)]
#[modulus = "340282366920938463463374607431768211297"]
#[generator = "5"]
pub struct FT128Config;
/// 2^128 - 159
pub type FT128 = Fp128<MontBackend<FT128Config, 2>>;

#[derive(ark_ff::MontConfig)]
#[modulus = "115792089237316195423570985008687907853269984665640564039457584007913129639747"]
#[generator = "2"]
pub struct FT256Config;
/// 2^256 - 189
pub type FT256 = Fp256<MontBackend<FT256Config, 4>>;

const F127_ZERO: F127 = MontFp!("0");
const F127_ONE: F127 = MontFp!("1");

// ------------------------------------------------------------------------------------------------
// swu.rs test curve: y^2 = x^3 + x + 63 over F_127, order 127, Z = -1
pub struct ToySwu;
impl CurveConfig for ToySwu {
    const COFACTOR: &'static [u64] = &[1];
    const COFACTOR_INV: F127 = F127_ONE;
    type BaseField = F127;
    type ScalarField = F127;
}
impl SWCurveConfig for ToySwu {
    const COEFF_A: F127 = F127_ONE;
    const COEFF_B: F127 = MontFp!("63");
    const GENERATOR: short_weierstrass::Affine<Self> =
        short_weierstrass::Affine::new_unchecked(MontFp!("62"), MontFp!("70"));
}
impl SWUConfig for ToySwu {
    const ZETA: F127 = MontFp!("-1");
}

// ------------------------------------------------------------------------------------------------
// wb.rs test curves: E: y^2 = x^3 + 3, E_iso: y^2 = x^3 + 109 x + 124, both of order 127, 13-isogeny
pub struct ToyWb;
impl CurveConfig for ToyWb {
    const COFACTOR: &'static [u64] = &[1];
    const COFACTOR_INV: F127 = F127_ONE;
    type BaseField = F127;
    type ScalarField = F127;
}
impl SWCurveConfig for ToyWb {
    const COEFF_A: F127 = F127_ZERO;
    const COEFF_B: F127 = MontFp!("3");
    const GENERATOR: short_weierstrass::Affine<Self> =
        short_weierstrass::Affine::new_unchecked(MontFp!("62"), MontFp!("70"));
}
pub struct ToyWbIso;
impl CurveConfig for ToyWbIso {
    const COFACTOR: &'static [u64] = &[1];
    const COFACTOR_INV: F127 = F127_ONE;
    type BaseField = F127;
    type ScalarField = F127;
}
impl SWCurveConfig for ToyWbIso {
    const COEFF_A: F127 = MontFp!("109");
    const COEFF_B: F127 = MontFp!("124");
    const GENERATOR: short_weierstrass::Affine<Self> =
        short_weierstrass::Affine::new_unchecked(MontFp!("84"), MontFp!("2"));
}
impl SWUConfig for ToyWbIso {
    const ZETA: F127 = MontFp!("-1");
}
const ISOGENY_MAP_TOY: IsogenyMap<'_, ToyWbIso, ToyWb> = IsogenyMap {
    x_map_numerator: &[
        MontFp!("4"), MontFp!("63"), MontFp!("23"), MontFp!("39"), MontFp!("-14"), MontFp!("23"), MontFp!("-32"),
        MontFp!("32"), MontFp!("-13"), MontFp!("40"), MontFp!("34"), MontFp!("10"), MontFp!("-21"), MontFp!("-57"),
    ],
    x_map_denominator: &[
        MontFp!("2"), MontFp!("31"), MontFp!("-10"), MontFp!("-20"), MontFp!("63"), MontFp!("-44"), MontFp!("34"),
        MontFp!("30"), MontFp!("-30"), MontFp!("-33"), MontFp!("11"), MontFp!("-13"), MontFp!("1"),
    ],
    y_map_numerator: &[
        MontFp!("-34"), MontFp!("-57"), MontFp!("30"), MontFp!("-18"), MontFp!("-60"), MontFp!("-43"), MontFp!("-63"),
        MontFp!("-18"), MontFp!("-49"), MontFp!("36"), MontFp!("12"), MontFp!("62"), MontFp!("5"), MontFp!("6"),
        MontFp!("-7"), MontFp!("48"), MontFp!("41"), MontFp!("59"), MontFp!("10"),
    ],
    y_map_denominator: &[
        MontFp!("32"), MontFp!("-18"), MontFp!("-24"), MontFp!("23"), MontFp!("18"), MontFp!("-55"), MontFp!("-16"),
        MontFp!("-61"), MontFp!("-46"), MontFp!("-13"), MontFp!("-42"), MontFp!("11"), MontFp!("-30"), MontFp!("38"),
        MontFp!("3"), MontFp!("52"), MontFp!("-63"), MontFp!("44"), MontFp!("1"),
    ],
};
impl WBConfig for ToyWb {
    type IsogenousCurve = ToyWbIso;
    const ISOGENY_MAP: IsogenyMap<'static, Self::IsogenousCurve, Self> = ISOGENY_MAP_TOY;
}

// ------------------------------------------------------------------------------------------------
// elligator2.rs test curve: -x^2 + y^2 = 1 + 12 x^2 y^2 over F_101; Montgomery 23 y^2 = x^3 + 76 x^2 + x;
// order 8 * 11, Z = 2
pub struct ToyEll2;
impl CurveConfig for ToyEll2 {
    const COFACTOR: &'static [u64] = &[8];
    const COFACTOR_INV: F11 = MontFp!("7");
    type BaseField = F101;
    type ScalarField = F11;
}
impl TECurveConfig for ToyEll2 {
    const COEFF_A: F101 = MontFp!("-1");
    const COEFF_D: F101 = MontFp!("12");
    const GENERATOR: twisted_edwards::Affine<Self> =
        twisted_edwards::Affine::new_unchecked(MontFp!("23"), MontFp!("24"));
    type MontCurveConfig = Self;
}
impl MontCurveConfig for ToyEll2 {
    const COEFF_A: F101 = MontFp!("76");
    const COEFF_B: F101 = MontFp!("23");
    type TECurveConfig = Self;
}
impl Elligator2Config for ToyEll2 {
    const Z: F101 = MontFp!("2");
    const ONE_OVER_COEFF_B_SQUARE: F101 = MontFp!("80");
    const COEFF_A_OVER_COEFF_B: F101 = MontFp!("56");
}

// ------------------------------------------------------------------------------------------------
// A second toy Elligator 2 curve over a field with q = 3 (mod 4): there Z = -1 and the exceptional
// inputs of the map (the roots of 1 + Z u^2, i.e. u = +-1) exist, which they do not for any shipped
// configuration (bandersnatch and the F_101 toy have q = 1 mod 4). Found by brute force:
// Montgomery 2 t^2 = s^3 + 5 s^2 + s, twisted Edwards 57 v^2 + w^2 = 1 + 55 v^2 w^2 over F_107,
// order 92 = 4 * 23.
pub struct ToyEll2b;
impl CurveConfig for ToyEll2b {
    const COFACTOR: &'static [u64] = &[4];
    const COFACTOR_INV: F23 = MontFp!("6");
    type BaseField = F107;
    type ScalarField = F23;
}
impl TECurveConfig for ToyEll2b {
    const COEFF_A: F107 = MontFp!("57");
    const COEFF_D: F107 = MontFp!("55");
    const GENERATOR: twisted_edwards::Affine<Self> =
        twisted_edwards::Affine::new_unchecked(MontFp!("45"), MontFp!("84"));
    type MontCurveConfig = Self;
}
impl MontCurveConfig for ToyEll2b {
    const COEFF_A: F107 = MontFp!("5");
    const COEFF_B: F107 = MontFp!("2");
    type TECurveConfig = Self;
}
impl Elligator2Config for ToyEll2b {
    const Z: F107 = MontFp!("-1");
    const ONE_OVER_COEFF_B_SQUARE: F107 = MontFp!("27");
    const COEFF_A_OVER_COEFF_B: F107 = MontFp!("56");
}
