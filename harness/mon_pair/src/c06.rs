//! C06 — pairings are bilinear, non-degenerate and identity-preserving in every model
//! (BLS12 with either twist type, BN, BW6, MNT4, MNT6; cp6_782's crate-local engine as a bonus).
//!
//! One generic monitor (`monitor_engine`) is instantiated per shipped engine and split into relation
//! groups (work items). Only target-group *equalities* are checked (no golden values); every
//! right-hand side is computed through code different from the left-hand side:
//!   * `e(aP,bQ)` vs `e(P,Q)^(ab)` with `ab` an integer formed in num-bigint and the power taken by
//!     `Field::pow` on the raw target-field element (unreduced exponent) and by a right-to-left
//!     square-and-multiply written here (exponent reduced mod r) — never `PairingOutput::mul` /
//!     `cyclotomic_exp` (those are compared separately in the `gt-ops` group);
//!   * products of pairings via target-field `mul`;
//!   * an identity argument has the oracle-side expected value 1, no library call involved.
use ark_ec::pairing::{MillerLoopOutput, Pairing, PairingOutput};
use ark_ec::{AffineRepr, CurveGroup, PrimeGroup};
use ark_ff::{AdditiveGroup, BigInteger, Field, One, PrimeField, UniformRand, Zero};
use ark_serialize::{CanonicalDeserialize, CanonicalSerialize, Compress, Valid, Validate};
use ark_std::rand::RngCore;
use monitor::*;
use oracle::{from_limbs, to_limbs, UInt};
use std::marker::PhantomData;

pub const RULE: &str = "cases = (engine, relation, input form, points P,P' in G1 and Q,Q' in G2 drawn from {generator, \
generator times a uniform scalar, identity, -P, P'=P}, scalars a,b from {0,1,2,r-1,uniform}, multi-pairing length in \
{0,1,2,3,4,5,8,9} and identity mask); every relation is a target-group equality whose right-hand side is computed by \
target-field mul / Field::pow / a harness square-and-multiply with integer exponents from num-bigint; a case is \
non-trivial when no point involved is the identity and no scalar is 0 (for multi-pairings: at least one pair without \
an identity; for target-group operations: operand is not the identity); distinct = distinct digest of \
(engine, relation, serialized points, scalars, mask)";

// ------------------------------------------------------------------------------------------------
// engines

/// A pairing engine plus the reference-taking conversions that the generic `Pairing` trait does not
/// name (every shipped model implements `From<&Affine>` / `From<&Projective>` for its prepared
/// types; the impl macro below routes through exactly those impls).
pub trait Eng: Pairing {
    const NAME: &'static str;
    /// budget multiplier (cheap engines run more cases)
    const WEIGHT: usize;
    fn model() -> &'static str;
    fn g1prep_aref(p: &Self::G1Affine) -> Self::G1Prepared;
    fn g1prep_pref(p: &Self::G1) -> Self::G1Prepared;
    fn g2prep_aref(q: &Self::G2Affine) -> Self::G2Prepared;
    fn g2prep_pref(q: &Self::G2) -> Self::G2Prepared;
    fn pairing_ref_ap(p: &Self::G1Affine, q: &Self::G2) -> PairingOutput<Self>;
    fn pairing_ref_pa(p: &Self::G1, q: &Self::G2Affine) -> PairingOutput<Self>;
    fn multi_pairing_refs(p: &[Self::G1Affine], q: &[Self::G2]) -> PairingOutput<Self>;
    fn multi_miller_refs(p: &[Self::G1], q: &[Self::G2Affine]) -> MillerLoopOutput<Self>;
}

macro_rules! impl_eng {
    ($ty:ty, $name:literal, $w:literal, $model:expr) => {
        impl Eng for $ty {
            const NAME: &'static str = $name;
            const WEIGHT: usize = $w;
            fn model() -> &'static str {
                $model
            }
            fn g1prep_aref(p: &Self::G1Affine) -> Self::G1Prepared {
                <Self::G1Prepared as From<&Self::G1Affine>>::from(p)
            }
            fn g1prep_pref(p: &Self::G1) -> Self::G1Prepared {
                <Self::G1Prepared as From<&Self::G1>>::from(p)
            }
            fn g2prep_aref(q: &Self::G2Affine) -> Self::G2Prepared {
                <Self::G2Prepared as From<&Self::G2Affine>>::from(q)
            }
            fn g2prep_pref(q: &Self::G2) -> Self::G2Prepared {
                <Self::G2Prepared as From<&Self::G2>>::from(q)
            }
            fn pairing_ref_ap(p: &Self::G1Affine, q: &Self::G2) -> PairingOutput<Self> {
                Self::pairing(p, q)
            }
            fn pairing_ref_pa(p: &Self::G1, q: &Self::G2Affine) -> PairingOutput<Self> {
                Self::pairing(p, q)
            }
            fn multi_pairing_refs(p: &[Self::G1Affine], q: &[Self::G2]) -> PairingOutput<Self> {
                Self::multi_pairing(p.iter(), q.iter())
            }
            fn multi_miller_refs(p: &[Self::G1], q: &[Self::G2Affine]) -> MillerLoopOutput<Self> {
                Self::multi_miller_loop(p.iter(), q.iter())
            }
        }
    };
}

const BLS12_M: &str = "BLS12 / M-twist";
const BLS12_D: &str = "BLS12 / D-twist";
const BN_M: &str = "BN / M-twist";
const BN_D: &str = "BN / D-twist";
const BW6_M: &str = "BW6 / M-twist";
const BW6_D: &str = "BW6 / D-twist";
const MNT4: &str = "MNT4";
const MNT6: &str = "MNT6";
const CP6: &str = "CP6_782 (crate-local engine)";

/// The six model/twist combinations the property quantifies over (all must be observed).
const REQUIRED_MODELS: &[&str] = &[BLS12_M, BLS12_D, BN_D, BW6_M, MNT4, MNT6];

// the labels are read off the configuration constants, not typed in
fn bls_model<P: ark_ec::bls12::Bls12Config>() -> &'static str {
    match P::TWIST_TYPE {
        ark_ec::bls12::TwistType::M => BLS12_M,
        ark_ec::bls12::TwistType::D => BLS12_D,
    }
}
fn bn_model<P: ark_ec::bn::BnConfig>() -> &'static str {
    match P::TWIST_TYPE {
        ark_ec::bn::TwistType::M => BN_M,
        ark_ec::bn::TwistType::D => BN_D,
    }
}
fn bw6_model<P: ark_ec::bw6::BW6Config>() -> &'static str {
    match P::TWIST_TYPE {
        ark_ec::bw6::TwistType::M => BW6_M,
        ark_ec::bw6::TwistType::D => BW6_D,
    }
}

impl_eng!(ark_bls12_381::Bls12_381, "bls12_381", 4, bls_model::<ark_bls12_381::Config>());
impl_eng!(ark_bls12_377::Bls12_377, "bls12_377", 4, bls_model::<ark_bls12_377::Config>());
impl_eng!(ark_test_curves::bls12_381::Bls12_381, "test_curves_bls12_381", 4, bls_model::<ark_test_curves::bls12_381::Config>());
impl_eng!(ark_bn254::Bn254, "bn254", 4, bn_model::<ark_bn254::Config>());
impl_eng!(ark_bw6_761::BW6_761, "bw6_761", 3, bw6_model::<ark_bw6_761::Config>());
impl_eng!(ark_bw6_767::BW6_767, "bw6_767", 3, bw6_model::<ark_bw6_767::Config>());

/// BW6-761 instantiated through the *provided* methods of `BW6Config` only: every constant and type is taken
/// from the shipped configuration, but `final_exponentiation_hard_part` is not overridden, i.e. the generic
/// hard part for `T_MOD_R_IS_ZERO = false` runs - the code a user-defined BW6 curve gets (the shipped BW6-761
/// overrides it with an addition chain and BW6-767 takes the other branch).
#[derive(PartialEq, Eq)]
pub struct Generic761;
impl ark_ec::bw6::BW6Config for Generic761 {
    const X: <Self::Fp as ark_ff::PrimeField>::BigInt = <ark_bw6_761::Config as ark_ec::bw6::BW6Config>::X;
    const X_IS_NEGATIVE: bool = <ark_bw6_761::Config as ark_ec::bw6::BW6Config>::X_IS_NEGATIVE;
    const X_MINUS_1_DIV_3: <Self::Fp as ark_ff::PrimeField>::BigInt = <ark_bw6_761::Config as ark_ec::bw6::BW6Config>::X_MINUS_1_DIV_3;
    const ATE_LOOP_COUNT_1: &'static [u64] = <ark_bw6_761::Config as ark_ec::bw6::BW6Config>::ATE_LOOP_COUNT_1;
    const ATE_LOOP_COUNT_1_IS_NEGATIVE: bool = <ark_bw6_761::Config as ark_ec::bw6::BW6Config>::ATE_LOOP_COUNT_1_IS_NEGATIVE;
    const ATE_LOOP_COUNT_2: &'static [i8] = <ark_bw6_761::Config as ark_ec::bw6::BW6Config>::ATE_LOOP_COUNT_2;
    const ATE_LOOP_COUNT_2_IS_NEGATIVE: bool = <ark_bw6_761::Config as ark_ec::bw6::BW6Config>::ATE_LOOP_COUNT_2_IS_NEGATIVE;
    const TWIST_TYPE: ark_ec::bw6::TwistType = <ark_bw6_761::Config as ark_ec::bw6::BW6Config>::TWIST_TYPE;
    const H_T: i64 = <ark_bw6_761::Config as ark_ec::bw6::BW6Config>::H_T;
    const H_Y: i64 = <ark_bw6_761::Config as ark_ec::bw6::BW6Config>::H_Y;
    const T_MOD_R_IS_ZERO: bool = <ark_bw6_761::Config as ark_ec::bw6::BW6Config>::T_MOD_R_IS_ZERO;
    type Fp = <ark_bw6_761::Config as ark_ec::bw6::BW6Config>::Fp;
    type Fp3Config = <ark_bw6_761::Config as ark_ec::bw6::BW6Config>::Fp3Config;
    type Fp6Config = <ark_bw6_761::Config as ark_ec::bw6::BW6Config>::Fp6Config;
    type G1Config = <ark_bw6_761::Config as ark_ec::bw6::BW6Config>::G1Config;
    type G2Config = <ark_bw6_761::Config as ark_ec::bw6::BW6Config>::G2Config;
}
pub type Bw6Generic761 = ark_ec::bw6::BW6<Generic761>;
impl_eng!(Bw6Generic761, "bw6_761 (provided hard part)", 3, bw6_model::<Generic761>());
impl_eng!(ark_mnt4_298::MNT4_298, "mnt4_298", 4, MNT4);
impl_eng!(ark_mnt4_753::MNT4_753, "mnt4_753", 1, MNT4);
impl_eng!(ark_mnt6_298::MNT6_298, "mnt6_298", 4, MNT6);
impl_eng!(ark_mnt6_753::MNT6_753, "mnt6_753", 1, MNT6);
impl_eng!(ark_cp6_782::CP6_782, "cp6_782", 1, CP6);

// ------------------------------------------------------------------------------------------------
// work items

#[derive(Clone, Copy, Debug)]
pub enum Group {
    Bilinear,
    Additive,
    Identity,
    Forms,
    Multi(&'static [usize]),
    GtOps,
}

const GROUPS: &[(Group, &str)] = &[
    (Group::Multi(&[9]), "multi-len9"),
    (Group::Multi(&[8]), "multi-len8"),
    (Group::Multi(&[4, 5]), "multi-len4-5"),
    (Group::Multi(&[0, 1, 2, 3]), "multi-len0-3"),
    (Group::Bilinear, "bilinear"),
    (Group::Identity, "identity"),
    (Group::Additive, "additive"),
    (Group::Forms, "forms"),
    (Group::GtOps, "gt-ops"),
];

pub fn items(args: &Args) -> Vec<Item> {
    let mut v: Vec<Item> = vec![];
    let shards = args.pick(1usize, 8usize);
    let whole_run = args.only.is_none();
    macro_rules! engine {
        ($ty:ty) => {
            for &(g, gname) in GROUPS {
                for s in 0..shards {
                    let name = if shards == 1 {
                        format!("pairing/{}/{}", <$ty as Eng>::NAME, gname)
                    } else {
                        format!("pairing/{}/{}/shard{}", <$ty as Eng>::NAME, gname, s)
                    };
                    v.push(Item::new(name, move |rep, rng, args| {
                        if whole_run {
                            for m in REQUIRED_MODELS {
                                rep.require(&model_class(m));
                            }
                        }
                        monitor_engine::<$ty>(g, rep, rng, args)
                    }));
                }
            }
        };
    }
    // slow engines first so that the long items start early
    engine!(ark_cp6_782::CP6_782);
    engine!(ark_mnt6_753::MNT6_753);
    engine!(ark_mnt4_753::MNT4_753);
    engine!(ark_bw6_767::BW6_767);
    engine!(ark_bw6_761::BW6_761);
    engine!(Bw6Generic761);
    engine!(ark_mnt6_298::MNT6_298);
    engine!(ark_mnt4_298::MNT4_298);
    engine!(ark_bls12_381::Bls12_381);
    engine!(ark_bls12_377::Bls12_377);
    engine!(ark_test_curves::bls12_381::Bls12_381);
    engine!(ark_bn254::Bn254);
    // interleave: all groups of the slow engines come first anyway; order inside is by cost
    v
}

fn model_class(m: &str) -> String {
    format!("model/twist seen: {m}")
}
fn engine_class(n: &str) -> String {
    format!("engine seen: {n}")
}

// required observation classes
const C_ID_G1: &str = "pairing with the identity in G1 (G2 non-identity)";
const C_ID_G2: &str = "pairing with the identity in G2 (G1 non-identity)";
const C_ID_BOTH: &str = "pairing with both identities";
const C_SCALAR_ZERO: &str = "bilinearity: a = 0 or b = 0";
const C_PROD_GE_R: &str = "bilinearity: integer a*b >= r";
const C_CHUNK: &str = "multi-pairing length > 4 and not a multiple of 4 (chunking remainder)";
const C_MULTI_ID_G1: &str = "multi-pairing with an identity entry in the G1 list";
const C_MULTI_ID_G2: &str = "multi-pairing with an identity entry in the G2 list";
const C_MULTI_EMPTY: &str = "multi-pairing of length 0";

/// The generic monitor: one call = one relation group on one engine.
pub fn monitor_engine<E: Eng>(group: Group, rep: &mut Report, rng: &mut Rng, args: &Args) {
    rep.config(E::NAME);
    rep.require(&engine_class(E::NAME));
    rep.require(&model_class(E::model()));
    let r = from_limbs(E::ScalarField::MODULUS.as_ref());
    let mut cx = Cx::<E> { rep, rng, args, r, _e: PhantomData };
    match group {
        Group::Bilinear => cx.bilinear(),
        Group::Additive => cx.additive(),
        Group::Identity => cx.identity(),
        Group::Forms => cx.forms(),
        Group::Multi(lens) => cx.multi(lens),
        Group::GtOps => cx.gt_ops(),
    }
}

// ------------------------------------------------------------------------------------------------
// helpers

fn hx<T: CanonicalSerialize>(t: &T) -> String {
    let mut v = vec![];
    t.serialize_uncompressed(&mut v).expect("serialize into Vec");
    hex_bytes(&v)
}

fn uint<F: PrimeField>(x: &F) -> UInt {
    from_limbs(x.into_bigint().as_ref())
}

/// Right-to-left square-and-multiply with a num-bigint exponent, using only field `mul`/`square`.
fn naive_pow<F: Field>(x: &F, e: &UInt) -> F {
    let mut acc = F::one();
    let mut base = *x;
    for i in 0..e.bits() {
        if e.bit(i) {
            acc *= &base;
        }
        base = base.square();
    }
    acc
}

/// Signature class of a single pairing. A G2 identity names the class whether or not P is the
/// identity as well (the observation classes keep the three cases apart), so that one defect in the
/// treatment of the G2 identity has one signature.
fn id_class(pz: bool, qz: bool) -> &'static str {
    match (pz, qz) {
        (false, false) => "generic",
        (true, false) => "identity-G1",
        (_, true) => "identity-G2",
    }
}

/// (short id used in signatures, the exact call)
const FORMS: [(&str, &str); 9] = [
    ("aff", "E::pairing(G1Affine, G2Affine)"),
    ("proj", "E::pairing(G1Projective, G2Projective)"),
    ("ref-aff-proj", "E::pairing(&G1Affine, &G2Projective)"),
    ("ref-proj-aff", "E::pairing(&G1Projective, &G2Affine)"),
    ("prep-owned", "E::pairing(G1Prepared::from(G1Affine), G2Prepared::from(G2Projective))"),
    ("prep-ref", "E::pairing(G1Prepared::from(&G1Projective), G2Prepared::from(&G2Affine))"),
    ("miller+finalexp", "E::final_exponentiation(E::miller_loop(G1Affine, G2Affine))"),
    ("multi1", "E::multi_pairing(vec![G1Affine], vec![G2Affine])"),
    ("multimiller-prep", "E::final_exponentiation(E::multi_miller_loop([G1Prepared::from(&G1Affine)], [G2Prepared::from(&G2Projective)]))"),
];

fn eval_form<E: Eng>(form: usize, p: &E::G1, q: &E::G2) -> Option<PairingOutput<E>> {
    let (pa, qa) = (p.into_affine(), q.into_affine());
    match form {
        0 => Some(E::pairing(pa, qa)),
        1 => Some(E::pairing(*p, *q)),
        2 => Some(E::pairing_ref_ap(&pa, q)),
        3 => Some(E::pairing_ref_pa(p, &qa)),
        4 => Some(E::pairing(E::G1Prepared::from(pa), E::G2Prepared::from(*q))),
        5 => Some(E::pairing(E::g1prep_pref(p), E::g2prep_aref(&qa))),
        6 => E::final_exponentiation(E::miller_loop(pa, qa)),
        7 => Some(E::multi_pairing(vec![pa], vec![qa])),
        _ => E::final_exponentiation(E::multi_miller_loop([E::g1prep_aref(&pa)], [E::g2prep_pref(q)])),
    }
}

const MULTI_FORMS: [(&str, &str); 5] = [
    ("aff", "E::multi_pairing(Vec<G1Affine>, Vec<G2Affine>)"),
    ("proj", "E::multi_pairing(Vec<G1Projective>, Vec<G2Projective>)"),
    ("refs", "E::multi_pairing(slice_of_G1Affine.iter(), slice_of_G2Projective.iter())"),
    ("prep", "E::multi_pairing(Vec<G1Prepared>, Vec<G2Prepared>)"),
    ("multimiller+finalexp", "E::final_exponentiation(E::multi_miller_loop(slice_of_G1Projective.iter(), slice_of_G2Affine.iter()))"),
];

fn eval_multi<E: Eng>(form: usize, ps: &[E::G1], qs: &[E::G2]) -> Option<PairingOutput<E>> {
    let pa: Vec<E::G1Affine> = ps.iter().map(|p| p.into_affine()).collect();
    let qa: Vec<E::G2Affine> = qs.iter().map(|q| q.into_affine()).collect();
    match form {
        0 => Some(E::multi_pairing(pa, qa)),
        1 => Some(E::multi_pairing(ps.to_vec(), qs.to_vec())),
        2 => Some(E::multi_pairing_refs(&pa, qs)),
        3 => {
            let pp: Vec<E::G1Prepared> = pa.iter().map(|p| E::G1Prepared::from(*p)).collect();
            let qp: Vec<E::G2Prepared> = qa.iter().map(|q| E::G2Prepared::from(*q)).collect();
            Some(E::multi_pairing(pp, qp))
        },
        _ => E::final_exponentiation(E::multi_miller_refs(ps, &qa)),
    }
}

struct Cx<'a, E: Eng> {
    rep: &'a mut Report,
    rng: &'a mut Rng,
    args: &'a Args,
    r: UInt,
    _e: PhantomData<E>,
}

impl<'a, E: Eng> Cx<'a, E> {
    fn budget(&self, quick_base: usize) -> usize {
        // thorough: 8 shards x 2 = 16 x the quick volume
        quick_base * E::WEIGHT * self.args.pick(1, 2)
    }
    fn pick(&mut self, n: usize) -> usize {
        (self.rng.next_u32() as usize) % n
    }
    /// scalar class: 0 → 0, 1 → 1, 2 → 2, 3 → r-1, 4 → uniform
    fn scalar(&mut self, cls: u8) -> E::ScalarField {
        match cls {
            0 => E::ScalarField::zero(),
            1 => E::ScalarField::one(),
            2 => E::ScalarField::from(2u64),
            3 => -E::ScalarField::one(),
            _ => E::ScalarField::rand(self.rng),
        }
    }
    fn nonzero_scalar(&mut self) -> E::ScalarField {
        loop {
            let s = E::ScalarField::rand(self.rng);
            if !s.is_zero() {
                return s;
            }
        }
    }
    /// G1 point class: 0 generator, 1 identity, else generator times a uniform non-zero scalar
    fn g1(&mut self, cls: usize) -> E::G1 {
        match cls {
            0 => E::G1::generator(),
            1 => E::G1::zero(),
            _ => E::G1::generator() * self.nonzero_scalar(),
        }
    }
    fn g2(&mut self, cls: usize) -> E::G2 {
        match cls {
            0 => E::G2::generator(),
            1 => E::G2::zero(),
            _ => E::G2::generator() * self.nonzero_scalar(),
        }
    }
    /// mostly random subgroup points, sometimes the generator, never the identity
    fn g1_nz(&mut self) -> E::G1 {
        let c = if self.pick(5) == 0 { 0 } else { 2 };
        self.g1(c)
    }
    fn g2_nz(&mut self) -> E::G2 {
        let c = if self.pick(5) == 0 { 0 } else { 2 };
        self.g2(c)
    }

    /// One monitored single pairing through input form `form`. A panic or a `None` from the final
    /// exponentiation is a violation; with an identity argument the value must be the target identity.
    fn pair(&mut self, form: usize, p: &E::G1, q: &E::G2) -> Option<PairingOutput<E>> {
        let (pz, qz) = (p.is_zero(), q.is_zero());
        let cls = id_class(pz, qz);
        self.rep.class_if(pz && !qz, C_ID_G1);
        self.rep.class_if(!pz && qz, C_ID_G2);
        self.rep.class_if(pz && qz, C_ID_BOTH);
        self.rep.op(FORMS[form].1);
        let sig = format!("pairing/{}/{}", E::NAME, cls);
        let detail = || json!({"engine": E::NAME, "call": FORMS[form].1, "P": hx(&p.into_affine()), "Q": hx(&q.into_affine()),
            "P_is_identity": pz, "Q_is_identity": qz, "expected": if pz || qz { "target-group identity (1)" } else { "a value" }});
        let res = self.rep.total(&sig, detail, || eval_form::<E>(form, p, q))?;
        let Some(v) = res else {
            self.rep.violation(format!("{sig}/final-exponentiation-none"), detail());
            return None;
        };
        self.rep.class(&engine_class(E::NAME));
        self.rep.class_if(!pz && !qz, &model_class(E::model()));
        if pz || qz {
            self.rep.eval(digest(&(E::NAME, "identity", form, hx(&p.into_affine()), hx(&q.into_affine()))), false);
            self.rep.check(
                v.0.is_one(),
                || format!("{sig}/not-one"),
                || {
                    let mut d = detail();
                    d["got"] = json!(hx(&v));
                    d
                },
            );
        }
        Some(v)
    }

    fn any_form(&mut self) -> usize {
        self.pick(FORMS.len())
    }

    /// out^r = 1, by the harness square-and-multiply
    fn check_order(&mut self, what: &str, v: &PairingOutput<E>, detail: impl FnOnce() -> Value) {
        self.rep.op("order check: out^r by harness square-and-multiply");
        let ok = naive_pow(&v.0, &self.r).is_one();
        self.rep.check(ok, || format!("pairing/{}/output-order/{}", E::NAME, what), detail);
    }

    // --------------------------------------------------------------------------------------------
    // e(aP, bQ) = e(P,Q)^(ab)

    fn bilinear(&mut self) {
        for c in [C_SCALAR_ZERO, C_PROD_GE_R, C_ID_G1, C_ID_G2] {
            self.rep.require(c);
        }
        // structural scalar-class pairs first (0:0, 1:1, 2:2, 3:r-1, 4:uniform)
        const ORDER: [(u8, u8); 25] = [
            (4, 4), (0, 4), (4, 0), (3, 3), (1, 1), (2, 3), (0, 0), (1, 4), (4, 1), (2, 2), (3, 4), (4, 2), (3, 1),
            (0, 1), (2, 0), (0, 3), (1, 2), (4, 3), (1, 3), (2, 4), (3, 0), (3, 2), (1, 0), (2, 1), (0, 2),
        ];
        let n = self.budget(14);
        let nlimbs = E::ScalarField::MODULUS.as_ref().len();
        for i in 0..n {
            let (ca, cb) = if i < ORDER.len() {
                ORDER[i]
            } else {
                let t = [0u8, 1, 2, 3, 4, 4, 4, 4];
                (t[self.pick(8)], t[self.pick(8)])
            };
            let (a, b) = (self.scalar(ca), self.scalar(cb));
            // points: non-identity except for an occasional identity
            let p = if self.pick(12) == 0 { self.g1(1) } else { self.g1_nz() };
            let q = if self.pick(12) == 0 { self.g2(1) } else { self.g2_nz() };
            let (ai, bi) = (uint(&a), uint(&b));
            let prod = &ai * &bi;
            self.rep.class_if(a.is_zero() || b.is_zero(), C_SCALAR_ZERO);
            self.rep.class_if(prod >= self.r, C_PROD_GE_R);
            // aP, bQ through the groups' scalar multiplication (checked by C04)
            let ap: E::G1 = match self.pick(3) {
                0 => p * a,
                1 => p.mul_bigint(a.into_bigint()),
                _ => p.into_affine().mul_bigint(a.into_bigint()),
            };
            let bq: E::G2 = match self.pick(3) {
                0 => q * b,
                1 => q.mul_bigint(b.into_bigint()),
                _ => q.into_affine().mul_bigint(b.into_bigint()),
            };
            let (f1, f2) = (self.any_form(), self.any_form());
            self.rep.op("relation: e(aP,bQ) = e(P,Q)^(ab)");
            let lhs = self.pair(f1, &ap, &bq);
            let base = self.pair(f2, &p, &q);
            let (Some(lhs), Some(base)) = (lhs, base) else { continue };
            let nontrivial = !p.is_zero() && !q.is_zero() && !a.is_zero() && !b.is_zero();
            self.rep.eval(digest(&(E::NAME, "bilinear", hx(&p.into_affine()), hx(&q.into_affine()), ai.to_string(), bi.to_string())), nontrivial);
            let detail = || {
                json!({"engine": E::NAME, "relation": "e(aP,bQ) = e(P,Q)^(ab)", "P": hx(&p.into_affine()), "Q": hx(&q.into_affine()),
                "a": ai.to_string(), "b": bi.to_string(), "lhs_call": FORMS[f1].1, "base_call": FORMS[f2].1, "lhs": hx(&lhs), "base": hx(&base)})
            };
            // unreduced exponent through Field::pow, reduced exponent through the harness loop
            let rhs_full = base.0.pow(to_limbs(&prod, 2 * nlimbs));
            let rhs_red = naive_pow(&base.0, &(&prod % &self.r));
            self.rep.check(lhs.0 == rhs_full, || format!("pairing/{}/bilinearity/value", E::NAME), detail);
            self.rep.check(rhs_full == rhs_red, || format!("pairing/{}/output-order/power-depends-on-exponent-mod-r", E::NAME), detail);
            if nontrivial {
                self.rep.check(!lhs.0.is_one(), || format!("pairing/{}/non-degeneracy/one-for-non-identity-inputs", E::NAME), detail);
            }
            self.check_order("not-r-torsion", &lhs, detail);
            self.rep.sample(&format!("bilinear/{}", E::NAME), || {
                json!({"engine": E::NAME, "relation": "e(aP,bQ) = e(P,Q)^(ab)", "P": hx(&p.into_affine()), "Q": hx(&q.into_affine()),
                "a": ai.to_string(), "b": bi.to_string(), "value": hx(&lhs)})
            });
        }
    }

    // --------------------------------------------------------------------------------------------
    // e(P+P',Q) = e(P,Q) e(P',Q) and e(P,Q+Q') = e(P,Q) e(P,Q')

    fn additive(&mut self) {
        for c in [C_ID_G1, C_ID_G2] {
            self.rep.require(c);
        }
        let n = self.budget(10);
        for i in 0..n {
            let g1_side = i % 2 == 0;
            let rel = (i / 2) % 5; // 0 independent, 1 P' = P, 2 P' = -P, 3 P' = identity, 4 P' = generator
            let rel_name = ["independent", "P'=P", "P'=-P", "P'=identity", "P'=generator"][rel];
            self.rep.class(&format!("additivity relation class: {rel_name}"));
            let p = self.g1_nz();
            let q = self.g2_nz();
            let (f0, f1, f2) = (self.any_form(), self.any_form(), self.any_form());
            if g1_side {
                let p2 = match rel {
                    0 => self.g1(2),
                    1 => p,
                    2 => -p,
                    3 => self.g1(1),
                    _ => self.g1(0),
                };
                self.rep.op("relation: e(P+P',Q) = e(P,Q) e(P',Q)");
                let sum = p + p2;
                let lhs = self.pair(f0, &sum, &q);
                let e1 = self.pair(f1, &p, &q);
                let e2 = self.pair(f2, &p2, &q);
                let (Some(lhs), Some(e1), Some(e2)) = (lhs, e1, e2) else { continue };
                let nontrivial = !p2.is_zero() && !sum.is_zero();
                self.rep.eval(digest(&(E::NAME, "add-g1", hx(&p.into_affine()), hx(&p2.into_affine()), hx(&q.into_affine()))), nontrivial);
                self.rep.check(
                    lhs.0 == e1.0 * e2.0,
                    || format!("pairing/{}/additivity-G1/value", E::NAME),
                    || {
                        json!({"engine": E::NAME, "relation": "e(P+P',Q) = e(P,Q) e(P',Q)", "class": rel_name, "P": hx(&p.into_affine()),
                        "P'": hx(&p2.into_affine()), "Q": hx(&q.into_affine()), "lhs": hx(&lhs), "e(P,Q)": hx(&e1), "e(P',Q)": hx(&e2),
                        "calls": [FORMS[f0].1, FORMS[f1].1, FORMS[f2].1]})
                    },
                );
            } else {
                let q2 = match rel {
                    0 => self.g2(2),
                    1 => q,
                    2 => -q,
                    3 => self.g2(1),
                    _ => self.g2(0),
                };
                self.rep.op("relation: e(P,Q+Q') = e(P,Q) e(P,Q')");
                let sum = q + q2;
                let lhs = self.pair(f0, &p, &sum);
                let e1 = self.pair(f1, &p, &q);
                let e2 = self.pair(f2, &p, &q2);
                let (Some(lhs), Some(e1), Some(e2)) = (lhs, e1, e2) else { continue };
                let nontrivial = !q2.is_zero() && !sum.is_zero();
                self.rep.eval(digest(&(E::NAME, "add-g2", hx(&p.into_affine()), hx(&q.into_affine()), hx(&q2.into_affine()))), nontrivial);
                self.rep.check(
                    lhs.0 == e1.0 * e2.0,
                    || format!("pairing/{}/additivity-G2/value", E::NAME),
                    || {
                        json!({"engine": E::NAME, "relation": "e(P,Q+Q') = e(P,Q) e(P,Q')", "class": rel_name, "P": hx(&p.into_affine()),
                        "Q": hx(&q.into_affine()), "Q'": hx(&q2.into_affine()), "lhs": hx(&lhs), "e(P,Q)": hx(&e1), "e(P,Q')": hx(&e2),
                        "calls": [FORMS[f0].1, FORMS[f1].1, FORMS[f2].1]})
                    },
                );
            }
        }
    }

    // --------------------------------------------------------------------------------------------
    // identity arguments, non-degeneracy, order of outputs, preparing the identity

    fn identity(&mut self) {
        for c in [C_ID_G1, C_ID_G2, C_ID_BOTH] {
            self.rep.require(c);
        }
        let rounds = self.budget(1);
        for round in 0..rounds {
            // every input form with each identity combination; `pair` checks the value is 1
            for form in 0..FORMS.len() {
                let (p, q) = if round == 0 { (self.g1(0), self.g2(0)) } else { (self.g1(2), self.g2(2)) };
                // identities as produced by the library's own constructors and by arithmetic (P - P)
                let (zp, zq) = if (form + round) % 2 == 0 { (E::G1::zero(), E::G2::zero()) } else { (p - p, q - q) };
                self.rep.op("relation: e(P,0) = e(0,Q) = e(0,0) = 1");
                let _ = self.pair(form, &p, &zq);
                let _ = self.pair(form, &zp, &q);
                let _ = self.pair(form, &zp, &zq);
            }
            // non-degeneracy on the generators through every form; order of the value
            for form in 0..FORMS.len() {
                if round > 0 && form != round % FORMS.len() {
                    continue;
                }
                let (p, q) = (E::G1::generator(), E::G2::generator());
                self.rep.op("relation: e(G1 generator, G2 generator) != 1");
                let Some(v) = self.pair(form, &p, &q) else { continue };
                self.rep.eval(digest(&(E::NAME, "nondegenerate", form)), true);
                self.rep.check(
                    !v.0.is_one(),
                    || format!("pairing/{}/non-degeneracy/generators-pair-to-one", E::NAME),
                    || json!({"engine": E::NAME, "call": FORMS[form].1, "P": "G1 generator", "Q": "G2 generator", "got": hx(&v)}),
                );
                if form == round % FORMS.len() {
                    self.check_order("not-r-torsion", &v, || json!({"engine": E::NAME, "P": "G1 generator", "Q": "G2 generator", "got": hx(&v)}));
                }
            }
            // preparing identities directly must be total
            let zpa = E::G1::zero().into_affine();
            let zqa = E::G2::zero().into_affine();
            self.rep.op("G1Prepared/G2Prepared::from(identity)");
            let _ = self.rep.total(
                &format!("prepare/{}/G1Prepared-from-identity", E::NAME),
                || json!({"engine": E::NAME, "call": "G1Prepared::from(G1Affine::identity()) / from(&..) / from(G1Projective::zero())"}),
                || (E::G1Prepared::from(zpa), E::g1prep_aref(&zpa), E::G1Prepared::from(E::G1::zero()), E::g1prep_pref(&E::G1::zero())),
            );
            let _ = self.rep.total(
                &format!("prepare/{}/G2Prepared-from-identity", E::NAME),
                || json!({"engine": E::NAME, "call": "G2Prepared::from(G2Affine::identity()) / from(&..) / from(G2Projective::zero())"}),
                || (E::G2Prepared::from(zqa), E::g2prep_aref(&zqa), E::G2Prepared::from(E::G2::zero()), E::g2prep_pref(&E::G2::zero())),
            );
            self.rep.eval(digest(&(E::NAME, "prepare-identity")), false);
            // the Default prepared values are the prepared generators
            if round == 0 {
                self.rep.op("pairing(G1Prepared::default(), G2Prepared::default())");
                let d = self.rep.total(
                    &format!("pairing/{}/default-prepared", E::NAME),
                    || json!({"engine": E::NAME, "call": "E::pairing(G1Prepared::default(), G2Prepared::default())"}),
                    || E::pairing(E::G1Prepared::default(), E::G2Prepared::default()),
                );
                let g = self.pair(0, &E::G1::generator(), &E::G2::generator());
                if let (Some(d), Some(g)) = (d, g) {
                    self.rep.eval(digest(&(E::NAME, "default-prepared")), true);
                    self.rep.check(
                        d == g,
                        || format!("pairing/{}/default-prepared/value", E::NAME),
                        || json!({"engine": E::NAME, "expected": hx(&g), "got": hx(&d)}),
                    );
                }
            }
        }
    }

    // --------------------------------------------------------------------------------------------
    // every input form gives the same value

    fn forms(&mut self) {
        let n = self.budget(2);
        for i in 0..n {
            let (p, q) = match i % 4 {
                0 => (self.g1(2), self.g2(2)),
                1 => (self.g1(0), self.g2(2)),
                2 => (self.g1(2), self.g2(0)),
                _ => (-self.g1(2), -self.g2(2)),
            };
            self.rep.op("relation: all input forms agree");
            let Some(reference) = self.pair(0, &p, &q) else { continue };
            for form in 1..FORMS.len() {
                let Some(v) = self.pair(form, &p, &q) else { continue };
                self.rep.eval(digest(&(E::NAME, "forms", form, hx(&p.into_affine()), hx(&q.into_affine()))), true);
                self.rep.check(
                    v == reference,
                    || format!("pairing/{}/input-form-{}/differs-from-affine", E::NAME, FORMS[form].0),
                    || {
                        json!({"engine": E::NAME, "P": hx(&p.into_affine()), "Q": hx(&q.into_affine()), "reference_call": FORMS[0].1,
                        "call": FORMS[form].1, "expected": hx(&reference), "got": hx(&v)})
                    },
                );
            }
            if i == 0 {
                self.check_order("not-r-torsion", &reference, || json!({"engine": E::NAME, "P": hx(&p.into_affine()), "Q": hx(&q.into_affine())}));
            }
        }
    }

    // --------------------------------------------------------------------------------------------
    // multi_pairing = product of single pairings (identity entries contribute 1)

    fn multi(&mut self, lens: &[usize]) {
        for &l in lens {
            self.rep.require(&format!("multi-pairing length {l}"));
            if l > 4 && l % 4 != 0 {
                self.rep.require(C_CHUNK);
            }
            if l == 0 {
                self.rep.require(C_MULTI_EMPTY);
            }
        }
        if lens.iter().any(|l| *l > 0) {
            self.rep.require(C_MULTI_ID_G1);
            self.rep.require(C_MULTI_ID_G2);
        }
        let rounds = self.budget(1);
        let all_positions_long = !self.args.quick();
        let mut form_ctr = 0usize;
        for round in 0..rounds {
            for &l in lens {
                // base pairs without identities; singles through the plain affine form
                let mut ps: Vec<E::G1> = (0..l).map(|_| self.g1_nz()).collect();
                let mut qs: Vec<E::G2> = (0..l).map(|_| self.g2_nz()).collect();
                if l >= 3 && round % 2 == 1 {
                    // correlated entries: a repeated pair and a negated point
                    ps[1] = ps[0];
                    qs[1] = qs[0];
                    ps[2] = -ps[0];
                }
                let mut singles: Vec<E::TargetField> = vec![];
                for i in 0..l {
                    let f = if round == 0 { 0 } else { self.any_form() };
                    match self.pair(f, &ps[i], &qs[i]) {
                        Some(v) => singles.push(v.0),
                        None => break,
                    }
                }
                if singles.len() != l {
                    continue;
                }
                // identity masks (true = replace the entry by the identity)
                let mut masks: Vec<(Vec<bool>, Vec<bool>)> = vec![(vec![false; l], vec![false; l])];
                let positions: Vec<usize> = if l <= 5 || all_positions_long {
                    (0..l).collect()
                } else {
                    let mut v = vec![0, 3, 4, l - 1, self.pick(l)];
                    v.sort();
                    v.dedup();
                    v
                };
                for &i in &positions {
                    let mut m1 = vec![false; l];
                    m1[i] = true;
                    masks.push((m1.clone(), vec![false; l]));
                    masks.push((vec![false; l], m1));
                }
                if l >= 1 {
                    let i = self.pick(l);
                    let mut m = vec![false; l];
                    m[i] = true;
                    masks.push((m.clone(), m.clone())); // both identities in the same pair
                    masks.push((vec![true; l], vec![false; l]));
                    masks.push((vec![false; l], vec![true; l]));
                }
                if l >= 2 {
                    let i = self.pick(l);
                    let j = (i + 1 + self.pick(l - 1)) % l;
                    let (mut m1, mut m2) = (vec![false; l], vec![false; l]);
                    m1[i] = true;
                    m2[j] = true;
                    masks.push((m1, m2)); // identities in different pairs
                    let m1: Vec<bool> = (0..l).map(|_| self.pick(3) == 0).collect();
                    let m2: Vec<bool> = (0..l).map(|_| self.pick(3) == 0).collect();
                    masks.push((m1, m2)); // random mask
                }
                for (m1, m2) in masks {
                    let pl: Vec<E::G1> = (0..l).map(|i| if m1[i] { E::G1::zero() } else { ps[i] }).collect();
                    let ql: Vec<E::G2> = (0..l).map(|i| if m2[i] { E::G2::zero() } else { qs[i] }).collect();
                    let any1 = m1.iter().any(|b| *b);
                    let any2 = m2.iter().any(|b| *b);
                    let live = (0..l).filter(|i| !m1[*i] && !m2[*i]).count();
                    self.rep.class(&format!("multi-pairing length {l}"));
                    self.rep.class_if(l > 4 && l % 4 != 0, C_CHUNK);
                    self.rep.class_if(live > 4 && live % 4 != 0, "multi-pairing with > 4 non-identity pairs, count not a multiple of 4");
                    self.rep.class_if(live > 4 && live % 4 == 0, "multi-pairing with > 4 non-identity pairs, count a multiple of 4");
                    self.rep.class_if(l == 0, C_MULTI_EMPTY);
                    self.rep.class_if(any1, C_MULTI_ID_G1);
                    self.rep.class_if(any2, C_MULTI_ID_G2);
                    self.rep.class_if(l > 0 && live == 0, "multi-pairing in which every pair contains an identity");
                    let cls = match (any1, any2) {
                        (false, false) => "no-identity",
                        (true, false) => "identity-G1-entry",
                        (_, true) => "identity-G2-entry",
                    };
                    let form = form_ctr % MULTI_FORMS.len();
                    form_ctr += 1;
                    self.rep.op(MULTI_FORMS[form].1);
                    // oracle: product over the pairs without an identity, by field multiplication
                    let mut expected = E::TargetField::one();
                    for i in 0..l {
                        if !m1[i] && !m2[i] {
                            expected *= &singles[i];
                        }
                    }
                    let sig = format!("multi_pairing/{}/{}", E::NAME, cls);
                    let mask_str = |m: &Vec<bool>| m.iter().map(|b| if *b { '0' } else { 'P' }).collect::<String>();
                    let detail = || {
                        json!({"engine": E::NAME, "call": MULTI_FORMS[form].1, "length": l, "G1_list (0 = identity)": mask_str(&m1),
                        "G2_list (0 = identity)": mask_str(&m2), "G1": pl.iter().map(|p| hx(&p.into_affine())).collect::<Vec<_>>(),
                        "G2": ql.iter().map(|q| hx(&q.into_affine())).collect::<Vec<_>>(),
                        "expected": "product of the single pairings of the pairs without an identity"})
                    };
                    let Some(res) = self.rep.total(&sig, detail, || eval_multi::<E>(form, &pl, &ql)) else { continue };
                    let Some(got) = res else {
                        self.rep.violation(format!("{sig}/final-exponentiation-none"), detail());
                        continue;
                    };
                    self.rep.class(&engine_class(E::NAME));
                    self.rep.class_if(live > 0, &model_class(E::model()));
                    self.rep.eval(
                        digest(&(E::NAME, "multi", l, &m1, &m2, pl.iter().map(|p| hx(&p.into_affine())).collect::<Vec<_>>(), ql.iter().map(|q| hx(&q.into_affine())).collect::<Vec<_>>())),
                        live > 0,
                    );
                    // a wrong value with more than one chunk of 4 non-identity pairs is attributed to
                    // the chunking (the same masks are also run at lengths <= 4)
                    self.rep.check(
                        got.0 == expected,
                        || {
                            if live > 4 {
                                format!("multi_pairing/{}/more-than-4-non-identity-pairs/value", E::NAME)
                            } else {
                                format!("{sig}/value")
                            }
                        },
                        || {
                            let mut d = detail();
                            d["expected_value"] = json!(hx(&expected));
                            d["got"] = json!(hx(&got));
                            d
                        },
                    );
                }
                // cancellation: e(P,Q) e(-P,Q) = 1 and e(P,Q) e(P,-Q) = 1 inside one multi-pairing
                if l == 2 {
                    for side in 0..2 {
                        let (pl, ql) = if side == 0 { (vec![ps[0], -ps[0]], vec![qs[0], qs[0]]) } else { (vec![ps[0], ps[0]], vec![qs[0], -qs[0]]) };
                        let form = form_ctr % MULTI_FORMS.len();
                        form_ctr += 1;
                        self.rep.op("relation: multi_pairing([P,-P],[Q,Q]) = 1");
                        let sig = format!("multi_pairing/{}/cancellation", E::NAME);
                        let detail = || json!({"engine": E::NAME, "call": MULTI_FORMS[form].1, "lists": if side == 0 { "[P,-P],[Q,Q]" } else { "[P,P],[Q,-Q]" },
                            "P": hx(&ps[0].into_affine()), "Q": hx(&qs[0].into_affine()), "expected": "1"});
                        let Some(Some(got)) = self.rep.total(&sig, detail, || eval_multi::<E>(form, &pl, &ql)) else { continue };
                        self.rep.eval(digest(&(E::NAME, "multi-cancel", side, hx(&ps[0].into_affine()), hx(&qs[0].into_affine()))), true);
                        self.rep.check(got.0.is_one(), || format!("{sig}/value"), detail);
                    }
                }
            }
        }
    }

    // --------------------------------------------------------------------------------------------
    // PairingOutput group operations vs target-field operations; Valid / (de)serialization

    fn gt_ops(&mut self) {
        let rounds = self.budget(1);
        let nlimbs = E::ScalarField::MODULUS.as_ref().len();
        let one = E::TargetField::one();
        for round in 0..rounds {
            // operands: two pairing values, the group's generator(), and the identity
            let (p, q) = (self.g1_nz(), self.g2_nz());
            let (p2, q2) = (self.g1(2), self.g2(2));
            let f = self.any_form();
            let Some(x) = self.pair(f, &p, &q) else { continue };
            let Some(y) = self.pair(0, &p2, &q2) else { continue };
            let zero = PairingOutput::<E>::zero();
            macro_rules! gt {
                ($op:literal, $nontrivial:expr, $got:expr, $exp:expr, $($k:tt : $v:expr),*) => {{
                    self.rep.op(concat!("PairingOutput ", $op));
                    let got: PairingOutput<E> = $got;
                    let exp: E::TargetField = $exp;
                    self.rep.eval(digest(&(E::NAME, "gt", $op, hx(&x), hx(&y) $(, $v.to_string())*)), $nontrivial);
                    self.rep.check(got.0 == exp, || format!("gt/{}/{}/value", E::NAME, $op),
                        || json!({"engine": E::NAME, "op": $op, "x": hx(&x), "y": hx(&y), $($k: $v.to_string(),)* "expected": hx(&exp), "got": hx(&got)}));
                }};
            }
            if round == 0 {
                self.rep.op("PairingOutput generator()/zero()");
                if let Some(g) = self.rep.total(&format!("gt/{}/generator", E::NAME), || json!({"engine": E::NAME}), PairingOutput::<E>::generator) {
                    if let Some(e) = self.pair(0, &E::G1::generator(), &E::G2::generator()) {
                        self.rep.eval(digest(&(E::NAME, "gt-generator")), true);
                        self.rep.check(g == e && !g.is_zero(), || format!("gt/{}/generator/value", E::NAME), || json!({"engine": E::NAME, "got": hx(&g), "expected": hx(&e)}));
                    }
                }
                self.rep.check(
                    zero.0 == one && zero.is_zero() && PairingOutput::<E>::ZERO == zero && PairingOutput::<E>::default() == zero && !x.is_zero(),
                    || format!("gt/{}/zero/value", E::NAME),
                    || json!({"engine": E::NAME, "zero": hx(&zero)}),
                );
            }
            let xinv = x.0.inverse().expect("pairing value is non-zero");
            let yinv = y.0.inverse().expect("pairing value is non-zero");
            gt!("add", true, x + y, x.0 * y.0,);
            gt!("add-ref", true, x + &y, x.0 * y.0,);
            gt!("add-assign", true, { let mut t = x; t += y; t }, x.0 * y.0,);
            gt!("add-assign-ref", true, { let mut t = x; t += &y; t }, x.0 * y.0,);
            gt!("add-identity", false, x + zero, x.0,);
            gt!("add-self", true, x + x, x.0.square(),);
            gt!("sub", true, x - y, x.0 * yinv,);
            gt!("sub-ref", true, x - &y, x.0 * yinv,);
            gt!("sub-assign", true, { let mut t = x; t -= y; t }, x.0 * yinv,);
            gt!("sub-assign-ref", true, { let mut t = x; t -= &y; t }, x.0 * yinv,);
            gt!("sub-self", true, x - x, one,);
            gt!("sub-from-identity", true, zero - x, xinv,);
            gt!("neg", true, -x, xinv,);
            gt!("neg-identity", false, -zero, one,);
            gt!("double", true, x.double(), x.0.square(),);
            gt!("double-in-place", true, { let mut t = y; t.double_in_place(); t }, y.0.square(),);
            gt!("double-identity", false, zero.double(), one,);
            gt!("sum", true, [x, y, x].iter().sum::<PairingOutput<E>>(), x.0 * y.0 * x.0,);
            gt!("sum-owned", true, vec![x, y, zero, y].into_iter().sum::<PairingOutput<E>>(), x.0 * y.0 * y.0,);
            gt!("sum-empty", false, Vec::<PairingOutput<E>>::new().into_iter().sum::<PairingOutput<E>>(), one,);
            // scalar multiples: exponent classes {0,1,2,r-1,r,uniform, unreduced product, leading zero limbs}
            for cls in 0u8..8 {
                let (limbs, label): (Vec<u64>, &str) = match cls {
                    0..=3 => (self.scalar(cls).into_bigint().as_ref().to_vec(), ["0", "1", "2", "r-1"][cls as usize]),
                    4 => (self.scalar(4).into_bigint().as_ref().to_vec(), "uniform < r"),
                    5 => (E::ScalarField::MODULUS.as_ref().to_vec(), "r"),
                    6 => {
                        let (a, b) = (self.scalar(4), self.scalar(4));
                        (to_limbs(&(uint(&a) * uint(&b)), 2 * nlimbs), "integer product a*b (2N limbs)")
                    },
                    _ => {
                        let mut l = self.scalar(4).into_bigint().as_ref().to_vec();
                        l.extend_from_slice(&[0, 0]);
                        (l, "uniform < r with two leading zero limbs")
                    },
                };
                let e = from_limbs(&limbs);
                let expected = if cls % 2 == 0 { x.0.pow(&limbs) } else { naive_pow(&x.0, &e) };
                gt!("mul_bigint", !e.is_zero(), x.mul_bigint(&limbs), expected, "exponent_class": label, "exponent": e);
                if cls == 5 {
                    self.rep.check(x.mul_bigint(&limbs).is_zero(), || format!("gt/{}/mul_bigint/r-times-x-not-identity", E::NAME), || json!({"engine": E::NAME, "x": hx(&x)}));
                }
                if cls <= 4 {
                    let s = E::ScalarField::from_bigint(<E::ScalarField as PrimeField>::BigInt::try_from(e.clone()).ok().expect("fits")).expect("< r");
                    gt!("mul-scalar", !e.is_zero(), x * s, expected, "scalar_class": label, "scalar": e);
                    gt!("mul-scalar-ref", !e.is_zero(), x * &s, expected, "scalar_class": label, "scalar": e);
                    gt!("mul-assign-scalar", !e.is_zero(), { let mut t = x; t *= s; t }, expected, "scalar_class": label, "scalar": e);
                    // big-endian bit string of the scalar, as documented for PrimeGroup::mul_bits_be
                    let bits_be: Vec<bool> = s.into_bigint().to_bits_be();
                    let palindrome = bits_be.iter().eq(bits_be.iter().rev());
                    self.rep.class_if(!palindrome, "mul_bits_be with a bit string that is not a palindrome");
                    gt!("mul_bits_be", !e.is_zero(), x.mul_bits_be(bits_be.iter().copied()), expected, "scalar_class": label, "scalar": e);
                    // the same integer as bit strings whose length is not a multiple of 64: leading zeros
                    // stripped, exactly MODULUS_BIT_SIZE bits, and three extra leading zeros
                    let stripped: Vec<bool> = bits_be.iter().copied().skip_while(|b| !b).collect();
                    let nbits = <E::ScalarField as PrimeField>::MODULUS_BIT_SIZE as usize;
                    let exact: Vec<bool> = bits_be[bits_be.len() - nbits..].to_vec();
                    let mut padded = vec![false; 3];
                    padded.extend(bits_be.iter().copied());
                    self.rep.class_if(stripped.len() > 64 && stripped.len() % 64 != 0, "mul_bits_be with a bit string longer than 64 bits whose length is not a multiple of 64");
                    gt!("mul_bits_be-stripped", !e.is_zero(), x.mul_bits_be(stripped.iter().copied()), expected, "scalar_class": label, "scalar": e, "bits": stripped.len());
                    gt!("mul_bits_be-modulus-bits", !e.is_zero(), x.mul_bits_be(exact.iter().copied()), expected, "scalar_class": label, "scalar": e, "bits": exact.len());
                    gt!("mul_bits_be-padded", !e.is_zero(), x.mul_bits_be(padded.iter().copied()), expected, "scalar_class": label, "scalar": e, "bits": padded.len());
                    // a Miller-loop value scaled by s and then exponentiated is the pairing value scaled by s
                    let ml = E::multi_miller_loop([self.g1(0)], [self.g2(0)]);
                    if let (Some(a), Some(b)) = (E::final_exponentiation(ml * s), E::final_exponentiation(ml)) {
                        gt!("miller-loop-output-mul-scalar", !e.is_zero(), a, b.0.pow(s.into_bigint()), "scalar_class": label, "scalar": e);
                    }
                }
            }
            gt!("mul_bigint-of-identity", false, zero.mul_bigint(self.scalar(4).into_bigint()), one,);
            // outputs are valid group elements and survive (de)serialization with validation
            self.rep.op("PairingOutput Valid::check / serialize / deserialize(Validate::Yes)");
            for (nm, v) in [("x", x), ("x+y", x + y), ("identity", zero)] {
                self.rep.eval(digest(&(E::NAME, "gt-valid", hx(&v))), !v.is_zero());
                self.rep.check(v.check().is_ok(), || format!("gt/{}/valid-check/rejects-pairing-output", E::NAME), || json!({"engine": E::NAME, "which": nm, "value": hx(&v)}));
                for c in [Compress::Yes, Compress::No] {
                    let mut buf = vec![];
                    let ser = v.serialize_with_mode(&mut buf, c);
                    let size_ok = ser.is_ok() && buf.len() == v.serialized_size(c);
                    let back = PairingOutput::<E>::deserialize_with_mode(&buf[..], c, Validate::Yes);
                    let ok = size_ok && matches!(&back, Ok(b) if *b == v);
                    self.rep.check(ok, || format!("gt/{}/serialization/roundtrip-with-validation", E::NAME),
                        || json!({"engine": E::NAME, "which": nm, "compress": matches!(c, Compress::Yes), "value": hx(&v), "bytes": hex_bytes(&buf),
                        "serialized_size": v.serialized_size(c), "result": format!("{:?}", back.as_ref().map(|b| hx(b)).map_err(|e| e.to_string()))}));
                }
            }
            self.check_order("not-r-torsion", &x, || json!({"engine": E::NAME, "P": hx(&p.into_affine()), "Q": hx(&q.into_affine())}));
        }
    }
}
