//! Pairing-layer monitor: C06 (pairings are bilinear, non-degenerate and identity-preserving in
//! every model).
use monitor::*;
use std::time::Instant;

mod c06;

fn main() {
    let args = Args::parse();
    let t0 = Instant::now();
    let (items, rule): (Vec<Item>, &str) = match args.prop.as_str() {
        "C06" => (c06::items(&args), c06::RULE),
        p => panic!("mon_pair does not serve property {p}"),
    };
    let rep = run_items(&args, items);
    finish(&args, "mon_pair", rule, rep, t0)
}
