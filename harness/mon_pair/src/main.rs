use monitor::*;
fn main() {
    let args = Args::parse();
    panic!("mon_pair does not serve property {} yet", args.prop);
}
