//! C14 — results do not depend on the `parallel` feature or on the number of threads.
//!
//! The same binary is built twice: without the `par` cargo feature (serial library code) it is run
//! with `--emit <file>` and writes a digest of the canonical serialization of every
//! (operation, shape) output; built with `--features par` (every crate's `parallel` feature on) it
//! is run with `--compare <file>`, recomputes every output inside rayon pools of many sizes (with
//! and without a background CPU hog that perturbs work stealing) and compares digests.
use ark_ec::{
    pairing::Pairing,
    scalar_mul::{variable_base::VariableBaseMSM, BatchMulPreprocessing},
    AffineRepr, CurveGroup, PrimeGroup,
};
use ark_ff::{batch_inversion, batch_inversion_and_mul, FftField, PrimeField, UniformRand, Zero};
use ark_poly::{
    evaluations::multivariate::multilinear::{DenseMultilinearExtension, MultilinearExtension, SparseMultilinearExtension},
    multivariate::{SparsePolynomial as MvPoly, SparseTerm, Term},
    univariate::{DensePolynomial, SparsePolynomial},
    DenseMVPolynomial, DenseUVPolynomial, EvaluationDomain, GeneralEvaluationDomain, MixedRadixEvaluationDomain, Polynomial,
    Radix2EvaluationDomain,
};
use ark_serialize::{CanonicalDeserialize, CanonicalSerialize, Compress, Valid, Validate};
use ark_std::rand::RngCore;
use monitor::*;
use std::collections::BTreeMap;
use std::sync::atomic::{AtomicBool, Ordering};
use std::sync::Arc;
use std::time::Instant;

use cfgs::shipped::{bls12_381, bw6_761, ed_on_bls12_381, mnt4_298, tc};
type Fr = bls12_381::Fr;
type Fm = tc::bn384_small_two_adicity::Fr; // mixed-radix field
type G1 = bls12_381::G1Projective;
type G1A = bls12_381::G1Affine;
type Te = ed_on_bls12_381::EdwardsProjective;

pub const RULE: &str = "cases = (operation with a parallel code path, input shape, thread-pool size t, repetition); shapes include lengths \
t-1, t, t+1, 2t+1, 16t±1, 1024t±1 for every t in the pool-size list and lengths smaller than t; pool sizes {1,2,3,4,5,6,7,8,12,15,16,17,24,32,64}; \
each output (canonical uncompressed serialization) is compared with the digest produced by the serial build for the same seeded input; \
repetitions alternate with a background CPU-hog thread group to perturb work stealing; non-trivial = non-empty input; \
distinct = digest of (operation, shape, t, repetition)";

const THREADS: &[usize] = &[1, 2, 3, 4, 5, 6, 7, 8, 12, 15, 16, 17, 24, 32, 64];

fn ser<T: CanonicalSerialize>(t: &T) -> Vec<u8> {
    let mut v = vec![];
    t.serialize_uncompressed(&mut v).expect("serialize");
    v
}

type OpFn = Box<dyn Fn(&mut Rng, usize) -> Vec<u8> + Send + Sync>;
struct Op {
    name: &'static str,
    shapes: Vec<usize>,
    run: OpFn,
}

fn lens_around_threads(mult: usize, cap: usize) -> Vec<usize> {
    let mut v = vec![0usize, 1, 2, 3];
    for &t in THREADS {
        for l in [t.saturating_sub(1), t, t + 1, 2 * t + 1, mult * t - 1, mult * t, mult * t + 1] {
            if l <= cap {
                v.push(l);
            }
        }
    }
    v.sort();
    v.dedup();
    v
}

fn rand_vec<F: UniformRand + Zero>(rng: &mut Rng, n: usize, zeros: bool) -> Vec<F> {
    (0..n).map(|i| if zeros && i % 5 == 3 { F::zero() } else { F::rand(rng) }).collect()
}

fn fft_op<D: EvaluationDomain<F>, F: ark_ff::FftField>(rng: &mut Rng, shape: usize) -> Vec<u8> {
    // shape encodes (log size, input-length class)
    let (logn, cls) = (shape / 8, shape % 8);
    fft_op_n::<D, F>(rng, 1usize << logn, cls)
}

/// shape encodes (requested size, input-length class): sizes with odd factors for the mixed-radix kinds
fn fft_op_sized<D: EvaluationDomain<F>, F: ark_ff::FftField>(rng: &mut Rng, shape: usize) -> Vec<u8> {
    fft_op_n::<D, F>(rng, shape / 8, shape % 8)
}

fn fft_op_n<D: EvaluationDomain<F>, F: ark_ff::FftField>(rng: &mut Rng, n: usize, cls: usize) -> Vec<u8> {
    let Some(d) = D::new(n) else { return vec![0xEE] };
    let n = d.size();
    let len = [n, n / 2, n / 4, (n / 4).saturating_sub(1), n / 4 + 1, n - 1, 1, 0][cls].min(n);
    let coeffs: Vec<F> = rand_vec(rng, len, false);
    let off = F::GENERATOR;
    let c = d.get_coset(off).unwrap();
    let e = d.fft(&coeffs);
    let back = d.ifft(&e);
    let ce = c.fft(&coeffs);
    let cb = c.ifft(&ce);
    let mut inplace = coeffs.clone();
    d.fft_in_place(&mut inplace);
    let mut out = ser(&e);
    out.extend(ser(&back));
    out.extend(ser(&ce));
    out.extend(ser(&cb));
    out.extend(ser(&inplace));
    out.extend(ser(&d.elements().take(64).collect::<Vec<_>>()));
    out
}

fn ops(quick: bool) -> Vec<Op> {
    let mut v: Vec<Op> = vec![];
    let max_log = if quick { 13 } else { 15 };
    let fft_shapes: Vec<usize> = (1..=max_log).flat_map(|k| (0..8).map(move |c| k * 8 + c)).filter(|s| quick == false || (s % 8 < 5 || s / 8 <= 8)).collect();
    v.push(Op { name: "radix2 fft/ifft/coset (bls12_381 Fr)", shapes: fft_shapes.clone(), run: Box::new(|r, s| fft_op::<Radix2EvaluationDomain<Fr>, Fr>(r, s)) });
    let mixed_shapes: Vec<usize> = (1..=if quick { 10 } else { 12 }).flat_map(|k| [0usize, 2, 3, 4].into_iter().map(move |c| k * 8 + c)).collect();
    v.push(Op { name: "mixed-radix fft/ifft/coset (bn384 Fr)", shapes: mixed_shapes.clone(), run: Box::new(|r, s| fft_op::<MixedRadixEvaluationDomain<Fm>, Fm>(r, s)) });
    v.push(Op { name: "general domain fft/ifft/coset (bn384 Fr)", shapes: mixed_shapes, run: Box::new(|r, s| fft_op::<GeneralEvaluationDomain<Fm>, Fm>(r, s)) });
    // sizes 2^a * 3^b with b >= 1 (the parallel coset split of a size with an odd factor), exact and rounded-up requests
    let mut odd_sizes: Vec<usize> = vec![3, 6, 9, 12, 18, 24, 36, 48, 72, 96, 144, 192, 288, 384, 576, 1152, 2304, 4608, 65, 130, 1025, 2500];
    if !quick {
        odd_sizes.extend([9216, 18432, 36864, 4097, 20000]);
    }
    let odd_shapes: Vec<usize> = odd_sizes.iter().flat_map(|&n| [0usize, 2, 4, 5].into_iter().map(move |c| n * 8 + c)).collect();
    v.push(Op { name: "mixed-radix fft/ifft/coset, sizes with a factor 3 (bn384 Fr)", shapes: odd_shapes.clone(), run: Box::new(|r, s| fft_op_sized::<MixedRadixEvaluationDomain<Fm>, Fm>(r, s)) });
    v.push(Op { name: "general domain fft/ifft/coset, sizes with a factor 3 (bn384 Fr)", shapes: odd_shapes, run: Box::new(|r, s| fft_op_sized::<GeneralEvaluationDomain<Fm>, Fm>(r, s)) });
    v.push(Op {
        name: "distribute_powers_and_mul_by_const",
        shapes: {
            let mut l = lens_around_threads(1024, if quick { 20_000 } else { 70_000 });
            l.extend([1023, 1024, 1025, 2047, 2048, 2049, 4097]);
            l.sort();
            l.dedup();
            l
        },
        run: Box::new(|rng, n| {
            let mut c: Vec<Fr> = rand_vec(rng, n, true);
            let (g, k) = (Fr::rand(rng), Fr::rand(rng));
            Radix2EvaluationDomain::<Fr>::distribute_powers_and_mul_by_const(&mut c, g, k);
            let mut d: Vec<Fr> = rand_vec(rng, n.min(3000), false);
            Radix2EvaluationDomain::<Fr>::distribute_powers(&mut d, g);
            let mut out = ser(&c);
            out.extend(ser(&d));
            out
        }),
    });
    v.push(Op {
        name: "DensePolynomial::evaluate",
        shapes: lens_around_threads(16, 1100),
        run: Box::new(|rng, n| {
            let p = DensePolynomial::<Fr>::from_coefficients_vec(rand_vec(rng, n, true));
            let x = Fr::rand(rng);
            // a coefficient vector with trailing zeros (reachable through the public field / DerefMut / deserialization):
            // serial Horner evaluation does not care, so the parallel one must not either
            let mut c2: Vec<Fr> = rand_vec(rng, n, true);
            c2.extend([Fr::zero(), Fr::zero()]);
            if n > 3 {
                c2[n - 1] = Fr::zero();
            }
            let p2 = DensePolynomial::<Fr> { coeffs: c2 };
            ser(&vec![p.evaluate(&x), p.evaluate(&Fr::zero()), p.evaluate(&Fr::from(1u64)), p2.evaluate(&x)])
        }),
    });
    v.push(Op {
        name: "dense polynomial operators",
        shapes: vec![0, 1, 2, 15, 16, 17, 63, 64, 65, 300],
        run: Box::new(|rng, n| {
            let p = DensePolynomial::<Fr>::from_coefficients_vec(rand_vec(rng, n, true));
            let q = DensePolynomial::<Fr>::from_coefficients_vec(rand_vec(rng, (n * 3) / 4 + 1, false));
            let d = Radix2EvaluationDomain::<Fr>::new(16).unwrap().get_coset(Fr::GENERATOR).unwrap();
            let k = Fr::rand(rng);
            let mut out = ser(&(&p + &q));
            out.extend(ser(&(&p - &q)));
            out.extend(ser(&(&p * k)));
            out.extend(ser(&(&p * &q)));
            out.extend(ser(&p.naive_mul(&q)));
            out.extend(ser(&p.mul_by_vanishing_poly(d)));
            let (qq, rr) = p.divide_by_vanishing_poly(d);
            out.extend(ser(&qq));
            out.extend(ser(&rr));
            let mut t = p.clone();
            t += (k, &q);
            out.extend(ser(&t));
            let ev = p.clone().evaluate_over_domain(d);
            out.extend(ser(&ev.evals));
            out.extend(ser(&ev.clone().interpolate()));
            let ev2 = q.clone().evaluate_over_domain(d);
            out.extend(ser(&(&ev + &ev2).evals));
            out.extend(ser(&(&ev * &ev2).evals));
            out.extend(ser(&(&ev - &ev2).evals));
            let sp: SparsePolynomial<Fr> = q.clone().into();
            out.extend(ser(&sp.evaluate(&k)));
            out.extend(ser(&sp.evaluate_over_domain(d).evals));
            out.extend(ser(&d.evaluate_all_lagrange_coefficients(k)));
            out
        }),
    });
    v.push(Op {
        name: "batch_inversion / batch_inversion_and_mul",
        shapes: lens_around_threads(1, 200),
        run: Box::new(|rng, n| {
            let mut a: Vec<Fr> = rand_vec(rng, n, true);
            let mut b = a.clone();
            let mut c: Vec<bls12_381::Fq2> = rand_vec(rng, n, true);
            let k = Fr::rand(rng);
            batch_inversion(&mut a);
            batch_inversion_and_mul(&mut b, &k);
            batch_inversion(&mut c);
            let mut out = ser(&a);
            out.extend(ser(&b));
            out.extend(ser(&c));
            out
        }),
    });
    v.push(Op {
        name: "msm (bls12_381 G1, ed_on_bls12_381)",
        shapes: if quick { vec![0, 1, 2, 15, 31, 32, 33, 100, 513, 2049] } else { vec![0, 1, 2, 15, 31, 32, 33, 100, 513, 2048, 5000] },
        run: Box::new(|rng, n| {
            let bases: Vec<G1A> = (0..n).map(|i| if i % 7 == 6 { G1A::zero() } else { (G1A::generator() * Fr::rand(rng)).into_affine() }).collect();
            let scalars: Vec<Fr> = rand_vec(rng, n, true);
            let bigs: Vec<_> = scalars.iter().map(|s| s.into_bigint()).collect();
            let mut out = ser(&G1::msm(&bases, &scalars).unwrap().into_affine());
            out.extend(ser(&G1::msm_unchecked(&bases, &scalars).into_affine()));
            out.extend(ser(&G1::msm_bigint(&bases, &bigs).into_affine()));
            out.extend(ser(&ark_ec::scalar_mul::variable_base::verif_hooks::msm_bigint_plain::<G1>(&bases, &bigs).into_affine()));
            let tb: Vec<ed_on_bls12_381::EdwardsAffine> = (0..n.min(200)).map(|_| (ed_on_bls12_381::EdwardsAffine::generator() * ed_on_bls12_381::Fr::rand(rng)).into_affine()).collect();
            let ts: Vec<ed_on_bls12_381::Fr> = rand_vec(rng, n.min(200), true);
            out.extend(ser(&Te::msm(&tb, &ts).unwrap().into_affine()));
            out
        }),
    });
    v.push(Op {
        name: "BatchMulPreprocessing / batch_mul / normalize_batch",
        shapes: lens_around_threads(1, 70),
        run: Box::new(|rng, n| {
            let g = G1::generator() * Fr::rand(rng);
            let scalars: Vec<Fr> = rand_vec(rng, n, true);
            let t = BatchMulPreprocessing::<G1>::new(g, n);
            let mut out = ser(&t.batch_mul(&scalars));
            out.extend(ser(&ark_ec::scalar_mul::ScalarMul::batch_mul(g, &scalars)));
            let pts: Vec<G1> = scalars.iter().map(|s| g * s).collect();
            out.extend(ser(&G1::normalize_batch(&pts)));
            let tpts: Vec<Te> = (0..n).map(|_| Te::generator() * ed_on_bls12_381::Fr::rand(rng)).collect();
            out.extend(ser(&Te::normalize_batch(&tpts)));
            out
        }),
    });
    v.push(Op {
        name: "multi-pairing (bls12_381, mnt4_298, bw6_761)",
        shapes: if quick { vec![0, 1, 4, 5, 9] } else { vec![0, 1, 2, 3, 4, 5, 8, 9, 13, 17] },
        run: Box::new(|rng, n| {
            fn mp<E: Pairing>(rng: &mut Rng, n: usize) -> Vec<u8> {
                let ps: Vec<E::G1Affine> = (0..n).map(|i| if i % 5 == 4 { E::G1Affine::zero() } else { (E::G1::generator() * E::ScalarField::rand(rng)).into_affine() }).collect();
                let qs: Vec<E::G2Affine> = (0..n).map(|i| if i % 7 == 6 { E::G2Affine::zero() } else { (E::G2::generator() * E::ScalarField::rand(rng)).into_affine() }).collect();
                ser(&E::multi_pairing(ps, qs).0)
            }
            let mut out = mp::<bls12_381::Bls12_381>(rng, n);
            out.extend(mp::<mnt4_298::MNT4_298>(rng, n.min(6)));
            out.extend(mp::<bw6_761::BW6_761>(rng, n.min(9)));
            out
        }),
    });
    v.push(Op {
        name: "Valid::batch_check / Vec<G1Affine> checked deserialization",
        shapes: lens_around_threads(1, 40),
        run: Box::new(|rng, n| {
            let pts: Vec<G1A> = (0..n).map(|_| (G1A::generator() * Fr::rand(rng)).into_affine()).collect();
            let ok = G1A::batch_check(pts.iter()).is_ok();
            let mut bytes = vec![];
            pts.serialize_compressed(&mut bytes).unwrap();
            let back = Vec::<G1A>::deserialize_with_mode(&bytes[..], Compress::Yes, Validate::Yes);
            // one bad element (on curve, outside the subgroup): the batch must be rejected regardless of scheduling
            let mut bad = pts.clone();
            let mut rejected = true;
            if n > 0 {
                let off = loop {
                    let x = bls12_381::Fq::rand(rng);
                    if let Some(p) = G1A::get_point_from_x_unchecked(x, false) {
                        if !p.is_in_correct_subgroup_assuming_on_curve() {
                            break p;
                        }
                    }
                };
                let idx = rng.next_u32() as usize % n;
                bad[idx] = off;
                rejected = G1A::batch_check(bad.iter()).is_err();
            }
            let mut out = vec![ok as u8, rejected as u8, back.is_ok() as u8];
            if let Ok(b) = back {
                out.extend(ser(&b));
            }
            out
        }),
    });
    v.push(Op {
        name: "multilinear extensions / multivariate evaluation",
        shapes: vec![0, 1, 2, 3, 5, 8, 10, 12],
        run: Box::new(|rng, nv| {
            let d = DenseMultilinearExtension::<Fr>::rand(nv, rng);
            let e = DenseMultilinearExtension::<Fr>::rand(nv, rng);
            let pt: Vec<Fr> = rand_vec(rng, nv, false);
            let mut out = ser(&d.fix_variables(&pt).to_evaluations());
            out.extend(ser(&d.fix_variables(&pt[..nv / 2]).to_evaluations()));
            out.extend(ser(&(&d + &e).to_evaluations()));
            out.extend(ser(&(&d - &e).to_evaluations()));
            out.extend(ser(&(-d.clone()).to_evaluations()));
            if nv >= 2 {
                out.extend(ser(&d.relabel(0, nv / 2, nv / 2).to_evaluations()));
            }
            let s = SparseMultilinearExtension::<Fr>::rand_with_config(nv, 1 << (nv / 2), rng);
            out.extend(ser(&s.fix_variables(&pt).to_evaluations()));
            out.extend(ser(&(&s + &s).to_evaluations()));
            let terms: Vec<(Fr, SparseTerm)> = (0..(3 * nv + 1)).map(|i| (Fr::rand(rng), SparseTerm::new((0..nv).filter(|j| (i + j) % 3 == 0).map(|j| (j, 1 + (i + j) % 4)).collect()))).collect();
            let mv = MvPoly::<Fr, SparseTerm>::from_coefficients_vec(nv, terms);
            out.extend(ser(&mv.evaluate(&pt)));
            out.extend(ser(&(&mv + &mv).evaluate(&pt)));
            out
        }),
    });
    v
}

fn digest_bytes(b: &[u8]) -> u64 {
    digest(b)
}

fn main() {
    let args = Args::parse();
    assert_eq!(args.prop, "C14");
    let t0 = Instant::now();
    install_panic_hook();
    let emit = args.extra.get("emit").cloned();
    let compare = args.extra.get("compare").cloned();
    let par_build = cfg!(feature = "par");
    let all = ops(args.quick());
    let mut rep = Report::new();
    rep.config(if par_build { "parallel build" } else { "serial build" });
    if let Some(path) = emit {
        if par_build {
            rep.harness_errors.push("--emit must be run with the serial build".into());
        }
        let mut map: BTreeMap<String, String> = BTreeMap::new();
        for op in &all {
            for &s in &op.shapes {
                let key = format!("{}#{}", op.name, s);
                let mut rng = item_rng(args.seed, &key);
                match guard(|| (op.run)(&mut rng, s)) {
                    Ok(out) => {
                        rep.eval(digest(&(key.as_str(), "serial")), s > 0);
                        rep.op(op.name);
                        map.insert(key, format!("{:016x}:{}", digest_bytes(&out), out.len()));
                    },
                    Err(p) => rep.violation(format!("par/{}/serial-panic", op.name), json!({"shape": s, "panic": p.msg, "at": p.site()})),
                }
            }
        }
        rep.sample("serial", || json!({"serial_digests": map.len(), "example": map.iter().next().map(|(k, v)| format!("{k} -> {v}"))}));
        std::fs::write(&path, serde_json::to_string(&map).unwrap()).expect("write digests");
        finish(&args, "mon_par(serial)", RULE, rep, t0);
    }
    let path = compare.expect("--emit or --compare");
    if !par_build {
        rep.harness_errors.push("--compare must be run with the build that has the `par` feature".into());
        finish(&args, "mon_par(par)", RULE, rep, t0);
    }
    let map: BTreeMap<String, String> = serde_json::from_str(&std::fs::read_to_string(&path).expect("digest file from the serial run")).expect("digest json");
    let reps = args.pick(2usize, 12);
    let threads: Vec<usize> = if args.quick() { vec![1, 2, 3, 5, 7, 8, 16, 17, 64] } else { THREADS.to_vec() };
    // background CPU hog, toggled per repetition, to perturb rayon's work stealing
    let hog_on = Arc::new(AtomicBool::new(false));
    let stop = Arc::new(AtomicBool::new(false));
    let hogs: Vec<_> = (0..8)
        .map(|_| {
            let (on, st) = (hog_on.clone(), stop.clone());
            std::thread::spawn(move || {
                let mut x = 1u64;
                while !st.load(Ordering::Relaxed) {
                    if on.load(Ordering::Relaxed) {
                        for _ in 0..10_000 {
                            x = x.wrapping_mul(6364136223846793005).wrapping_add(1442695040888963407);
                        }
                        std::hint::black_box(x);
                    } else {
                        std::thread::sleep(std::time::Duration::from_millis(2));
                    }
                }
            })
        })
        .collect();
    #[cfg(feature = "par")]
    {
        for &t in &threads {
            let pool = rayon::ThreadPoolBuilder::new().num_threads(t).stack_size(64 << 20).build().expect("pool");
            rep.class(&format!("pool size {t}"));
            for r in 0..reps {
                hog_on.store(r % 2 == 1, Ordering::Relaxed);
                rep.class(if r % 2 == 1 { "repetition with background CPU hog" } else { "repetition on an idle pool" });
                for op in &all {
                    for &s in &op.shapes {
                        // big shapes only on a subset of the repetitions
                        if r >= 2 && s > 4096 {
                            continue;
                        }
                        let key = format!("{}#{}", op.name, s);
                        let Some(want) = map.get(&key) else {
                            rep.harness_errors.push(format!("no serial digest for {key}"));
                            continue;
                        };
                        let mut rng = item_rng(args.seed, &key);
                        rep.class_if(s > 0 && s < t, "input shorter than the pool");
                        rep.class_if(t & (t - 1) != 0, "pool size not a power of two");
                        match guard(|| pool.install(|| (op.run)(&mut rng, s))) {
                            Ok(out) => {
                                rep.eval(digest(&(key.as_str(), t, r)), s > 0);
                                rep.op(op.name);
                                let got = format!("{:016x}:{}", digest_bytes(&out), out.len());
                                if &got != want {
                                    rep.violation(format!("par/{}/differs-from-serial", op.name), json!({"operation": op.name, "shape": s, "threads": t, "repetition": r, "serial": want, "parallel": got}));
                                }
                            },
                            Err(p) => rep.violation(format!("par/{}/panic", op.name), json!({"operation": op.name, "shape": s, "threads": t, "panic": p.msg, "at": p.site()})),
                        }
                    }
                }
            }
        }
    }
    stop.store(true, Ordering::Relaxed);
    for h in hogs {
        let _ = h.join();
    }
    let _ = &threads;
    let _ = reps;
    rep.require("input shorter than the pool");
    rep.require("pool size not a power of two");
    rep.require("repetition with background CPU hog");
    rep.sample("par", || json!({"operations": all.iter().map(|o| o.name).collect::<Vec<_>>(), "pool_sizes": threads, "repetitions": reps}));
    finish(&args, "mon_par(par)", RULE, rep, t0)
}
