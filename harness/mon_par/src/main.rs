use monitor::*;
fn main() {
    let args = Args::parse();
    panic!("mon_par does not serve property {} yet", args.prop);
}
