//! C07 — FFT/IFFT over every evaluation domain equal naive evaluation/interpolation; the domain API
//! (construction, minimality, generator order, element access, iteration, vanishing / Lagrange /
//! filter evaluation, re-indexing) matches its definitions.
use crate::fields::*;
use crate::orc::*;
use ark_ec::{AdditiveGroup, PrimeGroup};
use ark_ff::{BigInteger, FftField, Field, One, PrimeField, Zero};
use ark_poly::{
    EvaluationDomain, GeneralEvaluationDomain, MixedRadixEvaluationDomain, Radix2EvaluationDomain,
};
use ark_std::rand::{Rng as _, RngCore};
use monitor::*;
use oracle::UInt;

pub const RULE: &str = "cases = (field, domain kind radix2|mixed|general, operation, size or request, coset offset, input \
vector / evaluation point); every constructible size up to the tier bound is transformed for input lengths on both sides \
of the degree-aware threshold and compared with Horner evaluation at offset*g^i (elements by repeated multiplication); \
inverse transforms are checked by evaluating the returned coefficients at the domain elements; construction is compared \
with a brute-force minimal size over {2^t} resp. {q^a*2^t}; a case is non-trivial when the domain has at least 2 elements \
and (for transforms) the input has a non-zero entry; distinct = distinct digest of (field, kind, op, size, offset, input)";

const C_DA: &str = "radix2: degree-aware path (len*4 <= n)";
const C_PLAIN: &str = "radix2: plain in-order path";
const C_COMPACT: &str = "radix2: root compaction (n >= 256)";
const C_COSET: &str = "coset offset != 1";
const C_OFF_IN_DOMAIN: &str = "coset offset is an element of the domain";
const C_OFF_2N: &str = "coset offset has order 2n";
const C_MIX_Q: &str = "mixed-radix: q-adicity > 0";
const C_MIX_Q2: &str = "mixed-radix: q-adicity >= 2";
const C_MIX_0: &str = "mixed-radix: q-adicity = 0";
const C_EMPTY: &str = "empty input";
const C_SIZE1: &str = "size-1 domain";
const C_TAU_IN: &str = "tau in the domain";
const C_TAU_OUT: &str = "tau outside the domain";
const C_NONE: &str = "construction: request above the largest subgroup (None expected)";
const C_TOPT: &str = "construction: minimal size uses t = TWO_ADICITY";
const C_GENERAL_MIXED: &str = "general domain falls back to mixed radix";
const C_SAMPLED: &str = "transform compared on 64 sampled indices (n above the full-comparison bound)";

// ------------------------------------------------------------------------------------------------
// field parameters, computed on the oracle side

#[derive(Clone, Copy, Debug)]
pub struct Par {
    /// two-adicity of p-1
    pub t: u32,
    /// declared small subgroup (base q, adicity a) with q^a | p-1
    pub q: Option<(u64, u32)>,
}

pub fn par_of<F: FftField + PrimeField>() -> Par {
    let p = modulus::<F>();
    let pm1 = &p - UInt::from(1u8);
    let t = pm1.trailing_zeros().unwrap() as u32;
    let q = match (F::SMALL_SUBGROUP_BASE, F::SMALL_SUBGROUP_BASE_ADICITY) {
        (Some(b), Some(a)) => Some((b as u64, a)),
        _ => None,
    };
    Par { t, q }
}

fn check_par<F: FftField + PrimeField>(rep: &mut Report, fname: &str, p: &Par) {
    rep.check(F::TWO_ADICITY == p.t, || "domain/config/two-adicity".into(), || json!({"field": fname, "declared": F::TWO_ADICITY, "oracle": p.t}));
    if let Some((q, a)) = p.q {
        let pm1 = modulus::<F>() - UInt::from(1u8);
        let qa = UInt::from(q).pow(a);
        let ok = (&pm1 % &qa) == UInt::from(0u8) && q % 2 == 1 && q > 1;
        rep.check(ok, || "domain/config/small-subgroup".into(), || json!({"field": fname, "q": q, "adicity": a}));
        rep.check(F::LARGE_SUBGROUP_ROOT_OF_UNITY.is_some(), || "domain/config/large-root-missing".into(), || json!({"field": fname}));
    }
}

fn exp_radix2(n: u64, p: &Par) -> Option<u64> {
    for t in 0..=p.t.min(62) {
        let s = 1u64 << t;
        if s >= n {
            return Some(s);
        }
    }
    None
}

fn exp_mixed(n: u64, p: &Par) -> Option<u64> {
    let (q, a) = p.q?;
    let mut best: Option<u128> = None;
    for i in 0..=a {
        let qi = (q as u128).pow(i);
        for t in 0..=p.t.min(62) {
            let s = qi << t;
            if s >= n as u128 {
                if best.map_or(true, |b| s < b) {
                    best = Some(s);
                }
                break;
            }
        }
    }
    best.and_then(|b| u64::try_from(b).ok())
}

/// all (size, two-part exponent, q exponent) of the mixed family
fn mixed_family(p: &Par) -> Vec<(u64, u32, u32)> {
    let mut v = vec![];
    if let Some((q, a)) = p.q {
        for i in 0..=a {
            for t in 0..=p.t.min(40) {
                let s = (q as u128).pow(i) << t;
                if s < (1u128 << 45) {
                    v.push((s as u64, t, i));
                }
            }
        }
    }
    v
}

pub trait Kind<F: FftField>: EvaluationDomain<F> {
    const KIND: &'static str;
    fn applicable(p: &Par) -> bool;
    fn expected(n: u64, p: &Par) -> Option<u64>;
}

impl<F: FftField> Kind<F> for Radix2EvaluationDomain<F> {
    const KIND: &'static str = "radix2";
    fn applicable(_: &Par) -> bool {
        true
    }
    fn expected(n: u64, p: &Par) -> Option<u64> {
        exp_radix2(n, p)
    }
}

impl<F: FftField> Kind<F> for MixedRadixEvaluationDomain<F> {
    const KIND: &'static str = "mixed";
    fn applicable(p: &Par) -> bool {
        p.q.is_some()
    }
    fn expected(n: u64, p: &Par) -> Option<u64> {
        exp_mixed(n, p)
    }
}

impl<F: FftField> Kind<F> for GeneralEvaluationDomain<F> {
    const KIND: &'static str = "general";
    fn applicable(_: &Par) -> bool {
        true
    }
    fn expected(n: u64, p: &Par) -> Option<u64> {
        exp_radix2(n, p).or_else(|| exp_mixed(n, p))
    }
}

/// sizes s <= cap for which `D::new(s)` is expected to have exactly s elements
fn exact_sizes<F: FftField, D: Kind<F>>(p: &Par, cap: u64) -> Vec<u64> {
    let mut v: Vec<u64> = vec![];
    for t in 0..=p.t.min(40) {
        v.push(1 << t);
    }
    for (s, _, _) in mixed_family(p) {
        v.push(s);
    }
    v.sort();
    v.dedup();
    v.into_iter().filter(|s| *s <= cap && D::expected(*s, p) == Some(*s)).collect()
}

fn sig<F: FftField, D: Kind<F>>(op: &str, kind: &str) -> String {
    format!("domain/{}/{}/{}", D::KIND, op, kind)
}

fn k_adicity(k: u64, mut n: u64) -> u32 {
    let mut r = 0;
    while n > 1 && n % k == 0 {
        n /= k;
        r += 1;
    }
    r
}

/// g has order exactly n (n = 2^t * q^a)
fn order_exact<F: Field>(g: F, n: u64, p: &Par) -> bool {
    if n == 0 {
        return false;
    }
    if !opow(g, n).is_one() {
        return false;
    }
    let mut primes = vec![2u64];
    if let Some((q, _)) = p.q {
        primes.push(q);
    }
    for l in primes {
        if n % l == 0 && opow(g, n / l).is_one() {
            return false;
        }
    }
    // n must be smooth over {2, q} for the test above to be complete
    let mut m = n;
    while m % 2 == 0 {
        m /= 2;
    }
    if let Some((q, _)) = p.q {
        while m % q == 0 {
            m /= q;
        }
    }
    m == 1
}

// ------------------------------------------------------------------------------------------------
// construction, minimality, constants

fn check_consts<F: FftField + PrimeField, D: Kind<F>>(rep: &mut Report, fname: &str, dom: &D, n: u64, offset: F, p: &Par) {
    let d = |what: &str| json!({"field": fname, "size": n, "offset": fe(&offset), "what": what});
    let g = dom.group_gen();
    rep.check(dom.size() as u64 == n, || sig::<F, D>("size", "value"), || d("size()"));
    rep.check(order_exact(g, n, p), || sig::<F, D>("group_gen", "order"), || json!({"field": fname, "size": n, "group_gen": fe(&g)}));
    rep.check((g * dom.group_gen_inv()).is_one(), || sig::<F, D>("group_gen_inv", "value"), || d("group_gen * group_gen_inv != 1"));
    rep.check(dom.size_as_field_element() == F::from(n), || sig::<F, D>("size_as_field_element", "value"), || d("size_as_field_element"));
    rep.check((dom.size_inv() * F::from(n)).is_one(), || sig::<F, D>("size_inv", "value"), || d("size_inv * size != 1"));
    rep.check(dom.coset_offset() == offset, || sig::<F, D>("coset_offset", "value"), || d("coset_offset"));
    rep.check((dom.coset_offset_inv() * offset).is_one(), || sig::<F, D>("coset_offset_inv", "value"), || d("coset_offset_inv * offset != 1"));
    rep.check(dom.coset_offset_pow_size() == opow(offset, n), || sig::<F, D>("coset_offset_pow_size", "value"), || d("coset_offset_pow_size != offset^size"));
    if n.is_power_of_two() && D::KIND != "mixed" {
        rep.check(dom.log_size_of_group() == n.trailing_zeros() as u64, || sig::<F, D>("log_size_of_group", "value"), || d("log_size_of_group"));
    }
}

fn requests(rng: &mut Rng, p: &Par, args: &Args) -> Vec<u64> {
    let mut reqs: Vec<u64> = (0..=1100).collect();
    let mut fam: Vec<u64> = (0..=p.t.min(40)).map(|t| 1u64 << t).collect();
    fam.extend(mixed_family(p).into_iter().map(|x| x.0));
    for s in fam {
        reqs.extend_from_slice(&[s.saturating_sub(1), s, s + 1]);
    }
    // top of the 2-adic tower even when it is above 2^40
    if p.t <= 61 {
        let s = 1u64 << p.t;
        reqs.extend_from_slice(&[s - 1, s, s + 1, 2 * s]);
    }
    for _ in 0..args.pick(300, 6000) {
        let bits = 1 + rng.next_u32() % 24;
        reqs.push(rng.next_u64() & ((1 << bits) - 1));
    }
    reqs.sort();
    reqs.dedup();
    reqs
}

fn construct<F: FftField + PrimeField, D: Kind<F>>(rep: &mut Report, rng: &mut Rng, args: &Args, fname: &'static str) {
    let p = par_of::<F>();
    check_par::<F>(rep, fname, &p);
    rep.config(&format!("{fname}/{}", D::KIND));
    rep.require(C_NONE);
    rep.require(C_SIZE1);
    if D::KIND != "general" || p.q.is_none() {
        rep.require(C_TOPT);
    }
    for n in requests(rng, &p, args) {
        let exp = D::expected(n, &p);
        rep.eval(digest(&("construct", fname, D::KIND, n)), n >= 2);
        rep.op("new");
        rep.class_if(exp.is_none(), C_NONE);
        rep.class_if(exp == Some(1), C_SIZE1);
        if let Some(s) = exp {
            rep.class_if(s.trailing_zeros() == p.t, C_TOPT);
            rep.class_if(D::KIND == "general" && exp_radix2(n, &p).is_none(), C_GENERAL_MIXED);
        }
        let det = || json!({"field": fname, "requested": n, "expected_size": exp});
        let Some(got) = rep.total(&format!("domain/{}/new", D::KIND), det, || D::new(n as usize)) else { continue };
        let Some(csd) = rep.total(&format!("domain/{}/compute_size_of_domain", D::KIND), det, || D::compute_size_of_domain(n as usize)) else {
            continue;
        };
        rep.check(csd.map(|x| x as u64) == exp, || sig::<F, D>("compute_size_of_domain", "value"), || json!({"field": fname, "requested": n, "expected": exp, "got": csd}));
        match (got, exp) {
            (None, None) => {},
            (Some(d), None) => {
                rep.violation(sig::<F, D>("new", "some-for-unconstructible"), json!({"field": fname, "requested": n, "got_size": d.size()}));
            },
            (None, Some(s)) => {
                rep.violation(sig::<F, D>("new", "none-for-constructible"), json!({"field": fname, "requested": n, "expected_size": s}));
            },
            (Some(d), Some(s)) => {
                let gs = d.size() as u64;
                if gs < n {
                    rep.violation(sig::<F, D>("new", "smaller-than-requested"), json!({"field": fname, "requested": n, "got_size": gs}));
                } else if gs != s {
                    rep.violation(sig::<F, D>("new", "not-minimal"), json!({"field": fname, "requested": n, "got_size": gs, "minimal": s}));
                }
                check_consts::<F, D>(rep, fname, &d, gs, F::one(), &p);
                // a coset of it
                if n % 7 == 3 || gs == n {
                    let h = gen_nonzero::<F>(rng);
                    if let Some(c) = rep.total(&format!("domain/{}/new_coset", D::KIND), det, || D::new_coset(n as usize, h)) {
                        match c {
                            Some(c) => check_consts::<F, D>(rep, fname, &c, gs, h, &p),
                            None => rep.violation(sig::<F, D>("new_coset", "none-for-constructible"), json!({"field": fname, "requested": n, "offset": fe(&h)})),
                        }
                    }
                    let z = rep.total(&format!("domain/{}/get_coset", D::KIND), det, || d.get_coset(F::zero()));
                    if let Some(Some(_)) = z {
                        rep.violation(sig::<F, D>("get_coset", "some-for-zero-offset"), json!({"field": fname, "size": gs}));
                    }
                }
            },
        }
    }
    rep.exhaustive(&format!("{fname}/{}: every request 0..=1100 and s-1,s,s+1 around every subgroup size s of the family", D::KIND));
    rep.sample(&format!("construct/{fname}/{}", D::KIND), || json!({"op": "new/compute_size_of_domain", "field": fname, "kind": D::KIND, "two_adicity": p.t, "small_subgroup": format!("{:?}", p.q)}));
}

fn roots<F: FftField + PrimeField>(rep: &mut Report, rng: &mut Rng, args: &Args, fname: &'static str) {
    let p = par_of::<F>();
    rep.config(&format!("{fname}/get_root_of_unity"));
    for n in requests(rng, &p, args) {
        rep.eval(digest(&("root", fname, n)), n >= 2);
        rep.op("get_root_of_unity");
        // n = 2^t * q^a within the declared bounds?
        let t = k_adicity(2, n);
        let (a, qa) = match p.q {
            Some((q, _)) => {
                let a = k_adicity(q, n);
                (a, q.pow(a))
            },
            None => (0, 1),
        };
        let exp = n >= 1 && (1u64 << t).checked_mul(qa) == Some(n) && t <= p.t && p.q.map_or(a == 0, |(_, amax)| a <= amax);
        let det = || json!({"field": fname, "n": n, "expected_some": exp});
        let Some(got) = rep.total("domain/field/get_root_of_unity", det, || F::get_root_of_unity(n)) else { continue };
        match got {
            None => {
                rep.check(!exp, || "domain/field/get_root_of_unity/none-for-existing-order".into(), det);
            },
            Some(g) => {
                if !exp {
                    rep.violation("domain/field/get_root_of_unity/some-for-missing-order", det());
                } else {
                    rep.check(order_exact(g, n, &p), || "domain/field/get_root_of_unity/order".into(), || json!({"field": fname, "n": n, "root": fe(&g)}));
                }
            },
        }
    }
}

// ------------------------------------------------------------------------------------------------
// transforms

fn lens_for(n: usize) -> Vec<usize> {
    let mut v = vec![0, 1, 2, 3, n / 8, n / 4, n / 2, n / 2 + 1, (3 * n) / 4, n.saturating_sub(1), n];
    if n >= 4 {
        v.push(n / 4 - 1);
        v.push(n / 4 + 1);
    }
    v.retain(|l| *l <= n);
    v.sort();
    v.dedup();
    v
}

fn gen_vec<F: Field>(rng: &mut Rng, len: usize) -> Vec<F> {
    let mode = rng.next_u32() % 8;
    (0..len)
        .map(|i| match mode {
            0 => gen_elem(rng),
            1 => {
                if rng.next_u32() % 4 == 0 {
                    F::rand(rng)
                } else {
                    F::zero()
                }
            },
            2 => {
                // leading (high) coefficients zero
                if i * 2 < len {
                    F::rand(rng)
                } else {
                    F::zero()
                }
            },
            3 => F::one(),
            _ => F::rand(rng),
        })
        .collect()
}

fn offsets<F: FftField + PrimeField>(rng: &mut Rng, g: F, n: usize, how_many: usize) -> Vec<(F, &'static str)> {
    let mut v: Vec<(F, &'static str)> = vec![(F::one(), "one"), (F::GENERATOR, "GENERATOR")];
    let mut extra: Vec<(F, &'static str)> = vec![(gen_nonzero(rng), "random")];
    if n > 1 {
        let k = 1 + rng.gen_range(0..(n as u64 - 1));
        extra.push((opow(g, k), "domain-element"));
    }
    let pm1 = modulus::<F>() - UInt::from(1u8);
    let two_n = UInt::from(2 * n as u64);
    if (&pm1 % &two_n) == UInt::from(0u8) {
        let h = opow_big(F::GENERATOR, &(&pm1 / &two_n));
        if !opow(h, n as u64).is_one() && opow(h, 2 * n as u64).is_one() {
            extra.push((h, "order-2n"));
        }
    }
    if how_many >= 2 + extra.len() {
        v.extend(extra);
    } else {
        // rotate through the extras
        let start = rng.gen_range(0..extra.len());
        for i in 0..how_many.saturating_sub(2) {
            v.push(extra[(start + i) % extra.len()]);
        }
    }
    v
}

fn sample_idx(rng: &mut Rng, n: usize, full_cap: usize) -> (Vec<usize>, bool) {
    if n <= full_cap {
        ((0..n).collect(), false)
    } else {
        let mut v = vec![0, 1, n / 2, n / 2 + 1, n - 1, n / 4, n / 3];
        while v.len() < 64 {
            v.push(rng.gen_range(0..n));
        }
        v.sort();
        v.dedup();
        (v, true)
    }
}

fn transforms<F: FftField + PrimeField, D: Kind<F>>(rep: &mut Report, rng: &mut Rng, args: &Args, fname: &'static str, sizes: &[u64], full_cap: usize) {
    let p = par_of::<F>();
    rep.config(&format!("{fname}/{}", D::KIND));
    for &n64 in sizes {
        let n = n64 as usize;
        let det0 = || json!({"field": fname, "size": n});
        let Some(Some(base)) = rep.total(&format!("domain/{}/new", D::KIND), det0, || D::new(n)) else {
            rep.violation(sig::<F, D>("new", "none-for-constructible"), det0());
            continue;
        };
        if base.size() != n {
            rep.violation(sig::<F, D>("new", "not-minimal"), json!({"field": fname, "requested": n, "got_size": base.size()}));
            continue;
        }
        let g = base.group_gen();
        let pow2 = n.is_power_of_two();
        let radix2_path = D::KIND != "mixed" && pow2;
        let qad = p.q.map_or(0, |(q, _)| k_adicity(q, n64));
        rep.class_if(n == 1, C_SIZE1);
        if !radix2_path {
            rep.class_if(qad > 0, C_MIX_Q);
            rep.class_if(qad >= 2, C_MIX_Q2);
            rep.class_if(qad == 0, C_MIX_0);
            rep.class_if(D::KIND == "general", C_GENERAL_MIXED);
        }
        let n_off = if n <= 256 { 5 } else { args.pick(3, 5) };
        for (h, hname) in offsets::<F>(rng, g, n, n_off) {
            let coset = !h.is_one();
            // half of the time the domain is reached through another coset first: get_coset replaces the offset,
            // so the result must be the same domain (a stale offset^size would show in the vanishing polynomial)
            let via = rng.next_u32() % 2 == 0;
            let h2 = loop {
                let x = F::rand(rng);
                if !x.is_zero() {
                    break x;
                }
            };
            rep.class_if(via, "domain obtained by get_coset on a coset");
            let dom = if coset || via {
                match rep.total(&format!("domain/{}/get_coset", D::KIND), det0, || if via { base.get_coset(h2).and_then(|c| c.get_coset(h)) } else { base.get_coset(h) }) {
                    Some(Some(d)) => d,
                    Some(None) => {
                        rep.violation(sig::<F, D>("get_coset", "none-for-nonzero-offset"), json!({"field": fname, "size": n, "offset": fe(&h)}));
                        continue;
                    },
                    None => continue,
                }
            } else {
                base
            };
            rep.class_if(coset, C_COSET);
            rep.class_if(hname == "domain-element", C_OFF_IN_DOMAIN);
            rep.class_if(hname == "order-2n", C_OFF_2N);
            let es = elems(g, h, n);
            let (idx, sampled) = sample_idx(rng, n, full_cap);
            rep.class_if(sampled, C_SAMPLED);
            let cs = if coset { "-coset" } else { "" };
            // forward transforms
            for len in lens_for(n) {
                let c: Vec<F> = gen_vec(rng, len);
                let nontriv = n >= 2 && c.iter().any(|x| !x.is_zero());
                rep.eval(digest(&("fft", fname, D::KIND, n, h, &c)), nontriv);
                rep.op("fft");
                rep.class_if(len == 0, C_EMPTY);
                if radix2_path {
                    rep.class_if(len * 4 <= n, C_DA);
                    rep.class_if(len * 4 > n, C_PLAIN);
                    rep.class_if(n >= 256, C_COMPACT);
                }
                let det = || json!({"field": fname, "size": n, "offset": fe(&h), "offset_kind": hname, "input_len": len, "input": fv(&c)});
                let Some(got) = rep.total(&format!("domain/{}/fft{cs}", D::KIND), det, || dom.fft(&c)) else { continue };
                if got.len() != n {
                    rep.violation(sig::<F, D>(&format!("fft{cs}"), "length"), det());
                    continue;
                }
                let mut ok = true;
                for &i in &idx {
                    let want = horner(&c, es[i]);
                    if got[i] != want {
                        let mut d = det();
                        d["index"] = json!(i);
                        d["point"] = json!(fe(&es[i]));
                        d["expected"] = json!(fe(&want));
                        d["got"] = json!(fe(&got[i]));
                        d["degree_aware_path"] = json!(radix2_path && len * 4 <= n);
                        rep.violation(sig::<F, D>(&format!("fft{cs}"), "value"), d);
                        ok = false;
                        break;
                    }
                }
                if n <= 64 {
                    let mut v = c.clone();
                    if rep.total(&format!("domain/{}/fft_in_place{cs}", D::KIND), det, || dom.fft_in_place(&mut v)).is_some() {
                        rep.check(v == got, || sig::<F, D>(&format!("fft_in_place{cs}"), "differs-from-fft"), det);
                    }
                }
                if !ok {
                    continue;
                }
                // inverse of the forward transform returns the padded input
                rep.op("ifft");
                rep.eval(digest(&("ifft-rt", fname, D::KIND, n, h, &c)), nontriv);
                let Some(back) = rep.total(&format!("domain/{}/ifft{cs}", D::KIND), det, || dom.ifft(&got)) else { continue };
                let good = back.len() == n && back[..len] == c[..] && back[len..].iter().all(|x| x.is_zero());
                if !good {
                    let mut d = det();
                    d["ifft_of_fft"] = fv(&back);
                    rep.violation(sig::<F, D>(&format!("ifft{cs}"), "roundtrip"), d);
                }
            }
            // inverse transforms of arbitrary evaluation vectors, checked by evaluating the result
            for len in [n, n - n / 3, 0] {
                let v: Vec<F> = gen_vec(rng, len);
                rep.eval(digest(&("ifft", fname, D::KIND, n, h, &v)), n >= 2 && v.iter().any(|x| !x.is_zero()));
                rep.op("ifft");
                let det = || json!({"field": fname, "size": n, "offset": fe(&h), "offset_kind": hname, "evals_len": len, "evals": fv(&v)});
                let Some(co) = rep.total(&format!("domain/{}/ifft{cs}", D::KIND), det, || dom.ifft(&v)) else { continue };
                if co.len() != n {
                    rep.violation(sig::<F, D>(&format!("ifft{cs}"), "length"), det());
                    continue;
                }
                for &i in &idx {
                    let want = if i < len { v[i] } else { F::zero() };
                    let val = horner(&co, es[i]);
                    if val != want {
                        let mut d = det();
                        d["index"] = json!(i);
                        d["coeffs"] = fv(&co);
                        d["value_of_result_at_element"] = json!(fe(&val));
                        d["expected"] = json!(fe(&want));
                        rep.violation(sig::<F, D>(&format!("ifft{cs}"), "value"), d);
                        break;
                    }
                }
                if n <= 64 {
                    let mut w = v.clone();
                    if rep.total(&format!("domain/{}/ifft_in_place{cs}", D::KIND), det, || dom.ifft_in_place(&mut w)).is_some() {
                        rep.check(w == co, || sig::<F, D>(&format!("ifft_in_place{cs}"), "differs-from-ifft"), det);
                    }
                }
            }
        }
        rep.sample(&format!("fft/{fname}/{}/{}", D::KIND, n.min(4)), || json!({"op": "fft/ifft", "field": fname, "kind": D::KIND, "size": n, "input_lengths": lens_for(n)}));
    }
}

/// FFT over group coefficients (DomainCoeff through `MulAssign<F>`): c_j = [s_j]G, so the expected
/// output is [Horner(s, e_i)]G; scalar multiplication by double-and-add written here.
fn group_transforms(rep: &mut Report, rng: &mut Rng, _args: &Args) {
    type Fr = Bls381Fr;
    type G = ark_test_curves::bls12_381::G1Projective;
    fn smul(s: Fr) -> G {
        let bits = s.into_bigint().to_bits_be();
        let base = G::generator();
        let mut acc = G::zero();
        for b in bits {
            acc = acc.double();
            if b {
                acc = acc + base;
            }
        }
        acc
    }
    fn run<D: Kind<Fr>>(rep: &mut Report, rng: &mut Rng) {
        let p = par_of::<Fr>();
        rep.config(&format!("bls12_381::Fr x G1Projective/{}", D::KIND));
        for n64 in exact_sizes::<Fr, D>(&p, 64) {
            let n = n64 as usize;
            let Some(Some(base)) = rep.total(&format!("domain/{}/new", D::KIND), || json!({"field": "bls12_381::Fr", "size": n}), || D::new(n)) else { continue };
            let g = base.group_gen();
            for (h, hname) in offsets::<Fr>(rng, g, n, 3) {
                let Some(dom) = base.get_coset(h) else { continue };
                let es = elems(g, h, n);
                let cs = if h.is_one() { "" } else { "-coset" };
                rep.class_if(!h.is_one(), C_COSET);
                for len in [0, 1, n / 4, n / 2 + 1, n] {
                    if len > n {
                        continue;
                    }
                    let s: Vec<Fr> = gen_vec(rng, len);
                    let c: Vec<G> = s.iter().map(|x| smul(*x)).collect();
                    rep.eval(digest(&("fft-group", D::KIND, n, h, &s)), n >= 2 && s.iter().any(|x| !x.is_zero()));
                    rep.op("fft (group coefficients)");
                    rep.class("group-valued coefficients");
                    rep.class_if(len == 0, C_EMPTY);
                    let det = || json!({"field": "bls12_381::Fr", "coeff_type": "G1Projective", "size": n, "offset": fe(&h), "offset_kind": hname, "scalars_of_input": fv(&s)});
                    let Some(got) = rep.total(&format!("domain/{}/fft-group{cs}", D::KIND), det, || dom.fft(&c)) else { continue };
                    if got.len() != n {
                        rep.violation(sig::<Fr, D>(&format!("fft-group{cs}"), "length"), det());
                        continue;
                    }
                    let mut ok = true;
                    for i in 0..n {
                        if got[i] != smul(horner(&s, es[i])) {
                            let mut d = det();
                            d["index"] = json!(i);
                            rep.violation(sig::<Fr, D>(&format!("fft-group{cs}"), "value"), d);
                            ok = false;
                            break;
                        }
                    }
                    if !ok {
                        continue;
                    }
                    let Some(back) = rep.total(&format!("domain/{}/ifft-group{cs}", D::KIND), det, || dom.ifft(&got)) else { continue };
                    let good = back.len() == n && back[..len] == c[..] && back[len..].iter().all(|x| x.is_zero());
                    rep.check(good, || sig::<Fr, D>(&format!("ifft-group{cs}"), "roundtrip"), det);
                }
            }
        }
    }
    rep.require("group-valued coefficients");
    run::<Radix2EvaluationDomain<Fr>>(rep, rng);
    run::<MixedRadixEvaluationDomain<Fr>>(rep, rng);
    run::<GeneralEvaluationDomain<Fr>>(rep, rng);
}

// ------------------------------------------------------------------------------------------------
// domain API: elements, vanishing polynomial, Lagrange coefficients, filter polynomial, re-indexing

fn taus<F: Field>(rng: &mut Rng, es: &[F]) -> Vec<F> {
    let n = es.len();
    let mut v = vec![F::zero(), F::one(), -F::one(), F::from(2u64)];
    for _ in 0..4 {
        v.push(F::rand(rng));
    }
    if n <= 16 {
        v.extend_from_slice(es);
    } else {
        v.push(es[0]);
        v.push(es[1]);
        v.push(es[n - 1]);
        v.push(es[n / 2]);
        for _ in 0..4 {
            v.push(es[rng.gen_range(0..n)]);
        }
    }
    v
}

fn api<F: FftField + PrimeField, D: Kind<F>>(rep: &mut Report, rng: &mut Rng, args: &Args, fname: &'static str, cap: u64) {
    use ark_poly::{DenseUVPolynomial, Polynomial};
    let p = par_of::<F>();
    rep.config(&format!("{fname}/{}", D::KIND));
    rep.require(C_TAU_IN);
    rep.require("domain obtained by get_coset on a coset");
    rep.require(C_TAU_OUT);
    rep.require(C_SIZE1);
    rep.require(C_COSET);
    let sizes = exact_sizes::<F, D>(&p, cap);
    let lag_cap = args.pick(64, 128) as usize;
    for &n64 in &sizes {
        let n = n64 as usize;
        let Some(Some(base)) = rep.total(&format!("domain/{}/new", D::KIND), || json!({"field": fname, "size": n}), || D::new(n)) else { continue };
        if base.size() != n {
            continue;
        }
        let g = base.group_gen();
        rep.class_if(n == 1, C_SIZE1);
        for (h, hname) in offsets::<F>(rng, g, n, 5) {
            // half of the time through another coset first (get_coset replaces the offset: same domain expected)
            let via = rng.next_u32() % 2 == 0;
            rep.class_if(via, "domain obtained by get_coset on a coset");
            let Some(dom) = (if via { base.get_coset(h + F::one()).or_else(|| base.get_coset(F::GENERATOR)).and_then(|c| c.get_coset(h)) } else { base.get_coset(h) }) else { continue };
            let coset = !h.is_one();
            rep.class_if(coset, C_COSET);
            let es = elems(g, h, n);
            let base_d = digest(&("api", fname, D::KIND, n, h));
            let det = || json!({"field": fname, "size": n, "offset": fe(&h), "offset_kind": hname});
            // element(i), elements()
            rep.eval(mix(base_d, 1), n >= 2);
            rep.op("element/elements");
            for (i, e) in es.iter().enumerate() {
                if let Some(x) = rep.total(&format!("domain/{}/element", D::KIND), det, || dom.element(i)) {
                    if x != *e {
                        rep.violation(sig::<F, D>("element", "value"), json!({"field": fname, "size": n, "offset": fe(&h), "index": i, "expected": fe(e), "got": fe(&x)}));
                        break;
                    }
                }
            }
            if let Some(it) = rep.total(&format!("domain/{}/elements", D::KIND), det, || dom.elements().collect::<Vec<F>>()) {
                if it != es {
                    let first = it.iter().zip(&es).position(|(a, b)| a != b);
                    rep.violation(sig::<F, D>("elements", "sequence"), json!({"field": fname, "size": n, "offset": fe(&h), "count": it.len(), "first_mismatch": first}));
                }
            }
            // vanishing polynomial
            let ts = taus(rng, &es);
            let vp = rep.total(&format!("domain/{}/vanishing_polynomial", D::KIND), det, || dom.vanishing_polynomial());
            if let Some(vp) = &vp {
                let terms: Vec<(usize, F)> = vp.to_vec();
                let want = vec![(0usize, -opow(h, n64)), (n, F::one())];
                rep.check(terms == want, || sig::<F, D>("vanishing_polynomial", "terms"), || json!({"field": fname, "size": n, "offset": fe(&h), "got_terms": terms.iter().map(|(d, c)| json!([d, fe(c)])).collect::<Vec<_>>() }));
            }
            for tau in &ts {
                let inside = es.contains(tau);
                rep.class_if(inside, C_TAU_IN);
                rep.class_if(!inside, C_TAU_OUT);
                rep.eval(mix(base_d, digest(&("vanish", tau))), n >= 2);
                rep.op("evaluate_vanishing_polynomial");
                let want = es.iter().fold(F::one(), |acc, e| acc * (*tau - *e));
                let dt = || json!({"field": fname, "size": n, "offset": fe(&h), "tau": fe(tau), "tau_in_domain": inside, "expected": fe(&want)});
                if let Some(z) = rep.total(&format!("domain/{}/evaluate_vanishing_polynomial", D::KIND), dt, || dom.evaluate_vanishing_polynomial(*tau)) {
                    rep.check(z == want, || sig::<F, D>("evaluate_vanishing_polynomial", if coset { "coset-value" } else { "value" }), dt);
                }
                if let Some(vp) = &vp {
                    if let Some(z) = rep.total(&format!("domain/{}/vanishing_polynomial.evaluate", D::KIND), dt, || vp.evaluate(tau)) {
                        rep.check(z == want, || sig::<F, D>("vanishing_polynomial", if coset { "coset-value" } else { "value" }), dt);
                    }
                }
            }
            // Lagrange coefficients
            if n <= lag_cap {
                // d_i = prod_{j != i} (e_i - e_j)
                let dens: Vec<F> = (0..n).map(|i| (0..n).filter(|j| *j != i).fold(F::one(), |acc, j| acc * (es[i] - es[j]))).collect();
                for tau in &ts {
                    let inside = es.contains(tau);
                    rep.eval(mix(base_d, digest(&("lagrange", tau))), n >= 2);
                    rep.op("evaluate_all_lagrange_coefficients");
                    let want: Vec<F> = (0..n)
                        .map(|i| {
                            let num = (0..n).filter(|j| *j != i).fold(F::one(), |acc, j| acc * (*tau - es[j]));
                            num * dens[i].inverse().expect("distinct domain elements")
                        })
                        .collect();
                    let dt = || json!({"field": fname, "size": n, "offset": fe(&h), "offset_kind": hname, "tau": fe(tau), "tau_in_domain": inside});
                    if let Some(l) = rep.total(&format!("domain/{}/evaluate_all_lagrange_coefficients", D::KIND), dt, || dom.evaluate_all_lagrange_coefficients(*tau)) {
                        if l != want {
                            let mut d = dt();
                            d["expected"] = fv(&want);
                            d["got"] = fv(&l);
                            let k = match (inside, coset) {
                                (true, _) => "one-hot",
                                (false, false) => "value",
                                (false, true) => "coset-value",
                            };
                            rep.violation(sig::<F, D>("evaluate_all_lagrange_coefficients", k), d);
                        }
                    }
                }
            }
            // distribute_powers
            {
                let v: Vec<F> = gen_vec(rng, n.min(40));
                let c = gen_nonzero::<F>(rng);
                rep.eval(mix(base_d, digest(&("distribute", &v, c))), n >= 2);
                rep.op("distribute_powers");
                let mut a = v.clone();
                let mut b = v.clone();
                let r1 = rep.total(&format!("domain/{}/distribute_powers", D::KIND), det, || D::distribute_powers(&mut a, h));
                let r2 = rep.total(&format!("domain/{}/distribute_powers_and_mul_by_const", D::KIND), det, || D::distribute_powers_and_mul_by_const(&mut b, h, c));
                if r1.is_some() && r2.is_some() {
                    let mut pw = F::one();
                    for i in 0..v.len() {
                        if a[i] != v[i] * pw || b[i] != v[i] * pw * c {
                            rep.violation(sig::<F, D>("distribute_powers", "value"), json!({"field": fname, "g": fe(&h), "c": fe(&c), "index": i}));
                            break;
                        }
                        pw *= h;
                    }
                }
            }
            // sample_element_outside_domain
            if n as u64 * 2 < 90 || modulus::<F>() > UInt::from(1u64 << 20) {
                rep.op("sample_element_outside_domain");
                if let Some(x) = rep.total(&format!("domain/{}/sample_element_outside_domain", D::KIND), det, || dom.sample_element_outside_domain(rng)) {
                    rep.check(!es.contains(&x), || sig::<F, D>("sample_element_outside_domain", "inside"), || json!({"field": fname, "size": n, "offset": fe(&h), "got": fe(&x)}));
                }
            }
            // pointwise product of evaluation vectors, and what it means for the polynomials
            if n >= 2 {
                let la = 1 + rng.gen_range(0..n / 2);
                let lb = 1 + rng.gen_range(0..(n - la).max(1));
                let a: Vec<F> = gen_vec(rng, la);
                let b: Vec<F> = gen_vec(rng, lb.min(n + 1 - la));
                rep.eval(mix(base_d, digest(&("mulpoly", &a, &b))), true);
                rep.op("mul_polynomials_in_evaluation_domain");
                let ea: Vec<F> = es.iter().map(|e| horner(&a, *e)).collect();
                let eb: Vec<F> = es.iter().map(|e| horner(&b, *e)).collect();
                if let Some(prod) = rep.total(&format!("domain/{}/mul_polynomials_in_evaluation_domain", D::KIND), det, || dom.mul_polynomials_in_evaluation_domain(&ea, &eb)) {
                    let want: Vec<F> = ea.iter().zip(&eb).map(|(x, y)| *x * *y).collect();
                    rep.check(prod == want, || sig::<F, D>("mul_polynomials_in_evaluation_domain", "value"), det);
                    if let Some(co) = rep.total(&format!("domain/{}/ifft", D::KIND), det, || dom.ifft(&prod)) {
                        let mut wantp = pmul(&canon(a.clone()), &canon(b.clone()));
                        wantp.resize(n, F::zero());
                        rep.check(co == wantp, || sig::<F, D>("ifft", "product-interpolation"), || json!({"field": fname, "size": n, "offset": fe(&h), "a": fv(&a), "b": fv(&b)}));
                    }
                }
            }
        }
        // filter polynomial and re-indexing: self is the subgroup domain, sub-cosets enumerated
        if n <= 64 {
            let es = elems(g, F::one(), n);
            for &m64 in sizes.iter().filter(|m| n64 % **m == 0) {
                let m = m64 as usize;
                let Some(Some(sub)) = rep.total(&format!("domain/{}/new", D::KIND), || json!({"field": fname, "size": m}), || D::new(m)) else { continue };
                if sub.size() != m {
                    continue;
                }
                // re-indexing
                {
                    rep.eval(digest(&("reindex", fname, D::KIND, n, m)), n >= 2);
                    rep.op("reindex_by_subdomain");
                    let period = n / m;
                    let mut order: Vec<usize> = (0..m).map(|i| i * period).collect();
                    order.extend((0..n).filter(|i| i % period != 0));
                    // the subdomain's own elements must be where the definition says
                    let sub_es = elems(sub.group_gen(), F::one(), m);
                    let consistent = (0..m).all(|i| sub_es[i] == es[order[i]]);
                    if consistent {
                        for index in 0..n {
                            let dt = || json!({"field": fname, "size": n, "subdomain_size": m, "index": index, "expected": order[index]});
                            if let Some(r) = rep.total(&format!("domain/{}/reindex_by_subdomain", D::KIND), dt, || base.reindex_by_subdomain(sub, index)) {
                                if r != order[index] {
                                    let mut d = dt();
                                    d["got"] = json!(r);
                                    rep.violation(sig::<F, D>("reindex_by_subdomain", "value"), d);
                                    break;
                                }
                            }
                        }
                    } else {
                        rep.violation(sig::<F, D>("group_gen", "subdomain-generator-not-power-of-domain-generator"), json!({"field": fname, "size": n, "subdomain_size": m}));
                    }
                }
                for k in 0..(n / m) {
                    let off = es[k];
                    let Some(coset) = sub.get_coset(off) else { continue };
                    let s_es = elems(sub.group_gen(), off, m);
                    rep.class_if(k > 0, "filter polynomial: subdomain is a proper coset");
                    let outside: Vec<F> = es.iter().filter(|e| !s_es.contains(e)).copied().collect();
                    let den = outside.iter().fold(F::one(), |acc, e| acc * (s_es[0] - *e)).inverse().expect("distinct");
                    let filt = |tau: F| outside.iter().fold(F::one(), |acc, e| acc * (tau - *e)) * den;
                    rep.eval(digest(&("filter", fname, D::KIND, n, m, k)), n >= 2);
                    rep.op("filter_polynomial");
                    let dt = || json!({"field": fname, "size": n, "subdomain_size": m, "subdomain_offset": fe(&off), "subdomain_offset_index": k});
                    let fp = rep.total(&format!("domain/{}/filter_polynomial", D::KIND), dt, || base.filter_polynomial(&coset));
                    let mut pts: Vec<F> = es.clone();
                    for _ in 0..3 {
                        pts.push(F::rand(rng));
                    }
                    pts.push(F::zero());
                    if let Some(fp) = &fp {
                        let co = fp.coeffs().to_vec();
                        rep.check(is_canon(&co) && co.len() == n - m + 1, || sig::<F, D>("filter_polynomial", "degree"), dt);
                        for tau in &pts {
                            if horner(&co, *tau) != filt(*tau) {
                                let mut d = dt();
                                d["tau"] = json!(fe(tau));
                                d["tau_in_domain"] = json!(es.contains(tau));
                                rep.violation(sig::<F, D>("filter_polynomial", "value"), d);
                                break;
                            }
                        }
                    }
                    for tau in &pts {
                        let inside = es.contains(tau);
                        rep.op("evaluate_filter_polynomial");
                        rep.class_if(!inside && k > 0, "filter polynomial: proper coset, tau outside the domain");
                        let want = filt(*tau);
                        let dt2 = || json!({"field": fname, "size": n, "subdomain_size": m, "subdomain_offset": fe(&off), "subdomain_offset_index": k, "tau": fe(tau), "tau_in_domain": inside, "expected": fe(&want)});
                        if let Some(v) = rep.total(&format!("domain/{}/evaluate_filter_polynomial", D::KIND), dt2, || base.evaluate_filter_polynomial(&coset, *tau)) {
                            if v != want {
                                let mut d = dt2();
                                d["got"] = json!(fe(&v));
                                rep.violation(sig::<F, D>("evaluate_filter_polynomial", if inside { "value-on-domain" } else { "value-off-domain" }), d);
                                break;
                            }
                        }
                    }
                }
            }
        }
    }
    rep.exhaustive(&format!("{fname}/{}: domain API on every constructible size <= {cap}", D::KIND));
}

fn bitrev_item(rep: &mut Report, rng: &mut Rng, _args: &Args) {
    use ark_poly::domain::radix2::bitreverse_permutation_in_place;
    for w in 0..=10u32 {
        let n = 1usize << w;
        let v: Vec<u64> = (0..n).map(|_| rng.next_u64()).collect();
        let mut a = v.clone();
        rep.eval(digest(&("bitrev", w, &v)), w >= 1);
        rep.op("bitreverse_permutation_in_place");
        if rep.total("domain/utils/bitreverse_permutation_in_place", || json!({"width": w}), || bitreverse_permutation_in_place(&mut a, w)).is_some() {
            let ok = (0..n).all(|i| {
                let mut r = 0usize;
                for b in 0..w {
                    if (i >> b) & 1 == 1 {
                        r |= 1 << (w - 1 - b);
                    }
                }
                a[r] == v[i]
            });
            rep.check(ok, || "domain/utils/bitreverse_permutation_in_place/value".into(), || json!({"width": w}));
        }
    }
}

// ------------------------------------------------------------------------------------------------
// items

fn add_field<F: FftField + PrimeField>(v: &mut Vec<(u64, Item)>, fname: &'static str, max_n: u64, full_cap: usize, api_cap: u64) {
    fn add_kind<F: FftField + PrimeField, D: Kind<F> + 'static>(v: &mut Vec<(u64, Item)>, fname: &'static str, max_n: u64, full_cap: usize, api_cap: u64) {
        let p = par_of::<F>();
        if !D::applicable(&p) {
            return;
        }
        let kind = D::KIND;
        v.push((50, Item::new(format!("construct/{fname}/{kind}"), move |r, g, a| construct::<F, D>(r, g, a, fname))));
        v.push((200, Item::new(format!("api/{fname}/{kind}"), move |r, g, a| api::<F, D>(r, g, a, fname, api_cap))));
        let sizes = exact_sizes::<F, D>(&p, max_n);
        let small: Vec<u64> = sizes.iter().copied().filter(|s| *s <= 128).collect();
        let has_mixed_small = kind == "mixed";
        let radix_small = kind != "mixed";
        v.push((
            100,
            Item::new(format!("fft/{fname}/{kind}/small"), move |r, g, a| {
                r.require(C_EMPTY);
                r.require(C_SIZE1);
                r.require(C_COSET);
                r.require("domain obtained by get_coset on a coset");
                if radix_small {
                    r.require(C_DA);
                    r.require(C_PLAIN);
                }
                if has_mixed_small {
                    r.require(C_MIX_Q);
                    r.require(C_MIX_0);
                }
                transforms::<F, D>(r, g, a, fname, &small, full_cap)
            }),
        ));
        for s in sizes.into_iter().filter(|s| *s > 128) {
            let compaction = kind != "mixed" && s.is_power_of_two() && s >= 256;
            v.push((
                s * s.min(full_cap as u64) / 64,
                Item::new(format!("fft/{fname}/{kind}/n{s}"), move |r, g, a| {
                    if compaction {
                        r.require(C_COMPACT);
                        r.require(C_DA);
                        r.require(C_PLAIN);
                    }
                    transforms::<F, D>(r, g, a, fname, &[s], full_cap)
                }),
            ));
        }
    }
    v.push((20, Item::new(format!("root/{fname}"), move |r, g, a| roots::<F>(r, g, a, fname))));
    add_kind::<F, Radix2EvaluationDomain<F>>(v, fname, max_n, full_cap, api_cap);
    add_kind::<F, MixedRadixEvaluationDomain<F>>(v, fname, max_n, full_cap, api_cap);
    add_kind::<F, GeneralEvaluationDomain<F>>(v, fname, max_n, full_cap, api_cap);
}

// ---- domains over an extension field ------------------------------------------------------------
// `QuadExtField` implements `FftField` by embedding the base field's roots of unity, so every evaluation domain of
// the base field is also one over Fp2 (a user can ask for it: `GeneralEvaluationDomain::<Fq2>::new(n)`).

pub struct Bn384Fq2Config;
impl ark_ff::Fp2Config for Bn384Fq2Config {
    type Fp = Bn384Fq;
    const NONRESIDUE: Bn384Fq = <Bn384Fq as FftField>::GENERATOR;
    const FROBENIUS_COEFF_FP2_C1: &'static [Bn384Fq] = &[<Bn384Fq as Field>::ONE, ark_ff::MontFp!("-1")];
}
pub type Bn384Fq2 = ark_ff::Fp2<Bn384Fq2Config>;

fn ext_domains<F: FftField, D: EvaluationDomain<F>>(rep: &mut Report, rng: &mut Rng, fname: &'static str, kind: &'static str) {
    rep.config(&format!("{fname}/{kind}"));
    for n in [1usize, 2, 3, 4, 6, 8, 9, 12, 18, 24, 36, 72, 5, 7, 10, 100] {
        let det = || json!({"field": fname, "domain_kind": kind, "requested": n});
        let Some(Some(d)) = rep.total(&format!("domain/{kind}/new"), det, || D::new(n)) else { continue };
        let s = d.size();
        rep.eval(digest(&("ext-domain", fname, kind, n)), true);
        rep.class("domain over an extension field");
        rep.class_if(s % 3 == 0, "domain over an extension field: size with a factor 3");
        let g = d.group_gen();
        let mut primes = vec![];
        let mut t = s;
        for q in [2usize, 3, 5, 7] {
            if t % q == 0 {
                primes.push(q);
                while t % q == 0 {
                    t /= q;
                }
            }
        }
        let exact = g.pow([s as u64]).is_one() && primes.iter().all(|q| !g.pow([(s / q) as u64]).is_one()) && t == 1;
        rep.check(s >= n && (exact || s == 1), || format!("domain/{kind}/group_gen/order-over-extension-field"), det);
        let es: Vec<F> = d.elements().collect();
        let distinct = (0..es.len()).all(|i| (0..i).all(|j| es[i] != es[j]));
        rep.check(es.len() == s && distinct && (0..s).all(|i| d.element(i) == es[i]), || format!("domain/{kind}/elements/over-extension-field"), det);
        for len in [s, s / 2 + 1, 1] {
            let coeffs: Vec<F> = (0..len.min(s)).map(|_| F::rand(rng)).collect();
            let naive: Vec<F> = es.iter().map(|x| coeffs.iter().rev().fold(F::zero(), |acc, c| acc * *x + *c)).collect();
            if let Some(got) = rep.total(&format!("domain/{kind}/fft"), det, || d.fft(&coeffs)) {
                rep.check(got == naive, || format!("domain/{kind}/fft/value-over-extension-field"), det);
                if let Some(back) = rep.total(&format!("domain/{kind}/ifft"), det, || d.ifft(&got)) {
                    let mut want = coeffs.clone();
                    want.resize(s, F::zero());
                    rep.check(back == want, || format!("domain/{kind}/ifft/value-over-extension-field"), det);
                }
            }
        }
    }
}

pub fn items(args: &Args) -> Vec<Item> {
    let mut v: Vec<(u64, Item)> = vec![];
    v.push((10, Item::new("ext-field/bn384_small_two_adicity::Fq2", |rep, rng, _| {
        rep.require("domain over an extension field: size with a factor 3");
        ext_domains::<Bn384Fq2, GeneralEvaluationDomain<Bn384Fq2>>(rep, rng, "Fp2 over bn384_small_two_adicity::Fq", "general");
        ext_domains::<Bn384Fq2, MixedRadixEvaluationDomain<Bn384Fq2>>(rep, rng, "Fp2 over bn384_small_two_adicity::Fq", "mixed");
        ext_domains::<Bn384Fq2, Radix2EvaluationDomain<Bn384Fq2>>(rep, rng, "Fp2 over bn384_small_two_adicity::Fq", "radix2");
    })));
    // (max transform size, full-comparison bound, API bound)
    let big = args.pick(1u64 << 11, 1 << 14);
    let full = args.pick(1usize << 11, 1 << 12);
    let wide = args.pick(1u64 << 9, 1 << 11);
    let api_cap = args.pick(128u64, 256);
    add_field::<Bls381Fr>(&mut v, "bls12_381::Fr", big, full, api_cap);
    add_field::<Bn254Fr>(&mut v, "bn254::Fr", big, full, api_cap);
    add_field::<Bls377Fr>(&mut v, "bls12_377::Fr", big, full, api_cap);
    add_field::<PallasFr>(&mut v, "pallas::Fr", big, full, api_cap);
    add_field::<Bn384Fr>(&mut v, "bn384_small_two_adicity::Fr", big, full, api_cap);
    add_field::<Bn384Fq>(&mut v, "bn384_small_two_adicity::Fq", big, full, api_cap);
    add_field::<Mnt753Fr>(&mut v, "mnt4_753::Fr", wide, full, api_cap.min(128));
    add_field::<Goldilocks>(&mut v, "goldilocks", big * 2, full * 2, 256);
    add_field::<F65537>(&mut v, "F65537", big * 2, full * 2, 256);
    add_field::<F257>(&mut v, "F257", big, full, 256);
    add_field::<F97>(&mut v, "F97", big, full, 256);
    add_field::<F1009>(&mut v, "F1009", big, full, 256);
    add_field::<F2377>(&mut v, "F2377", big, full, 256);
    add_field::<F601>(&mut v, "F601", big, full, 256);
    add_field::<F197>(&mut v, "F197", big, full, 256);
    add_field::<F1621>(&mut v, "F1621", big, full, 256);
    v.push((150, Item::new("fft-group/bls12_381", group_transforms)));
    v.push((1, Item::new("utils/bitreverse", bitrev_item)));
    // most expensive first so that the tail of the schedule is short
    v.sort_by(|a, b| b.0.cmp(&a.0));
    v.into_iter().map(|x| x.1).collect()
}
