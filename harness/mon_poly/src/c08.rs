//! C08 — univariate polynomial arithmetic (dense, sparse, mixes, evaluation-form) is ring arithmetic
//! on canonical representations.
//!
//! Model: canonical coefficient vectors with schoolbook operations (`orc.rs`). Every result is
//! checked semantically (coefficients equal the model's, `evaluate` equals Horner on the model) and
//! structurally (no leading zero / sorted non-zero terms, `degree()` total and right, `==` with the
//! canonical polynomial built from the model).
use crate::c07::{par_of, Kind};
use crate::fields::*;
use crate::orc::*;
use ark_ff::{FftField, Field, PrimeField, Zero};
use ark_poly::univariate::{DenseOrSparsePolynomial, DensePolynomial, SparsePolynomial};
use ark_poly::{
    DenseUVPolynomial, Evaluations, GeneralEvaluationDomain, MixedRadixEvaluationDomain, Polynomial,
    Radix2EvaluationDomain,
};
use ark_std::rand::{Rng as _, RngCore};
use monitor::*;

pub const RULE: &str = "cases = (field, operation, operand polynomials, scalar / domain); operands are canonical and drawn \
from relation classes (independent, q = p, q = -p, equal degree with cancelling leading terms, deg p </=/> deg q, zero on \
either side, constants, sparse with top degree above/below/equal the dense one, operands longer than the evaluation \
domain); every result is compared coefficient-wise with schoolbook arithmetic on canonical vectors, evaluated at points \
against Horner, and checked for canonical form, degree() and == with the canonical model; a case is non-trivial when at \
least one operand is a non-zero polynomial; distinct = distinct digest of (field, op, operands, scalar, domain)";

type DP<F> = DensePolynomial<F>;
type SP<F> = SparsePolynomial<F>;

fn dp<F: Field>(v: &[F]) -> DP<F> {
    debug_assert!(is_canon(v));
    DensePolynomial { coeffs: v.to_vec() }
}

/// canonical sparse polynomial from ascending distinct non-zero terms
fn sp<F: Field>(t: &[(usize, F)]) -> SP<F> {
    SparsePolynomial::from_coefficients_vec(t.to_vec())
}

fn tv<F: Field>(t: &[(usize, F)]) -> Value {
    json!(t.iter().map(|(d, c)| json!([d, c.to_string()])).collect::<Vec<_>>())
}

fn points<F: Field>(rng: &mut Rng) -> Vec<F> {
    vec![F::zero(), F::one(), -F::one(), F::rand(rng), F::rand(rng)]
}

// ------------------------------------------------------------------------------------------------
// result checkers

fn check_dense<F: Field>(rep: &mut Report, op: &str, got: &DP<F>, want: &[F], pts: &[F], det: &dyn Fn() -> Value) -> bool {
    let with = |k: &str, v: Value| {
        let mut d = det();
        d[k] = v;
        d["expected_coeffs"] = fv(want);
        d["got_coeffs"] = fv(&got.coeffs);
        d
    };
    let gc = got.coeffs.clone();
    if canon(gc.clone()) != want {
        viol(rep, format!("poly/dense/{op}/value"), || with("kind", json!("coefficients differ from the model")));
        return false;
    }
    if !is_canon(&gc) {
        // degree() asserts on this representation and == with the canonical polynomial is false
        viol(rep, format!("poly/dense/{op}/leading-zero"), || with("degree_panics", json!(guard(|| got.degree()).is_err())));
        return false;
    }
    if let Some(d) = rep.total(&format!("poly/dense/{op}/degree"), det, || got.degree()) {
        rep.check(d == want.len().saturating_sub(1), || format!("poly/dense/{op}/degree-value"), || with("got_degree", json!(d)));
    }
    rep.check(*got == dp(want), || format!("poly/dense/{op}/neq-canonical"), || with("kind", json!("== with canonical model is false")));
    rep.check(got.is_zero() == want.is_empty(), || format!("poly/dense/{op}/is_zero"), || with("kind", json!("is_zero")));
    for x in pts {
        if let Some(v) = rep.total("poly/dense/evaluate", || with("point", json!(fe(x))), || got.evaluate(x)) {
            if v != horner(want, *x) {
                rep.violation("poly/dense/evaluate/value", with("point", json!(fe(x))));
                break;
            }
        }
    }
    true
}

fn check_sparse<F: Field>(rep: &mut Report, op: &str, got: &SP<F>, want: &[F], pts: &[F], det: &dyn Fn() -> Value) -> bool {
    let terms: Vec<(usize, F)> = got.to_vec();
    let with = |k: &str, v: Value| {
        let mut d = det();
        d[k] = v;
        d["expected_terms"] = tv(&to_terms(want));
        d["got_terms"] = tv(&terms);
        d
    };
    if from_terms(&terms) != want {
        viol(rep, format!("poly/sparse/{op}/value"), || with("kind", json!("polynomial differs from the model")));
        return false;
    }
    if terms.windows(2).any(|w| w[0].0 >= w[1].0) {
        viol(rep, format!("poly/sparse/{op}/unsorted-or-duplicate"), || with("kind", json!("degrees not strictly ascending")));
        return false;
    }
    if terms.iter().any(|(_, c)| c.is_zero()) {
        viol(rep, format!("poly/sparse/{op}/zero-term"), || with("degree_panics", json!(guard(|| got.degree()).is_err())));
        return false;
    }
    if let Some(d) = rep.total(&format!("poly/sparse/{op}/degree"), det, || got.degree()) {
        rep.check(d == want.len().saturating_sub(1), || format!("poly/sparse/{op}/degree-value"), || with("got_degree", json!(d)));
    }
    rep.check(*got == sp(&to_terms(want)), || format!("poly/sparse/{op}/neq-canonical"), || with("kind", json!("== with canonical model is false")));
    rep.check(got.is_zero() == want.is_empty(), || format!("poly/sparse/{op}/is_zero"), || with("kind", json!("is_zero")));
    for x in pts {
        if let Some(v) = rep.total("poly/sparse/evaluate", || with("point", json!(fe(x))), || got.evaluate(x)) {
            if v != eval_powers(want, *x) {
                rep.violation("poly/sparse/evaluate/value", with("point", json!(fe(x))));
                break;
            }
        }
    }
    true
}

// ------------------------------------------------------------------------------------------------
// operand generators

fn gen_len(rng: &mut Rng, maxlen: usize) -> usize {
    match rng.next_u32() % 12 {
        0 => 0,
        1 => 1,
        2..=5 => rng.gen_range(0..9),
        6..=8 => rng.gen_range(0..34),
        _ => rng.gen_range(0..=maxlen),
    }
}

/// (p, q, relation)
fn gen_pair<F: Field>(rng: &mut Rng, maxlen: usize) -> (Vec<F>, Vec<F>, &'static str) {
    let l = gen_len(rng, maxlen);
    match rng.next_u32() % 14 {
        0 | 1 => {
            let l2 = gen_len(rng, maxlen);
            (rand_poly(rng, l), rand_poly(rng, l2), "independent")
        },
        2 => {
            let p: Vec<F> = rand_poly(rng, l);
            (p.clone(), p, "q = p")
        },
        3 => {
            let p: Vec<F> = rand_poly(rng, l);
            let q = pneg(&p);
            (p, q, "q = -p")
        },
        4 | 5 | 6 => {
            // equal degree, top k coefficients cancel under + or -
            let l = l.max(1);
            let p: Vec<F> = rand_poly(rng, l);
            let mut q: Vec<F> = rand_poly(rng, l);
            let k = if rng.next_u32() % 2 == 0 { 1 } else { 1 + rng.gen_range(0..l) };
            let minus = rng.next_u32() % 2 == 0;
            for i in (l - k)..l {
                q[i] = if minus { p[i] } else { -p[i] };
            }
            (p, q, "equal degree, leading terms cancel")
        },
        7 => (vec![], rand_poly(rng, l), "p = 0"),
        8 => (rand_poly(rng, l), vec![], "q = 0"),
        9 => {
            let c: F = gen_nonzero(rng);
            let d: F = match rng.next_u32() % 3 {
                0 => c,
                1 => -c,
                _ => gen_nonzero(rng),
            };
            (vec![c], vec![d], "constants")
        },
        10 => {
            let l2 = l + 1 + rng.gen_range(0..8);
            (rand_poly(rng, l), rand_poly(rng, l2), "deg p < deg q")
        },
        11 => {
            let l2 = l + 1 + rng.gen_range(0..8);
            (rand_poly(rng, l2), rand_poly(rng, l), "deg p > deg q")
        },
        _ => (rand_poly(rng, l), rand_poly(rng, l), "equal degree"),
    }
}

/// ascending distinct-degree non-zero terms
fn gen_sparse<F: Field>(rng: &mut Rng, maxdeg: usize) -> Vec<(usize, F)> {
    let nterms = match rng.next_u32() % 8 {
        0 => 0,
        1 => 1,
        _ => rng.gen_range(1..8),
    };
    let mut degs: Vec<usize> = (0..nterms)
        .map(|_| match rng.next_u32() % 4 {
            0 => rng.gen_range(0..4),
            1 => rng.gen_range(0..12),
            _ => rng.gen_range(0..=maxdeg),
        })
        .collect();
    degs.sort();
    degs.dedup();
    degs.into_iter().map(|d| (d, gen_nonzero(rng))).collect()
}

fn shuffle<T>(rng: &mut Rng, v: &mut [T]) {
    for i in (1..v.len()).rev() {
        let j = rng.gen_range(0..=i);
        v.swap(i, j);
    }
}

fn scalars<F: Field>(rng: &mut Rng, p: &[F], q: &[F]) -> Vec<(F, &'static str)> {
    let mut v = vec![(F::zero(), "f = 0"), (F::one(), "f = 1"), (-F::one(), "f = -1"), (F::rand(rng), "f random")];
    if !p.is_empty() && p.len() == q.len() {
        let f = -(p[p.len() - 1] * q[q.len() - 1].inverse().unwrap());
        v.push((f, "f cancels the leading term"));
    }
    v
}

fn cancels<F: Field>(a: &[F], b: &[F], res: &[F]) -> bool {
    !a.is_empty() && !b.is_empty() && res.len() < a.len().max(b.len())
}

// ------------------------------------------------------------------------------------------------
// A. dense additive operators

fn dense_additive<F: FftField + PrimeField>(rep: &mut Report, rng: &mut Rng, args: &Args, fname: &'static str, shards: usize) {
    for c in [
        "cancel: dense add", "cancel: dense sub", "cancel: dense add_assign", "cancel: dense sub_assign", "cancel: dense scaled add",
        "scaled add: f = 0", "scaled add: f = 1", "result = 0", "scaled add: self = 0 and f = 0",
    ] {
        rep.require(c);
    }
    rep.config(fname);
    let maxlen = args.pick(71, 601);
    for _ in 0..args.pick(60_000, 250_000) / shards {
        let (p, q, rel) = gen_pair::<F>(rng, maxlen);
        let pts = points::<F>(rng);
        let nontriv = !p.is_empty() || !q.is_empty();
        let base = digest(&("dense-additive", fname, &p, &q));
        let det = || json!({"field": fname, "relation": rel, "p": fv(&p), "q": fv(&q)});
        let (dpp, dq) = (dp(&p), dp(&q));
        // add
        {
            let want = padd(&p, &q);
            rep.eval(mix(base, 1), nontriv);
            rep.op("dense +");
            rep.class_if(cancels(&p, &q, &want), "cancel: dense add");
            rep.class_if(want.is_empty() && nontriv, "result = 0");
            if let Some(r) = rep.total("poly/dense/add", det, || &dpp + &dq) {
                check_dense(rep, "add", &r, &want, &pts, &det);
                let variants = rep.total("poly/dense/add-owned-variants", det, || [dpp.clone() + dq.clone(), dpp.clone() + &dq, &dpp + dq.clone()]);
                if let Some(vs) = variants {
                    rep.check(vs.iter().all(|x| *x == r), || "poly/dense/add-owned-variants/differ".into(), det);
                }
            }
            let mut a = dpp.clone();
            rep.eval(mix(base, 2), nontriv);
            rep.op("dense +=");
            rep.class_if(cancels(&p, &q, &want), "cancel: dense add_assign");
            if rep.total("poly/dense/add_assign", det, || a += &dq).is_some() {
                check_dense(rep, "add_assign", &a, &want, &pts[..2], &det);
            }
        }
        // sub
        {
            let want = psub(&p, &q);
            rep.eval(mix(base, 3), nontriv);
            rep.op("dense -");
            rep.class_if(cancels(&p, &q, &want), "cancel: dense sub");
            rep.class_if(want.is_empty() && nontriv, "result = 0");
            if let Some(r) = rep.total("poly/dense/sub", det, || &dpp - &dq) {
                check_dense(rep, "sub", &r, &want, &pts, &det);
                let variants = rep.total("poly/dense/sub-owned-variants", det, || [dpp.clone() - dq.clone(), dpp.clone() - &dq, &dpp - dq.clone()]);
                if let Some(vs) = variants {
                    rep.check(vs.iter().all(|x| *x == r), || "poly/dense/sub-owned-variants/differ".into(), det);
                }
            }
            let mut a = dpp.clone();
            rep.eval(mix(base, 4), nontriv);
            rep.op("dense -=");
            rep.class_if(cancels(&p, &q, &want), "cancel: dense sub_assign");
            if rep.total("poly/dense/sub_assign", det, || a -= &dq).is_some() {
                check_dense(rep, "sub_assign", &a, &want, &pts[..2], &det);
            }
        }
        // neg, scalar multiple
        {
            rep.eval(mix(base, 5), !p.is_empty());
            rep.op("dense neg");
            if let Some(r) = rep.total("poly/dense/neg", det, || -dpp.clone()) {
                check_dense(rep, "neg", &r, &pneg(&p), &pts[..2], &det);
            }
            for (f, fclass) in scalars(rng, &p, &q).into_iter().take(4) {
                rep.eval(mix(base, digest(&("scale", f))), !p.is_empty());
                rep.op("dense * F");
                let d2 = || json!({"field": fname, "p": fv(&p), "f": fe(&f), "f_class": fclass});
                if let Some(r) = rep.total("poly/dense/mul-scalar", d2, || &dpp * f) {
                    check_dense(rep, "mul-scalar", &r, &pscale(&p, f), &pts[..2], &d2);
                    if let Some(r2) = rep.total("poly/dense/mul-scalar-owned", d2, || dpp.clone() * f) {
                        rep.check(r2 == r, || "poly/dense/mul-scalar-owned/differs".into(), d2);
                    }
                }
            }
        }
        // scaled add
        for (f, fclass) in scalars(rng, &p, &q) {
            let want = padd(&p, &pscale(&q, f));
            rep.eval(mix(base, digest(&("scaled-add", f))), nontriv);
            rep.op("dense += (f, &q)");
            rep.class_if(f.is_zero(), "scaled add: f = 0");
            rep.class_if(f.is_one(), "scaled add: f = 1");
            rep.class_if(f.is_zero() && p.is_empty() && !q.is_empty(), "scaled add: self = 0 and f = 0");
            rep.class_if(cancels(&p, &q, &want) && !f.is_zero(), "cancel: dense scaled add");
            rep.class_if(want.is_empty() && nontriv, "result = 0");
            let d2 = || json!({"field": fname, "relation": rel, "p": fv(&p), "q": fv(&q), "f": fe(&f), "f_class": fclass});
            let mut a = dpp.clone();
            if rep.total("poly/dense/scaled-add", d2, || a += (f, &dq)).is_some() {
                check_dense(rep, "scaled-add", &a, &want, &pts[..2], &d2);
            }
        }
    }
    rep.sample(&format!("dense-additive/{fname}"), || json!({"ops": "+ - += -= neg *F +=(f,&)", "field": fname, "max_len": maxlen}));
}

// ------------------------------------------------------------------------------------------------
// B. dense multiplication, C. division

fn general_size<F: FftField + PrimeField>(n: usize) -> Option<u64> {
    <GeneralEvaluationDomain<F> as Kind<F>>::expected(n as u64, &par_of::<F>())
}

fn dense_mul<F: FftField + PrimeField>(rep: &mut Report, rng: &mut Rng, args: &Args, fname: &'static str, shards: usize) {
    rep.config(fname);
    rep.require("fft product: domain size > 64");
    rep.require("product with a zero operand");
    let maxlen = args.pick(71, 601);
    let par = par_of::<F>();
    for it in 0..args.pick(15_000, 40_000) / shards {
        let (mut p, mut q, rel) = gen_pair::<F>(rng, maxlen);
        if it % 5 == 0 && !p.is_empty() && !q.is_empty() {
            // force a long product in the quick tier too
            let (l1, l2) = (40 + rng.gen_range(0..(maxlen - 40)), 30 + rng.gen_range(0..(maxlen - 30)));
            p = rand_poly(rng, l1);
            q = rand_poly(rng, l2);
        }
        let pts = points::<F>(rng);
        let nontriv = !p.is_empty() || !q.is_empty();
        let base = digest(&("dense-mul", fname, &p, &q));
        let det = || json!({"field": fname, "relation": rel, "p": fv(&p), "q": fv(&q)});
        let (dpp, dq) = (dp(&p), dp(&q));
        let want = pmul(&p, &q);
        rep.class_if(p.is_empty() || q.is_empty(), "product with a zero operand");
        rep.eval(mix(base, 1), nontriv);
        rep.op("naive_mul");
        if let Some(r) = rep.total("poly/dense/naive_mul", det, || dpp.naive_mul(&dq)) {
            check_dense(rep, "naive_mul", &r, &want, &pts[..3], &det);
        }
        // FFT product: only where the field is smooth enough (documented panic otherwise)
        let need = (p.len() + q.len()).saturating_sub(1);
        if p.is_empty() || q.is_empty() || general_size::<F>(need).is_some() {
            rep.eval(mix(base, 2), nontriv);
            rep.op("dense * dense (FFT)");
            if let Some(s) = general_size::<F>(need) {
                rep.class_if(s > 64, "fft product: domain size > 64");
                rep.class_if(!(s as u64).is_power_of_two(), "fft product: mixed-radix domain");
                rep.class_if(s == need as u64, "fft product: result fills the domain exactly");
            }
            if let Some(r) = rep.total("poly/dense/mul", det, || &dpp * &dq) {
                check_dense(rep, "mul", &r, &want, &pts[..3], &det);
                if it % 4 == 0 {
                    let variants = rep.total("poly/dense/mul-owned-variants", det, || [dpp.clone() * dq.clone(), dpp.clone() * &dq, &dpp * dq.clone()]);
                    if let Some(vs) = variants {
                        rep.check(vs.iter().all(|x| *x == r), || "poly/dense/mul-owned-variants/differ".into(), det);
                    }
                }
            }
        } else {
            rep.class("fft product skipped: field not smooth enough (documented panic)");
        }
    }
    // fields with a small two-adicity and a declared small subgroup: a product that needs more points than the
    // largest radix-2 subgroup has (the general domain must fall back to a mixed-radix one)
    if par.t <= 13 {
        let half = (1usize << par.t) / 2;
        let (l1, l2) = (half + 40 + rng.gen_range(0..60), half + 30 + rng.gen_range(0..60));
        let need = l1 + l2 - 1;
        if let Some(sz) = general_size::<F>(need) {
            let (p, q) = (rand_poly::<F>(rng, l1), rand_poly::<F>(rng, l2));
            let det = || json!({"field": fname, "len_p": l1, "len_q": l2, "two_adicity": par.t, "expected_domain_size": sz});
            rep.class("fft product: needs more than 2^TWO_ADICITY points (mixed-radix fallback)");
            rep.eval(digest(&("dense-mul-large", fname, &p[..8], &q[..8], l1, l2)), true);
            let (dpp, dq) = (dp(&p), dp(&q));
            let want = pmul(&p, &q);
            let pts = points::<F>(rng);
            if let Some(r) = rep.total("poly/dense/mul", det, || &dpp * &dq) {
                check_dense(rep, "mul", &r, &want, &pts[..3], &det);
            }
        }
    }
}

fn dense_div<F: FftField + PrimeField>(rep: &mut Report, rng: &mut Rng, args: &Args, fname: &'static str, shards: usize) {
    rep.config(fname);
    for c in ["division: exact (remainder 0)", "division: deg a < deg b", "division: constant divisor", "division: dividend = 0", "division: remainder degree drops by more than one"] {
        rep.require(c);
    }
    let maxlen = args.pick(71, 401);
    for _ in 0..args.pick(24_000, 60_000) / shards {
        // dividends built as q0*b + r0 half of the time so that exact divisions and short remainders occur
        let (l1, l2, l3) = (gen_len(rng, maxlen / 2), gen_len(rng, maxlen / 2), gen_len(rng, maxlen));
        let b: Vec<F> = match rng.next_u32() % 6 {
            0 => vec![gen_nonzero(rng)],
            1 => {
                // sparse-looking divisor x^k - c
                let k = 1 + rng.gen_range(0..12);
                vanishing(k, gen_nonzero(rng))
            },
            _ => rand_poly(rng, 1 + l1),
        };
        let a: Vec<F> = match rng.next_u32() % 6 {
            0 => vec![],
            1 => pmul(&b, &rand_poly::<F>(rng, l2)),
            2 => {
                let lr = rng.gen_range(0..b.len());
                let r0 = rand_poly::<F>(rng, lr);
                padd(&pmul(&b, &rand_poly::<F>(rng, l2)), &r0)
            },
            3 => {
                let la = rng.gen_range(0..=b.len());
                rand_poly(rng, la)
            },
            _ => rand_poly(rng, l3),
        };
        let (wq, wr) = pdivrem(&a, &b);
        // oracle self-check: a = q*b + r, deg r < deg b
        assert!(padd(&pmul(&wq, &b), &wr) == a && wr.len() < b.len());
        let pts = points::<F>(rng);
        let base = digest(&("dense-div", fname, &a, &b));
        let nontriv = !a.is_empty();
        let det = || json!({"field": fname, "a": fv(&a), "b": fv(&b)});
        rep.class_if(wr.is_empty() && !a.is_empty() && a.len() >= b.len(), "division: exact (remainder 0)");
        rep.class_if(!a.is_empty() && a.len() < b.len(), "division: deg a < deg b");
        rep.class_if(b.len() == 1, "division: constant divisor");
        rep.class_if(a.is_empty(), "division: dividend = 0");
        rep.class_if(!wr.is_empty() && a.len() >= b.len() && wr.len() + 1 < b.len(), "division: remainder degree drops by more than one");
        let (da, db) = (dp(&a), dp(&b));
        let (sa, sb) = (sp(&to_terms(&a)), sp(&to_terms(&b)));
        rep.eval(mix(base, 1), nontriv);
        rep.op("dense / dense");
        if let Some(r) = rep.total("poly/dense/div", det, || &da / &db) {
            check_dense(rep, "div", &r, &wq, &pts[..2], &det);
            let variants = rep.total("poly/dense/div-owned-variants", det, || [da.clone() / db.clone(), da.clone() / &db, &da / db.clone()]);
            if let Some(vs) = variants {
                rep.check(vs.iter().all(|x| *x == r), || "poly/dense/div-owned-variants/differ".into(), det);
            }
        }
        let combos: [(&str, DenseOrSparsePolynomial<'_, F>, DenseOrSparsePolynomial<'_, F>); 4] = [
            ("dense-dense", (&da).into(), (&db).into()),
            ("dense-sparse", (&da).into(), (&sb).into()),
            ("sparse-dense", (&sa).into(), (&db).into()),
            ("sparse-sparse", (&sa).into(), (&sb).into()),
        ];
        for (i, (name, x, y)) in combos.iter().enumerate() {
            rep.eval(mix(base, 10 + i as u64), nontriv);
            rep.op("divide_with_q_and_r");
            let op = format!("divide_with_q_and_r[{name}]");
            match rep.total(&format!("poly/dense/{op}"), det, || x.divide_with_q_and_r(y)) {
                Some(Some((gq, gr))) => {
                    check_dense(rep, &format!("{op}.q"), &gq, &wq, &pts[..1], &det);
                    check_dense(rep, &format!("{op}.r"), &gr, &wr, &pts[..1], &det);
                },
                Some(None) => rep.violation(format!("poly/dense/{op}/none"), det()),
                None => {},
            }
        }
    }
    // division of a non-zero polynomial by the zero polynomial has no quotient: documented to be refused
    // ("Dividing by zero polynomial"); returning any pair is the violation
    for k in 0..8usize {
        let a: Vec<F> = rand_poly(rng, 1 + k * 3);
        let da = dp(&a);
        let dz = DensePolynomial::<F>::zero();
        let sa: SparsePolynomial<F> = da.clone().into();
        let sz = SparsePolynomial::<F>::zero();
        rep.class("division by the zero polynomial (must be refused)");
        let det = || json!({"field": fname, "dividend_len": a.len()});
        let outcomes = [
            ("divide_with_q_and_r[dense-dense]", guard(|| DenseOrSparsePolynomial::from(&da).divide_with_q_and_r(&(&dz).into())).is_ok()),
            ("divide_with_q_and_r[dense-sparse]", guard(|| DenseOrSparsePolynomial::from(&da).divide_with_q_and_r(&(&sz).into())).is_ok()),
            ("divide_with_q_and_r[sparse-dense]", guard(|| DenseOrSparsePolynomial::from(&sa).divide_with_q_and_r(&(&dz).into())).is_ok()),
            ("div", guard(|| &da / &dz).is_ok()),
        ];
        for (op, accepted) in outcomes {
            rep.eval(digest(&("div-by-zero", fname, k, op)), true);
            rep.check(!accepted, || format!("poly/dense/{op}/accepts-zero-divisor"), det);
        }
    }
    rep.require("division by the zero polynomial (must be refused)");
}

// ------------------------------------------------------------------------------------------------
// D. vanishing-polynomial operations, E. evaluation over a domain and interpolation

fn dom_lens(rng: &mut Rng, n: usize) -> Vec<usize> {
    let mut v = vec![0, 1, n.saturating_sub(1), n, n + 1, 2 * n - n / 2, 2 * n, 2 * n + 1, 3 * n, 3 * n + 2, rng.gen_range(0..4 * n + 2)];
    v.sort();
    v.dedup();
    v
}

fn with_domains<F: FftField + PrimeField, D: Kind<F>>(rng: &mut Rng, cap: u64, f: &mut dyn FnMut(&mut Rng, D, &[F], F, &'static str)) {
    let p = par_of::<F>();
    if !D::applicable(&p) {
        return;
    }
    let mut sizes: Vec<u64> = vec![];
    let mut s = 1u64;
    while s <= cap {
        if D::expected(s, &p) == Some(s) {
            sizes.push(s);
        }
        s += 1;
    }
    for n in sizes {
        // a panic here is C07's business (domain construction); C08 just skips the size
        let Ok(Some(base)) = guard(|| D::new(n as usize)) else { continue };
        if base.size() as u64 != n {
            continue;
        }
        let g = base.group_gen();
        let k = rng.gen_range(0..n);
        let offs: [(F, &'static str); 4] = [(F::one(), "subgroup"), (F::GENERATOR, "coset GENERATOR"), (gen_nonzero(rng), "coset random"), (opow(g, k.max(1)), "coset by a domain element")];
        for (h, hname) in offs {
            if hname != "subgroup" && h.is_one() {
                continue;
            }
            let Some(dom) = base.get_coset(h) else { continue };
            let es = elems(g, h, n as usize);
            f(rng, dom, &es, h, hname);
        }
    }
}

fn vanishing_ops<F: FftField + PrimeField, D: Kind<F>>(rep: &mut Report, rng: &mut Rng, args: &Args, fname: &'static str) {
    rep.config(&format!("{fname}/{}", D::KIND));
    for c in ["vanishing ops: coset domain", "vanishing ops: subgroup domain", "divide_by_vanishing_poly: dividend shorter than the domain", "divide_by_vanishing_poly: dividend length a multiple of the domain size", "divide_by_vanishing_poly: dividend longer than twice the domain"] {
        rep.require(c);
    }
    let reps = args.pick(6, 30);
    let cap = args.pick(64, 260);
    let mut go = |rng: &mut Rng, dom: D, _es: &[F], h: F, hname: &'static str| {
        let n = dom.size();
        let coset = !h.is_one();
        let cs = if coset { "-coset" } else { "" };
        let z = vanishing(n, opow(h, n as u64));
        for _ in 0..reps {
            for len in dom_lens(rng, n) {
                let a: Vec<F> = rand_poly(rng, len);
                let pts = points::<F>(rng);
                let base = digest(&("vanishing", fname, D::KIND, n, h, &a));
                let det = || json!({"field": fname, "domain_kind": D::KIND, "domain_size": n, "offset": fe(&h), "offset_kind": hname, "p": fv(&a)});
                rep.class(if coset { "vanishing ops: coset domain" } else { "vanishing ops: subgroup domain" });
                rep.class_if(len < n && len > 0, "divide_by_vanishing_poly: dividend shorter than the domain");
                rep.class_if(len > 0 && len % n == 0, "divide_by_vanishing_poly: dividend length a multiple of the domain size");
                rep.class_if(len > 2 * n, "divide_by_vanishing_poly: dividend longer than twice the domain");
                let da = dp(&a);
                rep.eval(mix(base, 1), !a.is_empty());
                rep.op("mul_by_vanishing_poly");
                if let Some(r) = rep.total(&format!("poly/dense/mul_by_vanishing_poly{cs}"), det, || da.mul_by_vanishing_poly(dom)) {
                    check_dense(rep, &format!("mul_by_vanishing_poly{cs}"), &r, &pmul(&a, &z), &pts[..2], &det);
                }
                rep.eval(mix(base, 2), !a.is_empty());
                rep.op("divide_by_vanishing_poly");
                let (wq, wr) = pdivrem(&a, &z);
                if let Some((gq, gr)) = rep.total(&format!("poly/dense/divide_by_vanishing_poly{cs}"), det, || da.divide_by_vanishing_poly(dom)) {
                    check_dense(rep, &format!("divide_by_vanishing_poly{cs}.q"), &gq, &wq, &pts[..1], &det);
                    check_dense(rep, &format!("divide_by_vanishing_poly{cs}.r"), &gr, &wr, &pts[..1], &det);
                }
            }
        }
    };
    with_domains::<F, D>(rng, cap, &mut go);
}

fn eval_interp<F: FftField + PrimeField, D: Kind<F>>(rep: &mut Report, rng: &mut Rng, args: &Args, fname: &'static str) {
    rep.config(&format!("{fname}/{}", D::KIND));
    for c in ["evaluate_over_domain: len < n", "evaluate_over_domain: len = n", "evaluate_over_domain: len > n", "evaluate_over_domain: len > 2n", "evaluate_over_domain: coset and len > n", "evaluate_over_domain: zero polynomial"] {
        rep.require(c);
    }
    let reps = args.pick(2, 8);
    let cap = args.pick(130, 520);
    let mut go = |rng: &mut Rng, dom: D, es: &[F], h: F, hname: &'static str| {
        let n = dom.size();
        let coset = !h.is_one();
        let cs = if coset { "-coset" } else { "" };
        let z = vanishing(n, opow(h, n as u64));
        for _ in 0..reps {
            for len in dom_lens(rng, n) {
                let a: Vec<F> = rand_poly(rng, len);
                let base = digest(&("eval-domain", fname, D::KIND, n, h, &a));
                let det = || json!({"field": fname, "domain_kind": D::KIND, "domain_size": n, "offset": fe(&h), "offset_kind": hname, "p": fv(&a)});
                rep.class_if(len > 0 && len < n, "evaluate_over_domain: len < n");
                rep.class_if(len == n, "evaluate_over_domain: len = n");
                rep.class_if(len > n, "evaluate_over_domain: len > n");
                rep.class_if(len > 2 * n, "evaluate_over_domain: len > 2n");
                rep.class_if(len > n && coset, "evaluate_over_domain: coset and len > n");
                rep.class_if(len == 0, "evaluate_over_domain: zero polynomial");
                let want: Vec<F> = es.iter().map(|e| horner(&a, *e)).collect();
                let da = dp(&a);
                rep.eval(mix(base, 1), !a.is_empty());
                rep.op("evaluate_over_domain");
                let ev = rep.total(&format!("poly/dense/evaluate_over_domain_by_ref{cs}"), det, || da.evaluate_over_domain_by_ref(dom));
                let ev2 = rep.total(&format!("poly/dense/evaluate_over_domain{cs}"), det, || da.clone().evaluate_over_domain(dom));
                let ev5 = rep.total(&format!("poly/dense-or-sparse/evaluate_over_domain{cs}"), det, || DenseOrSparsePolynomial::evaluate_over_domain(&da, dom));
                for (name, e) in [("poly/dense/evaluate_over_domain_by_ref", &ev), ("poly/dense/evaluate_over_domain", &ev2), ("poly/dense-or-sparse/evaluate_over_domain", &ev5)] {
                    if let Some(e) = e {
                        if e.evals != want {
                            let first = e.evals.iter().zip(&want).position(|(x, y)| x != y);
                            let mut d = det();
                            d["first_mismatch_index"] = json!(first);
                            d["got_len"] = json!(e.evals.len());
                            d["poly_longer_than_domain"] = json!(len > n);
                            rep.violation(format!("{name}{cs}/value"), d);
                        }
                        rep.check(e.domain() == dom, || format!("{name}{cs}/domain"), det);
                    }
                }
                // interpolation back: p mod (X^n - h^n)
                let wantp = pdivrem(&a, &z).1;
                if let Some(e) = ev {
                    rep.eval(mix(base, 2), !a.is_empty());
                    rep.op("interpolate");
                    for i in [0, n / 2, n - 1] {
                        rep.check(e[i] == want[i], || "poly/evaluations/index/value".into(), det);
                    }
                    let pts = points::<F>(rng);
                    if let Some(r) = rep.total(&format!("poly/evaluations/interpolate_by_ref{cs}"), det, || e.interpolate_by_ref()) {
                        check_dense(rep, &format!("interpolate_by_ref{cs}"), &r, &wantp, &pts[..2], &det);
                    }
                    if let Some(r) = rep.total(&format!("poly/evaluations/interpolate{cs}"), det, || e.interpolate()) {
                        check_dense(rep, &format!("interpolate{cs}"), &r, &wantp, &pts[..2], &det);
                    }
                }
            }
            // a genuinely sparse polynomial over the same domain (degrees below and above the domain size)
            {
                let st: Vec<(usize, F)> = gen_sparse(rng, 4 * n + 2);
                let sm = from_terms(&st);
                let want: Vec<F> = es.iter().map(|e| eval_powers(&sm, *e)).collect();
                rep.eval(digest(&("eval-domain-sparse", fname, D::KIND, n, h, &st)), !st.is_empty());
                rep.op("sparse evaluate_over_domain");
                let det = || json!({"field": fname, "domain_kind": D::KIND, "domain_size": n, "offset": fe(&h), "offset_kind": hname, "sparse_terms": tv(&st)});
                let sa = sp(&st);
                let e1 = rep.total(&format!("poly/sparse/evaluate_over_domain_by_ref{cs}"), det, || sa.evaluate_over_domain_by_ref(dom));
                let e2 = rep.total(&format!("poly/sparse/evaluate_over_domain{cs}"), det, || sa.clone().evaluate_over_domain(dom));
                let e3 = rep.total(&format!("poly/dense-or-sparse/evaluate_over_domain{cs}"), det, || DenseOrSparsePolynomial::evaluate_over_domain(sa.clone(), dom));
                for (name, e) in [("poly/sparse/evaluate_over_domain_by_ref", &e1), ("poly/sparse/evaluate_over_domain", &e2), ("poly/dense-or-sparse/evaluate_over_domain[sparse]", &e3)] {
                    if let Some(e) = e {
                        rep.check(e.evals == want && e.domain() == dom, || format!("{name}{cs}/value"), det);
                    }
                }
            }
            // interpolation of an arbitrary evaluation vector
            {
                let v: Vec<F> = (0..n).map(|_| gen_elem(rng)).collect();
                rep.eval(digest(&("interp-random", fname, D::KIND, n, h, &v)), n >= 2);
                rep.op("interpolate");
                let det = || json!({"field": fname, "domain_kind": D::KIND, "domain_size": n, "offset": fe(&h), "evals": fv(&v)});
                let e = Evaluations::from_vec_and_domain(v.clone(), dom);
                if let Some(r) = rep.total(&format!("poly/evaluations/interpolate{cs}"), det, || e.interpolate()) {
                    let ok_form = is_canon(&r.coeffs) && r.coeffs.len() <= n;
                    let ok_val = es.iter().zip(&v).all(|(x, y)| horner(&r.coeffs, *x) == *y);
                    rep.check(ok_form, || format!("poly/dense/interpolate{cs}/leading-zero"), det);
                    rep.check(ok_val, || format!("poly/dense/interpolate{cs}/value"), det);
                }
            }
        }
    };
    with_domains::<F, D>(rng, cap, &mut go);
}

// ------------------------------------------------------------------------------------------------
// F. dense/sparse mixes and conversions

fn mixes<F: FftField + PrimeField>(rep: &mut Report, rng: &mut Rng, args: &Args, fname: &'static str, shards: usize) {
    rep.config(fname);
    for c in [
        "cancel: dense + sparse", "cancel: dense - sparse", "cancel: dense += sparse", "cancel: dense -= sparse",
        "mix: sparse top degree above the dense one", "mix: sparse top degree below the dense one", "mix: sparse top degree equals the dense one",
        "mix: leading term cancels and the sparse operand has higher terms", "result = 0", "mix: dense = 0", "mix: sparse = 0",
    ] {
        rep.require(c);
    }
    let maxlen = args.pick(71, 301);
    for _ in 0..args.pick(60_000, 250_000) / shards {
        let lp = gen_len(rng, maxlen);
        let p: Vec<F> = rand_poly(rng, lp);
        let mut s: Vec<(usize, F)> = gen_sparse(rng, maxlen + 20);
        let minus = rng.next_u32() % 2 == 0;
        let rel = match rng.next_u32() % 8 {
            0 | 1 if !p.is_empty() => {
                // term at the dense top degree that cancels under + or -; lower terms random
                s.retain(|(d, _)| *d < p.len() - 1);
                let c = p[p.len() - 1];
                s.push((p.len() - 1, if minus { c } else { -c }));
                "sparse top term cancels the dense leading term"
            },
            2 if !p.is_empty() => {
                // the same, but the sparse operand continues above
                s.retain(|(d, _)| *d < p.len() - 1);
                let c = p[p.len() - 1];
                s.push((p.len() - 1, if minus { c } else { -c }));
                s.push((p.len() + rng.gen_range(0..5), gen_nonzero(rng)));
                "sparse cancels the dense leading term and has higher terms"
            },
            3 => {
                // s = ±p exactly
                s = to_terms(&p).into_iter().map(|(d, c)| (d, if minus { c } else { -c })).collect();
                "s = ±p"
            },
            4 => {
                // several top terms cancel
                let k = rng.gen_range(0..=p.len().min(4));
                s.retain(|(d, _)| *d + k < p.len());
                for d in (p.len() - k)..p.len() {
                    if !p[d].is_zero() {
                        s.push((d, if minus { p[d] } else { -p[d] }));
                    }
                }
                "top k terms cancel"
            },
            _ => "independent",
        };
        let sm = from_terms(&s);
        debug_assert!(to_terms(&sm) == s);
        let pts = points::<F>(rng);
        let base = digest(&("mix", fname, &p, &s));
        let nontriv = !p.is_empty() || !s.is_empty();
        let det = || json!({"field": fname, "relation": rel, "dense": fv(&p), "sparse_terms": tv(&s)});
        rep.class_if(!p.is_empty() && sm.len() > p.len(), "mix: sparse top degree above the dense one");
        rep.class_if(!s.is_empty() && sm.len() < p.len(), "mix: sparse top degree below the dense one");
        rep.class_if(!s.is_empty() && sm.len() == p.len(), "mix: sparse top degree equals the dense one");
        rep.class_if(p.is_empty() && !s.is_empty(), "mix: dense = 0");
        rep.class_if(s.is_empty() && !p.is_empty(), "mix: sparse = 0");
        let dpp = dp(&p);
        // constructor on shuffled terms
        let mut sh = s.clone();
        shuffle(rng, &mut sh);
        rep.eval(mix(base, 1), !s.is_empty());
        rep.op("sparse from_coefficients_vec");
        let Some(ss) = rep.total("poly/sparse/from_coefficients_vec", det, || SparsePolynomial::from_coefficients_vec(sh.clone())) else { continue };
        if !check_sparse(rep, "from_coefficients_vec", &ss, &sm, &pts[..2], &det) {
            continue;
        }
        if let Some(s2) = rep.total("poly/sparse/from_coefficients_slice", det, || SparsePolynomial::from_coefficients_slice(&sh)) {
            rep.check(s2 == ss, || "poly/sparse/from_coefficients_slice/differs".into(), det);
        }
        let cancel_hi = |res: &[F]| !p.is_empty() && !s.is_empty() && sm.len() > p.len() && {
            // the coefficient at the dense top degree vanished although higher terms exist
            res.len() > p.len() && res[p.len() - 1].is_zero() && !sm[p.len() - 1].is_zero()
        };
        // +
        {
            let want = padd(&p, &sm);
            rep.eval(mix(base, 2), nontriv);
            rep.op("dense + sparse");
            rep.class_if(cancels(&p, &sm, &want), "cancel: dense + sparse");
            rep.class_if(cancel_hi(&want), "mix: leading term cancels and the sparse operand has higher terms");
            rep.class_if(want.is_empty() && nontriv, "result = 0");
            if let Some(r) = rep.total("poly/dense/add-sparse", det, || &dpp + &ss) {
                check_dense(rep, "add-sparse", &r, &want, &pts[..2], &det);
            }
            rep.eval(mix(base, 3), nontriv);
            rep.op("dense += sparse");
            rep.class_if(cancels(&p, &sm, &want), "cancel: dense += sparse");
            let mut a = dpp.clone();
            if rep.total("poly/dense/add_assign-sparse", det, || a += &ss).is_some() {
                check_dense(rep, "add_assign-sparse", &a, &want, &pts[..2], &det);
            }
        }
        // -
        {
            let want = psub(&p, &sm);
            rep.eval(mix(base, 4), nontriv);
            rep.op("dense - sparse");
            rep.class_if(cancels(&p, &sm, &want), "cancel: dense - sparse");
            rep.class_if(cancel_hi(&want), "mix: leading term cancels and the sparse operand has higher terms");
            rep.class_if(want.is_empty() && nontriv, "result = 0");
            if let Some(r) = rep.total("poly/dense/sub-sparse", det, || &dpp - &ss) {
                check_dense(rep, "sub-sparse", &r, &want, &pts[..2], &det);
            }
            rep.eval(mix(base, 5), nontriv);
            rep.op("dense -= sparse");
            rep.class_if(cancels(&p, &sm, &want), "cancel: dense -= sparse");
            let mut a = dpp.clone();
            if rep.total("poly/dense/sub_assign-sparse", det, || a -= &ss).is_some() {
                check_dense(rep, "sub_assign-sparse", &a, &want, &pts[..2], &det);
            }
        }
        // conversions
        {
            rep.eval(mix(base, 6), nontriv);
            rep.op("conversions");
            if let Some(d) = rep.total("poly/dense/from-sparse", det, || DensePolynomial::from(ss.clone())) {
                check_dense(rep, "from-sparse", &d, &sm, &pts[..1], &det);
            }
            if let Some(x) = rep.total("poly/sparse/from-dense", det, || SparsePolynomial::from(dpp.clone())) {
                check_sparse(rep, "from-dense", &x, &p, &pts[..1], &det);
            }
            let r = rep.total("poly/dense-or-sparse/conversions", det, || {
                let a: DenseOrSparsePolynomial<'_, F> = (&dpp).into();
                let b: DenseOrSparsePolynomial<'_, F> = dpp.clone().into();
                let c: DenseOrSparsePolynomial<'_, F> = (&ss).into();
                let d: DenseOrSparsePolynomial<'_, F> = ss.clone().into();
                let facts = (a.is_zero(), a.degree(), c.is_zero(), c.degree(), b.degree(), d.degree());
                let a2: DensePolynomial<F> = a.into();
                let b2: DensePolynomial<F> = b.into();
                let c2: DensePolynomial<F> = c.clone().into();
                let c3: Result<SparsePolynomial<F>, ()> = c.try_into();
                let d3: Result<SparsePolynomial<F>, ()> = d.try_into();
                let e: DenseOrSparsePolynomial<'_, F> = (&dpp).into();
                let e3: Result<SparsePolynomial<F>, ()> = e.try_into();
                (facts, a2, b2, c2, c3, d3, e3)
            });
            if let Some((facts, a2, b2, c2, c3, d3, e3)) = r {
                let want_facts = (p.is_empty(), p.len().saturating_sub(1), sm.is_empty(), sm.len().saturating_sub(1), p.len().saturating_sub(1), sm.len().saturating_sub(1));
                rep.check(facts == want_facts, || "poly/dense-or-sparse/is_zero-degree/value".into(), det);
                rep.check(a2 == dpp && b2 == dpp, || "poly/dense-or-sparse/into-dense/value".into(), det);
                check_dense(rep, "dense-or-sparse-into-dense", &c2, &sm, &pts[..1], &det);
                rep.check(c3.as_ref() == Ok(&ss) && d3.as_ref() == Ok(&ss) && e3.is_err(), || "poly/dense-or-sparse/try-into-sparse/value".into(), det);
            }
        }
        // dense constructors on vectors with trailing zeros
        {
            let mut v = p.clone();
            for _ in 0..rng.gen_range(0..4) {
                v.push(F::zero());
            }
            rep.eval(mix(base, 7), nontriv);
            rep.op("dense from_coefficients_vec");
            if let Some(d) = rep.total("poly/dense/from_coefficients_vec", det, || DensePolynomial::from_coefficients_vec(v.clone())) {
                check_dense(rep, "from_coefficients_vec", &d, &p, &pts[..1], &det);
                rep.check(d.coeffs() == &p[..], || "poly/dense/coeffs/value".into(), det);
            }
            if let Some(d) = rep.total("poly/dense/from_coefficients_slice", det, || DensePolynomial::from_coefficients_slice(&v)) {
                check_dense(rep, "from_coefficients_slice", &d, &p, &pts[..1], &det);
            }
        }
    }
    // rand, zero
    for d in 0..args.pick(40, 200) {
        rep.op("dense rand");
        rep.eval(digest(&("rand", fname, d)), true);
        if let Some(r) = rep.total("poly/dense/rand", || json!({"field": fname, "d": d}), || DensePolynomial::<F>::rand(d, rng)) {
            rep.check(is_canon(&r.coeffs) && r.coeffs.len() == d + 1, || "poly/dense/rand/degree".into(), || json!({"field": fname, "d": d, "len": r.coeffs.len()}));
        }
    }
    let z = DensePolynomial::<F>::zero();
    rep.check(z.coeffs.is_empty() && z.is_zero() && z.degree() == 0, || "poly/dense/zero/value".into(), || json!({"field": fname}));
    let z = SparsePolynomial::<F>::zero();
    rep.check(z.is_empty() && z.is_zero() && z.degree() == 0, || "poly/sparse/zero/value".into(), || json!({"field": fname}));
}

// ------------------------------------------------------------------------------------------------
// G/H. sparse operators

fn gen_sparse_pair<F: Field>(rng: &mut Rng, maxdeg: usize) -> (Vec<(usize, F)>, Vec<(usize, F)>, &'static str) {
    let a: Vec<(usize, F)> = gen_sparse(rng, maxdeg);
    let minus = rng.next_u32() % 2 == 0;
    match rng.next_u32() % 10 {
        0 => (a.clone(), a, "b = a"),
        1 => {
            let b = a.iter().map(|(d, c)| (*d, -*c)).collect();
            (a, b, "b = -a")
        },
        2 | 3 if !a.is_empty() => {
            // same top degree, cancelling under + or -
            let top = a[a.len() - 1];
            let mut b: Vec<(usize, F)> = gen_sparse(rng, top.0);
            b.retain(|(d, _)| *d < top.0);
            b.push((top.0, if minus { top.1 } else { -top.1 }));
            (a, b, "same top degree, leading terms cancel")
        },
        4 => {
            // shared degrees, some cancelling in the middle
            let mut b = vec![];
            for (d, c) in &a {
                if rng.next_u32() % 2 == 0 {
                    let x = if rng.next_u32() % 2 == 0 { if minus { *c } else { -*c } } else { gen_nonzero(rng) };
                    b.push((*d, x));
                }
            }
            (a, b, "shared degrees")
        },
        5 => (vec![], a, "a = 0"),
        6 => (a, vec![], "b = 0"),
        _ => (a, gen_sparse(rng, maxdeg), "independent"),
    }
}

fn sparse_additive<F: FftField + PrimeField>(rep: &mut Report, rng: &mut Rng, args: &Args, fname: &'static str, shards: usize) {
    rep.config(fname);
    for c in ["cancel: sparse add", "cancel: sparse add_assign", "cancel: sparse scaled add", "cancel: sparse sub_assign", "sparse: middle term cancels in a sum", "scaled add: f = 0", "scaled add: f = 1", "result = 0"] {
        rep.require(c);
    }
    let maxdeg = args.pick(70, 600);
    for _ in 0..args.pick(75_000, 300_000) / shards {
        let (a, b, rel) = gen_sparse_pair::<F>(rng, maxdeg);
        let (am, bm) = (from_terms(&a), from_terms(&b));
        let pts = points::<F>(rng);
        let base = digest(&("sparse-additive", fname, &a, &b));
        let nontriv = !a.is_empty() || !b.is_empty();
        let det = || json!({"field": fname, "relation": rel, "a_terms": tv(&a), "b_terms": tv(&b)});
        let (sa, sb) = (sp(&a), sp(&b));
        let mid_cancel = |res: &[F]| a.iter().any(|(d, _)| *d + 1 < res.len() && res[*d].is_zero() && b.iter().any(|(e, _)| e == d));
        {
            let want = padd(&am, &bm);
            rep.eval(mix(base, 1), nontriv);
            rep.op("sparse +");
            rep.class_if(cancels(&am, &bm, &want), "cancel: sparse add");
            rep.class_if(mid_cancel(&want), "sparse: middle term cancels in a sum");
            rep.class_if(want.is_empty() && nontriv, "result = 0");
            if let Some(r) = rep.total("poly/sparse/add", det, || &sa + &sb) {
                check_sparse(rep, "add", &r, &want, &pts[..3], &det);
                if let Some(r2) = rep.total("poly/sparse/add-owned", det, || sa.clone() + sb.clone()) {
                    rep.check(r2 == r, || "poly/sparse/add-owned/differs".into(), det);
                }
            }
            rep.eval(mix(base, 2), nontriv);
            rep.op("sparse +=");
            rep.class_if(cancels(&am, &bm, &want), "cancel: sparse add_assign");
            let mut x = sa.clone();
            if rep.total("poly/sparse/add_assign", det, || x += &sb).is_some() {
                check_sparse(rep, "add_assign", &x, &want, &pts[..2], &det);
            }
        }
        {
            let want = psub(&am, &bm);
            rep.eval(mix(base, 3), nontriv);
            rep.op("sparse -=");
            rep.class_if(cancels(&am, &bm, &want), "cancel: sparse sub_assign");
            rep.class_if(want.is_empty() && nontriv, "result = 0");
            let mut x = sa.clone();
            if rep.total("poly/sparse/sub_assign", det, || x -= &sb).is_some() {
                check_sparse(rep, "sub_assign", &x, &want, &pts[..2], &det);
            }
        }
        {
            rep.eval(mix(base, 4), !a.is_empty());
            rep.op("sparse neg");
            if let Some(r) = rep.total("poly/sparse/neg", det, || -sa.clone()) {
                check_sparse(rep, "neg", &r, &pneg(&am), &pts[..2], &det);
            }
        }
        for (f, fclass) in scalars(rng, &am, &bm) {
            let d2 = || json!({"field": fname, "relation": rel, "a_terms": tv(&a), "b_terms": tv(&b), "f": fe(&f), "f_class": fclass});
            {
                let want = padd(&am, &pscale(&bm, f));
                rep.eval(mix(base, digest(&("scaled-add", f))), nontriv);
                rep.op("sparse += (f, &b)");
                rep.class_if(f.is_zero(), "scaled add: f = 0");
                rep.class_if(f.is_one(), "scaled add: f = 1");
                rep.class_if(cancels(&am, &bm, &want) && !f.is_zero(), "cancel: sparse scaled add");
                let mut x = sa.clone();
                if rep.total("poly/sparse/scaled-add", d2, || x += (f, &sb)).is_some() {
                    check_sparse(rep, "scaled-add", &x, &want, &pts[..2], &d2);
                }
            }
            {
                rep.eval(mix(base, digest(&("scale", f))), !a.is_empty());
                rep.op("sparse * F");
                if let Some(r) = rep.total("poly/sparse/mul-scalar", d2, || &sa * f) {
                    check_sparse(rep, "mul-scalar", &r, &pscale(&am, f), &pts[..1], &d2);
                }
            }
        }
    }
}

fn sparse_mul<F: FftField + PrimeField>(rep: &mut Report, rng: &mut Rng, args: &Args, fname: &'static str, shards: usize) {
    rep.config(fname);
    rep.require("sparse product: a middle term cancels");
    rep.require("sparse product with a zero operand");
    rep.require("sparse evaluate: degree 0");
    let maxdeg = args.pick(70, 600);
    for it in 0..args.pick(60_000, 250_000) / shards {
        let (mut a, mut b, mut rel) = gen_sparse_pair::<F>(rng, maxdeg);
        if it % 4 == 0 {
            // (u x^i + v x^j)(u x^i - v x^j): the x^(i+j) terms cancel
            let i = 1 + rng.gen_range(0..maxdeg);
            let j = rng.gen_range(0..i);
            let (u, v): (F, F) = (gen_nonzero(rng), gen_nonzero(rng));
            a = vec![(j, v), (i, u)];
            b = vec![(j, -v), (i, u)];
            if rng.next_u32() % 2 == 0 {
                // extra low-order terms on one side keep the pattern but vary the shape
                let k = rng.gen_range(0..=j);
                if k < j {
                    a.insert(0, (k, gen_nonzero(rng)));
                }
            }
            rel = "(u x^i + v x^j)(u x^i - v x^j)";
        }
        let (am, bm) = (from_terms(&a), from_terms(&b));
        let want = pmul(&am, &bm);
        let pts = points::<F>(rng);
        let base = digest(&("sparse-mul", fname, &a, &b));
        let nontriv = !a.is_empty() || !b.is_empty();
        let det = || json!({"field": fname, "relation": rel, "a_terms": tv(&a), "b_terms": tv(&b)});
        // some exponent i+j reached by at least two pairs sums to zero below the top
        let mid = {
            let mut hit = false;
            for (x, (d1, _)) in a.iter().enumerate() {
                for (d2, _) in b.iter() {
                    let e = d1 + d2;
                    if e + 1 < want.len() && want[e].is_zero() {
                        let _ = x;
                        hit = true;
                    }
                }
            }
            hit
        };
        rep.class_if(mid, "sparse product: a middle term cancels");
        rep.class_if(a.is_empty() || b.is_empty(), "sparse product with a zero operand");
        let (sa, sb) = (sp(&a), sp(&b));
        rep.eval(mix(base, 1), nontriv);
        rep.op("sparse mul");
        if let Some(r) = rep.total("poly/sparse/mul", det, || sa.mul(&sb)) {
            check_sparse(rep, "mul", &r, &want, &pts[..3], &det);
        }
        // evaluate on the operands themselves (includes degree-0 polynomials and the point 0)
        rep.eval(mix(base, 2), !a.is_empty());
        rep.op("sparse evaluate");
        rep.class_if(am.len() == 1, "sparse evaluate: degree 0");
        for x in &pts {
            if let Some(v) = rep.total("poly/sparse/evaluate", || json!({"field": fname, "terms": tv(&a), "point": fe(x)}), || sa.evaluate(x)) {
                rep.check(v == eval_powers(&am, *x), || "poly/sparse/evaluate/value".into(), || json!({"field": fname, "terms": tv(&a), "point": fe(x)}));
            }
        }
    }
    // sparse polynomials whose degree does not fit in 32 bits (a sparse representation exists for exactly this):
    // evaluation, product and sum against term-wise exponentiation
    for k in 0..6usize {
        let big: [usize; 6] = [1 << 32, (1 << 32) + 5, (1 << 40) + 1, (1 << 33) - 1, 1 << 48, (1usize << 61) + 3];
        let a: Vec<(usize, F)> = vec![(0, gen_nonzero(rng)), (3, gen_nonzero(rng)), (big[k] - 1, gen_nonzero(rng)), (big[k], gen_nonzero(rng))];
        let b: Vec<(usize, F)> = vec![(1, gen_nonzero(rng)), (big[(k + 1) % 6] / 2, gen_nonzero(rng))];
        let (sa, sb) = (sp(&a), sp(&b));
        let term_eval = |t: &[(usize, F)], x: F| -> F { t.iter().map(|(d, c)| *c * x.pow([*d as u64])).sum() };
        rep.class("sparse polynomial of degree >= 2^32");
        let det = || json!({"field": fname, "a_degrees": a.iter().map(|t| t.0).collect::<Vec<_>>(), "b_degrees": b.iter().map(|t| t.0).collect::<Vec<_>>()});
        for x in points::<F>(rng).iter().take(3) {
            rep.eval(digest(&("sparse-huge", fname, k, x)), true);
            if let Some(v) = rep.total("poly/sparse/evaluate", det, || sa.evaluate(x)) {
                rep.check(v == term_eval(&a, *x), || "poly/sparse/evaluate/value".into(), det);
            }
            if let Some(m) = rep.total("poly/sparse/mul", det, || sa.mul(&sb)) {
                let ok = m.evaluate(x) == term_eval(&a, *x) * term_eval(&b, *x) && m.degree() == a[3].0 + b[1].0 && m.iter().all(|(_, c)| !c.is_zero());
                rep.check(ok, || "poly/sparse/mul/value".into(), det);
            }
            if let Some(sm) = rep.total("poly/sparse/add", det, || &sa + &sb) {
                rep.check(sm.evaluate(x) == term_eval(&a, *x) + term_eval(&b, *x) && sm.degree() == a[3].0.max(b[1].0), || "poly/sparse/add/value".into(), det);
            }
        }
        if rep.total("poly/sparse/degree", det, || sa.degree()) != Some(big[k]) {
            rep.violation("poly/sparse/degree/value".to_string(), det());
        }
    }
    rep.require("sparse polynomial of degree >= 2^32");
}

// ------------------------------------------------------------------------------------------------
// I. evaluation-form operators

fn evaluations_ops<F: FftField + PrimeField, D: Kind<F>>(rep: &mut Report, rng: &mut Rng, args: &Args, fname: &'static str) {
    rep.config(&format!("{fname}/{}", D::KIND));
    let reps = args.pick(6, 40);
    let cap = args.pick(64, 260);
    let mut go = |rng: &mut Rng, dom: D, _es: &[F], h: F, _hname: &'static str| {
        let n = dom.size();
        for _ in 0..reps {
            let a: Vec<F> = (0..n).map(|_| gen_elem(rng)).collect();
            let b: Vec<F> = (0..n).map(|_| gen_nonzero(rng)).collect();
            let f: F = gen_elem(rng);
            let base = digest(&("evaluations", fname, D::KIND, n, h, &a, &b, f));
            let det = || json!({"field": fname, "domain_kind": D::KIND, "domain_size": n, "offset": fe(&h), "a": fv(&a), "b": fv(&b), "f": fe(&f)});
            let ea = Evaluations::from_vec_and_domain(a.clone(), dom);
            let eb = Evaluations::from_vec_and_domain(b.clone(), dom);
            rep.eval(base, true);
            rep.op("Evaluations + - * / *F");
            let r = rep.total("poly/evaluations/ops", det, || {
                let mut x1 = ea.clone();
                x1 += &eb;
                let mut x2 = ea.clone();
                x2 -= &eb;
                let mut x3 = ea.clone();
                x3 *= &eb;
                let mut x4 = ea.clone();
                x4 /= &eb;
                (&ea + &eb, &ea - &eb, &ea * &eb, &ea / &eb, &ea * f, x1, x2, x3, x4)
            });
            if let Some((s, d, m, q, sc, x1, x2, x3, x4)) = r {
                let pw = |g: &dyn Fn(F, F) -> F| -> Vec<F> { a.iter().zip(&b).map(|(x, y)| g(*x, *y)).collect() };
                rep.check(s.evals == pw(&|x, y| x + y) && x1 == s, || "poly/evaluations/add/value".into(), det);
                rep.check(d.evals == pw(&|x, y| x - y) && x2 == d, || "poly/evaluations/sub/value".into(), det);
                rep.check(m.evals == pw(&|x, y| x * y) && x3 == m, || "poly/evaluations/mul/value".into(), det);
                rep.check(q.evals == pw(&|x, y| x * y.inverse().unwrap()) && x4 == q, || "poly/evaluations/div/value".into(), det);
                rep.check(sc.evals == a.iter().map(|x| *x * f).collect::<Vec<_>>(), || "poly/evaluations/mul-scalar/value".into(), det);
                rep.check(s.domain() == dom && q.domain() == dom, || "poly/evaluations/domain/value".into(), det);
                rep.check((0..n).all(|i| ea[i] == a[i]), || "poly/evaluations/index/value".into(), det);
            }
            let z = Evaluations::<F, D>::zero(dom);
            rep.check(z.evals == vec![F::zero(); n] && z.domain() == dom, || "poly/evaluations/zero/value".into(), det);
        }
        // operands over different domains of the same size (a subgroup and one of its proper cosets, or two
        // different cosets): pointwise arithmetic would combine values taken at different points, and the library
        // documents that it refuses ("domains are unequal"); silently returning a value is the violation
        let other_off = h * F::GENERATOR;
        if let Some(other) = dom.get_coset(other_off) {
            if other != dom && n > 0 {
                let a: Vec<F> = (0..n).map(|_| gen_nonzero(rng)).collect();
                let ea = Evaluations::from_vec_and_domain(a.clone(), dom);
                let eb = Evaluations::from_vec_and_domain(a.clone(), other);
                rep.class("evaluations over two different domains of equal size (must be refused)");
                let det = || json!({"field": fname, "domain_kind": D::KIND, "domain_size": n, "offset_a": fe(&h), "offset_b": fe(&other_off)});
                let outcomes: Vec<(&str, bool)> = vec![
                    ("add", guard(|| &ea + &eb).is_ok()),
                    ("sub", guard(|| &ea - &eb).is_ok()),
                    ("mul", guard(|| &ea * &eb).is_ok()),
                    ("div", guard(|| &ea / &eb).is_ok()),
                    ("add_assign", guard(|| { let mut x = ea.clone(); x += &eb; x }).is_ok()),
                    ("sub_assign", guard(|| { let mut x = ea.clone(); x -= &eb; x }).is_ok()),
                    ("mul_assign", guard(|| { let mut x = ea.clone(); x *= &eb; x }).is_ok()),
                    ("div_assign", guard(|| { let mut x = ea.clone(); x /= &eb; x }).is_ok()),
                ];
                for (op, accepted) in outcomes {
                    rep.eval(digest(&("evaluations-mismatch", fname, D::KIND, n, h, op)), true);
                    rep.check(!accepted, || format!("poly/evaluations/{op}/accepts-unequal-domains"), det);
                }
            }
        }
    };
    with_domains::<F, D>(rng, cap, &mut go);
    rep.require("evaluations over two different domains of equal size (must be refused)");
}

// ------------------------------------------------------------------------------------------------

fn add_field<F: FftField + PrimeField>(v: &mut Vec<Item>, fname: &'static str) {
    // the random-operand groups are split into shards (independent PRNG streams) for load balance
    const SH: usize = 4;
    for k in 0..SH {
        v.push(Item::new(format!("dense-additive/{fname}/s{k}"), move |r, g, a| dense_additive::<F>(r, g, a, fname, SH)));
        v.push(Item::new(format!("dense-mul/{fname}/s{k}"), move |r, g, a| dense_mul::<F>(r, g, a, fname, SH)));
        v.push(Item::new(format!("dense-div/{fname}/s{k}"), move |r, g, a| dense_div::<F>(r, g, a, fname, SH)));
        v.push(Item::new(format!("mixes/{fname}/s{k}"), move |r, g, a| mixes::<F>(r, g, a, fname, SH)));
        v.push(Item::new(format!("sparse-additive/{fname}/s{k}"), move |r, g, a| sparse_additive::<F>(r, g, a, fname, SH)));
        v.push(Item::new(format!("sparse-mul/{fname}/s{k}"), move |r, g, a| sparse_mul::<F>(r, g, a, fname, SH)));
    }
    fn dom_items<F: FftField + PrimeField, D: Kind<F> + 'static>(v: &mut Vec<Item>, fname: &'static str) {
        if !D::applicable(&par_of::<F>()) {
            return;
        }
        let k = D::KIND;
        v.push(Item::new(format!("vanishing/{fname}/{k}"), move |r, g, a| vanishing_ops::<F, D>(r, g, a, fname)));
        v.push(Item::new(format!("eval-interp/{fname}/{k}"), move |r, g, a| eval_interp::<F, D>(r, g, a, fname)));
        v.push(Item::new(format!("evaluations/{fname}/{k}"), move |r, g, a| evaluations_ops::<F, D>(r, g, a, fname)));
    }
    dom_items::<F, Radix2EvaluationDomain<F>>(v, fname);
    dom_items::<F, MixedRadixEvaluationDomain<F>>(v, fname);
    dom_items::<F, GeneralEvaluationDomain<F>>(v, fname);
}

fn weight(name: &str) -> u32 {
    // relative cost measured on the thorough tier; heaviest items are scheduled first
    let field = if name.contains("bn384") {
        6
    } else if name.contains("bls12_381") || name.contains("bls12_377") {
        4
    } else {
        1
    };
    let group = [("sparse-additive", 10), ("dense-mul", 8), ("eval-interp", 7), ("dense-additive", 4), ("sparse-mul", 4), ("vanishing", 3), ("mixes", 3), ("dense-div", 2)]
        .iter()
        .find(|(g, _)| name.starts_with(g))
        .map_or(1, |(_, w)| *w);
    field * group
}

pub fn items(_args: &Args) -> Vec<Item> {
    let mut v = vec![];
    add_field::<Bls381Fr>(&mut v, "bls12_381::Fr");
    add_field::<Bn384Fq>(&mut v, "bn384_small_two_adicity::Fq");
    add_field::<Bls377Fr>(&mut v, "bls12_377::Fr");
    add_field::<Goldilocks>(&mut v, "goldilocks");
    add_field::<F65537>(&mut v, "F65537");
    add_field::<F1009>(&mut v, "F1009");
    add_field::<F97>(&mut v, "F97");
    // most expensive first so that the tail of the schedule is short
    v.sort_by_key(|i| std::cmp::Reverse(weight(&i.name)));
    v
}
