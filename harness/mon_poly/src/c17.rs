//! C17 — multilinear extensions (dense, sparse) and sparse multivariate polynomials evaluate as
//! defined; their transformations and operators act on the table / term list as specified.
//!
//! Oracles (`orc.rs`): sum over the Boolean hypercube weighted by eq(b, x); table transformations on
//! plain vectors with explicit bit vectors; multivariate polynomials as maps exponent-vector -> coeff.
use crate::fields::*;
use crate::orc::*;
use ark_ff::{Field, PrimeField, Zero};
use ark_poly::multivariate::{SparsePolynomial as MvPoly, SparseTerm, Term};
use ark_poly::{DenseMVPolynomial, DenseMultilinearExtension as DenseMle, MultilinearExtension, Polynomial, SparseMultilinearExtension as SparseMle};
use ark_std::rand::{Rng as _, RngCore};
use monitor::*;
use std::cmp::Ordering;
use std::collections::BTreeMap;

pub const RULE: &str = "cases = (field, representation dense|sparse|multivariate, operation, table or term list, point / \
partial point / relabel window / scalar); tables for 0..n variables are all-zero, one-hot, uniform or sparse with explicit \
zeros; points are Boolean (all of {0,1}^n for small n) and non-Boolean; every value is compared with the direct sum over \
the hypercube weighted by eq(b,x), every transformed extension with the transformation applied to the plain table, every \
multivariate value with the sum of monomials; the 0-variable zero representation is accepted wherever the expected table \
is identically zero; a case is non-trivial when the table / term list has a non-zero entry; distinct = distinct digest of \
(field, representation, op, inputs)";

const C_ZERO_REPR_IN: &str = "operand is the 0-variable zero representation";
const C_ZERO_REPR_OUT: &str = "result is the 0-variable zero representation where the expected table is identically zero";
const C_NV0: &str = "0-variable extension";
const C_BOOL: &str = "Boolean point";
const C_NONBOOL: &str = "non-Boolean point";
const C_FULLFIX: &str = "fix_variables with a partial point of full length";
const C_FIX0: &str = "fix_variables with an empty partial point";
const C_LASTWIN: &str = "relabel: window ends at the last variable (b + k = n)";
const C_K0: &str = "relabel: k = 0";
const C_AEQB: &str = "relabel: a = b";
const C_AGTB: &str = "relabel: a > b";
const C_EXPLICIT0: &str = "sparse table with explicit zero entries";

fn bool_point<F: Field>(b: usize, nv: usize) -> Vec<F> {
    (0..nv).map(|i| if (b >> i) & 1 == 1 { F::one() } else { F::zero() }).collect()
}

fn gen_point<F: Field>(rng: &mut Rng, nv: usize) -> (Vec<F>, bool) {
    match rng.next_u32() % 4 {
        0 => (bool_point(rng.next_u64() as usize, nv), true),
        1 => {
            let p: Vec<F> = (0..nv).map(|_| gen_elem(rng)).collect();
            let isb = p.iter().all(|x| x.is_zero() || x.is_one());
            (p, isb)
        },
        _ => {
            let p: Vec<F> = (0..nv).map(|_| F::rand(rng)).collect();
            let isb = p.iter().all(|x| x.is_zero() || x.is_one());
            (p, isb)
        },
    }
}

fn gen_table<F: Field>(rng: &mut Rng, nv: usize) -> (Vec<F>, &'static str) {
    let n = 1usize << nv;
    match rng.next_u32() % 8 {
        0 => (vec![F::zero(); n], "all zero"),
        1 => {
            let mut t = vec![F::zero(); n];
            t[rng.gen_range(0..n)] = gen_nonzero(rng);
            (t, "one-hot")
        },
        2 | 3 => ((0..n).map(|_| if rng.next_u32() % 4 == 0 { F::rand(rng) } else { F::zero() }).collect(), "sparse"),
        4 => ((0..n).map(|_| gen_elem(rng)).collect(), "edge-biased"),
        _ => ((0..n).map(|_| F::rand(rng)).collect(), "uniform"),
    }
}

fn all_zero<F: Field>(t: &[F]) -> bool {
    t.iter().all(|x| x.is_zero())
}

/// Dense result against the expected table (zero convention applied).
fn check_dense<F: Field>(rep: &mut Report, op: &str, got: &DenseMle<F>, nv: usize, want: &[F], det: &dyn Fn() -> Value) -> bool {
    if got.evaluations.len() != 1usize << got.num_vars {
        rep.violation(format!("mle/dense/{op}/table-length"), det());
        return false;
    }
    // the library's documented convention: scaling by the zero scalar yields the 0-variable `zero()` (its own
    // tests assert `p * 0 == zero()`); every other operation keeps the operands' number of variables, and a result
    // that silently drops to 0 variables makes a later `evaluate` at an n-dimensional point panic
    if op == "mul-scalar" && nv != 0 && got.num_vars == 0 && got.evaluations[0].is_zero() && all_zero(want) {
        rep.class(C_ZERO_REPR_OUT);
        return true;
    }
    let with = |d: &dyn Fn() -> Value| {
        let mut v = d();
        v["expected_num_vars"] = json!(nv);
        v["expected_table"] = fv(want);
        v["got_num_vars"] = json!(got.num_vars);
        v["got_table"] = fv(&got.evaluations);
        v
    };
    if got.num_vars != nv {
        rep.violation(format!("mle/dense/{op}/num_vars"), with(det));
        return false;
    }
    if got.evaluations != want {
        viol(rep, format!("mle/dense/{op}/value"), || with(det));
        return false;
    }
    true
}

fn sparse_table<F: Field>(got: &SparseMle<F>) -> Option<Vec<F>> {
    let n = 1usize << got.num_vars;
    let mut t = vec![F::zero(); n];
    for (i, v) in &got.evaluations {
        if *i >= n {
            return None;
        }
        t[*i] = *v;
    }
    Some(t)
}

fn check_sparse<F: Field>(rep: &mut Report, op: &str, got: &SparseMle<F>, nv: usize, want: &[F], det: &dyn Fn() -> Value) -> bool {
    let Some(t) = sparse_table(got) else {
        rep.violation(format!("mle/sparse/{op}/index-out-of-range"), det());
        return false;
    };
    let _ = op;
    let with = |d: &dyn Fn() -> Value| {
        let mut v = d();
        v["expected_num_vars"] = json!(nv);
        v["expected_table"] = fv(want);
        v["got_num_vars"] = json!(got.num_vars);
        v["got_entries"] = json!(got.evaluations.iter().map(|(i, x)| json!([i, x.to_string()])).collect::<Vec<_>>());
        v
    };
    if got.num_vars != nv {
        rep.violation(format!("mle/sparse/{op}/num_vars"), with(det));
        return false;
    }
    if t != want {
        viol(rep, format!("mle/sparse/{op}/value"), || with(det));
        return false;
    }
    true
}

/// distinct-index entry list for a table: all non-zero entries plus a few explicit zeros, shuffled
fn entries_of<F: Field>(rng: &mut Rng, t: &[F]) -> (Vec<(usize, F)>, bool) {
    let mut e: Vec<(usize, F)> = vec![];
    let mut explicit0 = false;
    for (i, v) in t.iter().enumerate() {
        if !v.is_zero() {
            e.push((i, *v));
        } else if rng.next_u32() % 8 == 0 {
            e.push((i, F::zero()));
            explicit0 = true;
        }
    }
    for i in (1..e.len()).rev() {
        let j = rng.gen_range(0..=i);
        e.swap(i, j);
    }
    (e, explicit0)
}

fn windows(nv: usize) -> Vec<(usize, usize, usize)> {
    let mut v = vec![];
    if nv == 0 {
        return vec![(0, 0, 0)];
    }
    for a in 0..nv {
        for b in 0..nv {
            v.push((a, b, 0));
            for k in 1..=nv {
                let (lo, hi) = (a.min(b), a.max(b));
                if a == b {
                    if a + k <= nv {
                        v.push((a, b, k));
                    }
                } else if lo + k <= hi && hi + k <= nv {
                    v.push((a, b, k));
                }
            }
        }
    }
    // genuine swaps first, identities (a = b or k = 0) last
    v.sort_by_key(|(a, b, k)| (a == b || *k == 0, *a, *b, *k));
    v
}

fn swap_point<F: Field>(x: &[F], a: usize, b: usize, k: usize) -> Vec<F> {
    let mut y = x.to_vec();
    if a != b {
        for j in 0..k {
            y.swap(a + j, b + j);
        }
    }
    y
}

// ------------------------------------------------------------------------------------------------
// dense extensions

fn dense_eval<F: PrimeField>(rep: &mut Report, rng: &mut Rng, args: &Args, fname: &'static str) {
    rep.config(&format!("{fname}/dense"));
    for c in [C_NV0, C_BOOL, C_NONBOOL, C_FULLFIX, C_FIX0] {
        rep.require(c);
    }
    let max_nv = args.pick(8, 12);
    let reps = args.pick(150, 300);
    for nv in 0..=max_nv {
        let n = 1usize << nv;
        let mut tables: Vec<(Vec<F>, &'static str)> = vec![(vec![F::zero(); n], "all zero")];
        if nv <= 4 {
            for i in 0..n {
                let mut t = vec![F::zero(); n];
                t[i] = gen_nonzero(rng);
                tables.push((t, "one-hot"));
            }
            rep.exhaustive(&format!("{fname}: one-hot tables at every position for {nv} variables"));
        }
        for _ in 0..(reps / (1 + nv / 5)) {
            tables.push(gen_table(rng, nv));
        }
        for (t, tclass) in tables {
            let base = digest(&("dense-mle", fname, nv, &t));
            let nontriv = !all_zero(&t);
            rep.class_if(nv == 0, C_NV0);
            let det = || json!({"field": fname, "num_vars": nv, "table_class": tclass, "table": fv(&t)});
            rep.eval(mix(base, 1), nontriv);
            rep.op("dense from_evaluations_vec");
            let Some(m) = rep.total("mle/dense/from_evaluations_vec", det, || DenseMle::from_evaluations_vec(nv, t.clone())) else { continue };
            if !check_dense(rep, "from_evaluations_vec", &m, nv, &t, &det) {
                continue;
            }
            if let Some(m2) = rep.total("mle/dense/from_evaluations_slice", det, || DenseMle::from_evaluations_slice(nv, &t)) {
                rep.check(m2 == m, || "mle/dense/from_evaluations_slice/differs".into(), det);
            }
            let facts = rep.total("mle/dense/accessors", det, || (m.num_vars(), m.degree(), m.to_evaluations(), m.iter().copied().collect::<Vec<F>>(), (0..n).map(|i| m[i]).collect::<Vec<F>>()));
            if let Some((nvv, deg, te, it, ix)) = facts {
                rep.check(nvv == nv && deg == nv, || "mle/dense/num_vars/value".into(), det);
                rep.check(te == t, || "mle/dense/to_evaluations/value".into(), det);
                rep.check(it == t, || "mle/dense/iter/value".into(), det);
                rep.check(ix == t, || "mle/dense/index/value".into(), det);
            }
            // evaluation
            let mut pts: Vec<(Vec<F>, bool)> = vec![];
            if nv <= 6 {
                for b in 0..n {
                    pts.push((bool_point(b, nv), true));
                }
            }
            for _ in 0..args.pick(4, 8) {
                pts.push(gen_point(rng, nv));
            }
            for (x, isb) in &pts {
                rep.eval(mix(base, digest(&("eval", x))), nontriv);
                rep.op("dense evaluate");
                rep.class(if *isb { C_BOOL } else { C_NONBOOL });
                let want = mle_eval(&t, x);
                let d2 = || json!({"field": fname, "num_vars": nv, "table_class": tclass, "table": fv(&t), "point": fv(x), "expected": fe(&want)});
                if let Some(v) = rep.total("mle/dense/evaluate", d2, || m.evaluate(x)) {
                    rep.check(v == want, || "mle/dense/evaluate/value".into(), || {
                        let mut d = d2();
                        d["got"] = json!(fe(&v));
                        d
                    });
                }
            }
            if nv <= 6 {
                rep.exhaustive(&format!("{fname}: dense evaluate at every Boolean point for {nv} variables"));
            }
            // fix_variables for every k
            for k in 0..=nv {
                let (x, _) = gen_point::<F>(rng, nv);
                let r = &x[..k];
                rep.eval(mix(base, digest(&("fix", r))), nontriv);
                rep.op("dense fix_variables");
                rep.class_if(k == nv, C_FULLFIX);
                rep.class_if(k == 0, C_FIX0);
                let want = mle_fix(&t, nv, r);
                let d2 = || json!({"field": fname, "num_vars": nv, "table": fv(&t), "partial_point": fv(r)});
                if let Some(f) = rep.total("mle/dense/fix_variables", d2, || m.fix_variables(r)) {
                    check_dense(rep, "fix_variables", &f, nv - k, &want, &d2);
                }
            }
        }
    }
    // rand
    for nv in 0..=args.pick(6, 10) {
        rep.op("dense rand");
        if let Some(m) = rep.total("mle/dense/rand", || json!({"num_vars": nv}), || DenseMle::<F>::rand(nv, rng)) {
            rep.check(m.num_vars == nv && m.evaluations.len() == 1 << nv, || "mle/dense/rand/shape".into(), || json!({"num_vars": nv}));
        }
    }
    let z = DenseMle::<F>::zero();
    rep.check(z.is_zero() && z.num_vars == 0 && z.evaluations == vec![F::zero()], || "mle/dense/zero/value".into(), || json!({"field": fname}));
    rep.sample(&format!("dense-eval/{fname}"), || json!({"ops": "from_evaluations, evaluate, fix_variables, index, to_evaluations", "field": fname, "num_vars": format!("0..={max_nv}")}));
}

fn dense_relabel_concat<F: PrimeField>(rep: &mut Report, rng: &mut Rng, args: &Args, fname: &'static str) {
    rep.config(&format!("{fname}/dense"));
    for c in [C_LASTWIN, C_K0, C_AEQB, C_AGTB, "concat: padded with zeros", "concat: single table", "concat: tables of unequal sizes"] {
        rep.require(c);
    }
    let max_nv = args.pick(7, 9);
    for nv in 0..=max_nv {
        for _ in 0..args.pick(6, 16) {
            let (t, tclass) = gen_table::<F>(rng, nv);
            let m = DenseMle { evaluations: t.clone(), num_vars: nv };
            let base = digest(&("dense-relabel", fname, nv, &t));
            for (a, b, k) in windows(nv) {
                rep.eval(mix(base, digest(&(a, b, k))), !all_zero(&t) && k > 0 && a != b);
                rep.op("dense relabel");
                let trivial = a == b || k == 0;
                rep.class_if(!trivial && a.max(b) + k == nv, C_LASTWIN);
                rep.class_if(k == 0, C_K0);
                rep.class_if(a == b, C_AEQB);
                rep.class_if(a > b, C_AGTB);
                let want = if trivial { t.clone() } else { mle_relabel(&t, nv, a, b, k) };
                let det = || json!({"field": fname, "num_vars": nv, "table_class": tclass, "table": fv(&t), "a": a, "b": b, "k": k});
                if let Some(r) = rep.total("mle/dense/relabel", det, || m.relabel(a, b, k)) {
                    if check_dense(rep, "relabel", &r, nv, &want, &det) && r.num_vars == nv {
                        // definition: P'(x) = P(x with the two windows exchanged)
                        let (x, _) = gen_point::<F>(rng, nv);
                        let y = if trivial { x.clone() } else { swap_point(&x, a, b, k) };
                        if let Some(v) = rep.total("mle/dense/evaluate", det, || r.evaluate(&x)) {
                            rep.check(v == mle_eval(&t, &y), || "mle/dense/relabel/point-semantics".into(), det);
                        }
                    }
                }
                let mut c = m.clone();
                if rep.total("mle/dense/relabel_in_place", det, || c.relabel_in_place(a, b, k)).is_some() {
                    check_dense(rep, "relabel_in_place", &c, nv, &want, &det);
                }
            }
        }
        rep.exhaustive(&format!("{fname}: every valid relabel window (a,b,k) for {nv} variables (dense)"));
    }
    // concat
    for _ in 0..args.pick(8000, 40_000) {
        let cnt = 1 + rng.gen_range(0..5);
        let nvs: Vec<usize> = (0..cnt).map(|_| rng.gen_range(0..6)).collect();
        let tabs: Vec<Vec<F>> = nvs.iter().map(|nv| gen_table::<F>(rng, *nv).0).collect();
        let polys: Vec<DenseMle<F>> = tabs.iter().zip(&nvs).map(|(t, nv)| DenseMle { evaluations: t.clone(), num_vars: *nv }).collect();
        let mut want: Vec<F> = tabs.iter().flatten().copied().collect();
        let total = want.len();
        let mut size = 1usize;
        let mut wnv = 0;
        while size < total {
            size *= 2;
            wnv += 1;
        }
        want.resize(size, F::zero());
        rep.eval(digest(&("concat", fname, &tabs)), !all_zero(&want));
        rep.op("dense concat");
        rep.class_if(size > total, "concat: padded with zeros");
        rep.class_if(cnt == 1, "concat: single table");
        rep.class_if(nvs.iter().any(|x| *x != nvs[0]), "concat: tables of unequal sizes");
        let det = || json!({"field": fname, "num_vars_of_parts": nvs, "tables": tabs.iter().map(|t| fv(t)).collect::<Vec<_>>()});
        let refs: Vec<&DenseMle<F>> = polys.iter().collect();
        if let Some(r) = rep.total("mle/dense/concat", det, || DenseMle::concat(&refs)) {
            if check_dense(rep, "concat", &r, wnv, &want, &det) {
                let (x, _) = gen_point::<F>(rng, wnv);
                if let Some(v) = rep.total("mle/dense/evaluate", det, || r.evaluate(&x)) {
                    rep.check(v == mle_eval(&want, &x), || "mle/dense/evaluate/value".into(), det);
                }
            }
            if let Some(r2) = rep.total("mle/dense/concat", det, || DenseMle::concat(polys.clone())) {
                rep.check(r2 == r, || "mle/dense/concat/owned-differs".into(), det);
            }
        }
    }
}

#[derive(Clone)]
enum Opnd<F: Field> {
    Table(Vec<F>),
    ZeroRepr,
}

fn gen_opnd<F: Field>(rng: &mut Rng, nv: usize) -> Opnd<F> {
    if rng.next_u32() % 7 == 0 {
        Opnd::ZeroRepr
    } else {
        Opnd::Table(gen_table(rng, nv).0)
    }
}

/// (effective num_vars, table) of `a op b`-style expectations
fn eff<F: Field>(o: &Opnd<F>, nv: usize) -> Vec<F> {
    match o {
        Opnd::Table(t) => t.clone(),
        Opnd::ZeroRepr => vec![F::zero(); 1 << nv],
    }
}

fn dense_ops<F: PrimeField>(rep: &mut Report, rng: &mut Rng, args: &Args, fname: &'static str, shards: usize) {
    rep.config(&format!("{fname}/dense"));
    for c in [C_ZERO_REPR_IN, C_ZERO_REPR_OUT, "scalar = 0", "scalar = 1", "b = -a (sum identically zero)"] {
        rep.require(c);
    }
    let max_nv = args.pick(7, 10);
    for _ in 0..args.pick(60_000, 240_000) / shards {
        let nv = rng.gen_range(0..=max_nv);
        let a = gen_opnd::<F>(rng, nv);
        let mut b = gen_opnd::<F>(rng, nv);
        if rng.next_u32() % 6 == 0 {
            b = Opnd::Table(eff(&a, nv).iter().map(|x| -*x).collect());
            rep.class("b = -a (sum identically zero)");
        }
        let both_zero_repr = matches!((&a, &b), (Opnd::ZeroRepr, Opnd::ZeroRepr));
        rep.class_if(matches!(a, Opnd::ZeroRepr) || matches!(b, Opnd::ZeroRepr), C_ZERO_REPR_IN);
        let mk = |o: &Opnd<F>| match o {
            Opnd::Table(t) => DenseMle { evaluations: t.clone(), num_vars: nv },
            Opnd::ZeroRepr => DenseMle::zero(),
        };
        let (ma, mb) = (mk(&a), mk(&b));
        // when both are the zero representation the result lives in 0 variables
        let rnv = if both_zero_repr { 0 } else { nv };
        let (ta, tb) = (eff(&a, rnv), eff(&b, rnv));
        let f: F = match rng.next_u32() % 4 {
            0 => F::zero(),
            1 => F::one(),
            _ => gen_elem(rng),
        };
        rep.class_if(f.is_zero(), "scalar = 0");
        rep.class_if(f.is_one(), "scalar = 1");
        let base = digest(&("dense-ops", fname, nv, &ta, &tb, matches!(a, Opnd::ZeroRepr), matches!(b, Opnd::ZeroRepr), f));
        let nontriv = !all_zero(&ta) || !all_zero(&tb);
        let det = || json!({"field": fname, "num_vars": nv, "a": fv(&ta), "b": fv(&tb), "a_is_zero_repr": matches!(a, Opnd::ZeroRepr), "b_is_zero_repr": matches!(b, Opnd::ZeroRepr), "f": fe(&f)});
        let sum: Vec<F> = ta.iter().zip(&tb).map(|(x, y)| *x + *y).collect();
        let dif: Vec<F> = ta.iter().zip(&tb).map(|(x, y)| *x - *y).collect();
        let sca: Vec<F> = ta.iter().zip(&tb).map(|(x, y)| *x + f * *y).collect();
        let anv = if matches!(a, Opnd::ZeroRepr) { 0 } else { nv };
        let ta_own = eff(&a, anv);
        rep.eval(mix(base, 1), nontriv);
        rep.op("dense + - neg * += -= +=(f,&)");
        if let Some(r) = rep.total("mle/dense/add", det, || &ma + &mb) {
            check_dense(rep, "add", &r, rnv, &sum, &det);
            if let Some((r2, r3, r4)) = rep.total("mle/dense/add-variants", det, || {
                let mut x = ma.clone();
                x += &mb;
                let mut y = ma.clone();
                y += mb.clone();
                (ma.clone() + mb.clone(), x, y)
            }) {
                rep.check(r2 == r && r3 == r && r4 == r, || "mle/dense/add-variants/differ".into(), det);
            }
        }
        if let Some(r) = rep.total("mle/dense/sub", det, || &ma - &mb) {
            check_dense(rep, "sub", &r, rnv, &dif, &det);
            if let Some((r2, r3, r4)) = rep.total("mle/dense/sub-variants", det, || {
                let mut x = ma.clone();
                x -= &mb;
                let mut y = ma.clone();
                y -= mb.clone();
                (ma.clone() - mb.clone(), x, y)
            }) {
                rep.check(r2 == r && r3 == r && r4 == r, || "mle/dense/sub-variants/differ".into(), det);
            }
        }
        if let Some(r) = rep.total("mle/dense/neg", det, || -ma.clone()) {
            check_dense(rep, "neg", &r, anv, &ta_own.iter().map(|x| -*x).collect::<Vec<_>>(), &det);
        }
        {
            let mut x = ma.clone();
            if rep.total("mle/dense/scaled-add", det, || x += (f, &mb)).is_some() {
                check_dense(rep, "scaled-add", &x, rnv, &sca, &det);
            }
        }
        {
            let want: Vec<F> = ta_own.iter().map(|x| *x * f).collect();
            if let Some(r) = rep.total("mle/dense/mul-scalar", det, || &ma * &f) {
                check_dense(rep, "mul-scalar", &r, anv, &want, &det);
                if let Some((r2, r3, r4)) = rep.total("mle/dense/mul-scalar-variants", det, || {
                    let mut x = ma.clone();
                    x *= f;
                    let mut y = ma.clone();
                    y *= &f;
                    (ma.clone() * f, x, y)
                }) {
                    rep.check(r2 == r && r3 == r && r4 == r, || "mle/dense/mul-scalar-variants/differ".into(), det);
                }
            }
        }
    }
}

// ------------------------------------------------------------------------------------------------
// sparse extensions

fn sparse_eval<F: PrimeField>(rep: &mut Report, rng: &mut Rng, args: &Args, fname: &'static str) {
    rep.config(&format!("{fname}/sparse"));
    for c in [C_NV0, C_BOOL, C_NONBOOL, C_FULLFIX, C_FIX0, C_EXPLICIT0, "sparse table with at least two stored entries", "sparse fix_variables: partial point longer than the window log2(#entries)"] {
        rep.require(c);
    }
    let max_nv = args.pick(8, 12);
    let reps = args.pick(150, 300);
    for nv in 0..=max_nv {
        let n = 1usize << nv;
        let mut tables: Vec<(Vec<F>, &'static str)> = vec![(vec![F::zero(); n], "all zero")];
        if nv <= 4 {
            for i in 0..n {
                let mut t = vec![F::zero(); n];
                t[i] = gen_nonzero(rng);
                tables.push((t, "one-hot"));
            }
        }
        for _ in 0..(reps / (1 + nv / 5)) {
            tables.push(gen_table(rng, nv));
        }
        for (t, tclass) in tables {
            let (ent, explicit0) = entries_of(rng, &t);
            let base = digest(&("sparse-mle", fname, nv, &ent));
            let nontriv = !all_zero(&t);
            rep.class_if(nv == 0, C_NV0);
            rep.class_if(explicit0, C_EXPLICIT0);
            rep.class_if(ent.len() >= 2, "sparse table with at least two stored entries");
            let det = || json!({"field": fname, "num_vars": nv, "table_class": tclass, "entries": ent.iter().map(|(i, v)| json!([i, v.to_string()])).collect::<Vec<_>>() });
            rep.eval(mix(base, 1), nontriv);
            rep.op("sparse from_evaluations");
            let Some(m) = rep.total("mle/sparse/from_evaluations", det, || SparseMle::from_evaluations(nv, &ent)) else { continue };
            if !check_sparse(rep, "from_evaluations", &m, nv, &t, &det) {
                continue;
            }
            if let Some(te) = rep.total("mle/sparse/to_evaluations", det, || m.to_evaluations()) {
                rep.eval(mix(base, 2), nontriv);
                rep.op("sparse to_evaluations");
                if te != t {
                    viol(rep, "mle/sparse/to_evaluations/value".into(), || {
                        let mut d = det();
                        d["expected"] = fv(&t);
                        d["got"] = fv(&te);
                        d
                    });
                }
            }
            if let Some(dn) = rep.total("mle/sparse/to_dense_multilinear_extension", det, || m.to_dense_multilinear_extension()) {
                rep.op("sparse to_dense_multilinear_extension");
                rep.check(dn.num_vars == nv && dn.evaluations == t, || "mle/sparse/to_dense_multilinear_extension/value".into(), det);
            }
            if let Some((nvv, deg, ix)) = rep.total("mle/sparse/accessors", det, || (m.num_vars(), m.degree(), (0..n).map(|i| m[i]).collect::<Vec<F>>())) {
                rep.check(nvv == nv && deg == nv, || "mle/sparse/num_vars/value".into(), det);
                rep.check(ix == t, || "mle/sparse/index/value".into(), det);
            }
            // an entry whose index is not a vertex of the hypercube does not belong to any table of nv variables:
            // documented to be refused ("index out of range"); accepting it gives an object whose sparse and dense
            // forms disagree
            for bad_index in [n, n + 1, 2 * n + 1] {
                rep.class("sparse from_evaluations: index >= 2^num_vars (must be refused)");
                rep.eval(mix(base, 900 + bad_index as u64), true);
                let one = F::one();
                let accepted = guard(|| SparseMle::from_evaluations(nv, &[(0usize, one), (bad_index, one)])).is_ok();
                rep.check(!accepted, || "mle/sparse/from_evaluations/accepts-index-out-of-range".into(), || json!({"field": fname, "num_vars": nv, "index": bad_index}));
            }
            let dense = DenseMle { evaluations: t.clone(), num_vars: nv };
            let mut pts: Vec<(Vec<F>, bool)> = vec![];
            if nv <= 6 {
                for b in 0..n {
                    pts.push((bool_point(b, nv), true));
                }
            }
            for _ in 0..args.pick(4, 8) {
                pts.push(gen_point(rng, nv));
            }
            for (x, isb) in &pts {
                rep.eval(mix(base, digest(&("eval", x))), nontriv);
                rep.op("sparse evaluate");
                rep.class(if *isb { C_BOOL } else { C_NONBOOL });
                let want = mle_eval(&t, x);
                let d2 = || json!({"field": fname, "num_vars": nv, "table": fv(&t), "point": fv(x), "expected": fe(&want)});
                if let Some(v) = rep.total("mle/sparse/evaluate", d2, || m.evaluate(x)) {
                    rep.check(v == want, || "mle/sparse/evaluate/value".into(), d2);
                    // the dense form of the same table agrees
                    if let Some(w) = rep.total("mle/dense/evaluate", d2, || dense.evaluate(x)) {
                        rep.check(w == v, || "mle/dense-vs-sparse/evaluate/differ".into(), d2);
                    }
                }
            }
            for k in 0..=nv {
                let (x, _) = gen_point::<F>(rng, nv);
                let r = &x[..k];
                rep.eval(mix(base, digest(&("fix", r))), nontriv);
                rep.op("sparse fix_variables");
                rep.class_if(k == nv, C_FULLFIX);
                rep.class_if(k == 0, C_FIX0);
                let window = {
                    let mut w = 0;
                    while (1usize << w) < ent.len() {
                        w += 1;
                    }
                    w.max(1)
                };
                rep.class_if(k > window, "sparse fix_variables: partial point longer than the window log2(#entries)");
                let want = mle_fix(&t, nv, r);
                let d2 = || json!({"field": fname, "num_vars": nv, "table": fv(&t), "partial_point": fv(r)});
                if let Some(f) = rep.total("mle/sparse/fix_variables", d2, || m.fix_variables(r)) {
                    check_sparse(rep, "fix_variables", &f, nv - k, &want, &d2);
                }
            }
        }
    }
    // rand, rand_with_config
    for nv in 0..=args.pick(8, 12) {
        for nnz in [0usize, 1, 1 << (nv / 2), (1usize << nv) / 2] {
            rep.op("sparse rand_with_config");
            let det = || json!({"num_vars": nv, "num_nonzero_entries": nnz});
            if let Some(m) = rep.total("mle/sparse/rand_with_config", det, || SparseMle::<F>::rand_with_config(nv, nnz, rng)) {
                rep.check(m.num_vars == nv && m.evaluations.len() == nnz && m.evaluations.keys().all(|i| *i < (1 << nv)), || "mle/sparse/rand_with_config/shape".into(), det);
            }
        }
        if let Some(m) = rep.total("mle/sparse/rand", || json!({"num_vars": nv}), || SparseMle::<F>::rand(nv, rng)) {
            rep.check(m.num_vars == nv && m.evaluations.len() == 1 << (nv / 2), || "mle/sparse/rand/shape".into(), || json!({"num_vars": nv}));
        }
    }
    let z = SparseMle::<F>::zero();
    rep.check(z.is_zero() && z.num_vars == 0 && z.evaluations.is_empty(), || "mle/sparse/zero/value".into(), || json!({"field": fname}));
}

fn sparse_relabel<F: PrimeField>(rep: &mut Report, rng: &mut Rng, args: &Args, fname: &'static str) {
    rep.config(&format!("{fname}/sparse"));
    for c in [C_LASTWIN, C_K0, C_AEQB, C_AGTB] {
        rep.require(c);
    }
    let max_nv = args.pick(7, 9);
    // non-trivial sizes first so that a recorded witness is a readable one
    for nv in (2..=max_nv).chain([0, 1]) {
        for _ in 0..args.pick(6, 16) {
            let (t, tclass) = gen_table::<F>(rng, nv);
            let (ent, _) = entries_of(rng, &t);
            let m = SparseMle::from_evaluations(nv, &ent);
            let base = digest(&("sparse-relabel", fname, nv, &ent));
            for (a, b, k) in windows(nv) {
                rep.eval(mix(base, digest(&(a, b, k))), !all_zero(&t) && k > 0 && a != b);
                rep.op("sparse relabel");
                let trivial = a == b || k == 0;
                rep.class_if(!trivial && a.max(b) + k == nv, C_LASTWIN);
                rep.class_if(k == 0, C_K0);
                rep.class_if(a == b, C_AEQB);
                rep.class_if(a > b, C_AGTB);
                let want = if trivial { t.clone() } else { mle_relabel(&t, nv, a, b, k) };
                let det = || json!({"field": fname, "num_vars": nv, "table_class": tclass, "entries": ent.iter().map(|(i, v)| json!([i, v.to_string()])).collect::<Vec<_>>(), "a": a, "b": b, "k": k, "window_ends_at_last_variable": a.max(b) + k == nv});
                if let Some(r) = rep.total("mle/sparse/relabel", det, || m.relabel(a, b, k)) {
                    if check_sparse(rep, "relabel", &r, nv, &want, &det) && r.num_vars == nv {
                        let (x, _) = gen_point::<F>(rng, nv);
                        let y = if trivial { x.clone() } else { swap_point(&x, a, b, k) };
                        if let Some(v) = rep.total("mle/sparse/evaluate", det, || r.evaluate(&x)) {
                            rep.check(v == mle_eval(&t, &y), || "mle/sparse/relabel/point-semantics".into(), det);
                        }
                    }
                }
            }
        }
        rep.exhaustive(&format!("{fname}: every valid relabel window (a,b,k) for {nv} variables (sparse)"));
    }
}

fn sparse_ops<F: PrimeField>(rep: &mut Report, rng: &mut Rng, args: &Args, fname: &'static str, shards: usize) {
    rep.config(&format!("{fname}/sparse"));
    for c in [C_ZERO_REPR_IN, "scalar = 0", "scalar = 1", "b = -a (sum identically zero)"] {
        rep.require(c);
    }
    let max_nv = args.pick(7, 10);
    for _ in 0..args.pick(60_000, 240_000) / shards {
        let nv = rng.gen_range(0..=max_nv);
        let a = gen_opnd::<F>(rng, nv);
        let mut b = gen_opnd::<F>(rng, nv);
        if rng.next_u32() % 6 == 0 {
            b = Opnd::Table(eff(&a, nv).iter().map(|x| -*x).collect());
            rep.class("b = -a (sum identically zero)");
        }
        let both_zero_repr = matches!((&a, &b), (Opnd::ZeroRepr, Opnd::ZeroRepr));
        rep.class_if(matches!(a, Opnd::ZeroRepr) || matches!(b, Opnd::ZeroRepr), C_ZERO_REPR_IN);
        let mut mk = |o: &Opnd<F>| match o {
            Opnd::Table(t) => SparseMle::from_evaluations(nv, &entries_of(rng, t).0),
            Opnd::ZeroRepr => SparseMle::zero(),
        };
        let (ma, mb) = (mk(&a), mk(&b));
        let rnv = if both_zero_repr { 0 } else { nv };
        let (ta, tb) = (eff(&a, rnv), eff(&b, rnv));
        let f: F = match rng.next_u32() % 4 {
            0 => F::zero(),
            1 => F::one(),
            _ => gen_elem(rng),
        };
        rep.class_if(f.is_zero(), "scalar = 0");
        rep.class_if(f.is_one(), "scalar = 1");
        let base = digest(&("sparse-ops", fname, nv, &ta, &tb, matches!(a, Opnd::ZeroRepr), matches!(b, Opnd::ZeroRepr), f));
        let nontriv = !all_zero(&ta) || !all_zero(&tb);
        let det = || json!({"field": fname, "num_vars": nv, "a": fv(&ta), "b": fv(&tb), "a_is_zero_repr": matches!(a, Opnd::ZeroRepr), "b_is_zero_repr": matches!(b, Opnd::ZeroRepr), "f": fe(&f)});
        let sum: Vec<F> = ta.iter().zip(&tb).map(|(x, y)| *x + *y).collect();
        let dif: Vec<F> = ta.iter().zip(&tb).map(|(x, y)| *x - *y).collect();
        let sca: Vec<F> = ta.iter().zip(&tb).map(|(x, y)| *x + f * *y).collect();
        let anv = if matches!(a, Opnd::ZeroRepr) { 0 } else { nv };
        let ta_own = eff(&a, anv);
        rep.eval(mix(base, 1), nontriv);
        rep.op("sparse + - neg += -= +=(f,&)");
        if let Some(r) = rep.total("mle/sparse/add", det, || &ma + &mb) {
            check_sparse(rep, "add", &r, rnv, &sum, &det);
            if let Some((r2, r3, r4)) = rep.total("mle/sparse/add-variants", det, || {
                let mut x = ma.clone();
                x += &mb;
                let mut y = ma.clone();
                y += mb.clone();
                (ma.clone() + mb.clone(), x, y)
            }) {
                rep.check(r2 == r && r3 == r && r4 == r, || "mle/sparse/add-variants/differ".into(), det);
            }
        }
        if let Some(r) = rep.total("mle/sparse/sub", det, || &ma - &mb) {
            check_sparse(rep, "sub", &r, rnv, &dif, &det);
            if let Some((r2, r3, r4)) = rep.total("mle/sparse/sub-variants", det, || {
                let mut x = ma.clone();
                x -= &mb;
                let mut y = ma.clone();
                y -= mb.clone();
                (ma.clone() - mb.clone(), x, y)
            }) {
                rep.check(r2 == r && r3 == r && r4 == r, || "mle/sparse/sub-variants/differ".into(), det);
            }
        }
        if let Some(r) = rep.total("mle/sparse/neg", det, || -ma.clone()) {
            check_sparse(rep, "neg", &r, anv, &ta_own.iter().map(|x| -*x).collect::<Vec<_>>(), &det);
        }
        {
            let mut x = ma.clone();
            if rep.total("mle/sparse/scaled-add", det, || x += (f, &mb)).is_some() {
                check_sparse(rep, "scaled-add", &x, rnv, &sca, &det);
            }
        }
    }
}

// ------------------------------------------------------------------------------------------------
// sparse multivariate polynomials

type Exps = Vec<usize>;

/// documented order: total degree, then exponent weight in lower-numbered variables
fn ocmp(a: &Exps, b: &Exps) -> Ordering {
    let (da, db): (usize, usize) = (a.iter().sum(), b.iter().sum());
    if da != db {
        return da.cmp(&db);
    }
    for v in 0..a.len().max(b.len()) {
        let (x, y) = (a.get(v).copied().unwrap_or(0), b.get(v).copied().unwrap_or(0));
        if x != y {
            return x.cmp(&y);
        }
    }
    Ordering::Equal
}

fn exps_of(raw: &[(usize, usize)], nv: usize) -> Exps {
    let mut e = vec![0usize; nv];
    for (v, p) in raw {
        e[*v] += *p;
    }
    e
}

fn canon_term(e: &Exps) -> Vec<(usize, usize)> {
    e.iter().enumerate().filter(|(_, p)| **p > 0).map(|(v, p)| (v, *p)).collect()
}

fn gen_raw_term(rng: &mut Rng, nv: usize) -> (Vec<(usize, usize)>, &'static str) {
    if nv == 0 {
        return (vec![], "constant");
    }
    match rng.next_u32() % 8 {
        0 => (vec![], "constant"),
        1 => (vec![(rng.gen_range(0..nv), 0)], "only zero powers"),
        2 => {
            let v = rng.gen_range(0..nv);
            (vec![(v, 1 + rng.gen_range(0..3)), (v, 1 + rng.gen_range(0..3))], "repeated variable")
        },
        3 => {
            let v = rng.gen_range(0..nv);
            let w = rng.gen_range(0..nv);
            (vec![(v, 1 + rng.gen_range(0..3)), (w, 0), (v, rng.gen_range(0..3)), (w, 1)], "repeated variable, zero power, unordered")
        },
        _ => {
            let len = 1 + rng.gen_range(0..nv.min(4));
            let t: Vec<(usize, usize)> = (0..len).map(|_| (rng.gen_range(0..nv), rng.gen_range(0..4))).collect();
            (t, "random (unordered, may repeat, may contain zero powers)")
        },
    }
}

fn mono<F: Field>(e: &Exps, x: &[F]) -> F {
    e.iter().enumerate().fold(F::one(), |acc, (v, p)| acc * opow(x[v], *p as u64))
}

fn mv_terms<F: PrimeField>(rep: &mut Report, rng: &mut Rng, args: &Args, fname: &'static str, shards: usize) {
    rep.config(&format!("{fname}/multivariate"));
    for c in ["term: repeated variable", "term: zero power", "term: unordered variables", "term: constant"] {
        rep.require(c);
    }
    for _ in 0..args.pick(100_000, 400_000) / shards {
        let nv = rng.gen_range(0..7);
        let (raw, rclass) = gen_raw_term(rng, nv);
        let e = exps_of(&raw, nv);
        let deg: usize = e.iter().sum();
        let want = canon_term(&e);
        rep.eval(digest(&("mv-term", &raw)), !raw.is_empty());
        rep.op("SparseTerm::new");
        let mut vs: Vec<usize> = raw.iter().map(|x| x.0).collect();
        let unordered = vs.windows(2).any(|w| w[0] > w[1]);
        vs.sort();
        rep.class_if(vs.windows(2).any(|w| w[0] == w[1]), "term: repeated variable");
        rep.class_if(raw.iter().any(|x| x.1 == 0), "term: zero power");
        rep.class_if(unordered, "term: unordered variables");
        rep.class_if(deg == 0, "term: constant");
        let det = || json!({"raw_term": raw, "class": rclass, "expected_canonical": want});
        let Some(t) = rep.total("mv/term/new", det, || SparseTerm::new(raw.clone())) else { continue };
        let got: Vec<(usize, usize)> = t.to_vec();
        if got != want {
            let mut d = det();
            d["got"] = json!(got);
            rep.violation("mv/term/new/canonical", d);
            continue;
        }
        if let Some((d, v, p, c)) = rep.total("mv/term/accessors", det, || (t.degree(), t.vars(), t.powers(), t.is_constant())) {
            rep.check(d == deg, || "mv/term/degree/value".into(), det);
            rep.check(v == want.iter().map(|x| x.0).collect::<Vec<_>>() && p == want.iter().map(|x| x.1).collect::<Vec<_>>(), || "mv/term/vars-powers/value".into(), det);
            rep.check(c == (deg == 0), || "mv/term/is_constant/value".into(), det);
        }
        let x: Vec<F> = (0..nv).map(|_| gen_elem(rng)).collect();
        if let Some(v) = rep.total("mv/term/evaluate", det, || t.evaluate(&x)) {
            rep.check(v == mono(&e, &x), || "mv/term/evaluate/value".into(), || json!({"raw_term": raw, "point": fv(&x)}));
        }
    }
    // Ord is the documented total order: all pairs and triples of a pool
    let nv = 4;
    let mut pool: Vec<(Exps, SparseTerm)> = vec![];
    while pool.len() < 60 {
        let e: Exps = (0..nv).map(|_| if rng.next_u32() % 2 == 0 { 0 } else { rng.gen_range(0..4) }).collect();
        let mut raw = canon_term(&e);
        if rng.next_u32() % 2 == 0 {
            raw.reverse();
        }
        pool.push((e, SparseTerm::new(raw)));
    }
    rep.op("SparseTerm Ord");
    let cm: Vec<Vec<Ordering>> = pool.iter().map(|a| pool.iter().map(|b| a.1.cmp(&b.1)).collect()).collect();
    for i in 0..pool.len() {
        for j in 0..pool.len() {
            rep.eval(digest(&("mv-ord", &pool[i].0, &pool[j].0)), i != j);
            let want = ocmp(&pool[i].0, &pool[j].0);
            let det = || json!({"a": pool[i].0, "b": pool[j].0, "expected": format!("{want:?}"), "got": format!("{:?}", cm[i][j])});
            rep.check(cm[i][j] == want, || "mv/term/ord/value".into(), det);
            rep.check(cm[i][j] == cm[j][i].reverse(), || "mv/term/ord/antisymmetry".into(), det);
            rep.check((cm[i][j] == Ordering::Equal) == (pool[i].1 == pool[j].1), || "mv/term/ord/equal-iff-eq".into(), det);
            rep.check(pool[i].1.partial_cmp(&pool[j].1) == Some(cm[i][j]), || "mv/term/ord/partial_cmp-differs".into(), det);
            for k in 0..pool.len() {
                if cm[i][j] != Ordering::Greater && cm[j][k] != Ordering::Greater && cm[i][k] == Ordering::Greater {
                    rep.violation("mv/term/ord/transitivity", json!({"a": pool[i].0, "b": pool[j].0, "c": pool[k].0}));
                }
            }
        }
    }
    rep.exhaustive("all pairs and triples of a 60-term pool for SparseTerm::cmp");
}

type Model<F> = BTreeMap<Exps, F>;

fn model_of<F: Field>(terms: &[(F, Exps)]) -> Model<F> {
    let mut m: Model<F> = BTreeMap::new();
    for (c, e) in terms {
        *m.entry(e.clone()).or_insert(F::zero()) += *c;
    }
    m.retain(|_, c| !c.is_zero());
    m
}

fn model_sorted<F: Field>(m: &Model<F>) -> Vec<(F, Vec<(usize, usize)>)> {
    let mut v: Vec<(&Exps, &F)> = m.iter().collect();
    v.sort_by(|a, b| ocmp(a.0, b.0));
    v.into_iter().map(|(e, c)| (*c, canon_term(e))).collect()
}

fn model_eval<F: Field>(m: &Model<F>, x: &[F]) -> F {
    m.iter().fold(F::zero(), |acc, (e, c)| acc + *c * mono(e, x))
}

fn check_mv<F: Field>(rep: &mut Report, op: &str, got: &MvPoly<F, SparseTerm>, nv: usize, want: &Model<F>, rng: &mut Rng, det: &dyn Fn() -> Value) -> bool {
    let got_terms: Vec<(F, Vec<(usize, usize)>)> = got.terms.iter().map(|(c, t)| (*c, t.to_vec())).collect();
    let with = |d: &dyn Fn() -> Value| {
        let mut v = d();
        v["expected_terms"] = json!(model_sorted(want).iter().map(|(c, t)| json!([c.to_string(), t])).collect::<Vec<_>>());
        v["got_terms"] = json!(got_terms.iter().map(|(c, t)| json!([c.to_string(), t])).collect::<Vec<_>>());
        v
    };
    if got_terms.iter().any(|(_, t)| t.iter().any(|(v, _)| *v >= nv.max(got.num_vars))) {
        rep.violation(format!("mv/poly/{op}/variable-out-of-range"), with(det));
        return false;
    }
    let width = nv.max(got.num_vars);
    let gm = model_of(&got_terms.iter().map(|(c, t)| (*c, exps_of(t, width))).collect::<Vec<_>>());
    let wm: Model<F> = want.iter().map(|(e, c)| {
        let mut e = e.clone();
        e.resize(width, 0);
        (e, *c)
    }).collect();
    if gm != wm {
        rep.violation(format!("mv/poly/{op}/value"), with(det));
        return false;
    }
    if got_terms != model_sorted(want) {
        let kind = if got_terms.iter().any(|(c, _)| c.is_zero()) {
            "zero-term"
        } else if got_terms.len() != want.len() {
            "duplicate-terms"
        } else {
            "unsorted"
        };
        rep.violation(format!("mv/poly/{op}/canonical-{kind}"), with(det));
        return false;
    }
    rep.check(got.num_vars == nv, || format!("mv/poly/{op}/num_vars"), || with(det));
    let wdeg = want.keys().map(|e| e.iter().sum::<usize>()).max().unwrap_or(0);
    if let Some(d) = rep.total(&format!("mv/poly/{op}/degree"), det, || got.degree()) {
        rep.check(d == wdeg, || format!("mv/poly/{op}/degree-value"), || with(det));
    }
    rep.check(got.is_zero() == want.is_empty(), || format!("mv/poly/{op}/is_zero"), || with(det));
    for extra in [0usize, 2] {
        let x: Vec<F> = (0..got.num_vars.max(nv) + extra).map(|_| gen_elem(rng)).collect();
        let wv = model_eval(&wm, &x);
        if let Some(v) = rep.total("mv/poly/evaluate", det, || got.evaluate(&x)) {
            rep.check(v == wv, || "mv/poly/evaluate/value".into(), || {
                let mut d = with(det);
                d["point"] = fv(&x);
                d
            });
        }
    }
    true
}

fn gen_mv<F: Field>(rng: &mut Rng, nv: usize) -> Vec<(F, Vec<(usize, usize)>)> {
    let cnt = match rng.next_u32() % 6 {
        0 => 0,
        1 => 1,
        _ => rng.gen_range(1..10),
    };
    let mut v: Vec<(F, Vec<(usize, usize)>)> = vec![];
    for _ in 0..cnt {
        let (raw, _) = gen_raw_term(rng, nv);
        let c: F = if rng.next_u32() % 8 == 0 { F::zero() } else { gen_elem(rng) };
        v.push((c, raw.clone()));
        // duplicates of the same monomial written differently, sometimes cancelling
        match rng.next_u32() % 6 {
            0 => {
                let mut r2 = raw.clone();
                r2.reverse();
                v.push((-c, r2));
            },
            1 => {
                let mut r2 = raw.clone();
                r2.reverse();
                v.push((gen_elem(rng), r2));
            },
            _ => {},
        }
    }
    for i in (1..v.len()).rev() {
        let j = rng.gen_range(0..=i);
        v.swap(i, j);
    }
    v
}

fn mv_poly<F: PrimeField>(rep: &mut Report, rng: &mut Rng, args: &Args, fname: &'static str, shards: usize) {
    rep.config(&format!("{fname}/multivariate"));
    for c in ["term list: duplicate monomials", "term list: zero coefficient", "term list: duplicates cancel to zero", "term list: empty", "poly ops: q = -p", "poly ops: shared monomials"] {
        rep.require(c);
    }
    for _ in 0..args.pick(80_000, 300_000) / shards {
        let nv = rng.gen_range(0..6);
        let raw = gen_mv::<F>(rng, nv);
        let model = model_of(&raw.iter().map(|(c, t)| (*c, exps_of(t, nv))).collect::<Vec<_>>());
        let distinct: std::collections::BTreeSet<Exps> = raw.iter().map(|(_, t)| exps_of(t, nv)).collect();
        rep.class_if(distinct.len() < raw.len(), "term list: duplicate monomials");
        rep.class_if(raw.iter().any(|(c, _)| c.is_zero()), "term list: zero coefficient");
        rep.class_if(distinct.len() > model.len() && raw.iter().all(|(c, _)| !c.is_zero()), "term list: duplicates cancel to zero");
        rep.class_if(raw.is_empty(), "term list: empty");
        let base = digest(&("mv-poly", fname, nv, &raw));
        let det = || json!({"field": fname, "num_vars": nv, "term_list": raw.iter().map(|(c, t)| json!([c.to_string(), t])).collect::<Vec<_>>() });
        rep.eval(mix(base, 1), !model.is_empty());
        rep.op("mv from_coefficients_vec");
        let Some(terms) = rep.total("mv/term/new", det, || raw.iter().map(|(c, t)| (*c, SparseTerm::new(t.clone()))).collect::<Vec<_>>()) else { continue };
        let Some(p) = rep.total("mv/poly/from_coefficients_vec", det, || MvPoly::from_coefficients_vec(nv, terms.clone())) else { continue };
        if !check_mv(rep, "from_coefficients_vec", &p, nv, &model, rng, &det) {
            continue;
        }
        if let Some(p2) = rep.total("mv/poly/from_coefficients_slice", det, || MvPoly::from_coefficients_slice(nv, &terms)) {
            rep.check(p2 == p && p2.num_vars() == nv && p2.terms().len() == model.len(), || "mv/poly/from_coefficients_slice/differs".into(), det);
        }
        // second operand
        let nv2 = if rng.next_u32() % 4 == 0 { rng.gen_range(0..6) } else { nv };
        let width = nv.max(nv2);
        let (raw2, rel): (Vec<(F, Vec<(usize, usize)>)>, &str) = match rng.next_u32() % 5 {
            0 => (raw.iter().map(|(c, t)| (-*c, t.clone())).collect(), "q = -p"),
            1 => (raw.iter().map(|(c, t)| (if rng.next_u32() % 2 == 0 { -*c } else { gen_elem(rng) }, t.clone())).collect(), "shared monomials"),
            _ => (gen_mv::<F>(rng, nv2), "independent"),
        };
        let nv2 = if rel == "independent" { nv2 } else { nv };
        let width = if rel == "independent" { width } else { nv };
        rep.class_if(rel == "q = -p", "poly ops: q = -p");
        rep.class_if(rel == "shared monomials", "poly ops: shared monomials");
        let m2 = model_of(&raw2.iter().map(|(c, t)| (*c, exps_of(t, nv2))).collect::<Vec<_>>());
        let q = MvPoly::from_coefficients_vec(nv2, raw2.iter().map(|(c, t)| (*c, SparseTerm::new(t.clone()))).collect());
        let widen = |m: &Model<F>| -> Model<F> {
            m.iter().map(|(e, c)| {
                let mut e = e.clone();
                e.resize(width, 0);
                (e, *c)
            }).collect()
        };
        let (w1, w2) = (widen(&model), widen(&m2));
        let comb = |f: &dyn Fn(F, F) -> F| -> Model<F> {
            let mut r: Model<F> = BTreeMap::new();
            for e in w1.keys().chain(w2.keys()) {
                let v = f(w1.get(e).copied().unwrap_or(F::zero()), w2.get(e).copied().unwrap_or(F::zero()));
                if !v.is_zero() {
                    r.insert(e.clone(), v);
                }
            }
            r
        };
        let f: F = gen_elem(rng);
        let d2 = || json!({"field": fname, "relation": rel, "p_num_vars": nv, "q_num_vars": nv2, "f": fe(&f),
            "p_terms": raw.iter().map(|(c, t)| json!([c.to_string(), t])).collect::<Vec<_>>(),
            "q_terms": raw2.iter().map(|(c, t)| json!([c.to_string(), t])).collect::<Vec<_>>() });
        rep.eval(mix(base, digest(&("ops", &raw2, f))), !model.is_empty() || !m2.is_empty());
        rep.op("mv + - neg += -= +=(f,&)");
        if let Some(r) = rep.total("mv/poly/add", d2, || &p + &q) {
            check_mv(rep, "add", &r, width, &comb(&|x, y| x + y), rng, &d2);
            if let Some((r2, r3)) = rep.total("mv/poly/add-variants", d2, || {
                let mut x = p.clone();
                x += &q;
                (p.clone() + q.clone(), x)
            }) {
                rep.check(r2 == r && r3 == r, || "mv/poly/add-variants/differ".into(), d2);
            }
        }
        if let Some(r) = rep.total("mv/poly/sub", d2, || &p - &q) {
            check_mv(rep, "sub", &r, width, &comb(&|x, y| x - y), rng, &d2);
            let mut x = p.clone();
            if rep.total("mv/poly/sub_assign", d2, || x -= &q).is_some() {
                rep.check(x == r, || "mv/poly/sub_assign/differs".into(), d2);
            }
        }
        if let Some(r) = rep.total("mv/poly/neg", d2, || -p.clone()) {
            let neg: Model<F> = model.iter().map(|(e, c)| (e.clone(), -*c)).collect();
            check_mv(rep, "neg", &r, nv, &neg, rng, &d2);
        }
        {
            let mut x = p.clone();
            if rep.total("mv/poly/scaled-add", d2, || x += (f, &q)).is_some() {
                check_mv(rep, "scaled-add", &x, width, &comb(&|a, b| a + f * b), rng, &d2);
            }
        }
    }
    // rand: sum of univariate polynomials of degree d in each of l variables
    for l in 0..5usize {
        for d in 0..5usize {
            rep.op("mv rand");
            let det = || json!({"field": fname, "d": d, "l": l});
            if let Some(p) = rep.total("mv/poly/rand", det, || MvPoly::<F, SparseTerm>::rand(d, l, rng)) {
                let ok = p.num_vars == l && p.terms.iter().all(|(c, t)| !c.is_zero() && t.len() <= 1 && t.degree() <= d) && p.terms.windows(2).all(|w| w[0].1 < w[1].1);
                rep.check(ok, || "mv/poly/rand/shape".into(), det);
            }
        }
    }
    let z = MvPoly::<F, SparseTerm>::zero();
    rep.check(z.is_zero() && z.terms.is_empty() && z.degree() == 0, || "mv/poly/zero/value".into(), || json!({"field": fname}));
}

// ------------------------------------------------------------------------------------------------

/// Arguments that do not denote an operation on multilinear extensions of the declared size - a table, point or
/// partial point of the wrong length, a relabelling window that leaves the variable range or overlaps, operands
/// over different numbers of variables - are documented to be refused (assertions). Returning a value instead
/// would give an object whose table and number of variables disagree, so "returned" is the violation here.
fn refusals<F: PrimeField>(rep: &mut Report, rng: &mut Rng, args: &Args, fname: &'static str) {
    rep.config(&format!("{fname}/refusals"));
    rep.require("refusal: argument of the wrong size (must be refused)");
    for it in 0..args.pick(300, 3000) {
        let nv = 1 + rng.gen_range(0..5usize);
        let n = 1usize << nv;
        let t: Vec<F> = (0..n).map(|_| gen_elem(rng)).collect();
        let dense = DenseMle { evaluations: t.clone(), num_vars: nv };
        let sparse = SparseMle::from_evaluations(nv, &t.iter().copied().enumerate().collect::<Vec<_>>());
        let other_nv = if it % 2 == 0 { nv + 1 } else { nv - 1 };
        let long: Vec<F> = (0..nv + 1).map(|_| gen_elem(rng)).collect();
        let wrong: Vec<F> = (0..other_nv).map(|_| gen_elem(rng)).collect();
        let t2: Vec<F> = (0..1usize << other_nv).map(|_| gen_nonzero(rng)).collect();
        let dense2 = DenseMle { evaluations: t2.clone(), num_vars: other_nv };
        let sparse2 = SparseMle::from_evaluations(other_nv, &t2.iter().copied().enumerate().collect::<Vec<_>>());
        // window [b, b + k) with b + k = num_vars + 1 and a < b (the library orders the two windows first, so a < b
        // keeps this the window that is checked)
        let k = 1 + rng.gen_range(0..nv);
        let a = rng.gen_range(0..nv - k + 1);
        let cases: Vec<(&str, bool)> = vec![
            ("dense/from_evaluations_vec (length != 2^num_vars)", guard(|| DenseMle::from_evaluations_vec(nv, t[..n - 1].to_vec())).is_ok()),
            ("dense/from_evaluations_vec (length 2^(num_vars+1))", guard(|| DenseMle::from_evaluations_vec(nv, [t.clone(), t.clone()].concat())).is_ok()),
            ("dense/evaluate (point of the wrong length)", guard(|| dense.evaluate(&wrong)).is_ok()),
            ("sparse/evaluate (point of the wrong length)", guard(|| sparse.evaluate(&wrong)).is_ok()),
            ("dense/fix_variables (more values than variables)", guard(|| dense.fix_variables(&long)).is_ok()),
            ("sparse/fix_variables (more values than variables)", guard(|| sparse.fix_variables(&long)).is_ok()),
            ("dense/relabel (window beyond the last variable)", guard(|| dense.relabel(a, nv - k + 1, k)).is_ok()),
            ("sparse/relabel (window beyond the last variable)", guard(|| sparse.relabel(a, nv - k + 1, k)).is_ok()),
            ("dense/add (different numbers of variables)", guard(|| &dense + &dense2).is_ok()),
            ("sparse/add (different numbers of variables)", guard(|| &sparse + &sparse2).is_ok()),
            ("dense/sub (different numbers of variables)", guard(|| &dense - &dense2).is_ok()),
        ];
        for (what, accepted) in cases {
            // a window that happens to be valid (a + k <= b and b + k <= nv cannot hold here: b + k = nv + 1) is impossible,
            // every case above is invalid by construction
            rep.class("refusal: argument of the wrong size (must be refused)");
            rep.eval(digest(&("mle-refusal", fname, it, what)), true);
            rep.check(!accepted, || format!("mle/{what}/accepts-invalid-argument"), || json!({"field": fname, "num_vars": nv, "other_num_vars": other_nv, "a": a, "k": k}));
        }
        // overlapping relabel windows (a < b < a + k), both inside the variable range
        if nv >= 3 {
            let k2 = 2;
            let a2 = rng.gen_range(0..nv - 2);
            let b2 = a2 + 1;
            if b2 + k2 <= nv {
                for (what, accepted) in [("dense/relabel (overlapping windows)", guard(|| dense.relabel(a2, b2, k2)).is_ok()), ("sparse/relabel (overlapping windows)", guard(|| sparse.relabel(a2, b2, k2)).is_ok())] {
                    rep.eval(digest(&("mle-refusal", fname, it, what)), true);
                    rep.check(!accepted, || format!("mle/{what}/accepts-invalid-argument"), || json!({"field": fname, "num_vars": nv, "a": a2, "b": b2, "k": k2}));
                }
            }
        }
    }
}

fn add_field<F: PrimeField>(v: &mut Vec<Item>, fname: &'static str) {
    v.push(Item::new(format!("refusals/{fname}"), move |r, g, a| refusals::<F>(r, g, a, fname)));
    v.push(Item::new(format!("dense-eval/{fname}"), move |r, g, a| dense_eval::<F>(r, g, a, fname)));
    v.push(Item::new(format!("sparse-eval/{fname}"), move |r, g, a| sparse_eval::<F>(r, g, a, fname)));
    v.push(Item::new(format!("dense-relabel-concat/{fname}"), move |r, g, a| dense_relabel_concat::<F>(r, g, a, fname)));
    v.push(Item::new(format!("sparse-relabel/{fname}"), move |r, g, a| sparse_relabel::<F>(r, g, a, fname)));
    const SH: usize = 4;
    for k in 0..SH {
        v.push(Item::new(format!("dense-ops/{fname}/s{k}"), move |r, g, a| dense_ops::<F>(r, g, a, fname, SH)));
        v.push(Item::new(format!("sparse-ops/{fname}/s{k}"), move |r, g, a| sparse_ops::<F>(r, g, a, fname, SH)));
        v.push(Item::new(format!("mv-poly/{fname}/s{k}"), move |r, g, a| mv_poly::<F>(r, g, a, fname, SH)));
    }
    v.push(Item::new(format!("mv-terms/{fname}"), move |r, g, a| mv_terms::<F>(r, g, a, fname, 1)));
}

pub fn items(_args: &Args) -> Vec<Item> {
    let mut v = vec![];
    add_field::<Bls381Fr>(&mut v, "bls12_381::Fr");
    add_field::<Bn384Fq>(&mut v, "bn384_small_two_adicity::Fq");
    add_field::<Goldilocks>(&mut v, "goldilocks");
    add_field::<F65537>(&mut v, "F65537");
    add_field::<F97>(&mut v, "F97");
    v
}
