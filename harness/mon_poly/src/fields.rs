//! Field configurations used by the polynomial-layer monitors.
//!
//! Shipped fields come from `ark-test-curves` / `curves/*`; the small fields are defined here with
//! the derive macro so that tiny domains and mixed-radix domains with a small odd radix are
//! enumerable. Generators are the smallest primitive root of each prime (computed with sympy):
//!
//! | p | p-1 | generator | declared small subgroup |
//! |---|---|---|---|
//! | 97 | 2^5*3 | 5 | 3^1 |
//! | 257 | 2^8 | 3 | - |
//! | 65537 | 2^16 | 3 | - |
//! | 1009 | 2^4*3^2*7 | 11 | 3^2 |
//! | 2377 | 2^3*3^3*11 | 5 | 3^3 |
//! | 601 | 2^3*3*5^2 | 7 | 5^2 |
//! | 197 | 2^2*7^2 | 2 | 7^2 |
//! | 1621 | 2^2*3^4*5 | 2 | 3^2 (declared below the true 3-adicity 4) |
//! | 2^64-2^32+1 | 2^32*3*5*17*257*65537 | 7 | 3^1 |
use ark_ff::fields::{Fp64, MontBackend, MontConfig};

#[derive(MontConfig)]
#[modulus = "97"]
#[generator = "5"]
#[small_subgroup_base = "3"]
#[small_subgroup_power = "1"]
pub struct F97Config;
pub type F97 = Fp64<MontBackend<F97Config, 1>>;

#[derive(MontConfig)]
#[modulus = "257"]
#[generator = "3"]
pub struct F257Config;
pub type F257 = Fp64<MontBackend<F257Config, 1>>;

#[derive(MontConfig)]
#[modulus = "65537"]
#[generator = "3"]
pub struct F65537Config;
pub type F65537 = Fp64<MontBackend<F65537Config, 1>>;

#[derive(MontConfig)]
#[modulus = "1009"]
#[generator = "11"]
#[small_subgroup_base = "3"]
#[small_subgroup_power = "2"]
pub struct F1009Config;
pub type F1009 = Fp64<MontBackend<F1009Config, 1>>;

#[derive(MontConfig)]
#[modulus = "2377"]
#[generator = "5"]
#[small_subgroup_base = "3"]
#[small_subgroup_power = "3"]
pub struct F2377Config;
pub type F2377 = Fp64<MontBackend<F2377Config, 1>>;

#[derive(MontConfig)]
#[modulus = "601"]
#[generator = "7"]
#[small_subgroup_base = "5"]
#[small_subgroup_power = "2"]
pub struct F601Config;
pub type F601 = Fp64<MontBackend<F601Config, 1>>;

#[derive(MontConfig)]
#[modulus = "197"]
#[generator = "2"]
#[small_subgroup_base = "7"]
#[small_subgroup_power = "2"]
pub struct F197Config;
pub type F197 = Fp64<MontBackend<F197Config, 1>>;

#[derive(MontConfig)]
#[modulus = "1621"]
#[generator = "2"]
#[small_subgroup_base = "3"]
#[small_subgroup_power = "2"]
pub struct F1621Config;
pub type F1621 = Fp64<MontBackend<F1621Config, 1>>;

#[derive(MontConfig)]
#[modulus = "18446744069414584321"]
#[generator = "7"]
#[small_subgroup_base = "3"]
#[small_subgroup_power = "1"]
pub struct GoldilocksConfig;
pub type Goldilocks = Fp64<MontBackend<GoldilocksConfig, 1>>;

pub type Bls381Fr = ark_test_curves::bls12_381::Fr;
pub type Bn384Fr = ark_test_curves::bn384_small_two_adicity::Fr;
pub type Bn384Fq = ark_test_curves::bn384_small_two_adicity::Fq;
pub type Mnt753Fr = ark_test_curves::mnt4_753::Fr;
pub type Bls377Fr = ark_bls12_377::Fr;
pub type Bn254Fr = ark_bn254::Fr;
pub type PallasFr = ark_pallas::Fr;
