//! Polynomial-layer monitors: C07 (evaluation domains / FFT), C08 (univariate polynomial
//! arithmetic), C17 (multilinear extensions and sparse multivariate polynomials).
use monitor::*;
use std::time::Instant;

mod c07;
mod c08;
mod c17;
mod fields;
mod orc;

fn main() {
    let args = Args::parse();
    let t0 = Instant::now();
    let (items, rule): (Vec<Item>, &str) = match args.prop.as_str() {
        "C07" => (c07::items(&args), c07::RULE),
        "C08" => (c08::items(&args), c08::RULE),
        "C17" => (c17::items(&args), c17::RULE),
        p => panic!("mon_poly does not serve property {p}"),
    };
    let rep = run_items(&args, items);
    finish(&args, "mon_poly", rule, rep, t0)
}
