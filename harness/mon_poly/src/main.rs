use monitor::*;
fn main() {
    let args = Args::parse();
    panic!("mon_poly does not serve property {} yet", args.prop);
}
