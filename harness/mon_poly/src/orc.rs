//! Oracle side of the polynomial-layer monitors. Nothing in this file calls into `ark-poly`; only
//! prime-field `+ - * inverse` of `ark-ff` (checked by C01's monitor) is used.
//!
//! Univariate polynomials are modelled as canonical coefficient vectors `Vec<F>` (coefficient of
//! x^i at index i, no trailing zero, the zero polynomial is the empty vector).
use ark_ff::{Field, PrimeField};
use ark_std::rand::RngCore;
use monitor::{json, Rng, Value};
use oracle::UInt;

// ------------------------------------------------------------------------------------------------
// field helpers

/// x^e by square-and-multiply written here (LSB first).
pub fn opow<F: Field>(x: F, mut e: u64) -> F {
    let mut base = x;
    let mut acc = F::one();
    while e > 0 {
        if e & 1 == 1 {
            acc *= base;
        }
        base = base * base;
        e >>= 1;
    }
    acc
}

/// x^e for an arbitrary-precision exponent.
pub fn opow_big<F: Field>(x: F, e: &UInt) -> F {
    let mut acc = F::one();
    let bits = e.bits();
    for i in (0..bits).rev() {
        acc = acc * acc;
        if e.bit(i) {
            acc *= x;
        }
    }
    acc
}

pub fn modulus<F: PrimeField>() -> UInt {
    oracle::from_limbs(F::MODULUS.as_ref())
}

/// decimal rendering of a field element (for violation details)
pub fn fe<F: Field>(x: &F) -> String {
    x.to_string()
}

pub fn fv<F: Field>(v: &[F]) -> Value {
    if v.len() <= 400 {
        json!(v.iter().map(|x| x.to_string()).collect::<Vec<_>>())
    } else {
        json!({"len": v.len(), "first_400": v[..400].iter().map(|x| x.to_string()).collect::<Vec<_>>()})
    }
}

/// Edge-biased field element.
pub fn gen_elem<F: Field>(rng: &mut Rng) -> F {
    match rng.next_u32() % 16 {
        0 => F::zero(),
        1 => F::one(),
        2 => -F::one(),
        3 => F::from(2u64),
        4 => F::from((rng.next_u32() % 7) as u64),
        _ => F::rand(rng),
    }
}

pub fn gen_nonzero<F: Field>(rng: &mut Rng) -> F {
    loop {
        let x: F = match rng.next_u32() % 8 {
            0 => F::one(),
            1 => -F::one(),
            2 => F::from(2u64),
            _ => F::rand(rng),
        };
        if !x.is_zero() {
            return x;
        }
    }
}

/// Record a violation, building the (possibly large) detail only for the first occurrence of a
/// signature; later occurrences just bump the count.
pub fn viol(rep: &mut monitor::Report, sig: String, detail: impl FnOnce() -> Value) {
    if let Some(v) = rep.violations.get_mut(&sig) {
        v.count += 1;
    } else {
        rep.violation(sig, detail());
    }
}

// ------------------------------------------------------------------------------------------------
// canonical univariate polynomials

pub fn canon<F: Field>(mut v: Vec<F>) -> Vec<F> {
    while v.last().map_or(false, |c| c.is_zero()) {
        v.pop();
    }
    v
}

pub fn is_canon<F: Field>(v: &[F]) -> bool {
    v.last().map_or(true, |c| !c.is_zero())
}

pub fn horner<F: Field>(c: &[F], x: F) -> F {
    let mut acc = F::zero();
    for a in c.iter().rev() {
        acc = acc * x + *a;
    }
    acc
}

/// Evaluation straight from the definition: sum c_i * x^i with running powers.
pub fn eval_powers<F: Field>(c: &[F], x: F) -> F {
    let mut acc = F::zero();
    let mut p = F::one();
    for a in c {
        acc += *a * p;
        p *= x;
    }
    acc
}

pub fn padd<F: Field>(a: &[F], b: &[F]) -> Vec<F> {
    let n = a.len().max(b.len());
    let mut r = vec![F::zero(); n];
    for (i, x) in a.iter().enumerate() {
        r[i] += *x;
    }
    for (i, x) in b.iter().enumerate() {
        r[i] += *x;
    }
    canon(r)
}

pub fn pneg<F: Field>(a: &[F]) -> Vec<F> {
    a.iter().map(|x| F::zero() - *x).collect()
}

pub fn psub<F: Field>(a: &[F], b: &[F]) -> Vec<F> {
    let n = a.len().max(b.len());
    let mut r = vec![F::zero(); n];
    for (i, x) in a.iter().enumerate() {
        r[i] += *x;
    }
    for (i, x) in b.iter().enumerate() {
        r[i] -= *x;
    }
    canon(r)
}

pub fn pscale<F: Field>(a: &[F], f: F) -> Vec<F> {
    canon(a.iter().map(|x| *x * f).collect())
}

pub fn pmul<F: Field>(a: &[F], b: &[F]) -> Vec<F> {
    if a.is_empty() || b.is_empty() {
        return vec![];
    }
    let mut r = vec![F::zero(); a.len() + b.len() - 1];
    for (i, x) in a.iter().enumerate() {
        if x.is_zero() {
            continue;
        }
        for (j, y) in b.iter().enumerate() {
            r[i + j] += *x * *y;
        }
    }
    canon(r)
}

/// Long division of canonical `a` by canonical non-zero `b`: (q, r) with a = q*b + r, deg r < deg b.
pub fn pdivrem<F: Field>(a: &[F], b: &[F]) -> (Vec<F>, Vec<F>) {
    assert!(!b.is_empty() && is_canon(b), "oracle division by zero / non-canonical divisor");
    let mut r = a.to_vec();
    if a.len() < b.len() {
        return (vec![], canon(r));
    }
    let lead_inv = b[b.len() - 1].inverse().expect("non-zero leading coefficient");
    let mut q = vec![F::zero(); a.len() - b.len() + 1];
    for k in (0..q.len()).rev() {
        let top = r[k + b.len() - 1];
        if top.is_zero() {
            continue;
        }
        let c = top * lead_inv;
        q[k] = c;
        for (j, y) in b.iter().enumerate() {
            r[k + j] -= c * *y;
        }
    }
    r.truncate(b.len() - 1);
    (canon(q), canon(r))
}

/// dense model of a sparse term list (distinct degrees)
pub fn from_terms<F: Field>(t: &[(usize, F)]) -> Vec<F> {
    let n = t.iter().map(|(d, _)| d + 1).max().unwrap_or(0);
    let mut r = vec![F::zero(); n];
    for (d, c) in t {
        r[*d] += *c;
    }
    canon(r)
}

pub fn to_terms<F: Field>(a: &[F]) -> Vec<(usize, F)> {
    a.iter().enumerate().filter(|(_, c)| !c.is_zero()).map(|(i, c)| (i, *c)).collect()
}

/// coefficients of X^n - c
pub fn vanishing<F: Field>(n: usize, c: F) -> Vec<F> {
    let mut v = vec![F::zero(); n + 1];
    v[0] = F::zero() - c;
    v[n] = F::one();
    v
}

/// offset * g^i, i = 0..n, by repeated multiplication
pub fn elems<F: Field>(g: F, offset: F, n: usize) -> Vec<F> {
    let mut v = Vec::with_capacity(n);
    let mut cur = offset;
    for _ in 0..n {
        v.push(cur);
        cur *= g;
    }
    v
}

/// random canonical polynomial with exactly `len` coefficients (len = 0 gives zero)
pub fn rand_poly<F: Field>(rng: &mut Rng, len: usize) -> Vec<F> {
    if len == 0 {
        return vec![];
    }
    let mode = rng.next_u32() % 6;
    let mut v: Vec<F> = (0..len)
        .map(|_| match mode {
            0 => gen_elem(rng),
            1 => {
                if rng.next_u32() % 3 == 0 {
                    F::rand(rng)
                } else {
                    F::zero()
                }
            },
            _ => F::rand(rng),
        })
        .collect();
    v[len - 1] = gen_nonzero(rng);
    v
}

// ------------------------------------------------------------------------------------------------
// multilinear extensions: tables indexed little-endian (bit i of the index is variable i)

/// eq(b, x) = prod_i (b_i x_i + (1-b_i)(1-x_i))
pub fn eq_weight<F: Field>(b: usize, x: &[F]) -> F {
    let mut w = F::one();
    for (i, xi) in x.iter().enumerate() {
        if (b >> i) & 1 == 1 {
            w *= *xi;
        } else {
            w *= F::one() - *xi;
        }
    }
    w
}

/// sum over the hypercube of t[b] * eq(b, x)
pub fn mle_eval<F: Field>(t: &[F], x: &[F]) -> F {
    assert_eq!(t.len(), 1usize << x.len());
    let mut acc = F::zero();
    for (b, v) in t.iter().enumerate() {
        if !v.is_zero() {
            acc += *v * eq_weight(b, x);
        }
    }
    acc
}

/// table of the extension with the first k variables fixed to r
pub fn mle_fix<F: Field>(t: &[F], nv: usize, r: &[F]) -> Vec<F> {
    let k = r.len();
    assert!(k <= nv);
    let mut out = vec![F::zero(); 1usize << (nv - k)];
    for (hi, o) in out.iter_mut().enumerate() {
        let mut acc = F::zero();
        for c in 0..(1usize << k) {
            let v = t[c + (hi << k)];
            if !v.is_zero() {
                acc += v * eq_weight(c, r);
            }
        }
        *o = acc;
    }
    out
}

/// index with the variable windows a..a+k and b..b+k exchanged (done on an explicit bit vector)
pub fn swap_windows(i: usize, nv: usize, a: usize, b: usize, k: usize) -> usize {
    let mut bits: Vec<bool> = (0..nv).map(|j| (i >> j) & 1 == 1).collect();
    for j in 0..k {
        bits.swap(a + j, b + j);
    }
    bits.iter().enumerate().fold(0usize, |acc, (j, s)| if *s { acc | (1 << j) } else { acc })
}

pub fn mle_relabel<F: Field>(t: &[F], nv: usize, a: usize, b: usize, k: usize) -> Vec<F> {
    (0..t.len()).map(|i| t[swap_windows(i, nv, a, b, k)]).collect()
}
