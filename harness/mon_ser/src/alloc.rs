//! Allocation monitor: a global-allocator wrapper that records, per thread and per monitored call,
//! the largest single request and the running total. While a monitored call is active, requests
//! above `HARD_CAP` are logged (raw write to fd 1, `CAP <bytes>`) and answered with null — the
//! resulting `handle_alloc_error` abort is why such cases only run in a child process.
//! Disabled under Miri (address-remembering monitors hide leaks from it).
use std::alloc::{GlobalAlloc, Layout, System};
use std::cell::Cell;
use std::sync::atomic::{AtomicBool, Ordering};

pub const HARD_CAP: usize = 1 << 30;

thread_local! {
    static ACTIVE: Cell<bool> = const { Cell::new(false) };
    static MAX_REQ: Cell<usize> = const { Cell::new(0) };
    static TOTAL: Cell<usize> = const { Cell::new(0) };
}

/// true only in the child process: requests above the cap are refused
static CAP_ON: AtomicBool = AtomicBool::new(false);

pub fn enable_cap() {
    CAP_ON.store(true, Ordering::SeqCst);
}

pub struct MonAlloc;

#[inline]
fn note(size: usize) -> bool {
    // returns false when the request must be refused
    let mut ok = true;
    let _ = ACTIVE.try_with(|a| {
        if a.get() {
            let _ = MAX_REQ.try_with(|m| {
                if size > m.get() {
                    m.set(size)
                }
            });
            let _ = TOTAL.try_with(|t| t.set(t.get().saturating_add(size)));
            if size > HARD_CAP && CAP_ON.load(Ordering::Relaxed) {
                ok = false;
            }
        }
    });
    if !ok {
        // log before refusing: the abort that follows cannot be intercepted
        let mut buf = [0u8; 40];
        let mut n = 0;
        for b in b"CAP " {
            buf[n] = *b;
            n += 1;
        }
        let mut digits = [0u8; 24];
        let mut k = 0;
        let mut v = size;
        if v == 0 {
            digits[0] = b'0';
            k = 1;
        }
        while v > 0 {
            digits[k] = b'0' + (v % 10) as u8;
            v /= 10;
            k += 1;
        }
        while k > 0 {
            k -= 1;
            buf[n] = digits[k];
            n += 1;
        }
        buf[n] = b'\n';
        n += 1;
        unsafe {
            libc::write(1, buf.as_ptr() as *const libc::c_void, n);
        }
    }
    ok
}

unsafe impl GlobalAlloc for MonAlloc {
    unsafe fn alloc(&self, l: Layout) -> *mut u8 {
        if !note(l.size()) {
            return std::ptr::null_mut();
        }
        System.alloc(l)
    }
    unsafe fn alloc_zeroed(&self, l: Layout) -> *mut u8 {
        if !note(l.size()) {
            return std::ptr::null_mut();
        }
        System.alloc_zeroed(l)
    }
    unsafe fn dealloc(&self, p: *mut u8, l: Layout) {
        System.dealloc(p, l)
    }
    unsafe fn realloc(&self, p: *mut u8, l: Layout, new_size: usize) -> *mut u8 {
        if !note(new_size) {
            return std::ptr::null_mut();
        }
        System.realloc(p, l, new_size)
    }
}

#[derive(Clone, Copy, Debug, Default)]
pub struct AllocStats {
    pub max_single: usize,
    pub total: usize,
}

/// Run `f` with allocation tracking on this thread.
pub fn tracked<T>(f: impl FnOnce() -> T) -> (T, AllocStats) {
    let was = ACTIVE.with(|a| a.replace(true));
    let (m0, t0) = (MAX_REQ.with(|m| m.replace(0)), TOTAL.with(|t| t.replace(0)));
    struct Restore(bool, usize, usize);
    impl Drop for Restore {
        fn drop(&mut self) {
            ACTIVE.with(|a| a.set(self.0));
        }
    }
    let guard = Restore(was, m0, t0);
    let r = f();
    let st = AllocStats { max_single: MAX_REQ.with(|m| m.get()), total: TOTAL.with(|t| t.get()) };
    drop(guard);
    MAX_REQ.with(|m| m.set(m0.max(st.max_single)));
    TOTAL.with(|t| t.set(t0.saturating_add(st.total)));
    (r, st)
}

/// Reset after a caught panic inside a tracked call (the guard restored ACTIVE already).
pub fn last_stats() -> AllocStats {
    AllocStats { max_single: MAX_REQ.with(|m| m.get()), total: TOTAL.with(|t| t.get()) }
}

/// The allocation bound of C18: largest single request <= 64 * len(input) + 1 MiB.
pub fn bound(input_len: usize) -> usize {
    64usize.saturating_mul(input_len).saturating_add(1 << 20)
}
