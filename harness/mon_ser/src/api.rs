//! The two public spellings of every (de)serialization: the mode-taking methods
//! (`serialize_with_mode`, `serialized_size`, `deserialize_with_mode`) and the convenience wrappers of
//! `CanonicalSerialize` / `CanonicalDeserialize` (`serialize_compressed`, `uncompressed_size`,
//! `deserialize_uncompressed_unchecked`, ...). Every adapter goes through these helpers; which
//! spelling is used is decided per call by a deterministic per-thread counter hash, so that the
//! same oracles (expected bytes, advertised size, round trip, validity) watch both.
use ark_serialize::{CanonicalDeserialize, CanonicalSerialize, Compress, Read, SerializationError, Validate, Write};
use std::cell::Cell;
use std::sync::atomic::{AtomicU64, Ordering};

thread_local! {
    static CALLS: Cell<u64> = const { Cell::new(0) };
}
/// calls made through [mode API, serialize wrappers, deserialize wrappers x4]
pub static COUNTS: [AtomicU64; 8] = [const { AtomicU64::new(0) }; 8];

fn wrapper() -> bool {
    CALLS.with(|c| {
        let n = c.get();
        c.set(n + 1);
        let mut z = n.wrapping_add(0x9E37_79B9_7F4A_7C15);
        z = (z ^ (z >> 30)).wrapping_mul(0xBF58_476D_1CE4_E5B9);
        z = (z ^ (z >> 27)).wrapping_mul(0x94D0_49BB_1331_11EB);
        (z ^ (z >> 31)) & 1 == 1
    })
}

/// a new item starts from a fixed point of the sequence (replays of one item see the same choices)
pub fn reset(salt: u64) {
    CALLS.with(|c| c.set(salt));
}

pub fn size<T: CanonicalSerialize + ?Sized>(x: &T, c: Compress) -> usize {
    if wrapper() {
        COUNTS[1].fetch_add(1, Ordering::Relaxed);
        match c {
            Compress::Yes => x.compressed_size(),
            Compress::No => x.uncompressed_size(),
        }
    } else {
        COUNTS[0].fetch_add(1, Ordering::Relaxed);
        x.serialized_size(c)
    }
}

pub fn ser<T: CanonicalSerialize + ?Sized, W: Write>(x: &T, w: W, c: Compress) -> Result<(), SerializationError> {
    if wrapper() {
        COUNTS[2].fetch_add(1, Ordering::Relaxed);
        match c {
            Compress::Yes => x.serialize_compressed(w),
            Compress::No => x.serialize_uncompressed(w),
        }
    } else {
        COUNTS[0].fetch_add(1, Ordering::Relaxed);
        x.serialize_with_mode(w, c)
    }
}

pub fn de<T: CanonicalDeserialize, R: Read>(r: R, c: Compress, v: Validate) -> Result<T, SerializationError> {
    if wrapper() {
        match (c, v) {
            (Compress::Yes, Validate::Yes) => {
                COUNTS[3].fetch_add(1, Ordering::Relaxed);
                T::deserialize_compressed(r)
            },
            (Compress::Yes, Validate::No) => {
                COUNTS[4].fetch_add(1, Ordering::Relaxed);
                T::deserialize_compressed_unchecked(r)
            },
            (Compress::No, Validate::Yes) => {
                COUNTS[5].fetch_add(1, Ordering::Relaxed);
                T::deserialize_uncompressed(r)
            },
            (Compress::No, Validate::No) => {
                COUNTS[6].fetch_add(1, Ordering::Relaxed);
                T::deserialize_uncompressed_unchecked(r)
            },
        }
    } else {
        COUNTS[0].fetch_add(1, Ordering::Relaxed);
        T::deserialize_with_mode(r, c, v)
    }
}

pub fn summary() -> String {
    let c: Vec<u64> = COUNTS.iter().map(|a| a.load(Ordering::Relaxed)).collect();
    format!(
        "API spellings exercised: mode-taking methods {} calls; compressed_size/uncompressed_size {}; serialize_compressed/serialize_uncompressed {}; deserialize_compressed {}; deserialize_compressed_unchecked {}; deserialize_uncompressed {}; deserialize_uncompressed_unchecked {}",
        c[0], c[1], c[2], c[3], c[4], c[5], c[6]
    )
}
