//! C09 — serialization round-trips at the advertised size; field encodings are unique.
use crate::cad::{self, CAd};
use crate::common::*;
use crate::enc::{self, Format, Pt};
use crate::fad::{self, DeHow, FAd, FlagKind, SerHow};
use crate::gad::{self, GAd};
use crate::probe::{cname, vname};
use crate::toy::{self, Toy};
use ark_serialize::{Compress, Validate};
use ark_std::rand::RngCore;
use monitor::*;
use oracle::{One, UInt, Zero};
use std::sync::Arc;

pub const RULE: &str = "cases = (type, mode or flag type, value) for round trips and (field type, flag type, byte string) for uniqueness; \
field values are built by the oracle as raw Montgomery limbs of flat base-prime-field coordinates (structural classes 0, 1, p-1, \
(p+-1)/2, 2^k at byte/limb boundaries, R mod p, limb-spliced, uniform), points as integer coordinates (identity, generator, k*G, \
-P, unchecked lifts, toy curves: every point); expected bytes come from an independent encoder of the documented format (LE integer in \
ceil((bits+flag_bits)/8) bytes, flags in the top bits of the last byte; SW/TE/zcash point layouts); uniqueness strings: p, p+1, \
2^bits-1, every unused high bit, every flag pattern, 0xFF.., uniform, exhaustive for 1- and 2-byte encodings; non-trivial = value \
non-zero / byte string not all zero; distinct = digest of (type, mode, value or bytes)";

pub fn items(args: &Args) -> Vec<Item> {
    let whole = args.only.is_none();
    let mut v: Vec<Item> = vec![];
    let req = move |rep: &mut Report| {
        if whole {
            for c in [
                "field: flags need an extra byte",
                "field: flags fit in the top byte",
                "field: bit length multiple of 64 with flags (extra byte beyond the limbs)",
                "bytes: canonical encoding",
                "bytes: integer >= p",
                "bytes: invalid flag pattern",
                "bytes: stray bits in the extra flag byte",
                "uniqueness: accepted string re-serialized",
                "uniqueness: non-canonical string rejected",
                "exhaustive: all byte strings of a tiny field",
                "point: identity",
                "point: y is the larger root (flag set)",
                "point: y is the smaller root",
                "point: tie y = 0",
                "point: tie x = 0",
                "point: projective with Z != 1",
                "point: extension-field coordinates",
                "point: zcash format",
                "toy: every point of the curve",
                "pairing output: round trip",
            ] {
                rep.require(c);
            }
        }
    };
    // slow curves first
    let curves = Arc::new(cad::shipped_curves());
    for i in 0..curves.len() {
        let cs = curves.clone();
        let name = format!("{}/{}", if cs[i].info().sw { "sw" } else { "te" }, cs[i].info().name);
        v.push(Item::new(name, move |rep, rng, args| {
            req(rep);
            curve_item(rep, rng, args, cs[i].as_ref())
        }));
    }
    for g in gad::engines() {
        let g: Arc<Box<dyn GAd>> = Arc::new(g);
        v.push(Item::new(format!("gt/{}", g.name()), move |rep, rng, args| {
            req(rep);
            gt_item(rep, rng, args, g.as_ref().as_ref())
        }));
    }
    let toys = Arc::new(cad::toy_curves());
    for i in 0..toys.len() {
        let cs = toys.clone();
        v.push(Item::new(cs[i].info().name.to_string(), move |rep, rng, args| {
            req(rep);
            toy_item(rep, rng, args, cs[i].as_ref())
        }));
    }
    for f in fad::all_fields() {
        let f = Arc::new(f);
        v.push(Item::new(format!("field/{}", f.name), move |rep, rng, args| {
            req(rep);
            field_item(rep, rng, args, f.kind, f.ad.as_ref())
        }));
    }
    v
}

// ------------------------------------------------------------------------------------------------
// fields

fn field_item(rep: &mut Report, rng: &mut Rng, args: &Args, kind: &str, ad: &dyn FAd) {
    let fi = ad.info().clone();
    rep.config(&fi.name);
    let st = structural(&fi);
    let sp = format!("ser/fp/{kind}");
    // ---- values: size, expected encoding, round trip, through every mode and flag type
    let mut values: Vec<Vec<UInt>> = vec![];
    for s in &st {
        // the structural value on the last coordinate (the one that carries the flags) and on the first
        let mut v = vec![UInt::zero(); fi.dim];
        *v.last_mut().unwrap() = s.clone();
        values.push(v);
        if fi.dim > 1 {
            let mut v = vec![UInt::zero(); fi.dim];
            v[0] = s.clone();
            values.push(v);
        }
    }
    let nrand = bud(args, 400, 12000) / fi.dim.min(6);
    for _ in 0..nrand {
        values.push(gen_flat(rng, &fi, &st, rep));
    }
    let exhaustive_values = fi.dim == 1 && fi.p < oracle::u(300);
    if exhaustive_values {
        let p = fi.p.to_u64_digits().first().copied().unwrap_or(0);
        values = (0..p).step_by(enum_step(p * 4) as usize).map(|x| vec![oracle::u(x)]).collect();
        rep.exhaustive(&format!("all elements of {} through every mode and flag type", fi.name));
    }
    for v in &values {
        let raw: Vec<Vec<u64>> = v.iter().map(|c| fi.to_mont(c)).collect();
        for how in modes_flags() {
            let (fk, mask) = match how {
                SerHow::Mode(_) => (FlagKind::Empty, 0u8),
                SerHow::Flags(k, m) => (k, m),
            };
            let hname = how_name(&how);
            rep.op("field ser/deser");
            rep.eval(digest(&(&fi.name, &hname, &raw)), v.iter().any(|c| !c.is_zero()));
            let expected = enc::field(&fi, v, fk.bits(), mask);
            let advertised = fi.size(fk.bits());
            if fk.bits() > 0 {
                let plain = fi.size(0);
                rep.class_if(advertised > plain, "field: flags need an extra byte");
                rep.class_if(advertised == plain, "field: flags fit in the top byte");
                rep.class_if(fi.coord_bytes(fk.bits()) == 8 * fi.nlimbs + 1, "field: bit length multiple of 64 with flags (extra byte beyond the limbs)");
            }
            let det = |extra: Value| json!({"field": fi.name, "how": hname, "value": hexu(v), "expected": hex_bytes(&expected), "more": extra});
            let out = match ad.ser(&raw, how) {
                Ok(o) => o,
                Err(p) => {
                    if p.in_harness() {
                        rep.harness_errors.push(format!("{}: harness panic {} at {}", fi.name, p.msg, p.site()));
                    } else {
                        rep.violation(format!("{sp}/serialize/panic"), det(p.to_json()));
                    }
                    continue;
                },
            };
            if let Some(e) = &out.err {
                rep.violation(format!("{sp}/serialize/error"), det(json!({"error": e})));
                continue;
            }
            if out.size_reported != out.bytes.len() {
                rep.violation(format!("{sp}/serialize/size"), det(json!({"serialized_size": out.size_reported, "written": out.bytes.len(), "got": hex_bytes(&out.bytes)})));
            }
            if out.bytes != expected {
                rep.violation(format!("{sp}/serialize/encoding"), det(json!({"got": hex_bytes(&out.bytes)})));
            }
            // round trip of the library's own bytes
            let dhow = match how {
                SerHow::Mode(c) => vec![DeHow::Mode(c, Validate::Yes), DeHow::Mode(c, Validate::No)],
                SerHow::Flags(k, _) => vec![DeHow::Flags(k)],
            };
            for dh in dhow {
                match ad.deser(&out.bytes, dh, out.bytes.len()) {
                    Err(p) => {
                        if p.in_harness() {
                            rep.harness_errors.push(format!("{}: harness panic {} at {}", fi.name, p.msg, p.site()));
                        } else {
                            rep.violation(format!("{sp}/deserialize/panic"), det(p.to_json()));
                        }
                    },
                    Ok(d) => match d.result {
                        Ok((raw2, fl)) => {
                            let back: Vec<UInt> = raw2.iter().map(|l| fi.from_mont(l)).collect();
                            let reduced = raw2.iter().all(|l| oracle::from_limbs(l) < fi.p);
                            if &back != v || fl != mask || !reduced {
                                rep.violation(format!("{sp}/deserialize/round-trip"), det(json!({"got": hexu(&back), "flags": fl, "raw_reduced": reduced, "bytes": hex_bytes(&out.bytes)})));
                            }
                            if d.consumed != out.bytes.len() {
                                rep.violation(format!("{sp}/deserialize/consumed"), det(json!({"consumed": d.consumed, "len": out.bytes.len()})));
                            }
                        },
                        Err(e) => rep.violation(format!("{sp}/deserialize/rejects-own-output"), det(json!({"error": e, "bytes": hex_bytes(&out.bytes)}))),
                    },
                }
            }
        }
    }
    // ---- uniqueness: offered byte strings
    for kind_f in [FlagKind::Empty, FlagKind::Sw, FlagKind::Te] {
        let size = fi.size(kind_f.bits());
        if size <= 2 {
            rep.exhaustive(&format!("all {}-byte strings for {} with {}", size, fi.name, kind_f.name()));
            rep.class("exhaustive: all byte strings of a tiny field");
            let total = 1u64 << (8 * size);
            for n in (0..total).step_by(enum_step(total) as usize) {
                let b = (n as u32).to_le_bytes()[..size].to_vec();
                field_bytes_case(rep, Prop::C09, kind, ad, kind_f, &b, false, true);
                if kind_f == FlagKind::Empty {
                    field_bytes_case(rep, Prop::C09, kind, ad, kind_f, &b, true, true);
                }
            }
        } else {
            for b in field_hostile_strings(rng, &fi, kind_f, &st, bud(args, 500, 20000) / fi.dim.min(6)) {
                field_bytes_case(rep, Prop::C09, kind, ad, kind_f, &b, false, false);
                if kind_f == FlagKind::Empty {
                    field_bytes_case(rep, Prop::C09, kind, ad, kind_f, &b, true, false);
                }
            }
        }
    }
}

// ------------------------------------------------------------------------------------------------
// curves

pub fn model(ad: &dyn CAd) -> &'static str {
    if ad.info().sw {
        "sw"
    } else {
        "te"
    }
}

pub fn pt_json(pt: &Pt) -> Value {
    match pt {
        None => json!("infinity"),
        Some((x, y)) => json!({"x": hexu(x), "y": hexu(y)}),
    }
}

pub fn neg_pt(ad: &dyn CAd, pt: &Pt) -> Pt {
    let fi = &ad.info().fi;
    match pt {
        None => None,
        Some((x, y)) => {
            if ad.info().sw {
                Some((x.clone(), fi.neg(y)))
            } else {
                Some((fi.neg(x), y.clone()))
            }
        },
    }
}

fn point_classes(rep: &mut Report, ad: &dyn CAd, pt: &Pt) {
    let ci = ad.info();
    let fi = &ci.fi;
    rep.class_if(fi.dim > 1, "point: extension-field coordinates");
    rep.class_if(ci.format == Format::Zcash, "point: zcash format");
    match pt {
        None => rep.class("point: identity"),
        Some((x, y)) => {
            if ci.sw {
                let big = fi.is_larger_root(y);
                rep.class_if(big, "point: y is the larger root (flag set)");
                rep.class_if(!big, "point: y is the smaller root");
                rep.class_if(y.iter().all(|c| c.is_zero()), "point: tie y = 0");
            } else {
                let big = fi.is_larger_root(x);
                rep.class_if(big, "point: y is the larger root (flag set)");
                rep.class_if(!big, "point: y is the smaller root");
                if x.iter().all(|c| c.is_zero()) {
                    rep.class("point: tie x = 0");
                    rep.class_if(y[0].is_one() && y[1..].iter().all(|c| c.is_zero()), "point: identity");
                }
            }
        },
    }
}

/// Serialize `pt` in every representation and mode, compare with the expected layout and size, and
/// round-trip. `validate_ok`: the point lies in the prime-order subgroup (so Validate::Yes must accept).
pub fn point_case(rep: &mut Report, rng: &mut Rng, ad: &dyn CAd, pt: &Pt, validate_ok: bool, enumerated: bool, lambdas: usize) {
    let ci = ad.info();
    let fi = &ci.fi;
    let m = model(ad);
    point_classes(rep, ad, pt);
    for c in [Compress::Yes, Compress::No] {
        let mode = cname(c);
        let sp = format!("ser/{m}/{}/{mode}", ci.name);
        let expected = enc::point(fi, ci.format, pt, c == Compress::Yes);
        let adv = enc::point_size(fi, ci.format, c == Compress::Yes);
        let mut reprs: Vec<Option<Vec<UInt>>> = vec![None, Some({
            let mut one = vec![UInt::zero(); fi.dim];
            one[0] = UInt::one();
            one
        })];
        for _ in 0..lambdas {
            let mut l: Vec<UInt> = (0..fi.dim).map(|_| rand_below(rng, &fi.p)).collect();
            if l.iter().all(|c| c.is_zero()) {
                l[0] = UInt::one();
            }
            reprs.push(Some(l));
        }
        for (ri, lam) in reprs.iter().enumerate() {
            let proj = lam.is_some();
            rep.class_if(ri >= 2, "point: projective with Z != 1");
            rep.op("point ser/deser");
            let nontrivial = pt.is_some();
            if enumerated && ri < 2 {
                rep.eval_enumerated(nontrivial);
            } else {
                rep.eval(digest(&(&ci.name, mode, format!("{pt:?}"), lam)), nontrivial);
            }
            let det = |extra: Value| {
                json!({"curve": ci.name, "mode": mode, "representation": if proj { "projective" } else { "affine" }, "lambda": lam.as_ref().map(|l| hexu(l)),
                       "point": pt_json(pt), "expected": hex_bytes(&expected), "more": extra})
            };
            match ad.size(proj, c) {
                Ok(s) => {
                    if s != adv {
                        rep.violation(format!("{sp}/size"), det(json!({"serialized_size": s, "documented": adv})));
                    }
                },
                Err(p) => rep.violation(format!("{sp}/serialized_size/panic"), det(p.to_json())),
            }
            let out = match ad.ser(pt, lam.as_deref(), c) {
                Ok(o) => o,
                Err(p) => {
                    if p.in_harness() {
                        rep.harness_errors.push(format!("{}: harness panic {} at {}", ci.name, p.msg, p.site()));
                    } else {
                        rep.violation(format!("{sp}/serialize/panic"), det(p.to_json()));
                    }
                    continue;
                },
            };
            if let Some(e) = &out.err {
                rep.violation(format!("{sp}/serialize/error"), det(json!({"error": e})));
                continue;
            }
            if out.size_reported != out.bytes.len() {
                rep.violation(format!("{sp}/size"), det(json!({"serialized_size": out.size_reported, "written": out.bytes.len()})));
            }
            if out.bytes != expected {
                rep.violation(format!("{sp}/encoding"), det(json!({"got": hex_bytes(&out.bytes)})));
            }
            for v in [Validate::Yes, Validate::No] {
                if v == Validate::Yes && !validate_ok {
                    continue;
                }
                match ad.deser(&out.bytes, proj, c, v, false, out.bytes.len()) {
                    Err(p) => {
                        if p.in_harness() {
                            rep.harness_errors.push(format!("{}: harness panic {} at {}", ci.name, p.msg, p.site()));
                        } else {
                            rep.violation(format!("{sp}/deserialize/panic"), det(p.to_json()));
                        }
                    },
                    Ok(d) => match d.result {
                        Ok(po) => {
                            if &po.pt != pt || !po.raw_ok {
                                rep.violation(format!("{sp}/round-trip"), det(json!({"validate": vname(v), "got": pt_json(&po.pt), "bytes": hex_bytes(&out.bytes)})));
                            }
                            if d.consumed != out.bytes.len() {
                                rep.violation(format!("{sp}/consumed"), det(json!({"consumed": d.consumed, "len": out.bytes.len()})));
                            }
                        },
                        Err(e) => rep.violation(format!("{sp}/round-trip"), det(json!({"validate": vname(v), "error": e, "bytes": hex_bytes(&out.bytes)}))),
                    },
                }
            }
        }
    }
}

pub fn rand_scalar(rng: &mut Rng, r: &UInt) -> UInt {
    match rng.next_u32() % 6 {
        0 => r - UInt::one(),
        1 => oracle::u(2),
        2 => (r - UInt::one()) >> 1,
        _ => rand_below(rng, r),
    }
}

pub fn rand_coord(rng: &mut Rng, ad: &dyn CAd) -> Vec<UInt> {
    let fi = &ad.info().fi;
    (0..fi.dim).map(|_| rand_below(rng, &fi.p)).collect()
}

/// a point of the curve obtained by an unchecked lift of a random coordinate (no cofactor clearing)
pub fn lifted_point(rep: &mut Report, rng: &mut Rng, ad: &dyn CAd) -> Option<Pt> {
    for _ in 0..64 {
        let c = rand_coord(rng, ad);
        match ad.lift(&c, rng.next_u32() & 1 == 1) {
            Ok(Some(p)) => return Some(p),
            Ok(None) => continue,
            Err(p) => {
                rep.harness_errors.push(format!("{}: lift panicked: {} at {}", ad.info().name, p.msg, p.site()));
                return None;
            },
        }
    }
    None
}

fn curve_item(rep: &mut Report, rng: &mut Rng, args: &Args, ad: &dyn CAd) {
    let ci = ad.info().clone();
    rep.config(&ci.name);
    let fi = &ci.fi;
    let g = ad.generator();
    if !ad.on_curve(&g) {
        rep.harness_errors.push(format!("{}: generator not on the curve (oracle equation)", ci.name));
        return;
    }
    let mut pts: Vec<(Pt, bool)> = vec![];
    if ci.sw {
        pts.push((None, true));
    } else {
        // identity (0, 1) and the point of order two (0, -1)
        let mut one = vec![UInt::zero(); fi.dim];
        one[0] = UInt::one();
        let zero = vec![UInt::zero(); fi.dim];
        pts.push((Some((zero.clone(), one.clone())), true));
        pts.push((Some((zero, fi.neg(&one))), false));
    }
    pts.push((g.clone(), true));
    pts.push((neg_pt(ad, &g), true));
    // 753-bit curves over extension fields are slow in the harness double-and-add: scale the budget
    let weight = (fi.bits / 64 + 1) * fi.dim;
    let n = (bud(args, 1600, 20000) / weight).max(4);
    for _ in 0..n {
        let k = rand_scalar(rng, &ci.r);
        let Ok(p) = ad.mul(&g, &k) else {
            rep.harness_errors.push(format!("{}: k*G met an exceptional case", ci.name));
            continue;
        };
        pts.push((neg_pt(ad, &p), true));
        pts.push((p, true));
    }
    for _ in 0..(n / 2).max(2) {
        if let Some(p) = lifted_point(rep, rng, ad) {
            // in the subgroup iff r * P = 0 (oracle multiplication)
            let inside = ad.mul(&p, &ci.r) == Ok(if ci.sw { None } else { pts[0].0.clone() });
            pts.push((p, inside));
        }
    }
    for (p, inside) in &pts {
        point_case(rep, rng, ad, p, *inside, false, 1);
    }
}

// ------------------------------------------------------------------------------------------------
// toy curves: every point

pub fn toy_of(ad: &dyn CAd) -> Toy {
    let name = ad.info().name.trim_start_matches("toy/").to_string();
    let meta = cfgs::toy_curves::TOY_CURVES.iter().find(|m| m.name == name).expect("toy metadata");
    Toy::new(meta)
}

fn toy_item(rep: &mut Report, rng: &mut Rng, _args: &Args, ad: &dyn CAd) {
    let ci = ad.info().clone();
    rep.config(&ci.name);
    let t = toy_of(ad);
    // cross-check the metadata against the configuration the library sees
    let meta_ok = ci.fi.p == oracle::u(t.p)
        && ci.r == oracle::u(t.meta.r)
        && ci.c1 == toy::e_to_flat(t.meta.coeff1, t.deg)
        && ci.c2 == toy::e_to_flat(t.meta.coeff2, t.deg)
        && ci.cofactor == oracle::u(t.meta.h);
    if !meta_ok {
        rep.harness_errors.push(format!("{}: TOY_CURVES metadata disagrees with the curve configuration", ci.name));
        return;
    }
    rep.exhaustive(&format!("all {} points of {} x {{compressed, uncompressed}} x {{affine, projective}} x {{validate, unchecked}}", t.points.len() + t.sw as usize, ci.name));
    rep.class("toy: every point of the curve");
    if t.sw {
        point_case(rep, rng, ad, &None, true, true, 1);
    }
    for (x, y) in t.points.iter().step_by(enum_step(t.points.len() as u64 * 16) as usize) {
        let pt: Pt = Some((toy::e_to_flat(*x, t.deg), toy::e_to_flat(*y, t.deg)));
        let inside = t.subgroup.contains(&(*x, *y));
        rep.class_if(!inside, "toy: point outside the prime-order subgroup (unchecked modes only)");
        point_case(rep, rng, ad, &pt, inside, true, 1);
    }
}

// ------------------------------------------------------------------------------------------------
// pairing outputs

fn gt_item(rep: &mut Report, rng: &mut Rng, args: &Args, g: &dyn GAd) {
    let fi = g.info().clone();
    rep.config(&format!("PairingOutput<{}>", g.name()));
    let sp = format!("ser/gt/{}", g.name());
    let n = bud(args, 12, 160);
    let cof = g.cofactor_exponent();
    for i in 0..n {
        // an element of the order-r subgroup: u^((p^k - 1)/r) (library pow, exponent from the oracle)
        let u: Vec<UInt> = (0..fi.dim).map(|_| rand_below(rng, &fi.p)).collect();
        let raw: Vec<Vec<u64>> = u.iter().map(|c| fi.to_mont(c)).collect();
        let (raw, torsion) = if i == 0 {
            let mut one = vec![UInt::zero(); fi.dim];
            one[0] = UInt::one();
            (one.iter().map(|c| fi.to_mont(c)).collect(), true)
        } else if i % 3 == 2 {
            (raw, false)
        } else {
            (g.pow(&raw, &cof), true)
        };
        let v: Vec<UInt> = raw.iter().map(|l| fi.from_mont(l)).collect();
        let expected = enc::field(&fi, &v, 0, 0);
        for c in [Compress::Yes, Compress::No] {
            let det = |extra: Value| json!({"engine": g.name(), "mode": cname(c), "value": hexu(&v), "more": extra});
            rep.eval(digest(&(g.name(), c == Compress::Yes, &raw)), true);
            rep.class("pairing output: round trip");
            let out = match g.ser(&raw, c) {
                Ok(o) => o,
                Err(p) => {
                    rep.violation(format!("{sp}/serialize/panic"), det(p.to_json()));
                    continue;
                },
            };
            if out.err.is_some() || out.size_reported != out.bytes.len() || out.bytes.len() != fi.size(0) {
                rep.violation(format!("{sp}/size"), det(json!({"serialized_size": out.size_reported, "written": out.bytes.len(), "documented": fi.size(0), "error": out.err})));
            }
            if out.bytes != expected {
                rep.violation(format!("{sp}/encoding"), det(json!({"got": hex_bytes(&out.bytes), "expected": hex_bytes(&expected)})));
            }
            for val in [Validate::Yes, Validate::No] {
                if val == Validate::Yes && !torsion {
                    continue;
                }
                match g.deser(&out.bytes, c, val, out.bytes.len()) {
                    Err(p) => rep.violation(format!("{sp}/deserialize/panic"), det(p.to_json())),
                    Ok(d) => match d.result {
                        Ok((raw2, _)) => {
                            if raw2 != raw || d.consumed != out.bytes.len() {
                                rep.violation(format!("{sp}/round-trip"), det(json!({"validate": vname(val), "consumed": d.consumed})));
                            }
                        },
                        Err(e) => rep.violation(format!("{sp}/round-trip"), det(json!({"validate": vname(val), "error": e}))),
                    },
                }
            }
        }
    }
}
