//! C10 — checked deserialization yields only valid group elements and never panics.
use crate::c09::{lifted_point, model, neg_pt, pt_json, rand_coord, rand_scalar, toy_of};
use crate::cad::{self, CAd, CDeOut};
use crate::common::*;
use crate::enc::{self, Format, Pt};
use crate::fad::{self, DeHow, FAd, FlagKind};
use crate::gad::{self, GAd};
use crate::probe::{cname, vname};
use crate::toy::{self, Toy, E};
use ark_serialize::{Compress, Validate};
use ark_std::rand::RngCore;
use monitor::*;
use oracle::{One, UInt, Zero};
use std::sync::Arc;

pub const RULE: &str = "cases = (type, mode, validate, byte string); byte strings: valid encodings (oracle encoder), uniform, every bit \
of the first and last byte flipped plus random flips, every truncation length, extended, abscissae without a root, on-curve points \
outside the prime-order subgroup (unchecked lifts, small-order points r*T), off-curve (x, y+1), conflicting flag bits, infinity flag \
with payload; toy curves: all byte strings of the advertised length with the expected accept/reject decided by oracle-side point \
enumeration; an accepted point is re-checked with the curve equation in plain field operations and r*P = 0 by plain double-and-add; \
an accepted field element is decoded from raw limbs and compared with p; non-trivial = byte string not all zero; distinct = digest of \
(type, mode, validate, bytes)";

pub fn items(args: &Args) -> Vec<Item> {
    let whole = args.only.is_none();
    let mut v: Vec<Item> = vec![];
    let req = move |rep: &mut Report| {
        if whole {
            for c in [
                "accepted valid",
                "rejected off-curve",
                "rejected out-of-subgroup",
                "rejected: abscissa without a root",
                "truncated at every length",
                "extended input: only the advertised size consumed",
                "flag conflict",
                "infinity flag with non-zero payload",
                "uniform bytes",
                "bit flip in the flag byte",
                "small-order point",
                "toy: all byte strings of the advertised length",
                "field: Ok result checked < p on raw limbs",
                "bytes: integer >= p",
                "pairing output: non-r-torsion rejected",
                "pairing output: r-torsion accepted",
                "accepted point re-checked (equation, r*P = 0)",
            ] {
                rep.require(c);
            }
        }
    };
    let curves = Arc::new(cad::shipped_curves());
    for i in 0..curves.len() {
        for c in [Compress::Yes, Compress::No] {
            let cs = curves.clone();
            let name = format!("{}/{}/{}", model(cs[i].as_ref()), cs[i].info().name, cname(c));
            v.push(Item::new(name, move |rep, rng, args| {
                req(rep);
                if cs[i].info().cofactor > UInt::one() {
                    rep.require_here(&format!("rejected out-of-subgroup: {}", cs[i].info().name));
                }
                curve_item(rep, rng, args, cs[i].as_ref(), c)
            }));
        }
    }
    for g in gad::engines() {
        let g: Arc<Box<dyn GAd>> = Arc::new(g);
        v.push(Item::new(format!("gt/{}", g.name()), move |rep, rng, args| {
            req(rep);
            gt_item(rep, rng, args, g.as_ref().as_ref())
        }));
    }
    let toys = Arc::new(cad::toy_curves());
    for i in 0..toys.len() {
        for c in [Compress::Yes, Compress::No] {
            let cs = toys.clone();
            v.push(Item::new(format!("{}/{}", cs[i].info().name, cname(c)), move |rep, rng, args| {
                req(rep);
                toy_item(rep, rng, args, cs[i].as_ref(), c)
            }));
        }
    }
    for f in fad::all_fields() {
        let f = Arc::new(f);
        v.push(Item::new(format!("field/{}", f.name), move |rep, rng, args| {
            req(rep);
            field_item(rep, rng, args, f.kind, f.ad.as_ref())
        }));
    }
    v.push(Item::new("flags", move |rep, _rng, _args| {
        req(rep);
        flags_item(rep)
    }));
    v
}

/// The flag decoders on all 256 byte values against the documented bit layout: SW bit 7 = y is the
/// larger root, bit 6 = infinity, both = invalid; TE bit 7 = x is the larger root; lower bits ignored.
fn flags_item(rep: &mut Report) {
    use ark_ec::short_weierstrass::SWFlags;
    use ark_ec::twisted_edwards::TEFlags;
    use ark_serialize::Flags;
    rep.exhaustive("SWFlags::from_u8 / TEFlags::from_u8 / from_u8_remove_flags on all 256 byte values");
    for b in 0u16..256 {
        let b = b as u8;
        rep.eval_enumerated(b != 0);
        let det = |got: String| json!({"byte": format!("{b:#04x}"), "got": got});
        let sw = rep.total("deser/sw/flags/from_u8", || det("panic".into()), || SWFlags::from_u8(b));
        let exp = match b >> 6 {
            0 => Some(SWFlags::YIsPositive),
            1 => Some(SWFlags::PointAtInfinity),
            2 => Some(SWFlags::YIsNegative),
            _ => None,
        };
        if let Some(got) = sw {
            if b >> 6 == 3 {
                rep.class("flag conflict");
                if got.is_some() {
                    rep.violation("deser/sw/flags/from_u8/accepts-conflicting-flags", det(format!("{got:?}")));
                }
            } else if got != exp {
                rep.violation("deser/sw/flags/from_u8/value", det(format!("{got:?}")));
            }
            // removing the flags clears exactly the documented bits of the pattern that was read
            let mut v = b;
            if let Some(Some(f)) = rep.total("deser/sw/flags/from_u8_remove_flags", || det("panic".into()), || SWFlags::from_u8_remove_flags(&mut v)) {
                let mask = match f {
                    SWFlags::YIsPositive => 0u8,
                    SWFlags::PointAtInfinity => 0x40,
                    SWFlags::YIsNegative => 0x80,
                };
                if Some(f) != exp || v != b & !mask {
                    rep.violation("deser/sw/flags/from_u8_remove_flags/value", det(format!("{f:?}, byte left {v:#04x}")));
                }
            }
        }
        let te = rep.total("deser/te/flags/from_u8", || det("panic".into()), || TEFlags::from_u8(b));
        let exp = if b >> 7 == 1 { TEFlags::XIsNegative } else { TEFlags::XIsPositive };
        if let Some(got) = te {
            if got != Some(exp) {
                rep.violation("deser/te/flags/from_u8/value", det(format!("{got:?}")));
            }
        }
    }
}

// ------------------------------------------------------------------------------------------------
// fields

fn field_item(rep: &mut Report, rng: &mut Rng, args: &Args, kind: &str, ad: &dyn FAd) {
    let fi = ad.info().clone();
    rep.config(&fi.name);
    let st = structural(&fi);
    let dp = format!("deser/fp/{kind}");
    for kf in [FlagKind::Empty, FlagKind::Sw, FlagKind::Te] {
        let size = fi.size(kf.bits());
        let strings: Vec<Vec<u8>> = if size <= 2 {
            rep.exhaustive(&format!("all {}-byte strings for {} with {} (deserialization)", size, fi.name, kf.name()));
            let total = 1u64 << (8 * size);
            (0..total).step_by(enum_step(total) as usize).map(|n| (n as u32).to_le_bytes()[..size].to_vec()).collect()
        } else {
            field_hostile_strings(rng, &fi, kf, &st, bud(args, 600, 24000) / fi.dim.min(6))
        };
        for b in &strings {
            field_bytes_case(rep, Prop::C10, kind, ad, kf, b, false, size <= 2);
            if kf == FlagKind::Empty {
                field_bytes_case(rep, Prop::C10, kind, ad, kf, b, true, size <= 2);
            }
        }
        // truncation to every shorter length, extension
        let sample = strings[rng.next_u32() as usize % strings.len()].clone();
        for k in 0..size {
            rep.class("truncated at every length");
            rep.eval(digest(&(&fi.name, "trunc", kf.bits(), k, &sample[..k])), k > 0);
            match ad.deser(&sample[..k], DeHow::Flags(kf), size) {
                Err(p) if !p.in_harness() => rep.violation(format!("{dp}/truncated/panic"), json!({"field": fi.name, "flags": kf.name(), "bytes": hex_bytes(&sample[..k]), "panic": p.to_json()})),
                Err(p) => rep.harness_errors.push(format!("{}: harness panic {}", fi.name, p.msg)),
                Ok(d) => {
                    if d.result.is_ok() {
                        rep.violation(format!("{dp}/truncated/accepted"), json!({"field": fi.name, "flags": kf.name(), "bytes": hex_bytes(&sample[..k]), "advertised": size}));
                    }
                },
            }
        }
        let mut ext = enc::field(&fi, &(0..fi.dim).map(|_| edge_value(rng, &fi, &st)).collect::<Vec<_>>(), kf.bits(), 0);
        ext.extend((0..24).map(|_| rng.next_u32() as u8));
        rep.class("extended input: only the advertised size consumed");
        rep.eval(digest(&(&fi.name, "ext", kf.bits(), &ext)), true);
        match ad.deser(&ext, DeHow::Flags(kf), size) {
            Err(p) if !p.in_harness() => rep.violation(format!("{dp}/extended/panic"), json!({"field": fi.name, "bytes": hex_bytes(&ext), "panic": p.to_json()})),
            Err(p) => rep.harness_errors.push(format!("{}: harness panic {}", fi.name, p.msg)),
            Ok(d) => {
                if d.consumed > size || d.over_budget {
                    rep.violation(format!("{dp}/extended/reads-past-advertised-size"), json!({"field": fi.name, "consumed": d.consumed, "advertised": size}));
                }
                if d.result.is_err() {
                    rep.violation(format!("{dp}/extended/rejects-valid-prefix"), json!({"field": fi.name, "bytes": hex_bytes(&ext), "error": format!("{:?}", d.result.err())}));
                }
            },
        }
        // from_random_bytes_with_flags: total, result reduced (lengths up to the buffer size)
        for _ in 0..bud(args, 60, 1500) {
            if fi.dim > 1 && kind != "toy-tower" && rng.next_u32() % 4 != 0 {
                continue;
            }
            let len = rng.next_u32() as usize % (fi.dim * (8 * fi.nlimbs + 1) + 1);
            let mut b: Vec<u8> = (0..len).map(|_| rng.next_u32() as u8).collect();
            if rng.next_u32() % 3 == 0 {
                for x in b.iter_mut() {
                    *x = 0xff;
                }
            }
            rep.eval(digest(&(&fi.name, "frb", kf.bits(), &b)), true);
            rep.op("from_random_bytes_with_flags");
            match ad.from_random_bytes(&b, kf) {
                Err(p) if !p.in_harness() => rep.violation(format!("{dp}/from_random_bytes_with_flags/panic"), json!({"field": fi.name, "flags": kf.name(), "bytes": hex_bytes(&b), "panic": p.to_json()})),
                Err(p) => rep.harness_errors.push(format!("{}: harness panic {}", fi.name, p.msg)),
                Ok(Some((raw, _))) => {
                    if !raw.iter().all(|l| oracle::from_limbs(l) < fi.p) {
                        rep.violation(format!("{dp}/from_random_bytes_with_flags/returns-unreduced"), json!({"field": fi.name, "bytes": hex_bytes(&b)}));
                    }
                },
                Ok(None) => {},
            }
        }
    }
}

// ------------------------------------------------------------------------------------------------
// curves

#[derive(Clone, Copy, PartialEq, Eq, Debug)]
enum Expect {
    /// must be accepted and return this point
    Accept,
    /// must be rejected, for the named reason
    Reject(&'static str),
    /// either outcome; an accepted point must be valid
    Any,
}

struct Ctx<'a> {
    ad: &'a dyn CAd,
    c: Compress,
    size: usize,
    dp: String,
}

impl Ctx<'_> {
    fn det(&self, bytes: &[u8], v: Validate, proj: bool, what: &str, extra: Value) -> Value {
        json!({"curve": self.ad.info().name, "mode": cname(self.c), "validate": vname(v), "into": if proj { "Projective" } else { "Affine" },
               "input_class": what, "bytes": hex_bytes(bytes), "advertised": self.size, "more": extra})
    }

    /// One offered byte string. `claimed`: the point the oracle says the bytes denote (when known).
    #[allow(clippy::too_many_arguments)]
    fn offer(&self, rep: &mut Report, bytes: &[u8], v: Validate, proj: bool, what: &str, expect: Expect, claimed: Option<&Pt>, enumerated: bool) -> Option<CDeOut> {
        let nontrivial = bytes.iter().any(|b| *b != 0);
        if enumerated {
            rep.eval_enumerated(nontrivial);
        } else {
            rep.eval(digest(&(&self.ad.info().name, self.c == Compress::Yes, v == Validate::Yes, proj, bytes)), nontrivial);
        }
        let check = v == Validate::Yes;
        let d = match self.ad.deser(bytes, proj, self.c, v, check, self.size) {
            Ok(d) => d,
            Err(p) => {
                if p.in_harness() {
                    rep.harness_errors.push(format!("{}: harness panic {} at {}", self.ad.info().name, p.msg, p.site()));
                } else {
                    rep.violation(format!("{}/{}/panic", self.dp, vname(v)), self.det(bytes, v, proj, what, p.to_json()));
                }
                return None;
            },
        };
        if d.over_budget || d.consumed > self.size {
            rep.violation(format!("{}/{}/reads-past-advertised-size", self.dp, vname(v)), self.det(bytes, v, proj, what, json!({"consumed": d.consumed})));
        }
        match &d.result {
            Ok(po) => {
                if !po.raw_ok {
                    rep.violation(format!("{}/{}/returns-unreduced-coordinates", self.dp, vname(v)), self.det(bytes, v, proj, what, json!({"got": pt_json(&po.pt)})));
                }
                if check {
                    rep.class("accepted point re-checked (equation, r*P = 0)");
                    if !po.on_curve {
                        rep.violation(format!("{}/validate/accepts-off-curve", self.dp), self.det(bytes, v, proj, what, json!({"got": pt_json(&po.pt)})));
                    } else if !po.r_zero {
                        rep.violation(format!("{}/validate/accepts-out-of-subgroup", self.dp), self.det(bytes, v, proj, what, json!({"got": pt_json(&po.pt)})));
                    }
                    if let Expect::Reject(why) = expect {
                        rep.violation(format!("{}/validate/accepts-{why}", self.dp), self.det(bytes, v, proj, what, json!({"got": pt_json(&po.pt)})));
                    }
                } else if let Expect::Reject(why) = expect {
                    // rejections demanded in unchecked mode too (no root, malformed field element, truncated)
                    rep.violation(format!("{}/unchecked/accepts-{why}", self.dp), self.det(bytes, v, proj, what, json!({"got": pt_json(&po.pt)})));
                }
                if let (Some(cl), true) = (claimed, expect == Expect::Accept) {
                    if &po.pt != cl {
                        rep.violation(format!("{}/{}/wrong-point", self.dp, vname(v)), self.det(bytes, v, proj, what, json!({"got": pt_json(&po.pt), "expected": pt_json(cl)})));
                    }
                }
            },
            Err(e) => {
                if expect == Expect::Accept {
                    rep.violation(format!("{}/{}/rejects-valid", self.dp, vname(v)), self.det(bytes, v, proj, what, json!({"error": e, "expected": claimed.map(pt_json)})));
                }
            },
        }
        Some(d)
    }
}

fn identity(ad: &dyn CAd) -> Pt {
    let fi = &ad.info().fi;
    if ad.info().sw {
        None
    } else {
        let mut one = vec![UInt::zero(); fi.dim];
        one[0] = UInt::one();
        Some((vec![UInt::zero(); fi.dim], one))
    }
}

fn curve_item(rep: &mut Report, rng: &mut Rng, args: &Args, ad: &dyn CAd, c: Compress) {
    let ci = ad.info().clone();
    let fi = &ci.fi;
    rep.config(&ci.name);
    let compressed = c == Compress::Yes;
    let size = enc::point_size(fi, ci.format, compressed);
    let cx = Ctx { ad, c, size, dp: format!("deser/{}/{}/{}", model(ad), ci.name, cname(c)) };
    let weight = (fi.bits / 64 + 1) * fi.dim * if ci.cofactor > UInt::one() { 2 } else { 1 };
    let n = (bud(args, 2400, 48000) / weight).max(3);
    let g = ad.generator();
    let id = identity(ad);
    let both = [Validate::Yes, Validate::No];

    // 1. valid encodings of subgroup points: accepted, equal, valid
    let mut valid: Vec<(Pt, Vec<u8>)> = vec![(id.clone(), enc::point(fi, ci.format, &id, compressed)), (g.clone(), enc::point(fi, ci.format, &g, compressed))];
    for _ in 0..n {
        let Ok(p) = ad.mul(&g, &rand_scalar(rng, &ci.r)) else {
            rep.harness_errors.push(format!("{}: k*G met an exceptional case", ci.name));
            continue;
        };
        let p = if rng.next_u32() & 1 == 1 { neg_pt(ad, &p) } else { p };
        let b = enc::point(fi, ci.format, &p, compressed);
        valid.push((p, b));
    }
    for (i, (p, b)) in valid.iter().enumerate() {
        for v in both {
            rep.class("accepted valid");
            cx.offer(rep, b, v, i % 2 == 1, "valid encoding", Expect::Accept, Some(p), false);
        }
    }
    // 2. truncation to every shorter length (of one valid encoding) and extension
    let (tp, tb) = valid[rng.next_u32() as usize % valid.len()].clone();
    for k in 0..size {
        rep.class("truncated at every length");
        cx.offer(rep, &tb[..k], if k % 2 == 0 { Validate::Yes } else { Validate::No }, false, "truncated", Expect::Reject("truncated"), None, false);
    }
    let mut ext = tb.clone();
    ext.extend((0..40).map(|_| rng.next_u32() as u8));
    for v in both {
        rep.class("extended input: only the advertised size consumed");
        cx.offer(rep, &ext, v, false, "extended", Expect::Accept, Some(&tp), false);
    }
    // 3. bit flips: every bit of the first and the last byte, random elsewhere
    for (_, b) in valid.iter().skip(1).take(bud(args, 3, 16)) {
        let mut bits: Vec<usize> = (0..8).chain(8 * (size - 1)..8 * size).collect();
        for _ in 0..bud(args, 16, 128) {
            bits.push(rng.next_u32() as usize % (8 * size));
        }
        for bit in bits {
            let mut m = b.clone();
            m[bit / 8] ^= 1 << (bit % 8);
            rep.class_if(bit < 8 || bit >= 8 * (size - 1), "bit flip in the flag byte");
            for v in both {
                cx.offer(rep, &m, v, false, "bit flip", Expect::Any, None, false);
            }
        }
    }
    // 4. uniform bytes (half of them with the integers forced below 2^bits)
    for k in 0..n.max(8) * 2 {
        let mut b: Vec<u8> = (0..size).map(|_| rng.next_u32() as u8).collect();
        if k % 2 == 0 && ci.format != Format::Zcash {
            // keep the flag byte random, clear the slack bits above the modulus length
            let c0 = rand_coord(rng, ad);
            let c1 = rand_coord(rng, ad);
            let fl = rng.next_u32() as u8;
            b = match (ci.sw, compressed) {
                (true, true) => enc::field(fi, &c0, 2, fl & 0xC0),
                (true, false) => [enc::field(fi, &c0, 0, 0), enc::field(fi, &c1, 2, fl & 0xC0)].concat(),
                (false, true) => enc::field(fi, &c0, 1, fl & 0x80),
                (false, false) => [enc::field(fi, &c0, 0, 0), enc::field(fi, &c1, 0, 0)].concat(),
            };
        } else if ci.format == Format::Zcash && k % 2 == 0 {
            // plausible zcash flag bits, coordinates below p
            let c0 = rand_coord(rng, ad);
            b = enc::point(fi, ci.format, &Some((c0.clone(), rand_coord(rng, ad))), compressed);
            if rng.next_u32() & 1 == 1 {
                b[0] ^= 0x20;
            }
        }
        rep.class("uniform bytes");
        for v in both {
            cx.offer(rep, &b, v, k % 5 == 0, "uniform", Expect::Any, None, false);
        }
    }
    // 5. abscissa (SW) / ordinate (TE) without a root: compressed decoding must fail in every mode
    if compressed {
        let mut found = 0;
        for _ in 0..200 {
            if found >= bud(args, 6, 80) {
                break;
            }
            let co = rand_coord(rng, ad);
            if let Ok(None) = ad.lift(&co, false) {
                // independent confirmation over prime fields: Euler's criterion on the right-hand side
                if fi.dim == 1 && ci.sw {
                    let z = oracle::Zp::new(fi.p.clone());
                    let x = &co[0];
                    let rhs = z.add(&z.add(&z.mul(&z.mul(x, x), x), &z.mul(&ci.c1[0], x)), &ci.c2[0]);
                    if oracle::legendre(&rhs, &fi.p) != -1 {
                        rep.harness_errors.push(format!("{}: lift says no root but Euler disagrees", ci.name));
                        continue;
                    }
                }
                found += 1;
                for neg in [false, true] {
                    let b = match ci.format {
                        Format::Sw => enc::field(fi, &co, 2, if neg { 0x80 } else { 0 }),
                        Format::Te => enc::field(fi, &co, 1, if neg { 0x80 } else { 0 }),
                        Format::Zcash => {
                            let mut b = enc::point(fi, ci.format, &Some((co.clone(), co.clone())), true);
                            if neg {
                                b[0] |= 0x20;
                            }
                            b
                        },
                    };
                    for v in both {
                        rep.class("rejected: abscissa without a root");
                        cx.offer(rep, &b, v, false, "coordinate without a root", Expect::Reject("no-root"), None, false);
                    }
                }
            }
        }
    }
    // 5b. coordinates where the recovery formula itself degenerates (zero denominator): no point, no panic
    if compressed {
        for co in ad.degenerate_coords() {
            for neg in [false, true] {
                let b = enc::field(fi, &co, 1, if neg { 0x80 } else { 0 });
                for v in both {
                    rep.class("rejected: ordinate with a zero denominator in the recovery formula");
                    cx.offer(rep, &b, v, false, "ordinate with a - d*y^2 = 0", Expect::Reject("no-root"), None, false);
                }
            }
        }
    }
    // 6. points of the curve outside the prime-order subgroup
    if ci.cofactor > UInt::one() {
        let mut seen = 0;
        for _ in 0..64 {
            if seen >= bud(args, 6, 96).min(n) {
                break;
            }
            let Some(t) = lifted_point(rep, rng, ad) else { break };
            let s = ad.mul(&t, &ci.r);
            let mut bad: Vec<(Pt, &str)> = vec![];
            match s {
                Ok(s) if s != id => {
                    // T is outside; S = r*T has order dividing the cofactor
                    bad.push((t.clone(), "unchecked lift outside the subgroup"));
                    bad.push((s.clone(), "small-order point r*T"));
                    rep.class("small-order point");
                },
                // an exceptional case of an incomplete law cannot occur inside the prime-order subgroup
                Err(_) => bad.push((t.clone(), "unchecked lift outside the subgroup (incomplete law)")),
                _ => {},
            }
            for (p, what) in bad {
                if !ad.on_curve(&p) {
                    rep.harness_errors.push(format!("{}: constructed point not on the curve", ci.name));
                    continue;
                }
                seen += 1;
                let b = enc::point(fi, ci.format, &p, compressed);
                rep.class("rejected out-of-subgroup");
                rep.class(&format!("rejected out-of-subgroup: {}", ci.name));
                cx.offer(rep, &b, Validate::Yes, seen % 2 == 0, what, Expect::Reject("out-of-subgroup"), None, false);
                cx.offer(rep, &b, Validate::No, seen % 2 == 0, what, Expect::Accept, Some(&p), false);
            }
        }
    }
    // 7. off-curve (x, y+1) and (x, random y), uncompressed
    if !compressed {
        for (p, _) in valid.iter().skip(1).take(bud(args, 6, 80)) {
            let Some((x, y)) = p else { continue };
            let mut y1 = y.clone();
            y1[0] = (&y1[0] + UInt::one()) % &fi.p;
            for q in [Some((x.clone(), y1)), Some((x.clone(), rand_coord(rng, ad)))] {
                if ad.on_curve(&q) {
                    continue;
                }
                let b = enc::point(fi, ci.format, &q, false);
                rep.class("rejected off-curve");
                cx.offer(rep, &b, Validate::Yes, false, "off-curve point", Expect::Reject("off-curve"), None, false);
                cx.offer(rep, &b, Validate::No, false, "off-curve point", Expect::Any, None, false);
            }
        }
    } else {
        rep.class_n("rejected off-curve", 0);
    }
    // 8. conflicting flags, infinity with payload
    for (p, b) in valid.iter().skip(1).take(bud(args, 4, 40)) {
        match ci.format {
            Format::Sw => {
                let mut m = b.clone();
                *m.last_mut().unwrap() |= 0xC0;
                for v in both {
                    rep.class("flag conflict");
                    cx.offer(rep, &m, v, false, "both SW flag bits set", Expect::Reject("conflicting-flags"), None, false);
                }
                // infinity flag on top of a non-zero payload: the outcome is not prescribed, the result must be valid
                let mut m = b.clone();
                let l = m.len() - 1;
                m[l] = (m[l] & 0x3f) | 0x40;
                for v in both {
                    rep.class("infinity flag with non-zero payload");
                    cx.offer(rep, &m, v, false, "infinity flag with payload", Expect::Any, None, false);
                }
            },
            Format::Zcash => {
                // documented invalid combinations: wrong compression bit for the mode, sort bit with infinity or uncompressed
                for top in 0u8..8 {
                    let mut m = b.clone();
                    m[0] = (m[0] & 0x1f) | (top << 5);
                    let (cbit, ibit, sbit) = (top & 4 != 0, top & 2 != 0, top & 1 != 0);
                    let conflict = cbit != compressed || (sbit && (ibit || !cbit));
                    if conflict {
                        for v in both {
                            rep.class("flag conflict");
                            cx.offer(rep, &m, v, false, "zcash flag conflict", Expect::Reject("conflicting-flags"), None, false);
                        }
                    } else if ibit {
                        for v in both {
                            rep.class("infinity flag with non-zero payload");
                            cx.offer(rep, &m, v, false, "infinity flag with payload", Expect::Any, None, false);
                        }
                    }
                }
            },
            Format::Te => {
                // one flag bit: both values are meaningful; the other sign must give the other point (or the same at x = 0)
                if compressed {
                    let mut m = b.clone();
                    *m.last_mut().unwrap() ^= 0x80;
                    let q = neg_pt(ad, p);
                    rep.class("flag conflict");
                    cx.offer(rep, &m, Validate::Yes, false, "TE sign flag flipped", Expect::Accept, Some(&q), false);
                } else {
                    rep.class_n("flag conflict", 0);
                }
            },
        }
    }
}

// ------------------------------------------------------------------------------------------------
// toy curves: every byte string

enum Claim {
    /// field-level malformed (integer >= p)
    Malformed,
    Conflict,
    /// infinity flag; `clean` = canonical all-zero payload
    Infinity { clean: bool },
    NoRoot,
    Point(E, E),
}

fn toy_claim(t: &Toy, fi: &enc::FInfo, compressed: bool, b: &[u8]) -> Claim {
    let deg = t.deg;
    let to_e = |v: &[UInt]| -> E {
        let mut e = [0u64; 2];
        for i in 0..deg {
            e[i] = v[i].to_u64_digits().first().copied().unwrap_or(0);
        }
        e
    };
    if t.sw {
        let (x, y, mask, zero_payload) = if compressed {
            let pf = enc::parse_field(fi, b, 2);
            if !pf.canonical {
                return Claim::Malformed;
            }
            let z = pf.ints.iter().all(|v| v.is_zero());
            (to_e(&pf.ints), None, pf.flag_mask, z)
        } else {
            let n0 = fi.size(0);
            let px = enc::parse_field(fi, &b[..n0], 0);
            let py = enc::parse_field(fi, &b[n0..], 2);
            if !px.canonical || !py.canonical {
                return Claim::Malformed;
            }
            let z = px.ints.iter().chain(py.ints.iter()).all(|v| v.is_zero());
            (to_e(&px.ints), Some(to_e(&py.ints)), py.flag_mask, z)
        };
        if mask == 0xC0 {
            return Claim::Conflict;
        }
        if mask == 0x40 {
            return Claim::Infinity { clean: zero_payload };
        }
        match y {
            Some(y) => Claim::Point(x, y),
            None => {
                // the two roots in the documented order: flag set = the lexicographically larger one
                let mut ys: Vec<E> = t.points.iter().filter(|p| p.0 == x).map(|p| p.1).collect();
                if ys.is_empty() {
                    // also possible: rhs = 0 handled by enumeration (y = 0 is a point); no point with this x
                    return Claim::NoRoot;
                }
                ys.sort_by(|a, b| (a[1], a[0]).cmp(&(b[1], b[0])));
                let y = if mask == 0x80 { *ys.last().unwrap() } else { ys[0] };
                Claim::Point(x, y)
            },
        }
    } else if compressed {
        let pf = enc::parse_field(fi, b, 1);
        if !pf.canonical {
            return Claim::Malformed;
        }
        let y = to_e(&pf.ints);
        let mut xs: Vec<E> = t.points.iter().filter(|p| p.1 == y).map(|p| p.0).collect();
        if xs.is_empty() {
            return Claim::NoRoot;
        }
        xs.sort_by(|a, b| (a[1], a[0]).cmp(&(b[1], b[0])));
        let x = if pf.flag_mask == 0x80 { *xs.last().unwrap() } else { xs[0] };
        Claim::Point(x, y)
    } else {
        let n0 = fi.size(0);
        let px = enc::parse_field(fi, &b[..n0], 0);
        let py = enc::parse_field(fi, &b[n0..], 0);
        if !px.canonical || !py.canonical {
            return Claim::Malformed;
        }
        Claim::Point(to_e(&px.ints), to_e(&py.ints))
    }
}

fn toy_item(rep: &mut Report, rng: &mut Rng, args: &Args, ad: &dyn CAd, c: Compress) {
    let ci = ad.info().clone();
    let fi = &ci.fi;
    rep.config(&ci.name);
    let t = toy_of(ad);
    let compressed = c == Compress::Yes;
    let size = enc::point_size(fi, ci.format, compressed);
    let cx = Ctx { ad, c, size, dp: format!("deser/{}/{}/{}", model(ad), ci.name, cname(c)) };
    let total: u64 = 1u64 << (8 * size).min(40);
    let budget: u64 = if slice() { 300 } else { args.pick(1 << 18, 1 << 24) };
    let exhaustive = size <= 3 && total <= budget && !slice();
    if exhaustive {
        rep.exhaustive(&format!("all 2^{} byte strings of length {} for {} {} x {{validate, unchecked}}", 8 * size, size, ci.name, cname(c)));
    }
    rep.class("toy: all byte strings of the advertised length");
    let count = if exhaustive { total } else { budget.min(total) };
    // when sampling, make sure every canonical encoding of a curve point is offered as well
    let mut extra: Vec<Vec<u8>> = vec![];
    if !exhaustive {
        if t.sw {
            extra.push(enc::point(fi, ci.format, &None, compressed));
        }
        for (x, y) in &t.points {
            extra.push(enc::point(fi, ci.format, &Some((toy::e_to_flat(*x, t.deg), toy::e_to_flat(*y, t.deg))), compressed));
        }
    }
    let mut k = 0u64;
    let nextra = extra.len() as u64;
    while k < count + nextra {
        let b: Vec<u8> = if k < count {
            if exhaustive {
                k.to_le_bytes()[..size].to_vec()
            } else {
                (0..size).map(|_| rng.next_u32() as u8).collect()
            }
        } else {
            extra[(k - count) as usize].clone()
        };
        k += 1;
        let claim = toy_claim(&t, fi, compressed, &b);
        let (expect, claimed, what): (Expect, Option<Pt>, &str) = match &claim {
            Claim::Malformed => (Expect::Reject("non-canonical-field"), None, "integer >= p"),
            Claim::Conflict => (Expect::Reject("conflicting-flags"), None, "both flag bits"),
            Claim::Infinity { clean: true } => (Expect::Accept, Some(None), "canonical infinity"),
            Claim::Infinity { clean: false } => (Expect::Any, None, "infinity flag with payload"),
            Claim::NoRoot => (Expect::Reject("no-root"), None, "no root"),
            Claim::Point(x, y) => {
                let pt: Pt = Some((toy::e_to_flat(*x, t.deg), toy::e_to_flat(*y, t.deg)));
                if !t.on_curve(*x, *y) {
                    (Expect::Reject("off-curve"), Some(pt), "off-curve point")
                } else if !t.subgroup.contains(&(*x, *y)) {
                    (Expect::Reject("out-of-subgroup"), Some(pt), "point outside the subgroup")
                } else {
                    (Expect::Accept, Some(pt), "subgroup point")
                }
            },
        };
        match (&claim, expect) {
            (Claim::Point(..), Expect::Accept) | (Claim::Infinity { clean: true }, _) => rep.class("accepted valid"),
            (_, Expect::Reject("off-curve")) => rep.class("rejected off-curve"),
            (_, Expect::Reject("out-of-subgroup")) => {
                rep.class("rejected out-of-subgroup");
                rep.class_if(matches!(&claim, Claim::Point(x, y) if t.sw && *y == [0, 0] || !t.sw && *x == [0, 0]), "small-order point");
            },
            (_, Expect::Reject("no-root")) => rep.class("rejected: abscissa without a root"),
            (_, Expect::Reject("conflicting-flags")) => rep.class("flag conflict"),
            (Claim::Infinity { clean: false }, _) => rep.class("infinity flag with non-zero payload"),
            _ => {},
        }
        // validate: the full decision table
        cx.offer(rep, &b, Validate::Yes, k % 7 == 0, what, expect, claimed.as_ref(), exhaustive);
        // unchecked: never a panic, never past the advertised size; malformed fields / missing roots /
        // conflicting flags are still errors; a denoted point comes back as is (on the curve or not)
        let (e2, c2) = match (&claim, expect) {
            (Claim::Point(..), _) => (Expect::Accept, claimed.as_ref()),
            (_, Expect::Reject("non-canonical-field" | "no-root" | "conflicting-flags")) => (expect, None),
            (Claim::Infinity { clean: true }, _) => (Expect::Accept, claimed.as_ref()),
            _ => (Expect::Any, None),
        };
        cx.offer(rep, &b, Validate::No, false, what, e2, c2, exhaustive);
    }
    rep.class("uniform bytes");
    rep.class("bit flip in the flag byte");
    // truncations of one string, extension
    let b0 = enc::point(fi, ci.format, &Some((toy::e_to_flat(t.meta.gen_x, t.deg), toy::e_to_flat(t.meta.gen_y, t.deg))), compressed);
    for k in 0..size {
        rep.class("truncated at every length");
        cx.offer(rep, &b0[..k], Validate::Yes, false, "truncated", Expect::Reject("truncated"), None, false);
    }
    let mut ext = b0.clone();
    ext.extend([0xAAu8; 8]);
    rep.class("extended input: only the advertised size consumed");
    let g: Pt = Some((toy::e_to_flat(t.meta.gen_x, t.deg), toy::e_to_flat(t.meta.gen_y, t.deg)));
    cx.offer(rep, &ext, Validate::Yes, false, "extended", Expect::Accept, Some(&g), false);
}

// ------------------------------------------------------------------------------------------------
// pairing outputs

fn gt_item(rep: &mut Report, rng: &mut Rng, args: &Args, g: &dyn GAd) {
    let fi = g.info().clone();
    rep.config(&format!("PairingOutput<{}>", g.name()));
    let dp = format!("deser/gt/{}", g.name());
    let cof = g.cofactor_exponent();
    let size = fi.size(0);
    let one_raw: Vec<Vec<u64>> = (0..fi.dim).map(|i| fi.to_mont(&if i == 0 { UInt::one() } else { UInt::zero() })).collect();
    let n = bud(args, 12, 160);
    for i in 0..n {
        let u: Vec<UInt> = (0..fi.dim).map(|_| rand_below(rng, &fi.p)).collect();
        let raw: Vec<Vec<u64>> = u.iter().map(|c| fi.to_mont(c)).collect();
        let raw = match i % 4 {
            0 => g.pow(&raw, &cof),
            1 => raw,
            2 => {
                // an element of the cyclotomic-ish complement: u^r (order coprime to r unless u is special)
                g.pow(&raw, g.r())
            },
            _ => {
                if i == 3 {
                    (0..fi.dim).map(|_| fi.to_mont(&UInt::zero())).collect()
                } else {
                    // -1
                    (0..fi.dim).map(|k| fi.to_mont(&if k == 0 { &fi.p - UInt::one() } else { UInt::zero() })).collect()
                }
            },
        };
        // oracle-side membership: x^r == 1 by the plain field power
        let torsion = g.pow(&raw, g.r()) == one_raw;
        let v: Vec<UInt> = raw.iter().map(|l| fi.from_mont(l)).collect();
        let bytes = enc::field(&fi, &v, 0, 0);
        for c in [Compress::Yes, Compress::No] {
            for val in [Validate::Yes, Validate::No] {
                rep.eval(digest(&(g.name(), c == Compress::Yes, val == Validate::Yes, &bytes)), true);
                let det = |extra: Value| json!({"engine": g.name(), "mode": cname(c), "validate": vname(val), "value": hexu(&v), "r_torsion": torsion, "more": extra});
                match g.deser(&bytes, c, val, size) {
                    Err(p) => {
                        if p.in_harness() {
                            rep.harness_errors.push(format!("gt {}: harness panic {}", g.name(), p.msg));
                        } else {
                            rep.violation(format!("{dp}/panic"), det(p.to_json()));
                        }
                    },
                    Ok(d) => {
                        if d.consumed > size || d.over_budget {
                            rep.violation(format!("{dp}/reads-past-advertised-size"), det(json!({"consumed": d.consumed})));
                        }
                        let accept = val == Validate::No || torsion;
                        if val == Validate::Yes {
                            rep.class(if torsion { "pairing output: r-torsion accepted" } else { "pairing output: non-r-torsion rejected" });
                        }
                        match (&d.result, accept) {
                            (Ok((raw2, _)), true) => {
                                if raw2 != &raw {
                                    rep.violation(format!("{dp}/wrong-value"), det(json!({})));
                                }
                            },
                            (Ok(_), false) => rep.violation(format!("{dp}/validate/accepts-non-r-torsion"), det(json!({}))),
                            (Err(e), true) => rep.violation(format!("{dp}/rejects-valid"), det(json!({"error": e}))),
                            (Err(_), false) => {},
                        }
                    },
                }
            }
        }
    }
    // containers: validation of a Vec / array goes through batch_check; two invalid elements whose product is 1
    // (t and 1/t for a t outside the r-torsion) must still be rejected, two valid ones accepted
    {
        let mut q = UInt::one();
        for _ in 0..fi.dim {
            q *= &fi.p;
        }
        for k in 0..bud(args, 2, 12) {
            let t: Vec<Vec<u64>> = (0..fi.dim).map(|_| fi.to_mont(&rand_below(rng, &fi.p))).collect();
            if t.iter().all(|l| oracle::from_limbs(l).is_zero()) {
                continue;
            }
            let tinv = g.pow(&t, &(&q - UInt::from(2u8)));
            let good = g.pow(&t, &cof);
            let good2 = g.pow(&good, &UInt::from(7u8));
            let t_is_torsion = g.pow(&t, g.r()) == one_raw;
            for (pair, valid, what) in [((&t, &tinv), t_is_torsion, "t and 1/t outside the r-torsion"), ((&good, &good2), true, "two r-torsion elements")] {
                let (Ok(b0), Ok(b1)) = (g.ser(pair.0, Compress::Yes), g.ser(pair.1, Compress::Yes)) else { continue };
                for kind in [0u8, 1] {
                    let bytes: Vec<u8> = if kind == 0 { [2u64.to_le_bytes().to_vec(), b0.bytes.clone(), b1.bytes.clone()].concat() } else { [b0.bytes.clone(), b1.bytes.clone()].concat() };
                    for val in [Validate::Yes, Validate::No] {
                        rep.eval(digest(&(g.name(), "gt-container", k, kind, val == Validate::Yes, valid)), true);
                        rep.class(if valid { "pairing outputs in a container: all valid" } else { "pairing outputs in a container: invalid elements whose product is 1" });
                        let must_accept = valid || val == Validate::No;
                        let det = || json!({"engine": g.name(), "container": if kind == 0 { "Vec" } else { "array" }, "validate": val == Validate::Yes, "elements": what});
                        match g.deser_container(&bytes, kind, Compress::Yes, val) {
                            Err(p) => {
                                if !p.in_harness() {
                                    rep.violation(format!("{dp}/container/panic"), json!({"engine": g.name(), "panic": p.to_json()}));
                                }
                            },
                            Ok(Ok(_)) if !must_accept => rep.violation(format!("{dp}/container/validate/accepts-non-r-torsion"), det()),
                            Ok(Err(e)) if must_accept => rep.violation(format!("{dp}/container/rejects-valid"), { let mut d = det(); d["error"] = json!(e); d }),
                            _ => {},
                        }
                    }
                }
            }
        }
    }
    // hostile bytes: truncation, integers >= p, uniform
    let base = enc::field(&fi, &(0..fi.dim).map(|_| rand_below(rng, &fi.p)).collect::<Vec<_>>(), 0, 0);
    let mut cases: Vec<(Vec<u8>, bool)> = vec![];
    for k in (0..size).step_by((size / 48).max(1)) {
        cases.push((base[..k].to_vec(), true));
    }
    let mut ff = base.clone();
    let cb = fi.coord_bytes(0);
    for x in ff[..cb].iter_mut() {
        *x = 0xff;
    }
    cases.push((ff, true));
    cases.push((vec![0xff; size], true));
    for _ in 0..16 {
        cases.push(((0..size).map(|_| rng.next_u32() as u8).collect(), false));
    }
    for (b, must_err) in cases {
        for val in [Validate::Yes, Validate::No] {
            rep.eval(digest(&(g.name(), "hostile", val == Validate::Yes, &b)), true);
            match g.deser(&b, Compress::Yes, val, size) {
                Err(p) => {
                    if !p.in_harness() {
                        rep.violation(format!("{dp}/panic"), json!({"engine": g.name(), "bytes": hex_bytes(&b), "panic": p.to_json()}));
                    }
                },
                Ok(d) => {
                    if let Ok((raw, _)) = &d.result {
                        if must_err {
                            rep.violation(format!("{dp}/accepts-malformed"), json!({"engine": g.name(), "bytes": hex_bytes(&b)}));
                        }
                        if !raw.iter().all(|l| oracle::from_limbs(l) < fi.p) {
                            rep.violation(format!("{dp}/returns-unreduced"), json!({"engine": g.name(), "bytes": hex_bytes(&b)}));
                        }
                        if val == Validate::Yes && g.pow(raw, g.r()) != one_raw {
                            rep.violation(format!("{dp}/validate/accepts-non-r-torsion"), json!({"engine": g.name(), "bytes": hex_bytes(&b)}));
                        }
                    }
                },
            }
        }
    }
}
