//! C18 — container and derive-macro serializations round-trip, size exactly, fail cleanly.
use crate::alloc;
use crate::child::{self, Case, ChildOut};
use crate::io::CountingWriter;
use crate::probe::{cm, cname, probe_deser, vm, vname, Outcome, Probe};
use crate::common::bud;
use crate::tv::*;
use ark_ff::BigInt;
use ark_serialize::{
    CanonicalDeserialize, CanonicalSerialize, Compress, CompressedChecked, CompressedUnchecked, UncompressedChecked,
    UncompressedUnchecked, Validate,
};
use ark_std::rand::RngCore;
use monitor::*;
use num_bigint::BigUint;
use std::borrow::Cow;
use std::collections::{BTreeMap, BTreeSet, LinkedList, VecDeque};
use std::marker::PhantomData;
use std::rc::Rc;
use std::sync::Arc;

pub const RULE: &str = "cases = (composite type, mode, value) for round trips and (composite type, mode, validate, byte string) for \
malformed input; values come from a recursive generator (nesting depth <= 4, lengths {0,1,2,3,255,256,1000} at the outermost \
container); expected bytes from an independent encoder (LE integers, u64 length prefixes, bool byte, option tag, usize as u64, \
pinned inner mode of the wrapper types); malformed input = every truncation length, bool bytes 2..255, invalid UTF-8, length \
prefixes {n+1, 2^24, 2^32, 2^40, 2^60, u64::MAX} at every nesting level (child process, RLIMIT_AS 4 GiB, allocation cap 1 GiB), bit \
flips, uniform bytes; allocation bound: largest single request <= 64*len(input) + 1 MiB; non-trivial = non-empty byte string; \
distinct = digest of (type, mode, validate, bytes)";

pub struct TypeEntry {
    pub name: String,
    pub kind: &'static str,
    pub run: fn(usize, &mut Report, &mut Rng, &Args),
    pub probe: fn(&[u8], bool, bool) -> Probe,
}

fn probe_t<T: Tv>(bytes: &[u8], c: bool, v: bool) -> Probe {
    probe_deser::<T>(bytes, cm(c), vm(v), bytes.len()).1
}

fn entry<T: Tv>() -> TypeEntry {
    TypeEntry { name: T::tname(), kind: T::KIND, run: run_type::<T>, probe: probe_t::<T> }
}

macro_rules! types {
    ($($t:ty),* $(,)?) => { vec![$(entry::<$t>()),*] };
}

pub fn registry() -> Vec<TypeEntry> {
    types![
        u8, u16, u32, u64, i8, i16, i32, i64, usize, isize, bool, (), PhantomData<u64>,
        Option<u8>, Option<Option<bool>>, Option<Vec<u16>>,
        (u8,), (u8, u16), (bool, u32, String), (u8, Option<u16>, Vec<u8>, i64), (u8, u16, u32, u64), (u64, u8, bool, u16), (u8, u16, u32, u64, bool),
        [u8; 0], [u8; 1], [u16; 3], [u8; 32], [Option<bool>; 3], [Vec<u8>; 3], [ToyPt; 3],
        Vec<u8>, Vec<u64>, Vec<bool>, Vec<()>, Vec<Option<u32>>, Vec<Vec<u8>>, Vec<Vec<Vec<u16>>>, Vec<String>,
        Vec<(u8, String)>, Vec<Fr255>, Vec<ToyPt>,
        VecDeque<u8>, VecDeque<u64>, VecDeque<Vec<bool>>, VecDeque<String>, VecDeque<()>, VecDeque<PhantomData<u64>>, VecDeque<UnitS>,
        LinkedList<u8>, LinkedList<u32>, LinkedList<Vec<u8>>, LinkedList<()>, BTreeSet<()>, BTreeMap<u8, ()>, Vec<UnitS>, Option<()>, [(); 3],
        String, Option<String>,
        BTreeMap<u8, u16>, BTreeMap<u32, String>, BTreeMap<String, Vec<u8>>, BTreeMap<u16, BTreeSet<u8>>,
        BTreeMap<u8, BTreeMap<u8, Vec<u8>>>,
        BTreeSet<u8>, BTreeSet<u64>, BTreeSet<String>, BTreeSet<Vec<u8>>,
        BigUint, Vec<BigUint>, BigInt<1>, BigInt<4>, BigInt<6>, Vec<BigInt<2>>,
        Arc<u64>, Arc<Vec<u8>>, Vec<Arc<String>>, Cow<'static, u32>, Cow<'static, Vec<u16>>, Cow<'static, String>,
        CompressedChecked<ToyPt>, CompressedUnchecked<ToyPt>, UncompressedChecked<ToyPt>, UncompressedUnchecked<ToyPt>,
        Vec<CompressedChecked<ToyPt>>, Vec<UncompressedUnchecked<ToyPt>>, CompressedChecked<Vec<ToyPt>>,
        UncompressedChecked<(ToyPt, Vec<u8>)>,
        ToyPt, Fr255,
        Named, TupS, NestedTup, TupNested, GenS<u8, u16>, GenS<Vec<u8>, Option<String>>, GenS<ToyPt, Named>, Outer, UnitS,
        Vec<Named>, Option<Outer>, BTreeMap<u8, TupS>, Vec<NestedTup>, VecDeque<TupNested>,
        Vec<Option<BTreeMap<u8, Vec<u8>>>>,
    ]
}

pub fn child_probe(idx: usize, bytes: &[u8], c: bool, v: bool) -> Probe {
    // the registry is rebuilt per call only in the child; cheap (function pointers)
    thread_local! { static REG: Vec<TypeEntry> = registry(); }
    REG.with(|r| (r[idx].probe)(bytes, c, v))
}

pub const REQUIRED: &[&str] = &[
    "round trip: value == deser(ser(value))",
    "size: serialized_size == bytes written",
    "encoding: bytes == independent expected encoding",
    "malformed: truncated at every length -> Err",
    "malformed: bool byte in 2..255 -> Err",
    "malformed: invalid UTF-8 -> Err",
    "malformed: oversize length prefix -> Err",
    "malformed: length prefix n+1",
    "malformed: uniform bytes",
    "malformed: bit flip",
    "value: empty container",
    "value: container of length >= 255",
    "value: sequence longer than 65536 bytes / 8192 words (beyond the pre-allocation cap)",
    "value: nesting depth >= 4",
    "value: multi-byte UTF-8",
    "value: VecDeque with a wrapped ring buffer (as_slices().1 non-empty)",
    "wrapper: pinned mode differs from outer mode",
    "serialize-only: Rc / & / &mut / &[T]",
    "validation reaches container elements",
];

pub fn items(args: &Args) -> Vec<Item> {
    let whole = args.only.is_none();
    let mut v: Vec<Item> = vec![];
    for (idx, e) in registry().into_iter().enumerate() {
        let run = e.run;
        v.push(Item::new(format!("container/{}", e.name), move |rep, rng, args| {
            if whole {
                for c in REQUIRED {
                    rep.require(c);
                }
            }
            run(idx, rep, rng, args)
        }));
    }
    v.push(Item::new("large-sequences", |rep, rng, args| large_sequences(rep, rng, args)));
    v.push(Item::new("serialize-only", |rep, rng, args| serialize_only(rep, rng, args)));
    v.push(Item::new("wrapper-validation", |rep, rng, args| wrapper_validation(rep, rng, args)));
    v
}

struct Pending {
    case: Case,
    /// container whose prefix was tampered with / culprit attribution
    site: String,
    what: &'static str,
    must_err: bool,
}

fn sig(site: &str, what: &str, kind: &str) -> String {
    if site.starts_with("derive/") {
        format!("ser/{site}/{what}/{kind}")
    } else {
        format!("ser/container/{site}/{what}/{kind}")
    }
}
fn sig2(site: &str, kind: &str) -> String {
    if site.starts_with("derive/") {
        format!("ser/{site}/{kind}")
    } else {
        format!("ser/container/{site}/{kind}")
    }
}

fn detail(tname: &str, c: Compress, v: Validate, input: &[u8], p: &Probe) -> Value {
    let shown = if input.len() > 600 { &input[..600] } else { input };
    json!({"type": tname, "mode": cname(c), "validate": vname(v), "input_len": input.len(), "input": hex_bytes(shown),
           "outcome": format!("{:?}", p.outcome), "max_single_alloc": p.max_single, "alloc_bound": alloc::bound(input.len()),
           "consumed": p.consumed})
}

/// Judge one probe of malformed input. Allocation-type failures (capacity-overflow panic, request
/// above the bound) are filed under `oversize-length` of the container at `site` whatever produced
/// the hostile prefix (explicit value, bit flip, uniform bytes): the mechanism is the same.
#[allow(clippy::too_many_arguments)]
fn judge(rep: &mut Report, tname: &str, site: &str, what: &str, must_err: bool, c: Compress, v: Validate, input: &[u8], p: &Probe, hostile: bool) {
    rep.eval(digest(&(tname, what, c == Compress::Yes, v == Validate::Yes, input)), !input.is_empty());
    match &p.outcome {
        Outcome::Panic(m) => {
            let w = if hostile && m.contains("capacity overflow") { "oversize-length" } else { what };
            let s = sig(site, w, "panic");
            let mut d = detail(tname, c, v, input, p);
            if !rep.violations.contains_key(&s) && !m.contains('@') {
                // the child reports only the message; replay in-process (a panic is catchable) for the site
                if let Some(e) = registry().into_iter().find(|e| e.name == tname) {
                    let again = (e.probe)(input, c == Compress::Yes, v == Validate::Yes);
                    if let Value::Object(o) = &mut d {
                        o.insert("in_process_replay".into(), json!(format!("{:?}", again.outcome)));
                    }
                }
            }
            rep.violation(s, d)
        },
        Outcome::HarnessPanic(m) => rep.harness_errors.push(format!("{tname}/{what}: harness panic {m}")),
        Outcome::Ok => {
            if must_err {
                rep.violation(sig(site, what, "accepted"), detail(tname, c, v, input, p));
            }
        },
        Outcome::Err(_) => {},
    }
    if p.over_budget {
        rep.violation(sig(site, what, "over-read"), detail(tname, c, v, input, p));
    }
    if p.max_single > alloc::bound(input.len()) && !matches!(p.outcome, Outcome::Panic(_) | Outcome::HarnessPanic(_)) {
        let w = if hostile { "oversize-length" } else { what };
        rep.violation(sig(site, w, "alloc-unbounded"), detail(tname, c, v, input, p));
    }
}

fn run_type<T: Tv>(idx: usize, rep: &mut Report, rng: &mut Rng, args: &Args) {
    let tname = T::tname();
    rep.config(&tname);
    let nvals = bud(args, 32, 600);
    let mut pend: Vec<Pending> = vec![];
    let hostile_ok = T::hostile_ok();
    let probe: &dyn Fn(&[u8], Compress, Validate) -> Probe = &|b, c, v| probe_deser::<T>(b, c, v, b.len()).1;
    // Some(kind) when every length-prefixed container in T is of that one kind (or T has none: its own kind)
    let homogeneous: Option<String> = {
        let mut k = vec![];
        T::len_kinds(&mut k);
        k.sort();
        k.dedup();
        match k.len() {
            0 => Some(T::KIND.to_string()),
            1 => Some(k[0].to_string()),
            _ => None,
        }
    };
    for i in 0..nvals {
        let big = i % 4 == 1;
        let val = match rep.total(&sig2(T::KIND, "generate"), || json!({"type": tname}), || T::gen(&mut G { rng, depth: 0, big })) {
            Some(v) => v,
            None => continue,
        };
        for c in [Compress::Yes, Compress::No] {
            let mut e = Enc::new();
            val.enc(c, &mut e);
            // ---- serialize: size, bytes
            let size = rep.total(&sig2(T::KIND, "serialized_size"), || json!({"type": tname}), || crate::api::size(&val, c));
            let mut w = CountingWriter::new();
            let sr = rep.total(&sig2(T::KIND, "serialize"), || json!({"type": tname, "value": format!("{val:?}")}), || {
                crate::api::ser(&val, &mut w, c)
            });
            let (Some(size), Some(sr)) = (size, sr) else { continue };
            rep.op("serialize");
            rep.eval(digest(&(&tname, "ser", c == Compress::Yes, &e.bytes)), !e.bytes.is_empty());
            if let Err(err) = sr {
                rep.violation(sig2(T::KIND, "serialize-error"), json!({"type": tname, "error": format!("{err:?}")}));
                continue;
            }
            value_classes(rep, &e);
            rep.class("size: serialized_size == bytes written");
            if size != w.buf.len() {
                // innermost node whose own size report disagrees with the independent encoding
                let site = e.size_mismatch.first().map(|m| m.0).unwrap_or(T::KIND);
                rep.violation(
                    sig2(site, "size"),
                    json!({"type": tname, "mode": cname(c), "serialized_size": size, "bytes_written": w.buf.len(),
                           "expected_len": e.bytes.len(), "inner_mismatch": format!("{:?}", e.size_mismatch),
                           "value": trunc(format!("{val:?}"))}),
                );
            } else if let Some(m) = e.size_mismatch.first() {
                rep.violation(
                    sig2(m.0, "size"),
                    json!({"type": tname, "mode": cname(c), "inner serialized_size": m.1, "inner expected": m.2, "value": trunc(format!("{val:?}"))}),
                );
            }
            rep.class("encoding: bytes == independent expected encoding");
            if w.buf != e.bytes {
                let off = w.buf.iter().zip(e.bytes.iter()).position(|(a, b)| a != b).unwrap_or(w.buf.len().min(e.bytes.len()));
                let site = e.node_at(off).map(|n| n.kind).unwrap_or(T::KIND);
                rep.violation(
                    sig2(site, "encoding"),
                    json!({"type": tname, "mode": cname(c), "first_difference_at": off, "got": hex_bytes(&w.buf[..w.buf.len().min(400)]),
                           "expected": hex_bytes(&e.bytes[..e.bytes.len().min(400)]), "value": trunc(format!("{val:?}"))}),
                );
            }
            // ---- the hash extension trait streams the same bytes into a digest
            if w.buf == e.bytes && i % 4 == 0 {
                use ark_serialize::CanonicalSerializeHashExt;
                use sha2::Digest;
                let got = rep.total(&sig2(T::KIND, "hash-ext"), || json!({"type": tname}), || match c {
                    Compress::Yes => val.hash::<sha2::Sha256>().to_vec(),
                    Compress::No => val.hash_uncompressed::<sha2::Sha256>().to_vec(),
                });
                if let Some(got) = got {
                    rep.op("CanonicalSerializeHashExt");
                    if got != sha2::Sha256::digest(&e.bytes).to_vec() {
                        rep.violation(sig2(T::KIND, "hash-ext/value"), json!({"type": tname, "mode": cname(c), "value": trunc(format!("{val:?}"))}));
                    }
                }
            }
            // ---- round trip in both validation modes
            let bytes = w.buf.clone();
            for v in [Validate::Yes, Validate::No] {
                let (back, p) = probe_deser::<T>(&bytes, c, v, bytes.len());
                rep.op("deserialize");
                rep.eval(digest(&(&tname, "rt", c == Compress::Yes, v == Validate::Yes, &bytes)), !bytes.is_empty());
                rep.class("round trip: value == deser(ser(value))");
                match (&p.outcome, back) {
                    (Outcome::Ok, Some(b)) => {
                        if b != val {
                            rep.violation(
                                sig2(T::KIND, "round-trip"),
                                json!({"type": tname, "mode": cname(c), "validate": vname(v), "bytes": hex_bytes(&bytes[..bytes.len().min(400)]),
                                       "value": trunc(format!("{val:?}")), "got": trunc(format!("{b:?}"))}),
                            );
                        }
                        if p.consumed != bytes.len() {
                            rep.violation(
                                sig2(T::KIND, "round-trip-consumed"),
                                json!({"type": tname, "mode": cname(c), "consumed": p.consumed, "len": bytes.len()}),
                            );
                        }
                    },
                    (Outcome::HarnessPanic(m), _) => rep.harness_errors.push(format!("{tname}: harness panic {m}")),
                    (Outcome::Panic(_), _) => rep.violation(sig2(T::KIND, "round-trip/panic"), detail(&tname, c, v, &bytes, &p)),
                    _ => rep.violation(sig2(T::KIND, "round-trip/rejected"), detail(&tname, c, v, &bytes, &p)),
                }
                if p.max_single > alloc::bound(bytes.len()) {
                    rep.violation(sig2(T::KIND, "round-trip/alloc-unbounded"), detail(&tname, c, v, &bytes, &p));
                }
            }
            // ---- malformed input derived from this encoding (use the independent encoding: its marks are exact)
            if w.buf == e.bytes {
                malformed(rep, rng, args, &tname, T::KIND, c, &e, hostile_ok, probe, idx, &mut pend, i, &homogeneous);
            }
        }
    }
    // ---- uniform bytes (child: a random prefix is almost surely an oversize length)
    if let (true, Some(site)) = (hostile_ok, homogeneous.clone()) {
        let n = bud(args, 48, 800);
        for k in 0..n {
            let len = match k % 4 {
                0 => rng.next_u32() as usize % 16,
                1 => 16 + rng.next_u32() as usize % 48,
                2 => T::min_size() + rng.next_u32() as usize % 9,
                _ => rng.next_u32() as usize % 300,
            };
            let bytes: Vec<u8> = (0..len).map(|_| rng.next_u32() as u8).collect();
            pend.push(Pending {
                case: Case { type_idx: idx, compress: k % 2 == 0, validate: k % 3 != 0, bytes },
                site: site.clone(),
                what: "uniform-bytes",
                must_err: false,
            });
        }
    }
    run_pending(rep, &tname, pend);
}

/// Sequences longer than any internal pre-allocation bound (the deserializers cap their initial capacity at
/// 64 KiB worth of elements): the length prefix, not the cap, decides how many elements are read.
fn large_sequences(rep: &mut Report, rng: &mut Rng, _args: &Args) {
    fn rt<T: CanonicalSerialize + CanonicalDeserialize + PartialEq>(rep: &mut Report, name: &str, len: usize, val: &T) {
        for c in [Compress::Yes, Compress::No] {
            let det = || json!({"type": name, "elements": len, "mode": cname(c)});
            let mut buf: Vec<u8> = vec![];
            let size = crate::api::size(val, c);
            let Some(r) = rep.total(&format!("ser/container/{name}/serialize"), det, || crate::api::ser(val, &mut buf, c)) else { continue };
            rep.eval(digest(&("large", name, len, c == Compress::Yes)), true);
            rep.class("value: sequence longer than 65536 bytes / 8192 words (beyond the pre-allocation cap)");
            if r.is_err() || size != buf.len() {
                rep.violation(format!("ser/container/{name}/size"), json!({"type": name, "elements": len, "serialized_size": size, "bytes_written": buf.len()}));
                continue;
            }
            for v in [Validate::Yes, Validate::No] {
                let mut rd = &buf[..];
                match rep.total(&format!("ser/container/{name}/deserialize"), det, || crate::api::de::<T, _>(&mut rd, c, v)) {
                    Some(Ok(back)) => {
                        if back != *val {
                            rep.violation(format!("ser/container/{name}/round-trip"), json!({"type": name, "elements": len, "mode": cname(c), "validate": vname(v), "note": "a long sequence came back different (truncated?)"}));
                        } else if !rd.is_empty() {
                            rep.violation(format!("ser/container/{name}/round-trip-consumed"), json!({"type": name, "elements": len, "left_unread": rd.len()}));
                        }
                    },
                    Some(Err(e)) => rep.violation(format!("ser/container/{name}/round-trip/rejected"), json!({"type": name, "elements": len, "error": format!("{e:?}")})),
                    None => {},
                }
            }
        }
    }
    for len in [65_535usize, 65_536, 65_537, 70_001] {
        let v: Vec<u8> = (0..len).map(|_| rng.next_u32() as u8).collect();
        rt(rep, "Vec", len, &v);
        rt(rep, "VecDeque", len, &v.iter().copied().collect::<VecDeque<u8>>());
        rt(rep, "LinkedList", len, &v.iter().copied().collect::<LinkedList<u8>>());
        let s: String = (0..len).map(|i| (b'a' + (i % 26) as u8) as char).collect();
        rt(rep, "String", len, &s);
        let mut bytes = v.clone();
        *bytes.last_mut().unwrap() |= 1;
        rt(rep, "BigUint", len, &BigUint::from_bytes_le(&bytes));
    }
    for len in [8191usize, 8192, 8193, 10_007] {
        let v: Vec<u64> = (0..len).map(|_| rng.next_u64()).collect();
        rt(rep, "Vec", len, &v);
        rt(rep, "VecDeque", len, &v.iter().copied().collect::<VecDeque<u64>>());
        rt(rep, "BTreeSet", len, &v.iter().copied().collect::<BTreeSet<u64>>());
        rt(rep, "BTreeMap", len, &v.iter().map(|x| (*x, *x as u8)).collect::<BTreeMap<u64, u8>>());
    }
    for len in [2047usize, 2048, 2049, 3001] {
        let v: Vec<[u8; 32]> = (0..len).map(|_| core::array::from_fn(|_| rng.next_u32() as u8)).collect();
        rt(rep, "Vec", len, &v);
        let w: Vec<(u64, u64, u64, u64)> = (0..len).map(|_| (rng.next_u64(), rng.next_u64(), rng.next_u64(), rng.next_u64())).collect();
        rt(rep, "Vec", len, &w);
    }
    let z: Vec<()> = vec![(); 100_003];
    rt(rep, "Vec", z.len(), &z);
}

fn trunc(s: String) -> String {
    if s.chars().count() > 400 {
        let mut t: String = s.chars().take(400).collect();
        t.push_str("...");
        t
    } else {
        s
    }
}

fn value_classes(rep: &mut Report, e: &Enc) {
    for m in &e.marks {
        match &m.kind {
            MarkKind::Len { n, .. } => {
                rep.class_if(*n == 0, "value: empty container");
                rep.class_if(*n >= 255, "value: container of length >= 255");
            },
            MarkKind::Utf8 { len } => {
                if *len > 0 && e.bytes[m.pos..m.pos + len].iter().any(|b| *b >= 0x80) {
                    rep.class("value: multi-byte UTF-8");
                }
            },
            _ => {},
        }
    }
    rep.class_if(e.max_depth >= 4, "value: nesting depth >= 4");
    rep.class_if(e.wrapped_deque, "value: VecDeque with a wrapped ring buffer (as_slices().1 non-empty)");
}

#[allow(clippy::too_many_arguments)]
fn malformed(
    rep: &mut Report,
    rng: &mut Rng,
    args: &Args,
    tname: &str,
    top: &'static str,
    c: Compress,
    e: &Enc,
    hostile_ok: bool,
    probe: &dyn Fn(&[u8], Compress, Validate) -> Probe,
    idx: usize,
    pend: &mut Vec<Pending>,
    round: usize,
    homogeneous: &Option<String>,
) {
    let b = &e.bytes;
    let n = b.len();
    // every truncation length
    let lens: Vec<usize> = if n <= 160 {
        (0..n).collect()
    } else {
        let mut l: Vec<usize> = (0..96).chain(n - 48..n).collect();
        for _ in 0..24 {
            l.push(96 + rng.next_u32() as usize % (n - 144));
        }
        l
    };
    for k in lens {
        let v = if k % 2 == 0 { Validate::Yes } else { Validate::No };
        let p = probe(&b[..k], c, v);
        rep.class("malformed: truncated at every length -> Err");
        judge(rep, tname, top, "truncated", true, c, v, &b[..k], &p, false);
    }
    // bool bytes 2..255
    let bool_marks: Vec<usize> = e.marks.iter().filter(|m| matches!(m.kind, MarkKind::Bool)).map(|m| m.pos).collect();
    if !bool_marks.is_empty() {
        let picks = bool_marks.len().min(bud(args, 3, 6));
        for j in 0..picks {
            let pos = if j == 0 { bool_marks[0] } else { bool_marks[rng.next_u32() as usize % bool_marks.len()] };
            let vals: Vec<u8> = if !args.quick() || (round == 0 && j == 0) {
                (2..=255).collect()
            } else {
                vec![2, 3, 0x80, 0xff, 2 + (rng.next_u32() % 254) as u8]
            };
            for bv in vals {
                let mut m = b.clone();
                m[pos] = bv;
                let p = probe(&m, c, Validate::Yes);
                rep.class("malformed: bool byte in 2..255 -> Err");
                judge(rep, tname, "bool", "invalid-byte", true, c, Validate::Yes, &m, &p, false);
            }
        }
    }
    // invalid UTF-8
    for mk in e.marks.iter() {
        if let MarkKind::Utf8 { len } = mk.kind {
            if len == 0 {
                continue;
            }
            for variant in 0..4 {
                let mut m = b.clone();
                let at = mk.pos + rng.next_u32() as usize % len;
                match variant {
                    0 => m[at] = 0xff,
                    1 => m[at] = 0xc0,
                    2 => m[mk.pos + len - 1] = 0xe2,
                    _ => m[mk.pos] = 0x80,
                }
                if std::str::from_utf8(&m[mk.pos..mk.pos + len]).is_ok() {
                    continue;
                }
                let p = probe(&m, c, Validate::Yes);
                rep.class("malformed: invalid UTF-8 -> Err");
                judge(rep, tname, "String", "invalid-utf8", true, c, Validate::Yes, &m, &p, false);
            }
        }
    }
    if cfg!(miri) {
        return;
    }
    // hostile length prefixes (child process). The input is cut right after the tampered container, so
    // that everything before it and inside it parses exactly as in the valid encoding and only the
    // tampered container itself can react to its prefix (exact attribution).
    if round >= bud(args, 3, 12) {
        return;
    }
    let len_marks: Vec<&Mark> = e.marks.iter().filter(|m| matches!(m.kind, MarkKind::Len { .. })).collect();
    let max_marks = bud(args, 3, 8);
    let chosen: Vec<&Mark> = if len_marks.len() <= max_marks {
        len_marks
    } else {
        // always the first (outermost) and the deepest, the rest at random
        let mut v = vec![len_marks[0]];
        let deepest = len_marks.iter().max_by_key(|m| m.depth).unwrap();
        v.push(deepest);
        for _ in 2..max_marks {
            v.push(len_marks[rng.next_u32() as usize % len_marks.len()]);
        }
        v
    };
    for mk in chosen {
        let MarkKind::Len { container, n: cnt, elem_min } = &mk.kind else { continue };
        if *elem_min == 0 {
            continue;
        }
        let Some(node) = e.nodes.iter().filter(|nd| nd.start == mk.pos && nd.kind == *container).max_by_key(|nd| nd.end) else {
            rep.harness_errors.push(format!("{tname}: no node for the {container} prefix at {}", mk.pos));
            continue;
        };
        let cut = &b[..node.end];
        let put = |val: u64, what: &'static str, pend: &mut Vec<Pending>| {
            let mut m = cut.to_vec();
            m[mk.pos..mk.pos + 8].copy_from_slice(&val.to_le_bytes());
            // with at least one byte per element the input cannot hold that many elements
            let must_err = val > *cnt;
            pend.push(Pending {
                case: Case { type_idx: idx, compress: c == Compress::Yes, validate: (val ^ mk.pos as u64) % 2 == 0, bytes: m },
                site: container.to_string(),
                what,
                must_err,
            });
        };
        put(cnt + 1, "length-plus-one", pend);
        for big in [1u64 << 24, 1 << 32, 1 << 40, 1 << 60, u64::MAX, (1 << 32) + 1] {
            put(big, "oversize-length", pend);
        }
    }
    // bit flips of the valid encoding (child); only for types whose length-prefixed containers are all of
    // one kind, so that a misparse after the flip cannot be blamed on the wrong container
    if hostile_ok && homogeneous.is_some() && n > 0 {
        for _ in 0..bud(args, 6, 12) {
            let bit = rng.next_u32() as usize % (8 * n);
            let mut m = b.clone();
            m[bit / 8] ^= 1 << (bit % 8);
            pend.push(Pending {
                case: Case { type_idx: idx, compress: c == Compress::Yes, validate: bit % 2 == 0, bytes: m },
                site: homogeneous.clone().unwrap(),
                what: "bit-flip",
                must_err: false,
            });
        }
    }
}

fn run_pending(rep: &mut Report, tname: &str, pend: Vec<Pending>) {
    if pend.is_empty() || cfg!(miri) {
        return;
    }
    let cases: Vec<Case> = pend.iter().map(|p| p.case.clone()).collect();
    let outs = child::run_batch(&cases);
    for (p, o) in pend.iter().zip(outs.iter()) {
        let (c, v) = (cm(p.case.compress), vm(p.case.validate));
        match p.what {
            "oversize-length" => rep.class("malformed: oversize length prefix -> Err"),
            "length-plus-one" => rep.class("malformed: length prefix n+1"),
            "uniform-bytes" => rep.class("malformed: uniform bytes"),
            _ => rep.class("malformed: bit flip"),
        }
        match o {
            ChildOut::Done(pr) => judge(rep, tname, &p.site, p.what, p.must_err, c, v, &p.case.bytes, pr, true),
            ChildOut::Aborted { how, cap } => {
                rep.eval(digest(&(tname, p.what, p.case.compress, p.case.validate, &p.case.bytes)), true);
                let b = &p.case.bytes;
                rep.violation(
                    sig(&p.site, "oversize-length", "alloc-abort"),
                    json!({"type": tname, "mode": cname(c), "validate": vname(v), "input_len": b.len(), "input": hex_bytes(&b[..b.len().min(600)]),
                           "child": how, "refused_allocation_request": cap, "alloc_bound": alloc::bound(b.len()),
                           "produced_by": p.what, "note": "the process aborted (allocation failure escapes catch_unwind); run in a child under RLIMIT_AS = 4 GiB, cap 1 GiB"}),
                );
            },
            ChildOut::Timeout => {
                let b = &p.case.bytes;
                rep.violation(
                    sig(&p.site, p.what, "no-result"),
                    json!({"type": tname, "mode": cname(c), "validate": vname(v), "input": hex_bytes(&b[..b.len().min(600)]), "watchdog_s": child::WATCHDOG.as_secs()}),
                );
            },
            ChildOut::Broken(m) => rep.harness_errors.push(format!("child process: {m}")),
        }
    }
    if outs.len() < pend.len() {
        rep.harness_errors.push(format!("{tname}: child returned {} of {} results", outs.len(), pend.len()));
    }
}

// ------------------------------------------------------------------------------------------------
// serialize-only wrappers: Rc<T>, &T, &mut T, &[T] produce the bytes / size of the referent

fn ser_of<S: CanonicalSerialize + ?Sized>(rep: &mut Report, what: &str, s: &S, c: Compress) -> Option<(Vec<u8>, usize)> {
    let mut w = CountingWriter::new();
    let size = rep.total(&format!("ser/container/{what}/serialized_size"), || json!({}), || crate::api::size(s, c))?;
    let r = rep.total(&format!("ser/container/{what}/serialize"), || json!({}), || crate::api::ser(s, &mut w, c))?;
    if r.is_err() {
        rep.violation(format!("ser/container/{what}/serialize-error"), json!({"error": format!("{r:?}")}));
        return None;
    }
    Some((w.buf, size))
}

/// The wrapper must produce what its referent produces (`own`), which in turn must be the expected
/// bytes; a defect of the referent's own serializer is reported by the container items, not here.
fn check_same(rep: &mut Report, what: &str, tname: &str, c: Compress, got: Option<(Vec<u8>, usize)>, exp: &[u8], own: &Option<(Vec<u8>, usize)>) {
    let Some((bytes, size)) = got else { return };
    rep.class("serialize-only: Rc / & / &mut / &[T]");
    rep.eval(digest(&(what, tname, c == Compress::Yes, exp)), !exp.is_empty());
    let inner_same = matches!(own, Some((b, s)) if *b == bytes && *s == size);
    if inner_same {
        return;
    }
    if bytes != exp {
        rep.violation(
            format!("ser/container/{what}/encoding"),
            json!({"type": tname, "mode": cname(c), "got": hex_bytes(&bytes[..bytes.len().min(300)]), "expected": hex_bytes(&exp[..exp.len().min(300)])}),
        );
    }
    if size != exp.len() {
        rep.violation(format!("ser/container/{what}/size"), json!({"type": tname, "mode": cname(c), "serialized_size": size, "expected": exp.len()}));
    }
}

fn ser_only_t<T: Tv + Clone>(rep: &mut Report, rng: &mut Rng, n: usize) {
    let tname = T::tname();
    for _ in 0..n {
        let mut val = T::gen(&mut G { rng, depth: 1, big: false });
        let items: Vec<T> = (0..(rng.next_u32() % 4) as usize).map(|_| T::gen(&mut G { rng, depth: 1, big: false })).collect();
        for c in [Compress::Yes, Compress::No] {
            let mut e = Enc::new();
            val.enc(c, &mut e);
            let exp = e.bytes.clone();
            let own = ser_of(rep, "referent", &val, c);
            let r = ser_of(rep, "ref", &&val, c);
            check_same(rep, "ref", &tname, c, r, &exp, &own);
            let rc = Rc::new(val.clone());
            let r = ser_of(rep, "Rc", &rc, c);
            check_same(rep, "Rc", &tname, c, r, &exp, &own);
            let r = {
                let m = &mut val;
                ser_of(rep, "ref-mut", &m, c)
            };
            check_same(rep, "ref-mut", &tname, c, r, &exp, &own);
            // slices: u64 length prefix followed by the elements (what the owning Vec produces)
            let mut es = Enc::new();
            es.bytes.extend_from_slice(&(items.len() as u64).to_le_bytes());
            for x in &items {
                x.enc(c, &mut es);
            }
            let own_vec = ser_of(rep, "referent", &items, c);
            let r = ser_of(rep, "slice", items.as_slice(), c);
            check_same(rep, "slice", &tname, c, r, &es.bytes, &own_vec);
            let sl: &[T] = items.as_slice();
            let r = ser_of(rep, "slice-ref", &sl, c);
            check_same(rep, "slice-ref", &tname, c, r, &es.bytes, &own_vec);
        }
    }
}

fn serialize_only(rep: &mut Report, rng: &mut Rng, args: &Args) {
    let n = bud(args, 40, 1000);
    ser_only_t::<u8>(rep, rng, n);
    ser_only_t::<u64>(rep, rng, n);
    ser_only_t::<bool>(rep, rng, n);
    ser_only_t::<String>(rep, rng, n);
    ser_only_t::<Vec<u16>>(rep, rng, n);
    ser_only_t::<Option<Vec<u8>>>(rep, rng, n);
    ser_only_t::<(u8, String)>(rep, rng, n);
    ser_only_t::<ToyPt>(rep, rng, n);
    ser_only_t::<Named>(rep, rng, n);
    ser_only_t::<NestedTup>(rep, rng, n);
    ser_only_t::<CompressedChecked<ToyPt>>(rep, rng, n);
}

// ------------------------------------------------------------------------------------------------
// mode-pinning wrappers: the validation mode is pinned too. A point of the curve outside the
// prime-order subgroup (sw_a_h2 has cofactor 2: the point of order two (x0, 0)) is accepted by the
// Unchecked wrappers whatever the outer mode and rejected by the Checked wrappers whatever the
// outer mode.

fn wrapper_validation(rep: &mut Report, _rng: &mut Rng, _args: &Args) {
    const P: u64 = 239;
    const A: u64 = 63;
    const B: u64 = 42;
    // all affine points by brute force; subgroup = multiples of the generator computed with the
    // textbook chord-and-tangent law on integers
    let mut pts = vec![];
    for x in 0..P {
        for y in 0..P {
            if (y * y) % P == (x * x % P * x + A * x + B) % P {
                pts.push((x, y));
            }
        }
    }
    let inv = |a: u64| -> u64 {
        let mut r = 1u64;
        let mut b = a % P;
        let mut e = P - 2;
        while e > 0 {
            if e & 1 == 1 {
                r = r * b % P;
            }
            b = b * b % P;
            e >>= 1;
        }
        r
    };
    let add = |p: Option<(u64, u64)>, q: Option<(u64, u64)>| -> Option<(u64, u64)> {
        match (p, q) {
            (None, q) => q,
            (p, None) => p,
            (Some((x1, y1)), Some((x2, y2))) => {
                let l = if x1 == x2 {
                    if (y1 + y2) % P == 0 {
                        return None;
                    }
                    (3 * x1 * x1 + A) % P * inv(2 * y1 % P) % P
                } else {
                    (y2 + P - y1) % P * inv((x2 + P - x1) % P) % P
                };
                let x3 = (l * l + 2 * P - x1 - x2) % P;
                let y3 = (l * ((x1 + P - x3) % P) + P - y1) % P;
                Some((x3, y3))
            },
        }
    };
    let g = Some((57u64, 4u64));
    let mut sub = std::collections::BTreeSet::new();
    let mut acc = None;
    for _ in 0..127 {
        acc = add(acc, g);
        if let Some(p) = acc {
            sub.insert(p);
        }
    }
    let outside: Vec<(u64, u64)> = pts.iter().copied().filter(|p| !sub.contains(p)).collect();
    if outside.is_empty() || sub.len() != 126 {
        rep.harness_errors.push(format!("wrapper-validation: toy enumeration wrong ({} points, {} in subgroup)", pts.len(), sub.len()));
        return;
    }
    let enc = |p: (u64, u64), c: Compress| -> Vec<u8> {
        let flag = if p.1 > (P - p.1) % P { 0x80 } else { 0 };
        match c {
            Compress::Yes => vec![p.0 as u8, flag],
            Compress::No => vec![p.0 as u8, p.1 as u8, flag],
        }
    };
    fn one<W: CanonicalDeserialize>(rep: &mut Report, name: &str, bytes: &[u8], must_accept: bool, in_subgroup: bool) {
        for oc in [Compress::Yes, Compress::No] {
            for ov in [Validate::Yes, Validate::No] {
                let (_, p) = probe_deser::<W>(bytes, oc, ov, bytes.len());
                rep.eval(digest(&(name, bytes, oc == Compress::Yes, ov == Validate::Yes)), true);
                rep.class("wrapper: pinned mode differs from outer mode");
                let ok = matches!(p.outcome, Outcome::Ok);
                if matches!(p.outcome, Outcome::Panic(_)) {
                    rep.violation(format!("ser/container/{name}/pinned-mode/panic"), json!({"bytes": hex_bytes(bytes), "outcome": format!("{:?}", p.outcome)}));
                } else if ok != must_accept {
                    rep.violation(
                        format!("ser/container/{name}/pinned-mode/{}", if must_accept { "rejected" } else { "accepted" }),
                        json!({"wrapper": name, "outer_mode": cname(oc), "outer_validate": vname(ov), "bytes": hex_bytes(bytes),
                               "point_in_subgroup": in_subgroup, "outcome": format!("{:?}", p.outcome)}),
                    );
                }
            }
        }
    }
    for (k, p) in outside.iter().enumerate().take(40).chain(sub.iter().enumerate().take(40)) {
        let inside = sub.contains(p);
        let _ = k;
        let bc = enc(*p, Compress::Yes);
        let bu = enc(*p, Compress::No);
        one::<CompressedChecked<ToyPt>>(rep, "CompressedChecked", &bc, inside, inside);
        one::<CompressedUnchecked<ToyPt>>(rep, "CompressedUnchecked", &bc, true, inside);
        one::<UncompressedChecked<ToyPt>>(rep, "UncompressedChecked", &bu, inside, inside);
        one::<UncompressedUnchecked<ToyPt>>(rep, "UncompressedUnchecked", &bu, true, inside);
    }
    // validation reaches the elements of every container (read unchecked, then validated as a batch):
    // one element outside the subgroup makes the whole value invalid under Validate::Yes and is
    // returned as is under Validate::No
    fn cont<W: CanonicalDeserialize>(rep: &mut Report, name: &str, c: Compress, bytes: &[u8], has_bad: bool) {
        for v in [Validate::Yes, Validate::No] {
            let (_, p) = probe_deser::<W>(bytes, c, v, bytes.len());
            rep.eval(digest(&(name, "elem-validation", bytes, c == Compress::Yes, v == Validate::Yes)), true);
            rep.class("validation reaches container elements");
            let must_accept = v == Validate::No || !has_bad;
            let ok = matches!(p.outcome, Outcome::Ok);
            if matches!(p.outcome, Outcome::Panic(_)) {
                rep.violation(format!("ser/container/{name}/element-validation/panic"), json!({"bytes": hex_bytes(bytes), "outcome": format!("{:?}", p.outcome)}));
            } else if ok != must_accept {
                rep.violation(
                    format!("ser/container/{name}/element-validation/{}", if must_accept { "rejected" } else { "accepts-invalid-element" }),
                    json!({"container": name, "mode": cname(c), "validate": vname(v), "bytes": hex_bytes(bytes), "contains_point_outside_subgroup": has_bad,
                           "outcome": format!("{:?}", p.outcome)}),
                );
            }
        }
    }
    let good: Vec<(u64, u64)> = sub.iter().copied().take(6).collect();
    for (k, bad) in outside.iter().take(12).enumerate() {
        for c in [Compress::Yes, Compress::No] {
            for has_bad in [true, false] {
                let x = if has_bad { enc(*bad, c) } else { enc(good[(k + 3) % good.len()], c) };
                let (g0, g1) = (enc(good[k % good.len()], c), enc(good[(k + 1) % good.len()], c));
                let n = |k: u64| k.to_le_bytes().to_vec();
                cont::<Vec<ToyPt>>(rep, "Vec", c, &[n(3), g0.clone(), x.clone(), g1.clone()].concat(), has_bad);
                cont::<VecDeque<ToyPt>>(rep, "VecDeque", c, &[n(2), g0.clone(), x.clone()].concat(), has_bad);
                cont::<LinkedList<ToyPt>>(rep, "LinkedList", c, &[n(2), x.clone(), g0.clone()].concat(), has_bad);
                cont::<[ToyPt; 3]>(rep, "array", c, &[g0.clone(), g1.clone(), x.clone()].concat(), has_bad);
                cont::<Option<ToyPt>>(rep, "Option", c, &[vec![1u8], x.clone()].concat(), has_bad);
                cont::<(u8, ToyPt)>(rep, "tuple", c, &[vec![9u8], x.clone()].concat(), has_bad);
                cont::<BTreeMap<u8, ToyPt>>(rep, "BTreeMap", c, &[n(2), vec![1u8], g0.clone(), vec![2u8], x.clone()].concat(), has_bad);
                cont::<Arc<ToyPt>>(rep, "Arc", c, &x, has_bad);
                cont::<Cow<'static, ToyPt>>(rep, "Cow", c, &x, has_bad);
                cont::<Vec<Option<ToyPt>>>(rep, "Vec", c, &[n(2), vec![0u8], vec![1u8], x.clone()].concat(), has_bad);
                // containers inside containers: the inner container's own check / batch_check is what runs here
                cont::<Vec<VecDeque<ToyPt>>>(rep, "Vec<VecDeque>", c, &[n(1), n(2), g0.clone(), x.clone()].concat(), has_bad);
                cont::<Vec<LinkedList<ToyPt>>>(rep, "Vec<LinkedList>", c, &[n(1), n(2), x.clone(), g0.clone()].concat(), has_bad);
                cont::<Vec<[ToyPt; 2]>>(rep, "Vec<array>", c, &[n(1), g0.clone(), x.clone()].concat(), has_bad);
                cont::<Vec<Arc<ToyPt>>>(rep, "Vec<Arc>", c, &[n(1), x.clone()].concat(), has_bad);
                cont::<Vec<Cow<'static, ToyPt>>>(rep, "Vec<Cow>", c, &[n(1), x.clone()].concat(), has_bad);
                cont::<Option<Vec<ToyPt>>>(rep, "Option<Vec>", c, &[vec![1u8], n(2), g0.clone(), x.clone()].concat(), has_bad);
                cont::<Vec<BTreeMap<u8, ToyPt>>>(rep, "Vec<BTreeMap>", c, &[n(1), n(1), vec![1u8], x.clone()].concat(), has_bad);
                cont::<[Vec<ToyPt>; 2]>(rep, "array<Vec>", c, &[n(1), g0.clone(), n(1), x.clone()].concat(), has_bad);
                cont::<Vec<(ToyPt, u8)>>(rep, "Vec<tuple>", c, &[n(1), x.clone(), vec![7u8]].concat(), has_bad);
                cont::<VecDeque<Vec<ToyPt>>>(rep, "VecDeque<Vec>", c, &[n(2), n(1), g0.clone(), n(1), x.clone()].concat(), has_bad);
                cont::<LinkedList<Option<ToyPt>>>(rep, "LinkedList<Option>", c, &[n(2), vec![1u8], x.clone(), vec![0u8]].concat(), has_bad);
                cont::<BTreeMap<u8, Vec<ToyPt>>>(rep, "BTreeMap<Vec>", c, &[n(1), vec![3u8], n(1), x.clone()].concat(), has_bad);
                cont::<PtS>(rep, "derive/nested-tuple", c, &[vec![5u8], g0.clone(), vec![6u8], x.clone()].concat(), has_bad);
                cont::<GenS<ToyPt, ToyPt>>(rep, "derive/generic", c, &[g0.clone(), n(1), x.clone(), g1.clone(), g0.clone()].concat(), has_bad);
            }
        }
    }
}

#[derive(CanonicalSerialize, CanonicalDeserialize)]
struct PtS {
    a: u8,
    p: ToyPt,
    q: (u8, (ToyPt,)),
}
