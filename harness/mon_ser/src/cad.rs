//! Object-safe per-curve adapter (short Weierstrass and twisted Edwards): points cross the boundary
//! as oracle-side integer coordinates; the adapter builds library points from raw Montgomery limbs,
//! calls the (de)serializers under the byte monitors, re-evaluates the curve equation with plain
//! field operations and multiplies by r with a plain double-and-add over the group's own `+`/`double`
//! (both checked by C01-C04 against independent oracles).
use crate::enc::{FInfo, Format, Pt};
use crate::fad::{build, errs, finfo, unbuild, RawPrime, SerOut, P};
use crate::io::{CountingReader, CountingWriter};
use ark_ec::short_weierstrass::{self as sw, SWCurveConfig};
use ark_ec::twisted_edwards::{self as te, TECurveConfig};
use ark_ec::{AdditiveGroup, CurveConfig, CurveGroup};
use ark_ff::{Field, PrimeField};
use ark_serialize::{CanonicalDeserialize, CanonicalSerialize, Compress, Validate};
use ark_std::{One, Zero};
use monitor::guard;
use oracle::UInt;
use std::marker::PhantomData;

#[derive(Clone, Debug)]
pub struct CInfo {
    pub name: String,
    pub format: Format,
    pub sw: bool,
    pub fi: FInfo,
    /// SW: a, b; TE: a, d
    pub c1: Vec<UInt>,
    pub c2: Vec<UInt>,
    pub r: UInt,
    pub cofactor: UInt,
    pub toy: bool,
}

#[derive(Clone, Debug)]
pub struct PtOut {
    pub pt: Pt,
    /// every raw limb vector of the returned coordinates is below p
    pub raw_ok: bool,
    /// curve equation re-evaluated with plain field operations (only when checks were requested)
    pub on_curve: bool,
    /// r * P == 0 by plain double-and-add (only when checks were requested)
    pub r_zero: bool,
}

pub struct CDeOut {
    pub result: Result<PtOut, String>,
    pub consumed: usize,
    pub over_budget: bool,
}

pub trait CAd: Send + Sync {
    fn info(&self) -> &CInfo;
    fn size(&self, proj: bool, c: Compress) -> P<usize>;
    /// serialize the affine point, or (lambda = Some) a projective representative with Z = lambda
    fn ser(&self, pt: &Pt, lambda: Option<&[UInt]>, c: Compress) -> P<SerOut>;
    fn deser(&self, bytes: &[u8], proj: bool, c: Compress, v: Validate, check: bool, advertised: usize) -> P<CDeOut>;
    fn generator(&self) -> Pt;
    /// k * P by plain double-and-add (harness), `Ok(None)` on the SW side is the identity. `Err`: the
    /// computation met an exceptional case of an incomplete twisted-Edwards law (Z = 0), which can only
    /// happen for points outside the prime-order subgroup.
    fn mul(&self, pt: &Pt, k: &UInt) -> Result<Pt, String>;
    fn on_curve(&self, pt: &Pt) -> bool;
    /// SW: the point with abscissa `coord` (greatest: larger root); TE: the point with ordinate `coord`
    /// (library `get_point_from_{x,y}_unchecked`, i.e. no cofactor clearing); None when no root exists
    fn lift(&self, coord: &[UInt], greatest: bool) -> P<Option<Pt>>;
    /// coordinates at which the recovery formula of the compressed format degenerates (twisted Edwards: the
    /// ordinates with a - d*y^2 = 0, which exist exactly on curves with an incomplete law); no point has them
    fn degenerate_coords(&self) -> Vec<Vec<UInt>> {
        vec![]
    }
}

fn f_of<F: Field>(fi: &FInfo, v: &[UInt]) -> F
where
    F::BasePrimeField: RawPrime,
{
    build(&v.iter().map(|c| fi.to_mont(c)).collect::<Vec<_>>())
}
fn flat_of<F: Field>(fi: &FInfo, x: &F) -> (Vec<UInt>, bool)
where
    F::BasePrimeField: RawPrime,
{
    let raw = unbuild(x);
    let ok = raw.iter().all(|l| oracle::from_limbs(l) < fi.p);
    (raw.iter().map(|l| fi.from_mont(l)).collect(), ok)
}
fn bits_be(k: &UInt) -> Vec<bool> {
    let n = k.bits();
    (0..n).rev().map(|i| k.bit(i)).collect()
}

// ------------------------------------------------------------------------------------------------

pub struct SwA<C: SWCurveConfig>(pub CInfo, PhantomData<C>);

impl<C: SWCurveConfig> SwA<C>
where
    <C::BaseField as Field>::BasePrimeField: RawPrime,
{
    fn aff(&self, pt: &Pt) -> sw::Affine<C> {
        match pt {
            None => sw::Affine::<C>::identity(),
            Some((x, y)) => sw::Affine::<C>::new_unchecked(f_of(&self.0.fi, x), f_of(&self.0.fi, y)),
        }
    }
    fn pt(&self, a: &sw::Affine<C>) -> (Pt, bool) {
        if a.infinity {
            (None, true)
        } else {
            let (x, ox) = flat_of(&self.0.fi, &a.x);
            let (y, oy) = flat_of(&self.0.fi, &a.y);
            (Some((x, y)), ox && oy)
        }
    }
    fn mul_bits(a: &sw::Affine<C>, bits: &[bool]) -> sw::Projective<C> {
        let mut acc = sw::Projective::<C>::zero();
        for b in bits {
            acc.double_in_place();
            if *b {
                acc += a;
            }
        }
        acc
    }
    fn eq_holds(a: &sw::Affine<C>) -> bool {
        if a.infinity {
            return true;
        }
        a.y * a.y == a.x * a.x * a.x + C::COEFF_A * a.x + C::COEFF_B
    }
}

impl<C: SWCurveConfig> CAd for SwA<C>
where
    <C::BaseField as Field>::BasePrimeField: RawPrime,
{
    fn info(&self) -> &CInfo {
        &self.0
    }
    fn size(&self, proj: bool, c: Compress) -> P<usize> {
        guard(|| if proj { crate::api::size(&sw::Projective::<C>::zero(), c) } else { crate::api::size(&sw::Affine::<C>::identity(), c) })
    }
    fn ser(&self, pt: &Pt, lambda: Option<&[UInt]>, c: Compress) -> P<SerOut> {
        guard(|| {
            let a = self.aff(pt);
            let mut w = CountingWriter::new();
            let (size, r) = match lambda {
                None => (crate::api::size(&a, c), crate::api::ser(&a, &mut w, c)),
                Some(l) => {
                    let l: C::BaseField = f_of(&self.0.fi, l);
                    let pr = if a.infinity {
                        // a non-canonical identity (X, Y, 0)
                        sw::Projective::<C>::new_unchecked(l, l + C::BaseField::one(), C::BaseField::zero())
                    } else {
                        let l2 = l * l;
                        sw::Projective::<C>::new_unchecked(a.x * l2, a.y * l2 * l, l)
                    };
                    (crate::api::size(&pr, c), crate::api::ser(&pr, &mut w, c))
                },
            };
            SerOut { bytes: w.buf, size_reported: size, err: r.err().map(errs) }
        })
    }
    fn deser(&self, bytes: &[u8], proj: bool, c: Compress, v: Validate, check: bool, advertised: usize) -> P<CDeOut> {
        guard(|| {
            let mut rd = CountingReader::new(bytes, advertised);
            let r = if proj {
                crate::api::de::<sw::Projective<C>, _>(&mut rd, c, v).map(|p| p.into_affine())
            } else {
                crate::api::de::<sw::Affine<C>, _>(&mut rd, c, v)
            };
            let result = r.map_err(errs).map(|a| {
                let (pt, raw_ok) = self.pt(&a);
                let (on_curve, r_zero) = if check {
                    let oc = Self::eq_holds(&a);
                    (oc, oc && Self::mul_bits(&a, &bits_be(&self.0.r)).is_zero())
                } else {
                    (false, false)
                };
                PtOut { pt, raw_ok, on_curve, r_zero }
            });
            CDeOut { result, consumed: rd.pos, over_budget: rd.over_budget }
        })
    }
    fn generator(&self) -> Pt {
        self.pt(&C::GENERATOR).0
    }
    fn mul(&self, pt: &Pt, k: &UInt) -> Result<Pt, String> {
        let a = self.aff(pt);
        Ok(self.pt(&Self::mul_bits(&a, &bits_be(k)).into_affine()).0)
    }
    fn on_curve(&self, pt: &Pt) -> bool {
        Self::eq_holds(&self.aff(pt))
    }
    fn lift(&self, coord: &[UInt], greatest: bool) -> P<Option<Pt>> {
        guard(|| sw::Affine::<C>::get_point_from_x_unchecked(f_of(&self.0.fi, coord), greatest).map(|a| self.pt(&a).0))
    }
}

pub fn mk_sw<C: SWCurveConfig>(name: &str, format: Format, toy: bool) -> Box<dyn CAd>
where
    <C::BaseField as Field>::BasePrimeField: RawPrime,
{
    let fi = finfo::<C::BaseField>(&format!("{name}::BaseField"));
    let info = CInfo {
        name: name.to_string(),
        format,
        sw: true,
        c1: flat_of(&fi, &C::COEFF_A).0,
        c2: flat_of(&fi, &C::COEFF_B).0,
        r: oracle::from_limbs(<C::ScalarField as PrimeField>::MODULUS.as_ref()),
        cofactor: oracle::from_limbs(<C as CurveConfig>::COFACTOR),
        fi,
        toy,
    };
    Box::new(SwA::<C>(info, PhantomData))
}

// ------------------------------------------------------------------------------------------------

pub struct TeA<C: TECurveConfig>(pub CInfo, PhantomData<C>);

impl<C: TECurveConfig> TeA<C>
where
    <C::BaseField as Field>::BasePrimeField: RawPrime,
{
    fn aff(&self, pt: &Pt) -> te::Affine<C> {
        let (x, y) = pt.as_ref().expect("TE points are finite");
        te::Affine::<C>::new_unchecked(f_of(&self.0.fi, x), f_of(&self.0.fi, y))
    }
    fn pt(&self, a: &te::Affine<C>) -> (Pt, bool) {
        let (x, ox) = flat_of(&self.0.fi, &a.x);
        let (y, oy) = flat_of(&self.0.fi, &a.y);
        (Some((x, y)), ox && oy)
    }
    /// None: an exceptional case of an incomplete addition law was met (Z = 0)
    fn mul_bits(a: &te::Affine<C>, bits: &[bool]) -> Option<te::Projective<C>> {
        let mut acc = te::Projective::<C>::zero();
        for b in bits {
            acc.double_in_place();
            if acc.z.is_zero() {
                return None;
            }
            if *b {
                acc += a;
                if acc.z.is_zero() {
                    return None;
                }
            }
        }
        Some(acc)
    }
    fn eq_holds(a: &te::Affine<C>) -> bool {
        let (x2, y2) = (a.x * a.x, a.y * a.y);
        C::COEFF_A * x2 + y2 == C::BaseField::one() + C::COEFF_D * x2 * y2
    }
}

impl<C: TECurveConfig> CAd for TeA<C>
where
    <C::BaseField as Field>::BasePrimeField: RawPrime,
{
    fn info(&self) -> &CInfo {
        &self.0
    }
    fn size(&self, proj: bool, c: Compress) -> P<usize> {
        guard(|| if proj { crate::api::size(&te::Projective::<C>::zero(), c) } else { crate::api::size(&te::Affine::<C>::zero(), c) })
    }
    fn ser(&self, pt: &Pt, lambda: Option<&[UInt]>, c: Compress) -> P<SerOut> {
        guard(|| {
            let a = self.aff(pt);
            let mut w = CountingWriter::new();
            let (size, r) = match lambda {
                None => (crate::api::size(&a, c), crate::api::ser(&a, &mut w, c)),
                Some(l) => {
                    let l: C::BaseField = f_of(&self.0.fi, l);
                    let pr = te::Projective::<C>::new_unchecked(a.x * l, a.y * l, a.x * a.y * l, l);
                    (crate::api::size(&pr, c), crate::api::ser(&pr, &mut w, c))
                },
            };
            SerOut { bytes: w.buf, size_reported: size, err: r.err().map(errs) }
        })
    }
    fn deser(&self, bytes: &[u8], proj: bool, c: Compress, v: Validate, check: bool, advertised: usize) -> P<CDeOut> {
        guard(|| {
            let mut rd = CountingReader::new(bytes, advertised);
            let r = if proj {
                crate::api::de::<te::Projective<C>, _>(&mut rd, c, v).map(|p| p.into_affine())
            } else {
                crate::api::de::<te::Affine<C>, _>(&mut rd, c, v)
            };
            let result = r.map_err(errs).map(|a| {
                let (pt, raw_ok) = self.pt(&a);
                let (on_curve, r_zero) = if check {
                    let oc = Self::eq_holds(&a);
                    (oc, oc && Self::mul_bits(&a, &bits_be(&self.0.r)).map(|p| p.is_zero()).unwrap_or(false))
                } else {
                    (false, false)
                };
                PtOut { pt, raw_ok, on_curve, r_zero }
            });
            CDeOut { result, consumed: rd.pos, over_budget: rd.over_budget }
        })
    }
    fn generator(&self) -> Pt {
        self.pt(&C::GENERATOR).0
    }
    fn mul(&self, pt: &Pt, k: &UInt) -> Result<Pt, String> {
        let a = self.aff(pt);
        match Self::mul_bits(&a, &bits_be(k)) {
            Some(p) => Ok(self.pt(&p.into_affine()).0),
            None => Err("exceptional case of the incomplete addition law (Z = 0)".into()),
        }
    }
    fn on_curve(&self, pt: &Pt) -> bool {
        Self::eq_holds(&self.aff(pt))
    }
    fn lift(&self, coord: &[UInt], greatest: bool) -> P<Option<Pt>> {
        guard(|| te::Affine::<C>::get_point_from_y_unchecked(f_of(&self.0.fi, coord), greatest).map(|a| self.pt(&a).0))
    }
    fn degenerate_coords(&self) -> Vec<Vec<UInt>> {
        // only used to craft input bytes: y0 with d*y0^2 = a (the field square root is C11's business)
        match C::COEFF_D.inverse().and_then(|di| (C::COEFF_A * di).sqrt()) {
            Some(y0) if C::COEFF_D * y0 * y0 == C::COEFF_A => vec![flat_of(&self.0.fi, &y0).0, flat_of(&self.0.fi, &-y0).0],
            _ => vec![],
        }
    }
}

pub fn mk_te<C: TECurveConfig>(name: &str, toy: bool) -> Box<dyn CAd>
where
    <C::BaseField as Field>::BasePrimeField: RawPrime,
{
    let fi = finfo::<C::BaseField>(&format!("{name}::BaseField"));
    let info = CInfo {
        name: name.to_string(),
        format: Format::Te,
        sw: false,
        c1: flat_of(&fi, &C::COEFF_A).0,
        c2: flat_of(&fi, &C::COEFF_D).0,
        r: oracle::from_limbs(<C::ScalarField as PrimeField>::MODULUS.as_ref()),
        cofactor: oracle::from_limbs(<C as CurveConfig>::COFACTOR),
        fi,
        toy,
    };
    Box::new(TeA::<C>(info, PhantomData))
}

// ------------------------------------------------------------------------------------------------
// registries

/// `$m!("name", ConfigType, Format)` for every shipped short-Weierstrass configuration.
#[macro_export]
macro_rules! for_each_shipped_sw {
    ($m:ident) => {
        $m!("mnt6_753::g2", cfgs::shipped::mnt6_753::g2::Config, Format::Sw);
        $m!("mnt4_753::g2", cfgs::shipped::mnt4_753::g2::Config, Format::Sw);
        $m!("cp6_782::g2", cfgs::shipped::cp6_782::g2::Config, Format::Sw);
        $m!("cp6_782::g1", cfgs::shipped::cp6_782::g1::Config, Format::Sw);
        $m!("bw6_767::g1", cfgs::shipped::bw6_767::g1::Config, Format::Sw);
        $m!("bw6_767::g2", cfgs::shipped::bw6_767::g2::Config, Format::Sw);
        $m!("bw6_761::g1", cfgs::shipped::bw6_761::g1::Config, Format::Sw);
        $m!("bw6_761::g2", cfgs::shipped::bw6_761::g2::Config, Format::Sw);
        $m!("mnt6_753::g1", cfgs::shipped::mnt6_753::g1::Config, Format::Sw);
        $m!("mnt4_753::g1", cfgs::shipped::mnt4_753::g1::Config, Format::Sw);
        $m!("tc::mnt4_753::g1", cfgs::shipped::tc::mnt4_753::g1::Config, Format::Sw);
        $m!("mnt6_298::g2", cfgs::shipped::mnt6_298::g2::Config, Format::Sw);
        $m!("mnt4_298::g2", cfgs::shipped::mnt4_298::g2::Config, Format::Sw);
        $m!("bls12_381::g2", cfgs::shipped::bls12_381::g2::Config, Format::Zcash);
        $m!("bls12_377::g2", cfgs::shipped::bls12_377::g2::Config, Format::Sw);
        $m!("tc::bls12_381::g2", cfgs::shipped::tc::bls12_381::g2::Config, Format::Sw);
        $m!("bn254::g2", cfgs::shipped::bn254::g2::Config, Format::Sw);
        $m!("bls12_381::g1", cfgs::shipped::bls12_381::g1::Config, Format::Zcash);
        $m!("bls12_377::g1", cfgs::shipped::bls12_377::g1::Config, Format::Sw);
        $m!("tc::bls12_381::g1", cfgs::shipped::tc::bls12_381::g1::Config, Format::Sw);
        $m!("tc::bn384::g1", cfgs::shipped::tc::bn384_small_two_adicity::g1::Config, Format::Sw);
        $m!("secp384r1", cfgs::shipped::secp384r1::Config, Format::Sw);
        $m!("mnt6_298::g1", cfgs::shipped::mnt6_298::g1::Config, Format::Sw);
        $m!("mnt4_298::g1", cfgs::shipped::mnt4_298::g1::Config, Format::Sw);
        $m!("bn254::g1", cfgs::shipped::bn254::g1::Config, Format::Sw);
        $m!("grumpkin", cfgs::shipped::grumpkin::GrumpkinConfig, Format::Sw);
        $m!("pallas", cfgs::shipped::pallas::PallasConfig, Format::Sw);
        $m!("vesta", cfgs::shipped::vesta::VestaConfig, Format::Sw);
        $m!("secp256k1", cfgs::shipped::secp256k1::Config, Format::Sw);
        $m!("secp256r1", cfgs::shipped::secp256r1::Config, Format::Sw);
        $m!("secq256k1", cfgs::shipped::secq256k1::Config, Format::Sw);
        $m!("tc::secp256k1", cfgs::shipped::tc::secp256k1::Config, Format::Sw);
        $m!("ed_on_bls12_381::sw", cfgs::shipped::ed_on_bls12_381::JubjubConfig, Format::Sw);
        $m!("bandersnatch::sw", cfgs::shipped::bandersnatch::BandersnatchConfig, Format::Sw);
    };
}

/// `$m!("name", ConfigType)` for every shipped twisted-Edwards configuration.
#[macro_export]
macro_rules! for_each_shipped_te {
    ($m:ident) => {
        $m!("ed_on_mnt4_753", cfgs::shipped::ed_on_mnt4_753::EdwardsConfig);
        $m!("ed_on_cp6_782", cfgs::shipped::ed_on_cp6_782::EdwardsConfig);
        $m!("bls12_377::g1::te", cfgs::shipped::bls12_377::g1::Config);
        $m!("ed_on_mnt4_298", cfgs::shipped::ed_on_mnt4_298::EdwardsConfig);
        $m!("curve25519", cfgs::shipped::curve25519::Curve25519Config);
        $m!("ed25519", cfgs::shipped::ed25519::EdwardsConfig);
        $m!("ed_on_bls12_377", cfgs::shipped::ed_on_bls12_377::EdwardsConfig);
        $m!("ed_on_bls12_381", cfgs::shipped::ed_on_bls12_381::JubjubConfig);
        $m!("bandersnatch", cfgs::shipped::bandersnatch::BandersnatchConfig);
        $m!("ed_on_bn254", cfgs::shipped::ed_on_bn254::EdwardsConfig);
        $m!("tc::ed_on_bls12_381", cfgs::shipped::tc::ed_on_bls12_381::EdwardsConfig);
    };
}

pub fn shipped_curves() -> Vec<Box<dyn CAd>> {
    let mut v: Vec<Box<dyn CAd>> = vec![];
    if crate::common::slice() {
        return v;
    }
    macro_rules! s {
        ($name:literal, $ty:ty, $fmt:expr) => {
            v.push(mk_sw::<$ty>($name, $fmt, false));
        };
    }
    for_each_shipped_sw!(s);
    macro_rules! t {
        ($name:literal, $ty:ty) => {
            v.push(mk_te::<$ty>($name, false));
        };
    }
    for_each_shipped_te!(t);
    v
}

pub fn toy_curves() -> Vec<Box<dyn CAd>> {
    let mut v: Vec<Box<dyn CAd>> = vec![];
    if crate::common::slice() {
        v.push(mk_sw::<cfgs::toy_curves::sw_a0_h4>("toy/sw_a0_h4", Format::Sw, true));
        v.push(mk_te::<cfgs::toy_curves::te_inc>("toy/te_inc", true));
        return v;
    }
    macro_rules! s {
        ($name:literal, $ty:ty) => {
            v.push(mk_sw::<$ty>(concat!("toy/", $name), Format::Sw, true));
        };
    }
    cfgs::for_each_toy_sw!(s);
    macro_rules! t {
        ($name:literal, $ty:ty) => {
            v.push(mk_te::<$ty>(concat!("toy/", $name), true));
        };
    }
    cfgs::for_each_toy_te!(t);
    v
}
