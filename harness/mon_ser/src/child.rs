//! Child-process execution of deserialization cases that may abort the process (allocation failure
//! escapes `catch_unwind`). The parent re-executes this binary with `--child-deser`, feeds cases on
//! stdin (`<type idx> <compress> <validate> <hex>` per line) and reads one result line per case. The
//! child runs under RLIMIT_AS = 4 GiB with the allocation cap on; if it dies, the first case without
//! a result line is the culprit and the remaining cases are handed to a fresh child.
use crate::probe::{Outcome, Probe};
use std::io::{BufRead, Read, Write};
use std::process::{Command, Stdio};
use std::time::{Duration, Instant};

#[derive(Clone, Debug)]
pub struct Case {
    pub type_idx: usize,
    pub compress: bool,
    pub validate: bool,
    pub bytes: Vec<u8>,
}

#[derive(Clone, Debug)]
pub enum ChildOut {
    Done(Probe),
    /// the child died on this case: signal (or exit code), and the refused request size if one was logged
    Aborted { how: String, cap: Option<usize> },
    Timeout,
    /// the child could not be started / protocol error (harness problem)
    Broken(String),
}

fn hex(b: &[u8]) -> String {
    monitor::hex_bytes(b)
}
fn unhex(s: &str) -> Vec<u8> {
    let s = s.as_bytes();
    (0..s.len() / 2)
        .map(|i| {
            let d = |c: u8| match c {
                b'0'..=b'9' => c - b'0',
                b'a'..=b'f' => c - b'a' + 10,
                _ => 0,
            };
            d(s[2 * i]) << 4 | d(s[2 * i + 1])
        })
        .collect()
}

pub const WATCHDOG: Duration = Duration::from_secs(20);

/// Run all cases, in order, in as many child processes as needed.
pub fn run_batch(cases: &[Case]) -> Vec<ChildOut> {
    let mut out: Vec<ChildOut> = Vec::with_capacity(cases.len());
    let mut spawn_failures = 0;
    while out.len() < cases.len() {
        let rest = &cases[out.len()..];
        let rest = &rest[..rest.len().min(400)];
        match run_one_child(rest) {
            Ok(res) => {
                if res.is_empty() {
                    spawn_failures += 1;
                    if spawn_failures > 3 {
                        out.push(ChildOut::Broken("child produced nothing".into()));
                    }
                }
                out.extend(res);
            },
            Err(e) => {
                spawn_failures += 1;
                if spawn_failures > 3 {
                    while out.len() < cases.len() {
                        out.push(ChildOut::Broken(e.clone()));
                    }
                }
            },
        }
    }
    out
}

fn run_one_child(cases: &[Case]) -> Result<Vec<ChildOut>, String> {
    let exe = std::env::current_exe().map_err(|e| e.to_string())?;
    let mut child = Command::new(exe)
        .arg("--child-deser")
        .env("RUST_BACKTRACE", "0")
        .stdin(Stdio::piped())
        .stdout(Stdio::piped())
        .stderr(Stdio::null())
        .spawn()
        .map_err(|e| format!("spawn: {e}"))?;
    let mut input = String::new();
    for c in cases {
        input.push_str(&format!("{} {} {} {}\n", c.type_idx, c.compress as u8, c.validate as u8, if c.bytes.is_empty() { "-".to_string() } else { hex(&c.bytes) }));
    }
    let mut stdin = child.stdin.take().unwrap();
    let writer = std::thread::spawn(move || {
        let _ = stdin.write_all(input.as_bytes());
        drop(stdin);
    });
    let mut stdout = child.stdout.take().unwrap();
    let reader = std::thread::spawn(move || {
        let mut s = String::new();
        let _ = stdout.read_to_string(&mut s);
        s
    });
    // watchdog: the whole batch gets WATCHDOG per case that has not answered, checked coarsely
    let t0 = Instant::now();
    let limit = WATCHDOG + Duration::from_millis(50 * cases.len() as u64);
    let mut timed_out = false;
    let status = loop {
        match child.try_wait() {
            Ok(Some(st)) => break st,
            Ok(None) => {
                if t0.elapsed() > limit {
                    let _ = child.kill();
                    timed_out = true;
                }
                std::thread::sleep(Duration::from_millis(if t0.elapsed() < Duration::from_millis(200) { 1 } else { 10 }));
            },
            Err(e) => return Err(format!("wait: {e}")),
        }
    };
    let _ = writer.join();
    let text = reader.join().map_err(|_| "reader thread".to_string())?;
    let mut res = vec![];
    let mut cap: Option<usize> = None;
    for line in text.lines() {
        if let Some(r) = line.strip_prefix("R ") {
            cap = None;
            let f: Vec<&str> = r.splitn(6, ' ').collect();
            if f.len() < 5 {
                return Err(format!("bad child line {line}"));
            }
            let msg = f.get(5).map(|m| String::from_utf8_lossy(&unhex(m)).to_string()).unwrap_or_default();
            let outcome = match f[0] {
                "ok" => Outcome::Ok,
                "err" => Outcome::Err(msg),
                "panic" => Outcome::Panic(msg),
                "hpanic" => Outcome::HarnessPanic(msg),
                o => return Err(format!("bad outcome {o}")),
            };
            res.push(ChildOut::Done(Probe {
                outcome,
                max_single: f[1].parse().unwrap_or(0),
                total: f[2].parse().unwrap_or(0),
                consumed: f[3].parse().unwrap_or(0),
                over_budget: f[4] == "1",
            }));
        } else if let Some(c) = line.strip_prefix("CAP ") {
            cap = c.trim().parse().ok();
        }
    }
    if res.len() < cases.len() {
        if timed_out {
            res.push(ChildOut::Timeout);
        } else if !status.success() {
            use std::os::unix::process::ExitStatusExt;
            let how = match status.signal() {
                Some(s) => format!("signal {s}"),
                None => format!("exit code {:?}", status.code()),
            };
            res.push(ChildOut::Aborted { how, cap });
        }
        // status success with missing lines: protocol problem; the caller will retry / report
    }
    Ok(res)
}

thread_local! {
    pub static LIGHT: std::cell::RefCell<Option<(String, String, u32)>> = const { std::cell::RefCell::new(None) };
}

/// Entry point of the child process.
pub fn child_main(probe: &dyn Fn(usize, &[u8], bool, bool) -> Probe) -> ! {
    unsafe {
        let lim = libc::rlimit { rlim_cur: 4u64 << 30, rlim_max: 4u64 << 30 };
        libc::setrlimit(libc::RLIMIT_AS, &lim);
        // no core dumps on the expected aborts
        let nocore = libc::rlimit { rlim_cur: 0, rlim_max: 0 };
        libc::setrlimit(libc::RLIMIT_CORE, &nocore);
    }
    crate::alloc::enable_cap();
    // light panic hook: message and location only (symbolising a backtrace costs ~0.1 s in a fresh
    // process); a panic located in harness sources is a harness panic, anything else is attributed to
    // the library call being probed (the parent replays it in-process for the exact site)
    std::panic::set_hook(Box::new(|info| {
        let msg = if let Some(s) = info.payload().downcast_ref::<&str>() {
            s.to_string()
        } else if let Some(s) = info.payload().downcast_ref::<String>() {
            s.clone()
        } else {
            "<non-string panic>".to_string()
        };
        let (file, line) = info.location().map(|l| (l.file().to_string(), l.line())).unwrap_or_default();
        LIGHT.with(|c| *c.borrow_mut() = Some((msg, file, line)));
    }));
    let stdin = std::io::stdin();
    for line in stdin.lock().lines() {
        let Ok(line) = line else { break };
        let f: Vec<&str> = line.split(' ').collect();
        if f.len() != 4 {
            continue;
        }
        let idx: usize = f[0].parse().unwrap();
        let bytes = if f[3] == "-" { vec![] } else { unhex(f[3]) };
        let p = probe(idx, &bytes, f[1] == "1", f[2] == "1");
        let (o, msg) = match &p.outcome {
            Outcome::Ok => ("ok", String::new()),
            Outcome::Err(m) => ("err", m.clone()),
            Outcome::Panic(m) => ("panic", m.clone()),
            Outcome::HarnessPanic(m) => ("hpanic", m.clone()),
        };
        let s = format!("R {} {} {} {} {} {}\n", o, p.max_single, p.total, p.consumed, p.over_budget as u8, hex(msg.as_bytes()));
        unsafe {
            libc::write(1, s.as_ptr() as *const libc::c_void, s.len());
        }
    }
    std::process::exit(0)
}
