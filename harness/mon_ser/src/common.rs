//! Shared generators and field-level byte-string checks of C09 / C10.
use crate::enc::{self, FInfo};
use crate::fad::{DeHow, FAd, FlagKind, SerHow};
use ark_std::rand::RngCore;
use monitor::*;
use oracle::{One, UInt, Zero};

static SLICE: std::sync::atomic::AtomicBool = std::sync::atomic::AtomicBool::new(false);
/// `--miri-slice 1`: a tiny workload (a few hundred cases) meant to run under Miri / valgrind
pub fn set_slice(on: bool) {
    SLICE.store(on, std::sync::atomic::Ordering::SeqCst);
}
pub fn slice() -> bool {
    SLICE.load(std::sync::atomic::Ordering::Relaxed)
}
/// budget by tier; the slice mode divides the quick budget by 40
pub fn bud(args: &Args, quick: usize, thorough: usize) -> usize {
    if slice() {
        (quick / 40).max(2)
    } else {
        args.pick(quick, thorough)
    }
}
/// step for enumerations that are exhaustive outside the slice mode
pub fn enum_step(total: u64) -> u64 {
    if slice() {
        (total / 160).max(1)
    } else {
        1
    }
}

pub fn rand_below(rng: &mut Rng, p: &UInt) -> UInt {
    let limbs = (p.bits() as usize).div_ceil(64) + 1;
    oracle::from_limbs(&(0..limbs).map(|_| rng.next_u64()).collect::<Vec<_>>()) % p
}

/// structural prime-field values (canonical integers below p)
pub fn structural(fi: &FInfo) -> Vec<UInt> {
    let p = &fi.p;
    let one = UInt::one();
    let mut v = vec![UInt::zero(), one.clone() % p, (p - &one), (p - &one) >> 1, ((p - &one) >> 1) + &one, fi.r.clone()];
    if p > &oracle::u(2) {
        v.push(p - oracle::u(2));
        v.push(oracle::u(2) % p);
    }
    // byte and limb boundaries
    for k in [7usize, 8, 15, 16, 63, 64, 127, 128, fi.bits.saturating_sub(1), fi.bits.saturating_sub(2), 8 * ((fi.bits - 1) / 8)] {
        if k < fi.bits {
            let x = oracle::pow2(k);
            if &x < p {
                v.push(x.clone());
                v.push(&x - &one);
            }
        }
    }
    v.retain(|x| x < p);
    v.sort();
    v.dedup();
    v
}

pub fn edge_value(rng: &mut Rng, fi: &FInfo, st: &[UInt]) -> UInt {
    match rng.next_u32() % 4 {
        0 => st[rng.next_u32() as usize % st.len()].clone(),
        1 => {
            // limb-spliced
            oracle::from_limbs(&edge_limbs(rng, fi.nlimbs)) % &fi.p
        },
        _ => rand_below(rng, &fi.p),
    }
}

/// flat coordinates of an extension element drawn from element classes
pub fn gen_flat(rng: &mut Rng, fi: &FInfo, st: &[UInt], rep: &mut Report) -> Vec<UInt> {
    let n = fi.dim;
    let mut v = vec![UInt::zero(); n];
    match rng.next_u32() % 8 {
        0 => {
            rep.class("value: zero");
        },
        1 => {
            v[0] = UInt::one() % &fi.p;
            rep.class("value: one");
        },
        2 => {
            for c in v.iter_mut() {
                *c = &fi.p - UInt::one();
            }
            rep.class("value: all coordinates p-1");
        },
        3 => {
            let i = rng.next_u32() as usize % n;
            v[i] = edge_value(rng, fi, st);
            rep.class("value: one non-zero coordinate");
        },
        4 => {
            for c in v.iter_mut() {
                *c = st[rng.next_u32() as usize % st.len()].clone();
            }
            rep.class("value: structural coordinates");
        },
        _ => {
            for c in v.iter_mut() {
                *c = edge_value(rng, fi, st);
            }
            rep.class("value: mixed/uniform");
        },
    }
    v
}

pub fn hexu(v: &[UInt]) -> Vec<String> {
    v.iter().map(|u| format!("0x{u:x}")).collect()
}

pub fn modes_flags() -> Vec<SerHow> {
    use ark_serialize::Compress;
    vec![
        SerHow::Mode(Compress::Yes),
        SerHow::Mode(Compress::No),
        SerHow::Flags(FlagKind::Empty, 0),
        SerHow::Flags(FlagKind::Sw, 0),
        SerHow::Flags(FlagKind::Sw, 0x40),
        SerHow::Flags(FlagKind::Sw, 0x80),
        SerHow::Flags(FlagKind::Te, 0),
        SerHow::Flags(FlagKind::Te, 0x80),
    ]
}

pub fn how_name(h: &SerHow) -> String {
    match h {
        SerHow::Mode(c) => format!("mode/{}", crate::probe::cname(*c)),
        SerHow::Flags(k, m) => format!("{}={:#04x}", k.name(), m),
    }
}

#[derive(Clone, Copy, PartialEq, Eq)]
pub enum Prop {
    C09,
    C10,
}

/// Why an offered byte string is not a canonical encoding (oracle-side).
pub fn noncanonical_reason(fi: &FInfo, pf: &enc::ParsedField, kind: FlagKind) -> Option<&'static str> {
    if !kind.valid(pf.flag_mask) {
        return Some("invalid-flags");
    }
    if pf.canonical {
        return None;
    }
    // the only excess lies in bits at or above 64 * nlimbs of the last coordinate (the extra flag byte)
    let lim = oracle::pow2(64 * fi.nlimbs);
    let last = pf.ints.last().unwrap();
    let low_ok = pf.ints[..pf.ints.len() - 1].iter().all(|v| v < &fi.p) && (last % &lim) < fi.p;
    if low_ok && last >= &lim {
        Some("bits-above-64N")
    } else {
        Some("integer-ge-p")
    }
}

/// One offered byte string of the advertised length for a field type: deserialize through
/// `deserialize_with_flags::<kind>` (and through `deserialize_with_mode` for EmptyFlags); the oracle
/// decides canonicity from the integers. C09 files uniqueness violations, C10 the never-panics /
/// reduced-result / bounded-read ones.
#[allow(clippy::too_many_arguments)]
pub fn field_bytes_case(rep: &mut Report, prop: Prop, cfg_kind: &str, ad: &dyn FAd, kind: FlagKind, bytes: &[u8], via_mode: bool, enumerated: bool) {
    use ark_serialize::{Compress, Validate};
    let fi = ad.info();
    let size = fi.size(kind.bits());
    debug_assert_eq!(bytes.len(), size);
    let pf = enc::parse_field(fi, bytes, kind.bits());
    let reason = noncanonical_reason(fi, &pf, kind);
    let how = if via_mode { DeHow::Mode(Compress::Yes, Validate::Yes) } else { DeHow::Flags(kind) };
    let site = if via_mode { "deserialize_with_mode" } else { "deserialize" };
    let (sp, dp) = (format!("ser/fp/{cfg_kind}"), format!("deser/fp/{cfg_kind}"));
    let nontrivial = bytes.iter().any(|b| *b != 0);
    if enumerated {
        rep.eval_enumerated(nontrivial);
    } else {
        rep.eval(digest(&(&fi.name, kind.bits(), via_mode, bytes)), nontrivial);
    }
    let det = |extra: Value| json!({"field": fi.name, "flags": kind.name(), "via": site, "bytes": hex_bytes(bytes), "p": format!("0x{:x}", fi.p), "bits": fi.bits,
                                     "parsed_integers": hexu(&pf.ints), "flag_bits": format!("{:#04x}", pf.flag_mask), "oracle_noncanonical": reason, "more": extra});
    let out = match ad.deser(bytes, how, size) {
        Ok(o) => o,
        Err(p) => {
            if p.in_harness() {
                rep.harness_errors.push(format!("{}: harness panic {} at {}", fi.name, p.msg, p.site()));
            } else if prop == Prop::C10 {
                rep.violation(format!("{dp}/{site}/panic"), det(p.to_json()));
            }
            return;
        },
    };
    match reason {
        None => rep.class("bytes: canonical encoding"),
        Some("invalid-flags") => rep.class("bytes: invalid flag pattern"),
        Some("bits-above-64N") => rep.class("bytes: stray bits in the extra flag byte"),
        Some(_) => rep.class("bytes: integer >= p"),
    }
    if prop == Prop::C10 {
        if out.over_budget || out.consumed > size {
            rep.violation(format!("{dp}/{site}/reads-past-advertised-size"), det(json!({"consumed": out.consumed, "advertised": size})));
        }
        if let Ok((raw, _)) = &out.result {
            rep.class("field: Ok result checked < p on raw limbs");
            if !raw.iter().all(|l| oracle::from_limbs(l) < fi.p) {
                rep.violation(format!("{dp}/{site}/returns-unreduced"), det(json!({"raw_limbs": raw.iter().map(|l| hex_limbs(l)).collect::<Vec<_>>()})));
            }
        }
        return;
    }
    match (&out.result, reason) {
        (Ok((raw, fl)), _) => {
            let vals: Vec<UInt> = raw.iter().map(|l| fi.from_mont(l)).collect();
            // re-serialize with the returned flags: must reproduce the offered bytes exactly
            let re = ad.ser(raw, SerHow::Flags(kind, *fl));
            let same = matches!(&re, Ok(o) if o.err.is_none() && o.bytes == bytes);
            if !same {
                let class = reason.unwrap_or("reserialization-differs");
                rep.violation(
                    format!("{sp}/{site}/accepts-non-canonical/{class}"),
                    det(json!({"decoded": hexu(&vals), "returned_flags": format!("{fl:#04x}"),
                               "reserialized": re.as_ref().ok().map(|o| hex_bytes(&o.bytes))})),
                );
            } else if let Some(r) = reason {
                // re-serialization reproduced a string the oracle calls non-canonical: oracle/library disagree on the format
                rep.violation(format!("{sp}/{site}/accepts-non-canonical/{r}"), det(json!({"decoded": hexu(&vals), "note": "re-serialization reproduces the bytes"})));
            } else if vals != pf.ints || *fl != pf.flag_mask {
                rep.violation(format!("{sp}/{site}/value"), det(json!({"decoded": hexu(&vals), "returned_flags": format!("{fl:#04x}")})));
            }
            rep.class("uniqueness: accepted string re-serialized");
        },
        (Err(e), None) => {
            rep.violation(format!("{sp}/{site}/rejects-canonical"), det(json!({"error": e})));
        },
        (Err(_), Some(_)) => rep.class("uniqueness: non-canonical string rejected"),
    }
}

/// Hostile byte strings of the advertised length for one field type and flag kind.
pub fn field_hostile_strings(rng: &mut Rng, fi: &FInfo, kind: FlagKind, st: &[UInt], n_random: usize) -> Vec<Vec<u8>> {
    let fb = kind.bits();
    let size = fi.size(fb);
    let mut out: Vec<Vec<u8>> = vec![];
    let pats: Vec<u8> = match kind {
        FlagKind::Empty => vec![0],
        FlagKind::Sw => vec![0, 0x40, 0x80, 0xC0],
        FlagKind::Te => vec![0, 0x80],
    };
    let two_bits = oracle::pow2(fi.bits);
    let cb_last = fi.coord_bytes(fb);
    // largest integer the last coordinate's bytes can hold below the flag bits
    let cap_last = oracle::pow2(8 * cb_last - fb);
    let cap0 = oracle::pow2(8 * fi.coord_bytes(0));
    let specials = |cap: &UInt| -> Vec<UInt> {
        let mut v = vec![fi.p.clone(), &fi.p + UInt::one(), &two_bits - UInt::one(), &fi.p - UInt::one(), cap - UInt::one(), &fi.p + &fi.p];
        v.retain(|x| x < cap);
        v
    };
    let mk = |ints: &[UInt], mask: u8| -> Vec<u8> {
        // like enc::field but tolerant of integers >= p
        let mut o = vec![];
        for (i, c) in ints.iter().enumerate() {
            let last = i + 1 == ints.len();
            let nb = fi.coord_bytes(if last { fb } else { 0 });
            let mut b = enc::le_bytes(c, nb);
            if last {
                *b.last_mut().unwrap() |= mask;
            }
            o.extend(b);
        }
        o
    };
    let base = |rng: &mut Rng| -> Vec<UInt> { (0..fi.dim).map(|_| edge_value(rng, fi, st)).collect() };
    // non-reduced integers on the last and on another coordinate, with every flag pattern
    for s in specials(&cap_last) {
        for &m in &pats {
            let mut v = base(rng);
            *v.last_mut().unwrap() = s.clone();
            out.push(mk(&v, m));
        }
    }
    if fi.dim > 1 {
        for s in specials(&cap0) {
            let mut v = base(rng);
            let i = rng.next_u32() as usize % (fi.dim - 1);
            v[i] = s.clone();
            out.push(mk(&v, pats[rng.next_u32() as usize % pats.len()]));
        }
    }
    // a valid encoding with each unused high bit set (each coordinate's own slack bits)
    for &m in &pats {
        let v = base(rng);
        let b0 = mk(&v, m);
        let mut off = 0;
        for i in 0..fi.dim {
            let last = i + 1 == fi.dim;
            let nb = fi.coord_bytes(if last { fb } else { 0 });
            let top = 8 * nb - if last { fb } else { 0 };
            for bit in fi.bits..top {
                let mut b = b0.clone();
                b[off + bit / 8] |= 1 << (bit % 8);
                out.push(b);
            }
            off += nb;
        }
        out.push(b0);
    }
    // every flag-bit pattern on valid integers
    for &m in &pats {
        for _ in 0..2 {
            out.push(mk(&base(rng), m));
        }
    }
    out.push(vec![0xff; size]);
    out.push(vec![0x00; size]);
    let mut b = vec![0xff; size];
    *b.last_mut().unwrap() = 0x3f;
    out.push(b);
    for k in 0..n_random {
        let mut b: Vec<u8> = (0..size).map(|_| rng.next_u32() as u8).collect();
        if k % 2 == 0 {
            // half of them with the integer forced below 2^bits so that many are canonical
            let v = base(rng);
            b = mk(&v, pats[rng.next_u32() as usize % pats.len()]);
            if k % 4 == 0 {
                let bit = rng.next_u32() as usize % (8 * size);
                b[bit / 8] ^= 1 << (bit % 8);
            }
        }
        out.push(b);
    }
    out
}
