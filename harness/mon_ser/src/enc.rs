//! Oracle-side encodings, derived from integer values only (never from the library's serializer).
//!
//! Documented format (serialize/src/flags.rs, ff Fp::serialize_with_flags, ec serialization_flags.rs):
//! * prime-field element: little-endian integer of the canonical value in ceil((bits + flag_bits)/8)
//!   bytes, flag bits in the top bits of the last byte;
//! * extension element: base-prime-field coordinates in order (c0, c1, ...), flags on the last one;
//! * SW point: compressed = x with SWFlags (bit 7: y is the lexicographically larger root, bit 6:
//!   infinity, x = 0), uncompressed = x plain, then y with the same flags;
//! * TE point: compressed = y with TEFlags (bit 7: x is the larger of {x, -x}), uncompressed = x, y plain;
//! * lexicographic order on extension elements: highest coefficient first;
//! * bls12_381 (zcash format): big-endian coordinates (c1 before c0), flags in the top three bits of
//!   byte 0: 0x80 compressed, 0x40 infinity, 0x20 y lexicographically largest (compressed, finite only).
use oracle::{UInt, Zero};

#[derive(Clone, Debug)]
pub struct FInfo {
    pub name: String,
    /// characteristic
    pub p: UInt,
    /// bit length of p
    pub bits: usize,
    /// 64-bit limbs of the base prime field
    pub nlimbs: usize,
    /// extension degree over the prime field
    pub dim: usize,
    /// R^-1 mod p, R = 2^(64 nlimbs)
    pub rinv: UInt,
    /// R mod p
    pub r: UInt,
}

impl FInfo {
    pub fn new(name: &str, p: UInt, nlimbs: usize, dim: usize) -> Self {
        let rr = oracle::pow2(64 * nlimbs) % &p;
        let rinv = oracle::modinv(&rr, &p).expect("R invertible");
        FInfo { name: name.to_string(), bits: p.bits() as usize, p, nlimbs, dim, rinv, r: rr }
    }
    pub fn coord_bytes(&self, flag_bits: usize) -> usize {
        (self.bits + flag_bits).div_ceil(8)
    }
    /// advertised size of an element carrying `flag_bits` flag bits
    pub fn size(&self, flag_bits: usize) -> usize {
        (self.dim - 1) * self.coord_bytes(0) + self.coord_bytes(flag_bits)
    }
    pub fn to_mont(&self, v: &UInt) -> Vec<u64> {
        oracle::to_limbs(&((v * &self.r) % &self.p), self.nlimbs)
    }
    pub fn from_mont(&self, raw: &[u64]) -> UInt {
        (oracle::from_limbs(raw) * &self.rinv) % &self.p
    }
    pub fn neg(&self, v: &[UInt]) -> Vec<UInt> {
        v.iter().map(|c| if c.is_zero() { UInt::zero() } else { &self.p - c }).collect()
    }
    /// documented lexicographic order: highest coefficient first
    pub fn cmp(&self, a: &[UInt], b: &[UInt]) -> std::cmp::Ordering {
        for i in (0..a.len()).rev() {
            match a[i].cmp(&b[i]) {
                std::cmp::Ordering::Equal => continue,
                o => return o,
            }
        }
        std::cmp::Ordering::Equal
    }
    /// is `v` the larger of {v, -v}
    pub fn is_larger_root(&self, v: &[UInt]) -> bool {
        self.cmp(v, &self.neg(v)) == std::cmp::Ordering::Greater
    }
}

pub fn le_bytes(v: &UInt, n: usize) -> Vec<u8> {
    let mut b = v.to_bytes_le();
    assert!(b.len() <= n || b.iter().skip(n).all(|x| *x == 0), "value does not fit");
    b.resize(n, 0);
    b
}
pub fn be_bytes(v: &UInt, n: usize) -> Vec<u8> {
    let mut b = le_bytes(v, n);
    b.reverse();
    b
}

/// Expected encoding of a field element with `flag_bits` flag bits and the flag byte pattern `mask`.
pub fn field(fi: &FInfo, flat: &[UInt], flag_bits: usize, mask: u8) -> Vec<u8> {
    assert_eq!(flat.len(), fi.dim);
    let mut out = vec![];
    for (i, c) in flat.iter().enumerate() {
        let last = i + 1 == flat.len();
        let n = fi.coord_bytes(if last { flag_bits } else { 0 });
        let mut b = le_bytes(c, n);
        if last {
            *b.last_mut().unwrap() |= mask;
        }
        out.extend_from_slice(&b);
    }
    out
}

#[derive(Clone, Debug)]
pub struct ParsedField {
    /// integers as written (flag bits masked off), possibly >= p
    pub ints: Vec<UInt>,
    /// the top `flag_bits` bits of the last byte, in place
    pub flag_mask: u8,
    /// all integers below p
    pub canonical: bool,
}

/// Oracle-side parse of exactly `fi.size(flag_bits)` bytes.
pub fn parse_field(fi: &FInfo, bytes: &[u8], flag_bits: usize) -> ParsedField {
    assert_eq!(bytes.len(), fi.size(flag_bits));
    let mut ints = vec![];
    let mut off = 0;
    let mut flag_mask = 0u8;
    for i in 0..fi.dim {
        let last = i + 1 == fi.dim;
        let n = fi.coord_bytes(if last { flag_bits } else { 0 });
        let mut b = bytes[off..off + n].to_vec();
        if last && flag_bits > 0 {
            let m = (0xffu16 << (8 - flag_bits)) as u8;
            flag_mask = b[n - 1] & m;
            b[n - 1] &= !m;
        }
        ints.push(UInt::from_bytes_le(&b));
        off += n;
    }
    let canonical = ints.iter().all(|v| v < &fi.p);
    ParsedField { ints, flag_mask, canonical }
}

pub const SW_FLAG_BITS: usize = 2;
pub const TE_FLAG_BITS: usize = 1;
pub const SW_NEG: u8 = 0x80;
pub const SW_INF: u8 = 0x40;
pub const TE_NEG: u8 = 0x80;

/// oracle-side point: SW `None` = point at infinity; TE points are always `Some`
pub type Pt = Option<(Vec<UInt>, Vec<UInt>)>;

#[derive(Clone, Copy, Debug, PartialEq, Eq)]
pub enum Format {
    /// ark default layout, short Weierstrass
    Sw,
    /// ark default layout, twisted Edwards
    Te,
    /// bls12_381 zcash layout, base field degree 1 or 2
    Zcash,
}

pub fn point_size(fi: &FInfo, f: Format, compressed: bool) -> usize {
    match (f, compressed) {
        (Format::Sw, true) => fi.size(SW_FLAG_BITS),
        (Format::Sw, false) => fi.size(0) + fi.size(SW_FLAG_BITS),
        (Format::Te, true) => fi.size(TE_FLAG_BITS),
        (Format::Te, false) => 2 * fi.size(0),
        (Format::Zcash, true) => 48 * fi.dim,
        (Format::Zcash, false) => 96 * fi.dim,
    }
}

/// Expected encoding of a point.
pub fn point(fi: &FInfo, f: Format, pt: &Pt, compressed: bool) -> Vec<u8> {
    let zero = vec![UInt::zero(); fi.dim];
    match f {
        Format::Sw => {
            let (x, y, mask) = match pt {
                None => (&zero, &zero, SW_INF),
                Some((x, y)) => (x, y, if fi.is_larger_root(y) { SW_NEG } else { 0 }),
            };
            if compressed {
                field(fi, x, SW_FLAG_BITS, mask)
            } else {
                let mut o = field(fi, x, 0, 0);
                o.extend(field(fi, y, SW_FLAG_BITS, mask));
                o
            }
        },
        Format::Te => {
            let (x, y) = pt.as_ref().expect("TE points are finite");
            if compressed {
                field(fi, y, TE_FLAG_BITS, if fi.is_larger_root(x) { TE_NEG } else { 0 })
            } else {
                let mut o = field(fi, x, 0, 0);
                o.extend(field(fi, y, 0, 0));
                o
            }
        },
        Format::Zcash => {
            let be = |v: &Vec<UInt>| -> Vec<u8> {
                let mut o = vec![];
                for c in v.iter().rev() {
                    o.extend(be_bytes(c, 48));
                }
                o
            };
            let mut o;
            match pt {
                None => {
                    o = vec![0u8; point_size(fi, f, compressed)];
                    o[0] |= 0x40;
                },
                Some((x, y)) => {
                    o = be(x);
                    if compressed {
                        if fi.is_larger_root(y) {
                            o[0] |= 0x20;
                        }
                    } else {
                        o.extend(be(y));
                    }
                },
            }
            if compressed {
                o[0] |= 0x80;
            }
            o
        },
    }
}
