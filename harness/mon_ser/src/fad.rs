//! Object-safe per-type field adapter: the monitor logic is compiled once; only these thin wrappers
//! around the library's (de)serializers are monomorphised per field configuration. Elements cross the
//! boundary as raw Montgomery limbs of their base-prime-field coordinates, built and decoded by the
//! oracle (`v * R mod p`, `raw * R^-1 mod p`), so `from_bigint` / `into_bigint` are not trusted.
use crate::enc::FInfo;
use crate::io::{CountingReader, CountingWriter};
use ark_ec::short_weierstrass::SWFlags;
use ark_ec::twisted_edwards::TEFlags;
use ark_ff::{BigInt, Field, Fp, FpConfig, PrimeField};
use ark_serialize::{Compress, EmptyFlags, SerializationError, Validate};
use monitor::{guard, PanicInfo};
use std::marker::PhantomData;

pub trait RawPrime: PrimeField {
    const NL: usize;
    fn raw(&self) -> Vec<u64>;
    fn from_raw(l: &[u64]) -> Self;
    fn modulus_limbs() -> Vec<u64>;
}
impl<P: FpConfig<N>, const N: usize> RawPrime for Fp<P, N> {
    const NL: usize = N;
    fn raw(&self) -> Vec<u64> {
        self.0 .0.to_vec()
    }
    fn from_raw(l: &[u64]) -> Self {
        Fp(BigInt::<N>(l.try_into().expect("limb count")), PhantomData)
    }
    fn modulus_limbs() -> Vec<u64> {
        P::MODULUS.0.to_vec()
    }
}

#[derive(Clone, Copy, Debug, PartialEq, Eq)]
pub enum FlagKind {
    Empty,
    Sw,
    Te,
}
impl FlagKind {
    pub fn bits(self) -> usize {
        match self {
            FlagKind::Empty => 0,
            FlagKind::Sw => 2,
            FlagKind::Te => 1,
        }
    }
    pub fn name(self) -> &'static str {
        match self {
            FlagKind::Empty => "EmptyFlags",
            FlagKind::Sw => "SWFlags",
            FlagKind::Te => "TEFlags",
        }
    }
    /// valid flag-byte patterns (documented bit positions)
    pub fn patterns(self) -> &'static [u8] {
        match self {
            FlagKind::Empty => &[0],
            FlagKind::Sw => &[0, 0x40, 0x80],
            FlagKind::Te => &[0, 0x80],
        }
    }
    pub fn valid(self, mask: u8) -> bool {
        self.patterns().contains(&mask)
    }
}

#[derive(Clone, Copy)]
pub enum SerHow {
    Mode(Compress),
    Flags(FlagKind, u8),
}
#[derive(Clone, Copy)]
pub enum DeHow {
    Mode(Compress, Validate),
    Flags(FlagKind),
}

pub struct SerOut {
    pub bytes: Vec<u8>,
    pub size_reported: usize,
    pub err: Option<String>,
}
pub struct DeOut {
    /// raw limbs per base-prime-field coordinate, returned flag pattern
    pub result: Result<(Vec<Vec<u64>>, u8), String>,
    pub consumed: usize,
    pub over_budget: bool,
}

pub type P<T> = Result<T, PanicInfo>;

pub trait FAd: Send + Sync {
    fn info(&self) -> &FInfo;
    fn ser(&self, raw: &[Vec<u64>], how: SerHow) -> P<SerOut>;
    fn deser(&self, bytes: &[u8], how: DeHow, advertised: usize) -> P<DeOut>;
    /// `from_random_bytes_with_flags` (reaches the one `unsafe` slice construction)
    fn from_random_bytes(&self, bytes: &[u8], kind: FlagKind) -> P<Option<(Vec<Vec<u64>>, u8)>>;
}

pub struct FA<F: Field>(pub FInfo, PhantomData<F>);

pub fn build<F: Field>(raw: &[Vec<u64>]) -> F
where
    F::BasePrimeField: RawPrime,
{
    F::from_base_prime_field_elems(raw.iter().map(|l| <F::BasePrimeField as RawPrime>::from_raw(l))).expect("coordinate count")
}
pub fn unbuild<F: Field>(x: &F) -> Vec<Vec<u64>>
where
    F::BasePrimeField: RawPrime,
{
    x.to_base_prime_field_elements().map(|e| e.raw()).collect()
}

fn sw_flag(mask: u8) -> SWFlags {
    match mask {
        0x40 => SWFlags::PointAtInfinity,
        0x80 => SWFlags::YIsNegative,
        _ => SWFlags::YIsPositive,
    }
}
fn sw_mask(f: SWFlags) -> u8 {
    match f {
        SWFlags::PointAtInfinity => 0x40,
        SWFlags::YIsNegative => 0x80,
        SWFlags::YIsPositive => 0,
    }
}
fn te_flag(mask: u8) -> TEFlags {
    if mask == 0x80 {
        TEFlags::XIsNegative
    } else {
        TEFlags::XIsPositive
    }
}
fn te_mask(f: TEFlags) -> u8 {
    match f {
        TEFlags::XIsNegative => 0x80,
        TEFlags::XIsPositive => 0,
    }
}

pub fn errs(e: SerializationError) -> String {
    format!("{e:?}")
}

impl<F: Field> FAd for FA<F>
where
    F::BasePrimeField: RawPrime,
{
    fn info(&self) -> &FInfo {
        &self.0
    }
    fn ser(&self, raw: &[Vec<u64>], how: SerHow) -> P<SerOut> {
        guard(|| {
            let x: F = build(raw);
            let mut w = CountingWriter::new();
            let (size, r) = match how {
                SerHow::Mode(c) => (crate::api::size(&x, c), crate::api::ser(&x, &mut w, c)),
                SerHow::Flags(FlagKind::Empty, _) => (x.serialized_size_with_flags::<EmptyFlags>(), x.serialize_with_flags(&mut w, EmptyFlags)),
                SerHow::Flags(FlagKind::Sw, m) => (x.serialized_size_with_flags::<SWFlags>(), x.serialize_with_flags(&mut w, sw_flag(m))),
                SerHow::Flags(FlagKind::Te, m) => (x.serialized_size_with_flags::<TEFlags>(), x.serialize_with_flags(&mut w, te_flag(m))),
            };
            SerOut { bytes: w.buf, size_reported: size, err: r.err().map(errs) }
        })
    }
    fn deser(&self, bytes: &[u8], how: DeHow, advertised: usize) -> P<DeOut> {
        guard(|| {
            let mut rd = CountingReader::new(bytes, advertised);
            let result = match how {
                DeHow::Mode(c, v) => crate::api::de::<F, _>(&mut rd, c, v).map(|x| (unbuild(&x), 0u8)),
                DeHow::Flags(FlagKind::Empty) => F::deserialize_with_flags::<_, EmptyFlags>(&mut rd).map(|(x, _)| (unbuild(&x), 0u8)),
                DeHow::Flags(FlagKind::Sw) => F::deserialize_with_flags::<_, SWFlags>(&mut rd).map(|(x, f)| (unbuild(&x), sw_mask(f))),
                DeHow::Flags(FlagKind::Te) => F::deserialize_with_flags::<_, TEFlags>(&mut rd).map(|(x, f)| (unbuild(&x), te_mask(f))),
            }
            .map_err(errs);
            DeOut { result, consumed: rd.pos, over_budget: rd.over_budget }
        })
    }
    fn from_random_bytes(&self, bytes: &[u8], kind: FlagKind) -> P<Option<(Vec<Vec<u64>>, u8)>> {
        guard(|| match kind {
            FlagKind::Empty => F::from_random_bytes_with_flags::<EmptyFlags>(bytes).map(|(x, _)| (unbuild(&x), 0)),
            FlagKind::Sw => F::from_random_bytes_with_flags::<SWFlags>(bytes).map(|(x, f)| (unbuild(&x), sw_mask(f))),
            FlagKind::Te => F::from_random_bytes_with_flags::<TEFlags>(bytes).map(|(x, f)| (unbuild(&x), te_mask(f))),
        })
    }
}

pub fn finfo<F: Field>(name: &str) -> FInfo
where
    F::BasePrimeField: RawPrime,
{
    let p = oracle::from_limbs(&<F::BasePrimeField as RawPrime>::modulus_limbs());
    FInfo::new(name, p, <F::BasePrimeField as RawPrime>::NL, F::extension_degree() as usize)
}

pub fn mk<F: Field>(name: &str) -> Box<dyn FAd>
where
    F::BasePrimeField: RawPrime,
{
    Box::new(FA::<F>(finfo::<F>(name), PhantomData))
}

/// All field configurations: the generated grid (derive + hand-written), every shipped prime field,
/// every shipped tower and the toy towers. `kind` is the config-kind used in violation signatures.
pub struct FCfg {
    pub name: String,
    pub kind: &'static str,
    pub ad: Box<dyn FAd>,
}

pub fn grid_fields() -> Vec<FCfg> {
    let mut v = vec![];
    macro_rules! g {
        ($name:literal, $ty:ty, $n:literal) => {
            v.push(FCfg { name: concat!("grid/", $name).to_string(), kind: "grid", ad: mk::<$ty>(concat!("grid/", $name)) });
        };
    }
    cfgs::for_each_grid_field!(g);
    v
}

pub fn shipped_prime_fields() -> Vec<FCfg> {
    let mut v = vec![];
    macro_rules! s {
        ($name:literal, $ty:ty) => {
            v.push(FCfg { name: $name.to_string(), kind: "shipped", ad: mk::<$ty>($name) });
        };
    }
    cfgs::for_each_shipped_prime_field!(s);
    v
}

pub fn tower_fields() -> Vec<FCfg> {
    use cfgs::shipped::*;
    let mut v = vec![];
    macro_rules! t {
        ($name:literal, $ty:ty) => {
            v.push(FCfg { name: $name.to_string(), kind: "tower", ad: mk::<$ty>($name) });
        };
    }
    t!("bls12_381::Fq2", bls12_381::Fq2);
    t!("bls12_381::Fq6", bls12_381::Fq6);
    t!("bls12_381::Fq12", bls12_381::Fq12);
    t!("bls12_377::Fq2", bls12_377::Fq2);
    t!("bls12_377::Fq6", bls12_377::Fq6);
    t!("bls12_377::Fq12", bls12_377::Fq12);
    t!("bn254::Fq2", bn254::Fq2);
    t!("bn254::Fq6", bn254::Fq6);
    t!("bn254::Fq12", bn254::Fq12);
    t!("bw6_761::Fq3", bw6_761::Fq3);
    t!("bw6_761::Fq6", bw6_761::Fq6);
    t!("bw6_767::Fq3", bw6_767::Fq3);
    t!("bw6_767::Fq6", bw6_767::Fq6);
    t!("cp6_782::Fq3", cp6_782::Fq3);
    t!("cp6_782::Fq6", cp6_782::Fq6);
    t!("mnt4_298::Fq2", mnt4_298::Fq2);
    t!("mnt4_298::Fq4", mnt4_298::Fq4);
    t!("mnt4_753::Fq2", mnt4_753::Fq2);
    t!("mnt4_753::Fq4", mnt4_753::Fq4);
    t!("mnt6_298::Fq3", mnt6_298::Fq3);
    t!("mnt6_298::Fq6", mnt6_298::Fq6);
    t!("mnt6_753::Fq3", mnt6_753::Fq3);
    t!("mnt6_753::Fq6", mnt6_753::Fq6);
    t!("tc::bls12_381::Fq2", tc::bls12_381::Fq2);
    t!("tc::bls12_381::Fq6", tc::bls12_381::Fq6);
    t!("tc::bls12_381::Fq12", tc::bls12_381::Fq12);
    t!("tc::mnt6_753::Fq3", tc::mnt6_753::Fq3);
    macro_rules! toy {
        ($name:literal, $ty:ty) => {
            v.push(FCfg { name: $name.to_string(), kind: "toy-tower", ad: mk::<$ty>($name) });
        };
    }
    toy!("toy/F7_2", cfgs::toy_towers::F7_2);
    toy!("toy/F17_2", cfgs::toy_towers::F17_2);
    toy!("toy/F7_3", cfgs::toy_towers::F7_3);
    toy!("toy/F13_3", cfgs::toy_towers::F13_3);
    v
}

/// the few N <= 2 fields of the `--miri-slice` workload (nothing else is instantiated in that mode)
pub fn slice_fields() -> Vec<FCfg> {
    let mut v = vec![];
    macro_rules! g {
        ($name:literal, $ty:ty) => {
            v.push(FCfg { name: concat!("grid/", $name).to_string(), kind: "grid", ad: mk::<$ty>(concat!("grid/", $name)) });
        };
    }
    g!("t251/d", cfgs::grid::t251::D);
    g!("goldilocks/d", cfgs::grid::goldilocks::D);
    g!("m127/d", cfgs::grid::m127::D);
    v.push(FCfg { name: "toy/F7_2".to_string(), kind: "toy-tower", ad: mk::<cfgs::toy_towers::F7_2>("toy/F7_2") });
    v
}

pub fn all_fields() -> Vec<FCfg> {
    if crate::common::slice() {
        return slice_fields();
    }
    let mut v = tower_fields();
    v.extend(shipped_prime_fields());
    v.extend(grid_fields());
    v
}
