//! Adapter for `PairingOutput<E>` (target-group elements) of a few engines.
use crate::enc::FInfo;
use crate::fad::{build, errs, finfo, unbuild, DeOut, RawPrime, SerOut, P};
use crate::io::{CountingReader, CountingWriter};
use ark_ec::pairing::{Pairing, PairingOutput};
use ark_ff::{Field, PrimeField};
use ark_serialize::{CanonicalDeserialize, CanonicalSerialize, Compress, Validate};
use monitor::guard;
use oracle::{One, UInt};
use std::marker::PhantomData;

pub trait GAd: Send + Sync {
    fn name(&self) -> &str;
    fn info(&self) -> &FInfo;
    fn r(&self) -> &UInt;
    /// (p^k - 1) / r
    fn cofactor_exponent(&self) -> UInt;
    fn ser(&self, raw: &[Vec<u64>], c: Compress) -> P<SerOut>;
    fn deser(&self, bytes: &[u8], c: Compress, v: Validate, advertised: usize) -> P<DeOut>;
    /// x^e in the target field (plain `Field::pow`, checked by C02)
    fn pow(&self, raw: &[Vec<u64>], e: &UInt) -> Vec<Vec<u64>>;
    /// containers of target-group elements (their validation goes through `Valid::batch_check`):
    /// kind 0 = Vec<PairingOutput>, 1 = [PairingOutput; 2]; returns the number of elements on success
    fn deser_container(&self, bytes: &[u8], kind: u8, c: Compress, v: Validate) -> P<Result<usize, String>>;
}

pub struct GA<E: Pairing>(String, FInfo, UInt, PhantomData<E>);

impl<E: Pairing> GAd for GA<E>
where
    <E::TargetField as Field>::BasePrimeField: RawPrime,
{
    fn name(&self) -> &str {
        &self.0
    }
    fn info(&self) -> &FInfo {
        &self.1
    }
    fn r(&self) -> &UInt {
        &self.2
    }
    fn cofactor_exponent(&self) -> UInt {
        let mut q = UInt::one();
        for _ in 0..self.1.dim {
            q *= &self.1.p;
        }
        let n = q - UInt::one();
        assert!((&n % &self.2) == UInt::from(0u8), "r does not divide p^k - 1");
        n / &self.2
    }
    fn ser(&self, raw: &[Vec<u64>], c: Compress) -> P<SerOut> {
        guard(|| {
            let x = PairingOutput::<E>(build::<E::TargetField>(raw));
            let mut w = CountingWriter::new();
            let size = crate::api::size(&x, c);
            let r = crate::api::ser(&x, &mut w, c);
            SerOut { bytes: w.buf, size_reported: size, err: r.err().map(errs) }
        })
    }
    fn deser(&self, bytes: &[u8], c: Compress, v: Validate, advertised: usize) -> P<DeOut> {
        guard(|| {
            let mut rd = CountingReader::new(bytes, advertised);
            let result = crate::api::de::<PairingOutput<E>, _>(&mut rd, c, v).map(|x| (unbuild(&x.0), 0u8)).map_err(errs);
            DeOut { result, consumed: rd.pos, over_budget: rd.over_budget }
        })
    }
    fn pow(&self, raw: &[Vec<u64>], e: &UInt) -> Vec<Vec<u64>> {
        let x: E::TargetField = build(raw);
        unbuild(&x.pow(e.to_u64_digits()))
    }
    fn deser_container(&self, bytes: &[u8], kind: u8, c: Compress, v: Validate) -> P<Result<usize, String>> {
        guard(|| {
            let mut rd = CountingReader::new(bytes, bytes.len());
            match kind {
                0 => crate::api::de::<Vec<PairingOutput<E>>, _>(&mut rd, c, v).map(|x| x.len()).map_err(errs),
                _ => crate::api::de::<[PairingOutput<E>; 2], _>(&mut rd, c, v).map(|x| x.len()).map_err(errs),
            }
        })
    }
}

fn mk<E: Pairing>(name: &str) -> Box<dyn GAd>
where
    <E::TargetField as Field>::BasePrimeField: RawPrime,
{
    let fi = finfo::<E::TargetField>(&format!("{name}::TargetField"));
    let r = oracle::from_limbs(<E::ScalarField as PrimeField>::MODULUS.as_ref());
    Box::new(GA::<E>(name.to_string(), fi, r, PhantomData))
}

pub fn engines() -> Vec<Box<dyn GAd>> {
    use cfgs::shipped::*;
    if crate::common::slice() {
        return vec![];
    }
    vec![mk::<bw6_761::BW6_761>("bw6_761"), mk::<bls12_381::Bls12_381>("bls12_381"), mk::<mnt4_298::MNT4_298>("mnt4_298"), mk::<bn254::Bn254>("bn254")]
}
