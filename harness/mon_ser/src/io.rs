//! Byte monitors: a reader that counts the bytes consumed / requested and refuses to hand out more
//! than a budget, and a writer that counts what was written.
use ark_serialize::{Read, Write};

pub struct CountingReader<'a> {
    pub data: &'a [u8],
    pub pos: usize,
    /// total bytes asked for through `read`
    pub requested: usize,
    /// hard budget on consumed bytes (advertised size + 64): attempts beyond it are flagged
    pub budget: usize,
    pub over_budget: bool,
    pub calls: usize,
}

impl<'a> CountingReader<'a> {
    pub fn new(data: &'a [u8], advertised: usize) -> Self {
        CountingReader { data, pos: 0, requested: 0, budget: advertised.saturating_add(64), over_budget: false, calls: 0 }
    }
    pub fn consumed(&self) -> usize {
        self.pos
    }
}

impl Read for CountingReader<'_> {
    fn read(&mut self, buf: &mut [u8]) -> std::io::Result<usize> {
        self.calls += 1;
        self.requested = self.requested.saturating_add(buf.len());
        let mut n = buf.len().min(self.data.len() - self.pos);
        if self.pos + n > self.budget {
            self.over_budget = true;
            n = self.budget.saturating_sub(self.pos);
        }
        buf[..n].copy_from_slice(&self.data[self.pos..self.pos + n]);
        self.pos += n;
        Ok(n)
    }
}

#[derive(Default)]
pub struct CountingWriter {
    pub buf: Vec<u8>,
    pub calls: usize,
}

impl CountingWriter {
    pub fn new() -> Self {
        Self::default()
    }
    pub fn written(&self) -> usize {
        self.buf.len()
    }
}

impl Write for CountingWriter {
    fn write(&mut self, b: &[u8]) -> std::io::Result<usize> {
        self.calls += 1;
        self.buf.extend_from_slice(b);
        Ok(b.len())
    }
    fn flush(&mut self) -> std::io::Result<()> {
        Ok(())
    }
}
