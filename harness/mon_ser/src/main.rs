use monitor::*;
fn main() {
    let args = Args::parse();
    panic!("mon_ser does not serve property {} yet", args.prop);
}
