//! Serialization monitors: C09 (canonical round trips at the advertised size, unique field
//! encodings), C10 (checked deserialization yields only valid elements and never panics), C18
//! (container and derive-macro serializations).
#![allow(dead_code)]
use monitor::*;
use std::time::Instant;

mod alloc;
mod api;
mod c09;
mod c10;
mod c18;
mod cad;
mod child;
mod common;
mod enc;
mod fad;
mod gad;
mod io;
mod probe;
mod toy;
mod tv;

#[cfg(not(miri))]
#[global_allocator]
static GLOBAL: alloc::MonAlloc = alloc::MonAlloc;

/// items of the `--miri-slice` workload
const SLICE_ITEMS: &[&str] = &[
    "field/grid/t251/d",
    "field/grid/goldilocks/d",
    "field/grid/m127/d",
    "field/toy/F7_2",
    "toy/te_inc",
    "toy/sw_a0_h4/compressed",
    "toy/te_inc/compressed",
    "flags",
    "container/Vec<u8>",
    "container/Option<Vec<u16>>",
    "container/String",
    "container/Named",
    "container/NestedTup",
    "container/BTreeMap<u8,u16>",
];

fn main() {
    if std::env::args().nth(1).as_deref() == Some("--child-deser") {
        child::child_main(&c18::child_probe);
    }
    let mut args = Args::parse();
    let t0 = Instant::now();
    // `--miri-slice 1`: a few hundred cases on N <= 2 fields, toy curves and a few containers, sized for
    // Miri / valgrind (no child processes under Miri, no required classes, budgets / 40)
    let slice = args.extra.contains_key("miri-slice");
    let only = args.only.clone();
    if slice {
        common::set_slice(true);
        args.jobs = args.jobs.min(4);
        // make the item constructors see a partial run (required classes are only declared for whole runs)
        args.only = Some("slice".into());
    }
    let (items, rule): (Vec<Item>, &str) = match args.prop.as_str() {
        "C09" => (c09::items(&args), c09::RULE),
        "C10" => (c10::items(&args), c10::RULE),
        "C18" => (c18::items(&args), c18::RULE),
        p => panic!("mon_ser does not serve property {p}"),
    };
    args.only = only;
    let items: Vec<Item> = if slice { items.into_iter().filter(|i| SLICE_ITEMS.contains(&i.name.as_str())).collect() } else { items };
    // every item starts the API-spelling sequence afresh, and from a point that depends on the seed
    let seed = args.seed;
    let items: Vec<Item> = items
        .into_iter()
        .map(|it| {
            let Item { name, run } = it;
            let salt = mix(seed, digest(&name.as_str()));
            Item::new(name, move |rep: &mut Report, rng: &mut Rng, a: &Args| {
                api::reset(salt);
                run(rep, rng, a)
            })
        })
        .collect();
    let mut rep = run_items(&args, items);
    rep.note(api::summary());
    finish(&args, "mon_ser", rule, rep, t0)
}
