//! Serialization monitors: C09 (canonical round trips at the advertised size, unique field
//! encodings), C10 (checked deserialization yields only valid elements and never panics), C18
//! (container and derive-macro serializations).
use monitor::*;
use std::time::Instant;

mod alloc;
mod c09;
mod c10;
mod c18;
mod cad;
mod common;
mod enc;
mod fad;
mod gad;
mod toy;
mod child;
mod io;
mod probe;
mod tv;

#[cfg(not(miri))]
#[global_allocator]
static GLOBAL: alloc::MonAlloc = alloc::MonAlloc;

fn main() {
    if std::env::args().nth(1).as_deref() == Some("--child-deser") {
        child::child_main(&c18::child_probe);
    }
    let args = Args::parse();
    let t0 = Instant::now();
    let (items, rule): (Vec<Item>, &str) = match args.prop.as_str() {
        "C09" => (c09::items(&args), c09::RULE),
        "C10" => (c10::items(&args), c10::RULE),
        "C18" => (c18::items(&args), c18::RULE),
        p => panic!("mon_ser does not serve property {p}"),
    };
    let rep = run_items(&args, items);
    finish(&args, "mon_ser", rule, rep, t0)
}
