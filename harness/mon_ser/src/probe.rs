//! One monitored deserialization call: outcome (value / error / panic), bytes consumed, attempts to
//! read past the budget, allocation statistics.
use crate::alloc;
use crate::io::CountingReader;
use ark_serialize::{CanonicalDeserialize, Compress, Validate};

#[derive(Clone, Debug, PartialEq)]
pub enum Outcome {
    Ok,
    Err(String),
    /// panic raised by (or on behalf of) the repository
    Panic(String),
    /// panic raised inside the harness
    HarnessPanic(String),
}

#[derive(Clone, Debug)]
pub struct Probe {
    pub outcome: Outcome,
    pub max_single: usize,
    pub total: usize,
    pub consumed: usize,
    pub over_budget: bool,
}

pub fn cm(c: bool) -> Compress {
    if c {
        Compress::Yes
    } else {
        Compress::No
    }
}
pub fn vm(v: bool) -> Validate {
    if v {
        Validate::Yes
    } else {
        Validate::No
    }
}
pub fn cname(c: Compress) -> &'static str {
    match c {
        Compress::Yes => "compressed",
        Compress::No => "uncompressed",
    }
}
pub fn vname(v: Validate) -> &'static str {
    match v {
        Validate::Yes => "validate",
        Validate::No => "unchecked",
    }
}

/// Deserialize `bytes` as a `T` under all monitors; returns the value (if any) and the probe.
pub fn probe_deser<T: CanonicalDeserialize>(bytes: &[u8], c: Compress, v: Validate, advertised: usize) -> (Option<T>, Probe) {
    let mut rd = CountingReader::new(bytes, advertised);
    let res = monitor::guard(|| alloc::tracked(|| crate::api::de::<T, _>(&mut rd, c, v)));
    match res {
        Ok((r, st)) => {
            let (val, outcome) = match r {
                Ok(x) => (Some(x), Outcome::Ok),
                Err(e) => (None, Outcome::Err(format!("{e:?}"))),
            };
            (val, Probe { outcome, max_single: st.max_single, total: st.total, consumed: rd.pos, over_budget: rd.over_budget })
        },
        Err(p) => {
            let st = alloc::last_stats();
            let (msg, harness) = match crate::child::LIGHT.with(|c| c.borrow_mut().take()) {
                // child process: light hook (no '@': the parent replays for the site)
                Some((m, file, line)) if p.msg == "<unknown>" => {
                    let h = monitor::is_harness_path(&file);
                    (if h { format!("{m} at {file}:{line}") } else { m }, h)
                },
                _ => (format!("{} @ {}", p.msg, p.site()), p.in_harness()),
            };
            let outcome = if harness { Outcome::HarnessPanic(msg) } else { Outcome::Panic(msg) };
            (None, Probe { outcome, max_single: st.max_single, total: st.total, consumed: rd.pos, over_budget: rd.over_budget })
        },
    }
}
